(* C07Cases.v — correspondence cases of C07: tokens signed by the independent
   reference implementation (any header spelling) verified by the Impl model,
   and joserfc's own signing, with the oracles instantiated by the recorded
   tables (model/JwsOracle.v). *)
From Model Require Export Jws JwsOracle.
Definition c07case := jcase.
Definition c07_check : c07case -> bool := jcase_check.
Definition c07_show := jcase_show.
