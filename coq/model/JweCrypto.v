(* JweCrypto.v — content-encryption models (rfc7518/jwe_encs.py,
   drafts/jwe_chacha20.py), Concat KDF input layout (rfc7518/derive_key.py) and
   the per-algorithm CEK recovery / production (rfc7518/jwe_algs.py,
   drafts/jwe_ecdh_1pu.py), over the oracle record [oracles]. *)
From Model Require Export JweBase.
From Gen Require Import Tables.
Open Scope N_scope.

Definition dict := list (str * pv).

Definition fam_is (f : string) (x : string) : bool := str_eqb (asc f) (asc x).

(* ---------- recipients and their parent ---------- *)
Inductive ser := Compact | Flat | General.

Record recip := {
  r_header : pv;               (* per-recipient header: PNone or a dict *)
  r_ek : option bytes;         (* encrypted_key: None until set *)
  r_key : key;                 (* recipient_key *)
  r_sender : option key;       (* sender_key (ECDH-1PU) *)
  r_eph : option (key * pv)    (* ephemeral key and its public JWK dict (encryption) *)
}.

Definition set_ek (r : recip) (ek : bytes) : recip :=
  {| r_header := r_header r; r_ek := Some ek; r_key := r_key r; r_sender := r_sender r; r_eph := r_eph r |}.
Definition set_header (r : recip) (h : pv) : recip :=
  {| r_header := h; r_ek := r_ek r; r_key := r_key r; r_sender := r_sender r; r_eph := r_eph r |}.

(* dict.update(v) for a value that should be a dict *)
Definition py_update (d : dict) (v : pv) : res dict :=
  match v with
  | PDict e => Ok (dupdate d e)
  | PList [] | PStr [] | PBytes [] => Ok d
  | PList _ | PStr _ | PBytes _ => Err EValue
  | _ => Err EType
  end.

(* Recipient.headers(): protected < unprotected (JSON only) < per-recipient header *)
Definition headers (s : ser) (prot : dict) (unprot : pv) (hdr : pv) : res dict :=
  let rv := dupdate [] prot in
  do rv <- (match s with
            | Compact => Ok rv
            | _ => if py_truth unprot then py_update rv unprot else Ok rv
            end);
  if py_truth hdr then py_update rv hdr else Ok rv.

(* Recipient.add_header(k, v): returns the new protected header and recipient *)
Definition add_header (s : ser) (prot : dict) (r : recip) (k : str) (v : pv) : res (dict * recip) :=
  match s with
  | Compact => Ok (dset prot k v, r)
  | _ =>
      if py_truth (r_header r) then
        match r_header r with
        | PDict e => Ok (prot, set_header r (PDict (dset e k v)))
        | _ => Err EAttr
        end
      else Ok (prot, set_header r (PDict [(k, v)]))
  end.

Definition hget (hs : dict) (k : string) : pv :=
  match dget hs (asc k) with Some v => v | None => PNone end.
Definition hitem (hs : dict) (k : string) : res pv :=
  match dget hs (asc k) with Some v => Ok v | None => Err EKey end.
Definition assert_in (hs : dict) (k : string) : res unit :=
  if dmem hs (asc k) then Ok tt else Err EAssert.

Section Crypto.
Variable O : oracles.

(* ================= content encryption ================= *)

(* CBCHS2EncModel._hmac *)
Definition cbchs_hmac (e : jwe_enc_row) (ct aad iv hkey : bytes) : res bytes :=
  do al <- encode_int (Z.of_N (lenN aad * 8)) 64;
  let msg := aad ++ iv ++ ct ++ al in
  do d <- o_mac O (asc (ee_hash e)) hkey msg;
  Ok (firstn (N.to_nat (ee_key_len e)) d).

Definition cbchs_hkey (e : jwe_enc_row) (cek : bytes) : bytes := firstn (N.to_nat (ee_key_len e)) cek.
Definition cbchs_ekey (e : jwe_enc_row) (cek : bytes) : bytes := skipn (N.to_nat (ee_key_len e)) cek.

Definition cbchs_encrypt (e : jwe_enc_row) (m cek iv aad : bytes) : res (bytes * bytes) :=
  let hkey := cbchs_hkey e cek in
  let ekey := cbchs_ekey e cek in
  do ct <- o_cbc_enc O ekey iv (pkcs7_pad m);
  do tag <- cbchs_hmac e ct aad iv hkey;
  Ok (ct, tag).

Definition cbchs_decrypt (e : jwe_enc_row) (ct tag cek iv aad : bytes) : res bytes :=
  let hkey := cbchs_hkey e cek in
  let dkey := cbchs_ekey e cek in
  do ctag <- cbchs_hmac e ct aad iv hkey;
  if negb (beqb ctag tag) then Err (EJose DecodeError)
  else
    do data <- o_cbc_dec O dkey iv ct;
    pkcs7_unpad data.

Definition gcm_encrypt (m cek iv aad : bytes) : res (bytes * bytes) :=
  o_gcm_enc O cek iv (Some aad) m.
Definition gcm_decrypt (ct tag cek iv aad : bytes) : res bytes :=
  match o_gcm_dec O cek iv (Some aad) ct tag with
  | Ok (Some m) => Ok m
  | Ok None => Err (EJose DecodeError)
  | Err x => Err x
  end.

Definition enc_encrypt (e : jwe_enc_row) (m cek iv aad : bytes) : res (bytes * bytes) :=
  if fam_is (ee_family e) "CBCHS" then cbchs_encrypt e m cek iv aad
  else if fam_is (ee_family e) "GCM" then gcm_encrypt m cek iv aad
  else if fam_is (ee_family e) "ChaCha" then o_cc_enc O cek iv aad m
  else Err ERuntime.

Definition enc_decrypt (e : jwe_enc_row) (ct tag cek iv aad : bytes) : res bytes :=
  if fam_is (ee_family e) "CBCHS" then cbchs_decrypt e ct tag cek iv aad
  else if fam_is (ee_family e) "GCM" then gcm_decrypt ct tag cek iv aad
  else if fam_is (ee_family e) "ChaCha" then o_cc_dec O cek iv aad ct tag
  else Err ERuntime.

(* JWEEncModel.check_iv *)
Definition check_iv (e : jwe_enc_row) (iv : bytes) : res unit :=
  if lenN iv * 8 =? ee_iv_size e then Ok tt else Err EValue.

(* ================= Concat KDF ================= *)
Definition u32be (n : N) : bytes := I2OSP n 4.

Definition u32be_len_input (s : pv) (use_base64 : bool) : res bytes :=
  if negb (py_truth s) then Ok [0; 0; 0; 0]
  else
    do sb <- (if use_base64 then do b <- to_bytes_pv s; b64d b else to_bytes_pv s);
    Ok (u32be (lenN sb) ++ sb).

Definition kdf_fixed_info (hs : dict) (cek_size : N) (key_size : option N) (tag : option bytes)
  : res (bytes * N) :=
  do apu <- u32be_len_input (hget hs "apu") true;
  do apv <- u32be_len_input (hget hs "apv") true;
  do ab <- (match key_size with
            | Some ks => if ks =? 0 then do a <- hitem hs "enc"; do i <- u32be_len_input a false; Ok (i, cek_size)
                         else do a <- hitem hs "alg"; do i <- u32be_len_input a false; Ok (i, ks)
            | None => do a <- hitem hs "enc"; do i <- u32be_len_input a false; Ok (i, cek_size)
            end);
  let '(alg_id, bits) := ab in
  let fixed := alg_id ++ apu ++ apv ++ u32be bits in
  do fixed <- (match tag with
               | Some ((_ :: _) as t) => do c <- u32be_len_input (PBytes t) false; Ok (fixed ++ c)
               | _ => Ok fixed
               end);
  Ok (fixed, bits).

Definition derive_key_for_concat_kdf (z : bytes) (hs : dict) (cek_size : N) (key_size : option N)
           (tag : option bytes) : res bytes :=
  do fb <- kdf_fixed_info hs cek_size key_size tag;
  o_ckdf O (s_ "sha256") z (fst fb) (snd fb / 8).

(* ================= key management ================= *)
Definition check_key_type (a : jwe_alg_row) (k : key) : res unit :=
  if existsb (fun t => str_eqb (asc t) (k_kty k)) (ea_key_types a) then Ok tt
  else Err (EJose InvalidKeyTypeError).

Definition key_size_of (a : jwe_alg_row) : N := match ea_key_size a with Some n => n | None => 0 end.

(* JWEKeyWrapping.check_op_key *)
Definition check_op_key (ks : N) (k : bytes) : res unit :=
  if lenN k * 8 =? ks then Ok tt else Err (EJose InvalidKeyLengthError).

(* AESAlgModel.wrap_cek / unwrap_cek *)
Definition kw_wrap_cek (ks : N) (cek kek : bytes) : res bytes :=
  do _ <- check_op_key ks kek; o_kw_wrap O kek cek.
Definition kw_unwrap_cek (ks : N) (ek kek : bytes) : res bytes :=
  do _ <- check_op_key ks kek;
  match o_kw_unwrap O kek ek with
  | Ok (Some c) => Ok c
  | Ok None => Err (EJose DecodeError)
  | Err x => Err x
  end.

(* ECKey / OKPKey.exchange_derive_key: the curve gate, then the primitive *)
Definition exchange (self other : key) : res bytes :=
  let same := str_eqb (k_crv self) (k_crv other) in
  let gate :=
    if str_eqb (k_kty self) (s_ "OKP")
    then k_priv self && same && str_eqb (k_kty other) (s_ "OKP")
         && (str_eqb (k_crv self) (s_ "X25519") || str_eqb (k_crv self) (s_ "X448"))
    else str_eqb (k_kty other) (s_ "EC") && k_priv self && same in
  if gate then o_ecdh O (k_id self) (k_id other) else Err (EJose InvalidExchangeKeyError).

Definition need_ek (r : recip) : res bytes :=
  match r_ek r with Some e => Ok e | None => Err EAssert end.

(* ECDH1PUAlgModel._check_enc *)
Definition check_enc_1pu (a : jwe_alg_row) (e : jwe_enc_row) : res unit :=
  if negb (str_eqb (asc (ea_wrap a)) []) && negb (fam_is (ee_family e) "CBCHS")
  then Err (EJose InvalidEncryptionAlgorithmError) else Ok tt.

(* ECDHESAlgModel.decrypt_agreed_upon_key *)
Definition ecdhes_dec_auk (a : jwe_alg_row) (e : jwe_enc_row) (hs : dict) (r : recip) : res bytes :=
  do _ <- assert_in hs "epk";
  do _ <- check_key_type a (r_key r);
  do epk <- o_import O (k_kty (r_key r)) (hget hs "epk");
  do z <- exchange (r_key r) epk;
  derive_key_for_concat_kdf z hs (ee_cek_size e) (ea_key_size a) None.

(* ECDH1PUAlgModel.__decrypt_agreed_upon_key *)
Definition ecdh1pu_dec_auk (a : jwe_alg_row) (e : jwe_enc_row) (hs : dict) (r : recip)
           (tag : option bytes) : res bytes :=
  do _ <- check_enc_1pu a e;
  do _ <- assert_in hs "epk";
  do sk <- (match r_sender r with Some k => Ok k | None => Err (EJose InvalidExchangeKeyError) end);
  do _ <- check_key_type a (r_key r);
  do epk <- o_import O (k_kty (r_key r)) (hget hs "epk");
  do zs <- exchange (r_key r) sk;
  do ze <- exchange (r_key r) epk;
  derive_key_for_concat_kdf (ze ++ zs) hs (ee_cek_size e) (ea_key_size a) tag.

Definition dec_auk (a : jwe_alg_row) (e : jwe_enc_row) (hs : dict) (r : recip) (tag : option bytes)
  : res bytes :=
  if fam_is (ea_family a) "ECDH1PU" then ecdh1pu_dec_auk a e hs r tag
  else ecdhes_dec_auk a e hs r.

(* DirectAlgModel.compute_cek *)
Definition dir_compute_cek (a : jwe_alg_row) (size : N) (r : recip) : res bytes :=
  do _ <- check_key_type a (r_key r);
  let cek := k_id (r_key r) in
  if lenN cek * 8 =? size then Ok cek else Err (EJose InvalidKeyLengthError).

Definition is_agreement (a : jwe_alg_row) : bool :=
  fam_is (ea_family a) "ECDHES" || fam_is (ea_family a) "ECDH1PU".

(* PBES2HSAlgModel.compute_derived_key *)
Definition pbes2_salt (a : jwe_alg_row) (p2s : bytes) : bytes := asc (ea_name a) ++ [0] ++ p2s.
Definition p2c_ok (p2c : pv) : bool :=
  match p2c with PInt z => ((1 <=? z) && (z <=? 2147483647))%Z | _ => false end.
Definition pbes2_kek (a : jwe_alg_row) (k : key) (p2s : bytes) (p2c : pv) : res bytes :=
  if negb (p2c_ok p2c) then Err EValue else
  o_pbkdf2 O (asc (ea_hash a)) (k_id k) (pbes2_salt a p2s) p2c (key_size_of a / 8).

(* decrypt_cek of the key wrapping / key encryption models *)
Definition decrypt_cek (a : jwe_alg_row) (hs : dict) (r : recip) : res bytes :=
  if fam_is (ea_family a) "RSA" then
    do _ <- check_key_type a (r_key r);
    if negb (k_priv (r_key r)) then Err (EJose UnsupportedKeyOperationError)
    else
      do ek <- need_ek r;
      match o_rsa_dec O (k_id (r_key r)) (asc (ea_pad a)) ek with
      | Ok c => Ok c
      | Err EValue => Err (EJose DecodeError)
      | Err x => Err x
      end
  else if fam_is (ea_family a) "AESKW" then
    do _ <- check_key_type a (r_key r);
    do ek <- need_ek r;
    kw_unwrap_cek (key_size_of a) ek (k_id (r_key r))
  else if fam_is (ea_family a) "AESGCMKW" then
    do _ <- check_key_type a (r_key r);
    do _ <- check_op_key (key_size_of a) (k_id (r_key r));
    do _ <- assert_in hs "iv";
    do _ <- assert_in hs "tag";
    do ivb <- to_bytes_pv (hget hs "iv");
    do iv <- b64d ivb;
    do tgb <- to_bytes_pv (hget hs "tag");
    do tg <- b64d tgb;
    do ek <- need_ek r;
    match o_gcm_dec O (k_id (r_key r)) iv None ek tg with
    | Ok (Some c) => Ok c
    | Ok None => Err (EJose DecodeError)
    | Err x => Err x
    end
  else if fam_is (ea_family a) "PBES2" then
    do _ <- assert_in hs "p2s";
    do _ <- assert_in hs "p2c";
    do sb <- to_bytes_pv (hget hs "p2s");
    do p2s <- b64d sb;
    let p2c := hget hs "p2c" in
    do _ <- check_key_type a (r_key r);
    do kek <- pbes2_kek a (r_key r) p2s p2c;
    do ek <- need_ek r;
    kw_unwrap_cek (key_size_of a) ek kek
  else Err EAssert.

(* rfc7516/message.py:decrypt_recipient *)
Definition decrypt_recipient (a : jwe_alg_row) (e : jwe_enc_row) (hs : dict) (r : recip) (tag : bytes)
  : res bytes :=
  if ea_direct a then
    match r_ek r with
    | Some (_ :: _) => Err (EJose InvalidEncryptedKeyError)
    | _ =>
        if is_agreement a then dec_auk a e hs r None
        else if fam_is (ea_family a) "dir" then dir_compute_cek a (ee_cek_size e) r
        else Err EAssert
    end
  else if is_agreement a then
    do auk <- (if ea_tag_aware a then dec_auk a e hs r (Some tag) else dec_auk a e hs r None);
    do ek <- need_ek r;
    kw_unwrap_cek (key_size_of a) ek auk
  else decrypt_cek a hs r.

(* ================= encryption side ================= *)

(* random draws of one recipient *)
Record rdraw := { d_kwiv : bytes; d_p2s : bytes }.

(* ECDHES / ECDH1PU encrypt_agreed_upon_key[_with_tag] *)
Definition enc_auk (a : jwe_alg_row) (e : jwe_enc_row) (hs : dict) (r : recip) (tag : option bytes)
  : res bytes :=
  if fam_is (ea_family a) "ECDH1PU" then
    do _ <- check_enc_1pu a e;
    do sk <- (match r_sender r with Some k => Ok k | None => Err EAssert end);
    do eph <- (match r_eph r with Some p => Ok (fst p) | None => Err EAssert end);
    do zs <- exchange sk (r_key r);
    do ze <- exchange eph (r_key r);
    derive_key_for_concat_kdf (ze ++ zs) hs (ee_cek_size e) (ea_key_size a) tag
  else
    do eph <- (match r_eph r with Some p => Ok (fst p) | None => Err EAssert end);
    do z <- exchange eph (r_key r);
    derive_key_for_concat_kdf z hs (ee_cek_size e) (ea_key_size a) None.

(* JWEKeyAgreement.prepare_ephemeral_key *)
Definition prepare_ephemeral_key (a : jwe_alg_row) (s : ser) (prot : dict) (r : recip)
  : res (dict * recip) :=
  do _ <- check_key_type a (r_key r);
  match r_eph r with
  | Some p => add_header s prot r (s_ "epk") (snd p)
  | None => Err EOracleMiss        (* the key generator's draw is an input of the model *)
  end.

(* encrypt_cek of the key wrapping / key encryption models; may add header members *)
Definition encrypt_cek (a : jwe_alg_row) (s : ser) (prot : dict) (unprot : pv) (r : recip) (d : rdraw)
           (cek : bytes) : res (dict * recip * bytes) :=
  if fam_is (ea_family a) "RSA" then
    do _ <- check_key_type a (r_key r);
    do bits <- o_rsa_bits O (k_id (r_key r));
    (* "A key of size 2048 bits or larger MUST be used" (encryption side only) *)
    if bits <? key_size_of a then Err (EJose InvalidKeyLengthError) else
    do ek <- o_rsa_enc O (k_id (r_key r)) (asc (ea_pad a)) cek;
    Ok (prot, r, ek)
  else if fam_is (ea_family a) "AESKW" then
    do _ <- check_key_type a (r_key r);
    do ek <- kw_wrap_cek (key_size_of a) cek (k_id (r_key r));
    Ok (prot, r, ek)
  else if fam_is (ea_family a) "AESGCMKW" then
    do _ <- check_key_type a (r_key r);
    do _ <- check_op_key (key_size_of a) (k_id (r_key r));
    do et <- o_gcm_enc O (k_id (r_key r)) (d_kwiv d) None cek;
    do pr <- add_header s prot r (s_ "iv") (PStr (b64e (d_kwiv d)));
    do pr2 <- add_header s (fst pr) (snd pr) (s_ "tag") (PStr (b64e (snd et)));
    Ok (fst pr2, snd pr2, fst et)
  else if fam_is (ea_family a) "PBES2" then
    do hs <- headers s prot unprot (r_header r);
    do st1 <- (if negb (dmem hs (s_ "p2s"))
               then do pr <- add_header s prot r (s_ "p2s") (PStr (b64e (d_p2s d))); Ok (pr, d_p2s d)
               else do sb <- to_bytes_pv (hget hs "p2s"); do p <- b64d sb; Ok ((prot, r), p));
    let '((prot1, r1), p2s) := st1 in
    do st2 <- (if negb (dmem hs (s_ "p2c"))
               then do pr <- add_header s prot1 r1 (s_ "p2c") (PInt (Z.of_N (ea_p2c a))); Ok (pr, PInt (Z.of_N (ea_p2c a)))
               else Ok ((prot1, r1), hget hs "p2c"));
    let '((prot2, r2), p2c) := st2 in
    do _ <- check_key_type a (r_key r);
    do kek <- pbes2_kek a (r_key r) p2s p2c;
    do ek <- kw_wrap_cek (key_size_of a) cek kek;
    Ok (prot2, r2, ek)
  else Err EAssert.

End Crypto.
