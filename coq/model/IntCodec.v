(* IntCodec.v — joserfc.util.int_to_base64 / base64_to_int and
   joserfc.rfc7518.util.encode_int / decode_int (the hex-based fixed-width
   codec used for ECDSA R||S and the CBC-HS AL field). *)
From Model Require Export Base B64.
Open Scope N_scope.

(* big-endian octets -> number *)
Definition be_to_N (l : bytes) : N := fold_left (fun acc b => acc * 256 + b) l 0.

(* minimal big-endian base-[base] digits of n (empty for 0); fuel = bit size *)
Fixpoint digits_fuel (base : N) (fuel : nat) (n : N) (acc : list N) : list N :=
  match fuel with
  | O => acc
  | S f => if n =? 0 then acc else digits_fuel base f (n / base) (n mod base :: acc)
  end.
Definition digits (base n : N) : list N := digits_fuel base (N.size_nat n) n [].

(* int.to_bytes((bit_length+7)//8, "big") : minimal big-endian octets *)
Definition N_to_be_min (n : N) : bytes := digits 256 n.

(* int_to_base64 : negative -> ValueError *)
Definition int_to_base64 (z : Z) : res (list N) :=
  if (z <? 0)%Z then Err EValue else Ok (b64e (N_to_be_min (Z.to_N z))).

(* base64_to_int : int("", 16) raises ValueError on empty data *)
Definition base64_to_int (s : list N) : res Z :=
  do data <- b64d s;
  match data with
  | [] => Err EValue
  | _ => Ok (Z.of_N (be_to_N data))
  end.

(* "%x" % n for n >= 0 : at least one digit *)
Definition hex_digits (n : N) : list N :=
  match digits 16 n with [] => [0] | d => d end.

(* binascii.a2b_hex on a digit list (odd length -> binascii.Error) *)
Fixpoint pair_nibbles (l : list N) : res bytes :=
  match l with
  | [] => Ok []
  | [_] => Err EValue
  | a :: b :: r => do t <- pair_nibbles r; Ok ((a * 16 + b) :: t)
  end.

(* encode_int(num, bits): "%0*x" % (((bits+7)//8)*2, num) then a2b_hex.
   A negative number prints a '-' sign, which a2b_hex refuses. *)
Definition encode_int (num : Z) (bits : N) : res bytes :=
  if (num <? 0)%Z then Err EValue
  else
    let width := N.to_nat (((bits + 7) / 8) * 2) in
    let d := hex_digits (Z.to_N num) in
    pair_nibbles (repeat 0 (width - length d) ++ d).

(* decode_int(s) = int(b2a_hex(s), 16) : ValueError on the empty string *)
Definition decode_int (s : bytes) : res Z :=
  match s with
  | [] => Err EValue
  | _ => Ok (Z.of_N (be_to_N s))
  end.

(* RFC 8017 I2OSP, written arithmetically and independently of the above:
   the L big-endian base-256 digits of n *)
Fixpoint I2OSP (n : N) (L : nat) : bytes :=
  match L with
  | O => []
  | S l => (n / 256 ^ N.of_nat l) mod 256 :: I2OSP n l
  end.
