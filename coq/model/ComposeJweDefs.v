(* ComposeJweDefs.v — translations between the JWE pipeline model (model/Jwe*.v)
   and the per-property models C05 / C06 / C09 / C14 / C15 / C17 / C18.  Only
   definitions; facts are in proofs/ComposeJwe*.v. *)
From Coq Require Import String List NArith ZArith Bool.
From Model Require Import Base PyVal TableTypes ComposeDefs.
From Model Require Import JweKeys.
From Model Require C05Model C06Model C14KeySet C15Registry C17Zip C18Model C09Jwt.
From Gen Require Import Tables.
Import ListNotations.
Open Scope N_scope.

(* ---------- C05: the registry jwe.py selects ---------- *)
(* if algorithms: JWERegistry(algorithms=algorithms) elif registry is None: default_registry *)
Definition jwe_sel (algs : option (list str)) (reg : option (option (list str))) : option (list str) :=
  match algs with
  | Some (_ :: _) => algs
  | _ => match reg with Some a => a | None => None end
  end.

(* ---------- headers: optional dict members as Python values ---------- *)
Definition optd (o : option (list (str * pv))) : pv :=
  match o with Some d => PDict d | None => PNone end.

Definition ser_parts (s : ser) (prot : dict) (u h : option (list (str * pv))) : list C15Registry.hdr :=
  match s with
  | Compact => [prot; C14KeySet.tr h]
  | _ => [prot; C14KeySet.tr u; C14KeySet.tr h]
  end.

Definition gkind_of (s : ser) : C14KeySet.gkind :=
  match s with Compact => C14KeySet.GJweCompact | _ => C14KeySet.GJweJson end.
Definition guest_of (s : ser) (prot : dict) (u h : option (list (str * pv))) : C14KeySet.guest :=
  C14KeySet.mkGuest (gkind_of s) (Some prot)
                    (match s with Compact => None | _ => u end) h.

(* ---------- C14: a key-set key as the JWE key resolution sees it ---------- *)
(* [mat]: the primitive-level key, [use]: the "use" member *)
Definition kk_of (mat : C14KeySet.key -> key) (use : C14KeySet.key -> pv) (k : C14KeySet.key) : kkey :=
  {| kk_key := mat k; kk_kid := C14KeySet.kid_pv k; kk_use := use k |}.

Definition ksrc0_of mat use (s : C14KeySet.ksrc) : option ksrc0 :=
  match s with
  | C14KeySet.KSKey k => Some (KOne (kk_of mat use k))
  | C14KeySet.KSSet ks => Some (KSet (map (kk_of mat use) ks))
  | C14KeySet.KSOther => None
  end.

(* ---------- C06: a JWE-model key against a C06 key ---------- *)
(* the JWE model has no key_ops / alg members: the C06 key has none declared *)
Record krel (k : key) (use : pv) (k6 : C06Model.key) : Prop := {
  kr_kty : asc (C06Model.kty_str (C06Model.k_kty k6)) = k_kty k;
  kr_crv : asc (C06Model.k_crv k6) = k_crv k;
  kr_priv : C06Model.k_priv k6 = k_priv k;
  kr_ops : C06Model.k_ops k6 = None;
  kr_use : C06Model.k_use k6 = Some use;
  kr_bits : C06Model.k_kty k6 = C06Model.KOct -> C06Model.k_bits k6 = lenN (k_id k) * 8
}.

(* the curve gate inside JweCrypto.exchange *)
Definition exch_gate (self other : key) : bool :=
  let same := str_eqb (k_crv self) (k_crv other) in
  if str_eqb (k_kty self) (s_ "OKP")
  then k_priv self && same && str_eqb (k_kty other) (s_ "OKP")
       && (str_eqb (k_crv self) (s_ "X25519") || str_eqb (k_crv self) (s_ "X448"))
  else str_eqb (k_kty other) (s_ "EC") && k_priv self && same.

(* ---------- C09: the JWE transport of jwt.py over the JWE model ---------- *)
Definition jwe_eobj (w : dict) (p : bytes) (r : recip) : eobj :=
  {| e_ser := Compact; e_prot := w; e_unprot := PNone; e_aad := None; e_plain := p; e_recips := [r] |}.

(* encrypt_compact; the dict handed in is the object's protected header, which
   perform_encrypt writes (epk, iv/tag, p2s/p2c): its content afterwards is x_prot *)
Definition jwe_tenc (O : oracles) (g : registry) (r : recip) (d : edraw) (w : C09Jwt.hdr) (p : bytes)
  : res bytes * C09Jwt.hdr :=
  (encrypt_compact O g (jwe_eobj w p r) d,
   match perform_encrypt O g (jwe_eobj w p r) d with
   | Ok x => x_prot x
   | Err _ => w
   end).

(* decrypt_compact followed by .headers() (= the protected header), .plaintext *)
Definition jwe_tdec (O : oracles) (g : registry) (k : key) (sender : option key) (tok : bytes)
  : res (C09Jwt.hdr * bytes) :=
  do mo <- decrypt_compact O g tok k sender;
  Ok (j_prot (snd mo), fst mo).

(* w' = w followed by new members *)
Definition extends (w w' : dict) : Prop :=
  exists extra, w' = w ++ extra /\ forall k, dmem w k = true -> dmem extra k = false.
