(* C20Cases.v — executable comparison of the step model with recorded runs of
   the real code under the deterministic line scheduler (correspondence). *)
From Model Require Import Base PyVal TableTypes C20Model.
Open Scope N_scope.

Definition pick_of (picks : list nat) : N -> nat -> nat := fun idx _ => nth (N.to_nat idx) picks 0%nat.

(* what is observable of the final shared state of a key:
   (_dict_value non-empty, "kid" in it, public_key cached) *)
Definition key_final (s : kst) : bool * bool * bool :=
  (nonempty (vis s), dmem (vis s) kidK, ks_pub s).

(* keys imported from a JWK dict have _dict_value filled by __init__ *)
Definition start_world (im : imm) (pre : list bool) (sets : list (list nat)) (regs : list creg) : world :=
  {| w_keys := map (fun kb : kimm * bool => {| ks_objs := [if snd kb then ki_view (fst kb) else []]; ks_ptr := 0; ks_pub := false |})
                   (combine im pre);
     w_sets := sets; w_rng := 0; w_static := with_regs static0 regs |}.

(* "0110" -> [0;1;1;0] : one thread index per step *)
Fixpoint digits (s : string) : list nat :=
  match s with
  | EmptyString => []
  | String c r => (nat_of_ascii c - 48)%nat :: digits r
  end.

Inductive c20case :=
(* a schedule: one thread index per line-step; expected label of every step,
   expected result of every thread, expected final state of every key *)
| CSched (fixed : bool) (im : imm) (pre : list bool) (sets : list (list nat)) (regs : list creg) (picks : list nat)
         (setup : list call) (calls : list call) (sched : string)
         (labels : string) (results : list (res pv)) (finals : list (bool * bool * bool)) (draws : N)
(* a sequential history on one world: the calls run one after another *)
| CSeq (fixed : bool) (im : imm) (pre : list bool) (sets : list (list nat)) (regs : list creg) (picks : list nat)
       (calls : list call) (results : list (res pv)) (finals : list (bool * bool * bool)) (draws : N).

Definition b3_eqb (a b : bool * bool * bool) : bool :=
  let '(a1, a2, a3) := a in let '(b1, b2, b3) := b in
  Bool.eqb a1 b1 && Bool.eqb a2 b2 && Bool.eqb a3 b3.

Fixpoint seq_all (im : imm) (w : world) (ps : list (prog (res pv))) : world * list (option (res pv)) :=
  match ps with
  | [] => (w, [])
  | p :: r =>
    match run_seq im 4000 w p with
    | Some (a, w') => let '(w'', l) := seq_all im w' r in (w'', Some a :: l)
    | None => (w, [None])
    end
  end.

Definition opt_res_eqb (a : option (res pv)) (b : res pv) : bool :=
  match a with Some x => res_eqb py_eq x b | None => false end.

Fixpoint list_eqb2 {A B} (f : A -> B -> bool) (a : list A) (b : list B) : bool :=
  match a, b with
  | [], [] => true
  | x :: a', y :: b' => f x y && list_eqb2 f a' b'
  | _, _ => false
  end.

Definition c20_out (c : c20case) : list string * list (option (res pv)) * list (bool * bool * bool) * N :=
  match c with
  | CSched fx im pre sets regs picks setup calls sched _ _ _ _ =>
      let ps := map (compile fx im (pick_of picks)) calls in
      let '(w0, _) := seq_all im (start_world im pre sets regs) (map (compile fx im (pick_of picks)) setup) in
      let '(w, ts, tr) := run_sched im (digits sched) w0 ps in
      (map ev_lbl tr, map result_of ts, map key_final (w_keys w), w_rng w)
  | CSeq fx im pre sets regs picks calls _ _ _ =>
      let ps := map (compile fx im (pick_of picks)) calls in
      let '(w, rs) := seq_all im (start_world im pre sets regs) ps in
      ([], rs, map key_final (w_keys w), w_rng w)
  end.

Definition c20_check (c : c20case) : bool :=
  let '(lbls, rs, fin, dr) := c20_out c in
  match c with
  | CSched _ _ _ _ _ _ _ _ _ labels results finals draws =>
      String.eqb (String.concat " " lbls) labels && list_eqb2 opt_res_eqb rs results
      && list_eqb b3_eqb fin finals && (dr =? draws)
  | CSeq _ _ _ _ _ _ _ results finals draws =>
      list_eqb2 opt_res_eqb rs results && list_eqb b3_eqb fin finals && (dr =? draws)
  end.

Definition c20_show (c : c20case) := c20_out c.
