(* C20Cases.v — executable comparison of the step model with recorded runs of
   the real code under the deterministic line scheduler (correspondence). *)
From Model Require Import Base PyVal TableTypes C20Model.
Open Scope N_scope.

Definition pick_of (picks : list nat) : N -> nat -> nat := fun idx _ => nth (N.to_nat idx) picks 0%nat.

(* what is observable of the final shared state of a key:
   (_dict_value non-empty, "kid" in it, public_key cached) *)
Definition key_final (s : kst) : bool * bool * bool :=
  (nonempty (vis s), dmem (vis s) kidK, ks_pub s).

(* keys imported from a JWK dict have _dict_value filled by __init__ *)
Definition start_world (im : imm) (pre : list bool) (sets : list (list nat)) (regs : list creg) : world :=
  {| w_keys := map (fun kb : kimm * bool => {| ks_objs := [if snd kb then ki_view (fst kb) else []]; ks_ptr := 0; ks_pub := false |})
                   (combine im pre);
     w_sets := sets; w_rng := 0; w_static := with_regs static0 regs |}.

(* "0110" -> [0;1;1;0] : one thread index per step *)
Fixpoint digits (s : string) : list nat :=
  match s with
  | EmptyString => []
  | String c r => (nat_of_ascii c - 48)%nat :: digits r
  end.

Inductive c20case :=
(* a schedule: one thread index per line-step; expected label of every step,
   expected result of every thread, expected final state of every key *)
| CSched (fixed : bool) (im : imm) (pre : list bool) (sets : list (list nat)) (regs : list creg) (picks : list nat)
         (setup : list call) (calls : list call) (sched : string)
         (labels : string) (results : list (res pv)) (finals : list (bool * bool * bool)) (draws : N)
(* a sequential history on one world: the calls run one after another *)
| CSeq (fixed : bool) (im : imm) (pre : list bool) (sets : list (list nat)) (regs : list creg) (picks : list nat)
       (calls : list call) (results : list (res pv)) (finals : list (bool * bool * bool)) (draws : N).

Definition b3_eqb (a b : bool * bool * bool) : bool :=
  let '(a1, a2, a3) := a in let '(b1, b2, b3) := b in
  Bool.eqb a1 b1 && Bool.eqb a2 b2 && Bool.eqb a3 b3.

Fixpoint seq_all (im : imm) (w : world) (ps : list (prog (res pv))) : world * list (option (res pv)) :=
  match ps with
  | [] => (w, [])
  | p :: r =>
    match run_seq im 4000 w p with
    | Some (a, w') => let '(w'', l) := seq_all im w' r in (w'', Some a :: l)
    | None => (w, [None])
    end
  end.

Definition opt_res_eqb (a : option (res pv)) (b : res pv) : bool :=
  match a with Some x => res_eqb py_eq x b | None => false end.

Fixpoint list_eqb2 {A B} (f : A -> B -> bool) (a : list A) (b : list B) : bool :=
  match a, b with
  | [], [] => true
  | x :: a', y :: b' => f x y && list_eqb2 f a' b'
  | _, _ => false
  end.

Definition c20_out (c : c20case) : list string * list (option (res pv)) * list (bool * bool * bool) * N :=
  match c with
  | CSched fx im pre sets regs picks setup calls sched _ _ _ _ =>
      let ps := map (compile fx im (pick_of picks)) calls in
      let '(w0, _) := seq_all im (start_world im pre sets regs) (map (compile fx im (pick_of picks)) setup) in
      let '(w, ts, tr) := run_sched im (digits sched) w0 ps in
      (map ev_lbl tr, map result_of ts, map key_final (w_keys w), w_rng w)
  | CSeq fx im pre sets regs picks calls _ _ _ =>
      let ps := map (compile fx im (pick_of picks)) calls in
      let '(w, rs) := seq_all im (start_world im pre sets regs) ps in
      ([], rs, map key_final (w_keys w), w_rng w)
  end.

Definition c20_check (c : c20case) : bool :=
  let '(lbls, rs, fin, dr) := c20_out c in
  match c with
  | CSched _ _ _ _ _ _ _ _ _ labels results finals draws =>
      String.eqb (String.concat " " lbls) labels && list_eqb2 opt_res_eqb rs results
      && list_eqb b3_eqb fin finals && (dr =? draws)
  | CSeq _ _ _ _ _ _ _ results finals draws =>
      list_eqb2 opt_res_eqb rs results && list_eqb b3_eqb fin finals && (dr =? draws)
  end.

Definition c20_show (c : c20case) := c20_out c.

(* ================= access-level correspondence =================
   Used when the line-label table no longer matches the source (a rewrite of the anchored
   functions): model and implementation are compared at the granularity of accesses to
   MUTABLE shared locations (the _dict_value slot of a key, a draw).  Steps that touch no
   mutable shared location are invisible: they commute with every step of every other
   thread, so an interleaving is determined by the order of the visible accesses. *)
Definition access_of (a : action) : option (option nat) :=
  match a with
  | ATest k | ARead k | AAssign k | AUpdate k | ASetKid k _ => Some (Some k)
  | AReadObj k _ | AIterNext k _ _ _ => Some (Some k)
  | ADraw => Some None
  | _ => None
  end.

(* thread p runs up to and including its next visible access *)
Fixpoint run_to_access {A} (fuel : nat) (im : imm) (w : world) (p : prog A)
  : world * prog A * option (option nat) :=
  match fuel with
  | O => (w, p, None)
  | S f =>
    match p with
    | Ret _ => (w, p, None)
    | Act l a k =>
        let '(w', o) := sem im a w in
        match access_of a with
        | Some acc => (w', k o, Some acc)
        | None => run_to_access f im w' (k o)
        end
    end
  end.

(* run to completion; None when a visible access is still pending (the implementation made fewer accesses) *)
Fixpoint finish {A} (fuel : nat) (im : imm) (w : world) (p : prog A) : option (world * A) :=
  match fuel with
  | O => None
  | S f =>
    match p with
    | Ret a => Some (w, a)
    | Act l a k =>
        match access_of a with
        | Some _ => None
        | None => let '(w', o) := sem im a w in finish f im w' (k o)
        end
    end
  end.

Fixpoint run_acc {A} (im : imm) (sched : list (nat * option nat)) (w : world) (ts : list (prog A))
  : world * list (prog A) * bool :=
  match sched with
  | [] => (w, ts, true)
  | (t, acc) :: r =>
    match nth_error ts t with
    | Some p =>
        let '(w', p', got) := run_to_access 4000 im w p in
        let same := match got, acc with
                    | Some (Some k), Some k' => Nat.eqb k k'
                    | Some None, None => true
                    | _, _ => false
                    end in
        let '(w'', ts'', ok) := run_acc im r w' (upd ts t p') in
        (w'', ts'', same && ok)
    | None => (w, ts, false)
    end
  end.

Fixpoint finish_all {A} (im : imm) (w : world) (ts : list (prog A)) : world * list (option A) :=
  match ts with
  | [] => (w, [])
  | p :: r =>
    match finish 4000 im w p with
    | Some (w', a) => let '(w'', l) := finish_all im w' r in (w'', Some a :: l)
    | None => let '(w'', l) := finish_all im w r in (w'', None :: l)
    end
  end.

Inductive c20acc :=
| CAcc (fixed : bool) (im : imm) (pre : list bool) (sets : list (list nat)) (regs : list creg) (picks : list nat)
       (setup : list call) (calls : list call)
       (accesses : list (nat * option nat))      (* (thread, key whose slot is accessed | None = a draw), in execution order *)
       (results : list (res pv)) (finals : list (bool * bool * bool)).

(* (the access pattern of the implementation is the model's, the outcomes agree) *)
Definition c20acc_eval (c : c20acc) : bool * bool :=
  match c with
  | CAcc fx im pre sets regs picks setup calls acc results finals =>
      let ps := map (compile fx im (pick_of picks)) calls in
      let '(w0, _) := seq_all im (start_world im pre sets regs) (map (compile fx im (pick_of picks)) setup) in
      let '(w1, ts1, same) := run_acc im acc w0 ps in
      let '(w2, rs) := finish_all im w1 ts1 in
      let complete := forallb (fun o => match o with Some _ => true | None => false end) rs in
      (same && complete,
       list_eqb2 opt_res_eqb rs results &&
       list_eqb (fun a b => let '(a1, a2, _) := a in let '(b1, b2, _) := b in Bool.eqb a1 b1 && Bool.eqb a2 b2)
                (map key_final (w_keys w2)) finals)
  end.
(* alarm only when the access pattern corresponds and the outcome differs *)
Definition c20acc_check (c : c20acc) : bool := let '(pat, out) := c20acc_eval c in negb pat || out.
Definition c20acc_pattern (c : c20acc) : bool := fst (c20acc_eval c).
Definition c20acc_show (c : c20acc) := c20acc_eval c.
