(* C10Cases.v — executable comparison of the claims-validation model with the
   recorded behaviour of JWTClaimsRegistry(now=, leeway=, **opts).validate(claims)
   and of the Coq Spec with its Python transcription (the direct oracle). *)
From Model Require Import Base PyVal C10Claims C10Spec.
From Gen Require Import TablesC10.
Open Scope Z_scope.

(* short constructor for generated files *)
Definition O := Build_copt.

Inductive c10case :=
(* lw = None: the leeway argument was omitted.
   expect: what the implementation did.
   dom: the harness's (Python) verdict "well-formed request and JSON claims";
   acc_s / acc_l: the Python transcription of the Spec with exp = now-leeway
   rejected / allowed (only meaningful when dom). *)
| CVal (now : Z) (lw : option Z) (opts : copts) (claims : cclaims) (expect : res unit)
       (dom acc_s acc_l : bool).

Definition unit_eqb (a b : unit) : bool := true.

Definition c10_model (c : c10case) : res unit :=
  match c with
  | CVal now (Some lw) opts claims _ _ _ _ => validate now lw opts claims
  | CVal now None opts claims _ _ _ _ => validate_default now opts claims
  end.

Definition c10_lw (c : c10case) : Z :=
  match c with CVal _ (Some lw) _ _ _ _ _ _ => lw | CVal _ None _ _ _ _ _ _ => c10_default_leeway end.

Definition c10_check (c : c10case) : bool :=
  match c with
  | CVal now lw opts claims expect dom acc_s acc_l =>
      res_eqb unit_eqb (c10_model c) expect &&
      Bool.eqb (wf_opts opts && json_claims claims) dom &&
      (if dom then Bool.eqb (accepts now (c10_lw c) opts claims) acc_s &&
                   Bool.eqb (accepts_gen false now (c10_lw c) opts claims) acc_l
       else true)
  end.

(* model verdict, in-domain flag, Spec strict / lenient *)
Definition c10_show (c : c10case) : res unit * bool * bool * bool :=
  match c with
  | CVal now lw opts claims _ _ _ _ =>
      (c10_model c, wf_opts opts && json_claims claims,
       accepts now (c10_lw c) opts claims, accepts_gen false now (c10_lw c) opts claims)
  end.
