(* C10Cases.v — executable comparison of the claims-validation model with the
   recorded behaviour of JWTClaimsRegistry(now=, leeway=, **opts).validate(claims)
   and of the Coq Spec with its Python transcription (the direct oracle). *)
From Model Require Import Base PyVal C10Claims C10Spec.
From Gen Require Import TablesC10.
Open Scope Z_scope.

(* short constructor for generated files *)
Definition O := Build_copt.

Inductive c10case :=
(* lw = None: the leeway argument was omitted.
   expect: what the implementation did.
   dom: the harness's (Python) verdict "well-formed request and JSON claims";
   acc_s / acc_l: the Python transcription of the Spec with exp = now-leeway
   rejected / allowed (only meaningful when dom). *)
| CVal (now : Z) (lw : option Z) (opts : copts) (claims : cclaims) (expect : res unit)
       (dom acc_s acc_l : bool)
(* ClaimsRegistry(...).validate(claims); acc: transcription of accepts_base *)
| CBase (opts : copts) (claims : cclaims) (expect : res unit) (dom acc : bool)
(* one registry object validating the claims sets h in this order *)
| CSeq (now lw : Z) (opts : copts) (h : list cclaims) (expect : list (res unit))
(* reg.validate_<k>(v) called directly, k one of aud / exp / nbf / iat *)
| CMethod (now lw : Z) (opts : copts) (k : str) (v : pv) (expect : res unit)
(* reg.check_value(k, v) called directly *)
| CCheckValue (opts : copts) (k : str) (v : pv) (expect : res unit).

Definition unit_eqb (a b : unit) : bool := true.

Definition c10_model (c : c10case) : list (res unit) :=
  match c with
  | CVal now (Some lw) opts claims _ _ _ _ => [validate now lw opts claims]
  | CVal now None opts claims _ _ _ _ => [validate_default now opts claims]
  | CBase opts claims _ _ _ => [validate_base opts claims]
  | CSeq now lw opts h _ => fst (run_history (registry_init now lw opts) h)
  | CMethod now lw opts k v _ => [check_claim now lw opts k v]
  | CCheckValue opts k v _ => [check_value opts k v]
  end.

Definition c10_lw (lw : option Z) : Z :=
  match lw with Some lw => lw | None => c10_default_leeway end.

Definition c10_check (c : c10case) : bool :=
  match c with
  | CVal now lw opts claims expect dom acc_s acc_l =>
      list_eqb (res_eqb unit_eqb) (c10_model c) [expect] &&
      Bool.eqb (wf_opts opts && json_claims claims) dom &&
      (if dom then Bool.eqb (accepts now (c10_lw lw) opts claims) acc_s &&
                   Bool.eqb (accepts_gen false now (c10_lw lw) opts claims) acc_l
       else true)
  | CBase opts claims expect dom acc =>
      list_eqb (res_eqb unit_eqb) (c10_model c) [expect] &&
      Bool.eqb (wf_opts opts && json_claims claims) dom &&
      (if dom then Bool.eqb (accepts_base opts claims) acc else true)
  | CSeq _ _ _ _ expect => list_eqb (res_eqb unit_eqb) (c10_model c) expect
  | CMethod _ _ _ k _ expect =>
      str_mem k c10_validate_methods && list_eqb (res_eqb unit_eqb) (c10_model c) [expect]
  | CCheckValue _ _ _ expect => list_eqb (res_eqb unit_eqb) (c10_model c) [expect]
  end.

(* model verdict(s), in-domain flag, Spec strict / lenient (or accepts_base twice) *)
Definition c10_show (c : c10case) : list (res unit) * bool * bool * bool :=
  match c with
  | CVal now lw opts claims _ _ _ _ =>
      (c10_model c, wf_opts opts && json_claims claims,
       accepts now (c10_lw lw) opts claims, accepts_gen false now (c10_lw lw) opts claims)
  | CBase opts claims _ _ _ =>
      (c10_model c, wf_opts opts && json_claims claims, accepts_base opts claims, accepts_base opts claims)
  | _ => (c10_model c, false, false, false)
  end.
