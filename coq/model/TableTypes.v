(* TableTypes.v — record types of the data tables that harness/extract_tables.py
   regenerates from /repo on every run (coq/gen/Tables.v). *)
From Model Require Export Base.

(* validator kinds of joserfc.registry, identified by probing each validator
   with one value of every JSON/Python shape (see extract_tables.py) *)
Inductive vkind :=
| VStr | VUrl | VInt | VBool | VListStr | VJwk | VNone
| VChoices (l : list string)      (* in_choices(l): a member of l, or a list of members of l *)
| VChoiceStr (l : list string)    (* in_choices(l, False): a single member of l (not a list) *)
| VChoiceList (l : list string)   (* in_choices(l, True): a list of members of l *)
| VUnknown (mask : N).

Record hparam := { hp_name : string; hp_kind : vkind; hp_required : bool }.
Record kparam := { kp_name : string; kp_kind : vkind; kp_private : option bool; kp_required : bool }.
Record kop := { ko_name : string; ko_use : string; ko_private : option bool }.

Record jws_alg_row := {
  ja_name : string; ja_family : string; ja_key_type : string;
  ja_recommended : bool; ja_hash : string; ja_curve : string;
  ja_pad : string    (* "", "PKCS1v15", "PSS:mgf=<h>:salt=<n>" *)
}.

Record jwe_alg_row := {
  ea_name : string; ea_family : string; ea_direct : bool; ea_tag_aware : bool;
  ea_key_types : list string; ea_key_size : option N; ea_recommended : bool;
  ea_more : list hparam; ea_wrap : string; ea_hash : string;
  ea_p2c : N; ea_pad : string
}.

Record jwe_enc_row := {
  ee_name : string; ee_family : string; ee_iv_size : N; ee_cek_size : N;
  ee_key_len : N; ee_hash : string; ee_recommended : bool
}.

Record jwe_zip_row := { ez_name : string; ez_family : string; ez_recommended : bool }.

Record curve_row := { cv_name : string; cv_native : string; cv_bits : N }.
