(* JweBase.v — vocabulary shared by the JWE model (C02 / C04 / C08):
   structural equality on [pv], UTF-8 / to_bytes, PKCS7, segment splitting,
   keys, the record of external primitives ("oracles") and the finite lookup
   table that instantiates it in the correspondence run. *)
From Model Require Export Base PyVal B64 IntCodec TableTypes.
Open Scope N_scope.

(* ---------- compact octet-string literal for generated case files ----------
   [hx 0x1<hex digits>%positive]: the leading 1 is a sentinel that keeps leading
   zero octets (number literals parse ~5x faster than string literals) *)
Fixpoint hx_aux (p : positive) (cur w : N) (acc : list N) : list N :=
  match p with
  | xH => acc
  | xO q => if w =? 128 then hx_aux q 0 1 (cur :: acc) else hx_aux q cur (2 * w) acc
  | xI q => if w =? 128 then hx_aux q 0 1 ((cur + w) :: acc) else hx_aux q (cur + w) (2 * w) acc
  end.
Definition hx (p : positive) : list N := hx_aux p 0 1 [].

(* ---------- structural equality on pv (oracle-table keys) ---------- *)
Definition flt_eqb (a b : flt) : bool :=
  match a, b with
  | FFin n d, FFin m e => (n =? m)%Z && Pos.eqb d e
  | FInf x, FInf y => Bool.eqb x y
  | FNan, FNan => true
  | _, _ => false
  end.

Fixpoint pv_eqb (a b : pv) {struct a} : bool :=
  match a, b with
  | PNone, PNone => true
  | PBool x, PBool y => Bool.eqb x y
  | PInt x, PInt y => (x =? y)%Z
  | PFloat x, PFloat y => flt_eqb x y
  | PStr s, PStr t => str_eqb s t
  | PBytes s, PBytes t => beqb s t
  | PList l, PList m =>
      (fix go (l m : list pv) {struct l} : bool :=
         match l, m with
         | [], [] => true
         | x :: l', y :: m' => pv_eqb x y && go l' m'
         | _, _ => false
         end) l m
  | PDict d, PDict e =>
      (fix go (d e : list (str * pv)) {struct d} : bool :=
         match d, e with
         | [], [] => true
         | (k, x) :: d', (k', y) :: e' => str_eqb k k' && pv_eqb x y && go d' e'
         | _, _ => false
         end) d e
  | _, _ => false
  end.

Definition pvl_eqb (a b : list pv) : bool := list_eqb pv_eqb a b.

(* ---------- str.encode("utf-8") ---------- *)
Definition utf8_char (c : N) : res bytes :=
  if c <? 128 then Ok [c]
  else if c <? 2048 then Ok [192 + c / 64; 128 + c mod 64]
  else if (55296 <=? c) && (c <=? 57343) then Err EValue      (* lone surrogate *)
  else if c <? 65536 then Ok [224 + c / 4096; 128 + (c / 64) mod 64; 128 + c mod 64]
  else Ok [240 + c / 262144; 128 + (c / 4096) mod 64; 128 + (c / 64) mod 64; 128 + c mod 64].

Fixpoint utf8 (s : str) : res bytes :=
  match s with
  | [] => Ok []
  | c :: r => do a <- utf8_char c; do b <- utf8 r; Ok (a ++ b)
  end.

(* str.encode("ascii") *)
Definition ascii_enc (s : str) : res bytes :=
  if forallb (fun c => c <? 128) s then Ok s else Err EValue.

(* joserfc.util.to_bytes on the value shapes a header member can have;
   numbers go through str(x), which the model does not transcribe *)
Definition to_bytes_pv (v : pv) : res bytes :=
  match v with
  | PBytes b => Ok b
  | PStr s => utf8 s
  | _ => Err EType
  end.

Definition to_bytes_ascii (v : pv) : res bytes :=
  match v with
  | PBytes b => Ok b
  | PStr s => ascii_enc s
  | _ => Err EType
  end.

(* ---------- PKCS7 (block size 16) ---------- *)
Definition pkcs7_pad (m : bytes) : bytes :=
  let n := 16 - (lenN m) mod 16 in m ++ repeat n (N.to_nat n).

Definition pkcs7_unpad (d : bytes) : res bytes :=
  match rev d with
  | [] => Err EValue
  | n :: _ =>
      if negb ((lenN d) mod 16 =? 0) then Err EValue
      else if (n =? 0) || (16 <? n) then Err EValue
      else
        let k := N.to_nat n in
        let body := firstn (length d - k) d in
        let tail := skipn (length d - k) d in
        if forallb (fun b => b =? n) tail then Ok body else Err EValue
  end.

(* ---------- bytes.split(b".") ---------- *)
Fixpoint split_dot_aux (l : bytes) (cur : bytes) : list bytes :=
  match l with
  | [] => [rev cur]
  | c :: r => if c =? 46 then rev cur :: split_dot_aux r [] else split_dot_aux r (c :: cur)
  end.
Definition split_dot (l : bytes) : list bytes := split_dot_aux l [].

Fixpoint join_dot (l : list bytes) : bytes :=
  match l with
  | [] => []
  | [a] => a
  | a :: r => a ++ 46 :: join_dot r
  end.

(* ---------- keys ----------
   [k_id] is the raw value for oct keys and an opaque handle (recorded by the
   harness) for RSA / EC / OKP keys; only oracles look inside handles. *)
Record key := { k_kty : str; k_crv : str; k_priv : bool; k_id : bytes }.

Definition key_to_pv (k : key) : pv :=
  PList [PStr (k_kty k); PStr (k_crv k); PBool (k_priv k); PBytes (k_id k)].
Definition key_of_pv (v : pv) : res key :=
  match v with
  | PList [PStr t; PStr c; PBool p; PBytes i] =>
      Ok {| k_kty := t; k_crv := c; k_priv := p; k_id := i |}
  | _ => Err EOracleMiss
  end.

(* ---------- external primitives ---------- *)
Record oracles := {
  (* hmac.new(key, msg, hash).digest() *)
  o_mac : str -> bytes -> bytes -> res bytes;
  (* Cipher(AES(key), CBC(iv)) raw block encryption / decryption (no padding) *)
  o_cbc_enc : bytes -> bytes -> bytes -> res bytes;
  o_cbc_dec : bytes -> bytes -> bytes -> res bytes;
  (* Cipher(AES(key), GCM(iv[,tag])): key iv aad data [tag];  Ok None = InvalidTag *)
  o_gcm_enc : bytes -> bytes -> option bytes -> bytes -> res (bytes * bytes);
  o_gcm_dec : bytes -> bytes -> option bytes -> bytes -> bytes -> res (option bytes);
  (* ChaCha20_Poly1305.new(key, nonce): key iv aad data [tag]; MAC failure = ValueError *)
  o_cc_enc : bytes -> bytes -> bytes -> bytes -> res (bytes * bytes);
  o_cc_dec : bytes -> bytes -> bytes -> bytes -> bytes -> res bytes;
  (* aes_key_wrap(kek, cek) / aes_key_unwrap(kek, ek); Ok None = InvalidUnwrap *)
  o_kw_wrap : bytes -> bytes -> res bytes;
  o_kw_unwrap : bytes -> bytes -> res (option bytes);
  (* RSA op key .encrypt/.decrypt(data, padding): key handle, padding name, data *)
  o_rsa_enc : bytes -> str -> bytes -> res bytes;
  o_rsa_dec : bytes -> str -> bytes -> res bytes;
  (* key_size of the RSA op key (bits), asked by encrypt_cek *)
  o_rsa_bits : bytes -> res N;
  (* PBKDF2HMAC(hash, length, salt, iterations).derive(key): hash key salt count len *)
  o_pbkdf2 : str -> bytes -> bytes -> pv -> N -> res bytes;
  (* ConcatKDFHash(hash, length, otherinfo).derive(z): hash z otherinfo len *)
  o_ckdf : str -> bytes -> bytes -> N -> res bytes;
  (* private_key.exchange(peer public key): own handle, peer handle *)
  o_ecdh : bytes -> bytes -> res bytes;
  (* type(recipient_key).import_key(epk dict): validating JWK import *)
  o_import : str -> pv -> res key;
  (* json.loads(octets) ; json.dumps(v, ensure_ascii, separators=(",",":")) as code points *)
  o_loads : bytes -> res pv;
  o_dumps : pv -> res str;
  (* zlib.compress(s) as DeflateZipModel.compress calls it (zlib format: 2-octet header, raw DEFLATE, Adler-32);
     DeflateZipModel.decompress as a whole (C17 owns its inside) *)
  o_deflate : bytes -> res bytes;
  o_inflate : bytes -> res bytes;
  (* registry.check_header(headers, check_more) (C15 owns its inside) *)
  o_check_header : pv -> bool -> res unit
}.

(* ---------- finite oracle tables (correspondence run) ---------- *)
Definition otable := list (str * list pv * res pv).

Fixpoint olookup (t : otable) (name : str) (args : list pv) : res pv :=
  match t with
  | [] => Err EOracleMiss
  | (n, a, r) :: rest => if str_eqb n name && pvl_eqb a args then r else olookup rest name args
  end.

Definition as_bytes (r : res pv) : res bytes :=
  match r with Ok (PBytes b) => Ok b | Ok _ => Err EOracleMiss | Err e => Err e end.
Definition as_obytes (r : res pv) : res (option bytes) :=
  match r with Ok (PBytes b) => Ok (Some b) | Ok PNone => Ok None | Ok _ => Err EOracleMiss | Err e => Err e end.
Definition as_pair (r : res pv) : res (bytes * bytes) :=
  match r with Ok (PList [PBytes a; PBytes b]) => Ok (a, b) | Ok _ => Err EOracleMiss | Err e => Err e end.
Definition as_strv (r : res pv) : res str :=
  match r with Ok (PStr b) => Ok b | Ok _ => Err EOracleMiss | Err e => Err e end.
Definition as_unit (r : res pv) : res unit :=
  match r with Ok _ => Ok tt | Err e => Err e end.
Definition opt_pv (o : option bytes) : pv := match o with Some b => PBytes b | None => PNone end.

Definition s_ (x : string) : str := asc x.

Definition table_oracles (t : otable) : oracles := {|
  o_mac h k m := as_bytes (olookup t (s_ "mac") [PStr h; PBytes k; PBytes m]);
  o_cbc_enc k iv d := as_bytes (olookup t (s_ "cbc_enc") [PBytes k; PBytes iv; PBytes d]);
  o_cbc_dec k iv d := as_bytes (olookup t (s_ "cbc_dec") [PBytes k; PBytes iv; PBytes d]);
  o_gcm_enc k iv a d := as_pair (olookup t (s_ "gcm_enc") [PBytes k; PBytes iv; opt_pv a; PBytes d]);
  o_gcm_dec k iv a d tg := as_obytes (olookup t (s_ "gcm_dec") [PBytes k; PBytes iv; opt_pv a; PBytes d; PBytes tg]);
  o_cc_enc k iv a d := as_pair (olookup t (s_ "cc_enc") [PBytes k; PBytes iv; PBytes a; PBytes d]);
  o_cc_dec k iv a d tg := as_bytes (olookup t (s_ "cc_dec") [PBytes k; PBytes iv; PBytes a; PBytes d; PBytes tg]);
  o_kw_wrap k c := as_bytes (olookup t (s_ "kw_wrap") [PBytes k; PBytes c]);
  o_kw_unwrap k e := as_obytes (olookup t (s_ "kw_unwrap") [PBytes k; PBytes e]);
  o_rsa_enc k p d := as_bytes (olookup t (s_ "rsa_enc") [PBytes k; PStr p; PBytes d]);
  o_rsa_dec k p d := as_bytes (olookup t (s_ "rsa_dec") [PBytes k; PStr p; PBytes d]);
  o_rsa_bits k := match olookup t (s_ "rsa_bits") [PBytes k] with
                  | Ok (PInt z) => Ok (Z.to_N z) | Ok _ => Err EOracleMiss | Err e => Err e end;
  o_pbkdf2 h k s c l := as_bytes (olookup t (s_ "pbkdf2") [PStr h; PBytes k; PBytes s; c; PInt (Z.of_N l)]);
  o_ckdf h z oi l := as_bytes (olookup t (s_ "ckdf") [PStr h; PBytes z; PBytes oi; PInt (Z.of_N l)]);
  o_ecdh a b := as_bytes (olookup t (s_ "ecdh") [PBytes a; PBytes b]);
  o_import kty v := match olookup t (s_ "import") [PStr kty; v] with Ok x => key_of_pv x | Err e => Err e end;
  o_loads b := olookup t (s_ "loads") [PBytes b];
  o_dumps v := as_strv (olookup t (s_ "dumps") [v]);
  o_deflate b := as_bytes (olookup t (s_ "deflate") [PBytes b]);
  o_inflate b := as_bytes (olookup t (s_ "inflate") [PBytes b]);
  o_check_header h m := as_unit (olookup t (s_ "check_header") [h; PBool m])
|}.
