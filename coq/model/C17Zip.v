(* C17Zip.v — Impl model of joserfc.rfc7518.jwe_zips.DeflateZipModel
   (compress / decompress, MAX_SIZE, GZIP_HEAD) and of the tail of
   joserfc.rfc7516.message._perform_decrypt (where decompress is applied).

   zlib is external: it appears only as Section variables
     zdec  w s m   = zlib.decompressobj(15 if w else -15).decompress(s, m)
                     observed as (value, bool(unconsumed_tail), eof), or Err EZlib
     zcomp p       = zlib.compress(p)
   and, for the specification side only,
     inflate_all w s = what an unlimited inflater produces from the octets s:
                     Some (x, eof)   (None when zlib refuses the stream)
     raw_deflate p = the raw RFC 1951 stream zlib produces for p.
   The assumed contract is the record [zlib_ok]; every clause is validated
   against the real zlib by harness/props/c17.py (CContract cases). *)
From Model Require Import Base TableTypes.
From Gen Require Import Tables.
Open Scope N_scope.

(* ---------- octet-string helpers ---------- *)
(* bytes.startswith *)
Fixpoint starts_with (pre s : bytes) : bool :=
  match pre, s with
  | [], _ => true
  | a :: pre', b :: s' => (a =? b) && starts_with pre' s'
  | _ :: _, [] => false
  end.

(* len(), tail recursive (evaluated on strings of several 100 000 octets) *)
Fixpoint blen_acc (l : bytes) (a : N) : N :=
  match l with [] => a | _ :: r => blen_acc r (N.succ a) end.
Definition blen (l : bytes) : N := blen_acc l 0.

(* Python d[2:-4] *)
Definition py_slice_2_m4 (d : bytes) : bytes :=
  firstn (length d - 4 - 2) (skipn 2 d).

(* ---------- zlib as an oracle ---------- *)
Definition zans := (bytes * bool * bool)%type.      (* value, unconsumed_tail <> b"", eof *)
Definition zoracle := bool -> bytes -> N -> res zans.

Inductive ev :=
| EvDecrypt                                         (* enc.decrypt(ciphertext, tag, cek, iv, aad) *)
| EvInflate (wrapped : bool) (s : bytes) (max : N). (* decompressobj(+-15).decompress(s, max) *)

Definition exceeded : exn := EJose ExceededSizeError.

(* the fields of a JWE message object that the zip step can touch *)
Record emsg := { em_plaintext : bytes; em_zip : option string;   (* obj.plaintext, obj.protected.get("zip") *)
                 em_ciphertext : bytes; em_tag : bytes }.        (* the segments written by perform_encrypt *)
Inductive eev :=
| EvCompress (p : bytes)          (* zip_.compress(p) *)
| EvEncrypt (m : bytes).          (* enc.encrypt(m, cek, iv, aad) *)

Section Impl.
  Variable zdec : zoracle.
  Variable zcomp : bytes -> bytes.

  (* if s.startswith(GZIP_HEAD): zlib.decompressobj() else zlib.decompressobj(-zlib.MAX_WBITS) *)
  Definition is_wrapped (s : bytes) : bool := starts_with zip_gzip_head s.

  (* the one request made to zlib: (wbits, data, max_length) *)
  Definition zip_request (s : bytes) : bool * bytes * N :=
    (is_wrapped s, s, zip_max_size + 1).

  (* try: value = decompressor.decompress(s, MAX_SIZE + 1)
     except zlib.error: raise DecodeError
     if len(value) > MAX_SIZE or decompressor.unconsumed_tail: raise ExceededSizeError *)
  Definition zip_post (r : res zans) : res bytes :=
    match r with
    | Err EZlib => Err (EJose DecodeError)
    | Err e => Err e
    | Ok (value, tail, _eof) =>
        if (zip_max_size <? blen value) || tail then Err exceeded else Ok value
    end.

  Definition decompress (s : bytes) : res bytes :=
    let '(w, d, m) := zip_request s in zip_post (zdec w d m).

  (* a history of calls: every call builds its own zlib.decompressobj, nothing is
     carried from one call to the next *)
  Definition decompress_seq (l : list bytes) : list (res bytes) := map decompress l.

  (* the same with the log of zlib calls *)
  Definition decompressL (s : bytes) : res bytes * list ev :=
    let '(w, d, m) := zip_request s in (zip_post (zdec w d m), [EvInflate w d m]).

  (* data = zlib.compress(s); return data[2:-4] *)
  Definition compress (p : bytes) : bytes := py_slice_2_m4 (zcomp p).

  (* ----- tail of _perform_decrypt -----
       msg = enc.decrypt(ciphertext, tag, cek, iv, aad)
       if "zip" in obj.protected:
           zip_ = registry.get_zip(obj.protected["zip"]); obj.plaintext = zip_.decompress(msg)
       else: obj.plaintext = msg                                                     *)
  Variable enc_decrypt : bytes -> bytes -> bytes -> bytes -> bytes -> res bytes.

  Definition str_mem (x : string) (l : list string) : bool := existsb (String.eqb x) l.

  (* JWERegistry.get_zip / _check_algorithm; [allowed] = registry.allowed *)
  Definition get_zip (allowed : option (list string)) (name : string) : res unit :=
    if negb (str_mem name (map ez_name jwe_zip_table)) then Err (EJose UnsupportedAlgorithmError)
    else match allowed with
         | Some (a :: l) =>
             if str_mem name (a :: l) then Ok tt else Err (EJose UnsupportedAlgorithmError)
         | _ => if str_mem name jwe_recommended then Ok tt else Err (EJose UnsupportedAlgorithmError)
         end.

  Definition decrypt_tailL (allowed : option (list string)) (zip : option string)
             (ct tag cek iv aad : bytes) : res bytes * list ev :=
    match enc_decrypt ct tag cek iv aad with
    | Err e => (Err e, [EvDecrypt])
    | Ok msg =>
        match zip with
        | None => (Ok msg, [EvDecrypt])
        | Some name =>
            match get_zip allowed name with
            | Err e => (Err e, [EvDecrypt])
            | Ok _ => let '(r, t) := decompressL msg in (r, EvDecrypt :: t)
            end
        end
    end.

  Definition decrypt_tail allowed zip ct tag cek iv aad : res bytes :=
    fst (decrypt_tailL allowed zip ct tag cek iv aad).

  (* ----- the zip step of perform_encrypt, with the message object explicit -----
       if "zip" in obj.protected:
           zip_ = registry.get_zip(obj.protected["zip"]); plaintext = zip_.compress(obj.plaintext)
       else: plaintext = obj.plaintext                      (a LOCAL variable)
       ...
       ciphertext, tag = enc.encrypt(plaintext, cek, iv, aad)
       obj.base64_segments["ciphertext"/"tag"] = ...
     The object keeps its plaintext; the compressed octets only flow into enc.encrypt. *)
  Variable enc_encrypt : bytes -> bytes -> bytes -> bytes -> res (bytes * bytes).

  Definition encrypt_tailL (allowed : option (list string)) (obj : emsg)
             (cek iv aad : bytes) : res emsg * list eev :=
    let finish (m : bytes) (pre : list eev) :=
      match enc_encrypt m cek iv aad with
      | Err e => (Err e, pre ++ [EvEncrypt m])
      | Ok (ct, tag) =>
          (Ok {| em_plaintext := em_plaintext obj; em_zip := em_zip obj;
                 em_ciphertext := ct; em_tag := tag |}, pre ++ [EvEncrypt m])
      end in
    match em_zip obj with
    | None => finish (em_plaintext obj) []
    | Some name =>
        match get_zip allowed name with
        | Err e => (Err e, [])
        | Ok _ => finish (compress (em_plaintext obj)) [EvCompress (em_plaintext obj)]
        end
    end.
End Impl.

(* ---------- the assumed zlib contract ---------- *)
Definition expansion_of (inflate_all : bool -> bytes -> option (bytes * bool))
           (w : bool) (s : bytes) : option bytes :=
  match inflate_all w s with Some (x, true) => Some x | _ => None end.

Record zlib_ok (inflate_all : bool -> bytes -> option (bytes * bool))
       (zdec : zoracle) (zcomp : bytes -> bytes) (raw_deflate : bytes -> bytes) : Prop := {
  (* Z1: max_length is honoured *)
  z_limit : forall w s m out t e, 0 < m -> zdec w s m = Ok (out, t, e) -> blen out <= m;
  (* Z2: when zlib can inflate s at all (x = all the output it determines, eofx =
     the end of the stream was reached), the limited call returns the first m
     octets of x; if x is shorter than m nothing is left over and eof is eofx.
     Deliberately NOT: "unconsumed_tail empty => everything was delivered". *)
  z_prefix : forall w s m x eofx, 0 < m -> inflate_all w s = Some (x, eofx) ->
      exists t e, zdec w s m = Ok (firstn (N.to_nat m) x, t, e) /\
                  (blen x < m -> t = false /\ e = eofx);
  (* Z3: zlib.compress(p) = 2-octet header ++ raw stream ++ 4-octet Adler-32 *)
  z_compress_shape : forall p, exists hdr trl,
      zcomp p = hdr ++ raw_deflate p ++ trl /\ length hdr = 2%nat /\ length trl = 4%nat;
  (* Z4: the raw stream inflates to p, completely *)
  z_raw_inverse : forall p, inflate_all false (raw_deflate p) = Some (p, true);
  (* Z5: zlib's own raw output never begins with GZIP_HEAD (a non-final stored
     block begins with the octet 0, never 0x78) *)
  z_raw_head : forall p, starts_with zip_gzip_head (raw_deflate p) = false;
  (* Z6: the wrapped stream carries the default header and inflates to p *)
  z_wrapped_inverse : forall p, starts_with zip_gzip_head (zcomp p) = true /\
                                inflate_all true (zcomp p) = Some (p, true)
}.

(* boolean instance of Z1/Z2 for one observed call (evaluated on recorded
   answers of the real zlib; C17Proofs.z_inst_sound: the contract implies it) *)
Definition zans_eqb (a b : zans) : bool :=
  let '(x, t, e) := a in let '(y, u, f) := b in beqb x y && Bool.eqb t u && Bool.eqb e f.

Definition z_inst_ok (m : N) (full : option (bytes * bool)) (ans : res zans) : bool :=
  (0 <? m) &&
  match ans with
  | Ok (out, t, e) =>
      (blen out <=? m) &&
      match full with
      | Some (x, eofx) =>
          beqb out (firstn (N.to_nat m) x) &&
          (if blen x <? m then negb t && Bool.eqb e eofx else true)
      | None => true
      end
  | Err _ => match full with Some _ => false | None => true end
  end.

(* ---------- a toy codec: the contract is satisfiable ---------- *)
(* raw stream of p = 1 :: p ; wrapped = GZIP_HEAD ++ raw ++ 4 octets *)
Definition toy_raw (p : bytes) : bytes := 1 :: p.
Definition toy_comp (p : bytes) : bytes := zip_gzip_head ++ toy_raw p ++ [0; 0; 0; 0].
Definition toy_inflate_all (w : bool) (s : bytes) : option (bytes * bool) :=
  if w then
    if starts_with zip_gzip_head s then
      match skipn (length zip_gzip_head) s with
      | 1 :: rest => Some (firstn (length rest - 4) rest, true)
      | _ => None
      end
    else None
  else match s with 1 :: p => Some (p, true) | _ => None end.
Definition toy_dec : zoracle := fun w s m =>
  match toy_inflate_all w s with
  | Some (x, e) => Ok (firstn (N.to_nat m) x, m <? blen x, if blen x <=? m then e else false)
  | None => Err EZlib
  end.
