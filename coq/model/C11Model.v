(* C11Model.v — JWK import / export of joserfc, transcribed:
     registry.py            : validators (is_str, is_url, in_choices, ...)
     rfc7517/models.py      : NativeKeyBinding.validate_dict_key_registry,
                              validate_dict_key_use_operations, BaseKey.__init__,
                              validate_dict_key, import_key, dict_value, as_dict
     rfc7517/pem.py         : CryptographyBinding.import_from_dict / convert_raw_key_to_dict
     rfc7518/oct_key.py     : OctBinding
     rfc7518/rsa_key.py     : RSABinding, has_all_prime_factors
     rfc7518/ec_key.py      : ECBinding, _int_to_fixed_base64
     rfc8037/okp_key.py     : OKPBinding
     _keys.py               : JWKRegistry.import_key
   Key material is abstract but typed; a native (pyca) key is identified with
   its numbers.  The pyca constructors are the fields of [oracles]. *)
From Model Require Export Base PyVal B64 IntCodec TableTypes.
From Gen Require Import Tables.
Open Scope N_scope.

Definition dict := list (str * pv).
Definition K (s : string) : str := asc s.

(* ---------- registry.py validators ---------- *)
(* value in choices  (list.__contains__: == against every element) *)
Definition in_strs (v : pv) (cs : list string) : bool :=
  existsb (fun c => py_eq v (PStr (asc c))) cs.

Definition validate_kind (k : vkind) (v : pv) : res unit :=
  match k with
  | VStr => if is_str v then Ok tt else Err EValue
  | VUrl => match v with
            | PStr s => if is_prefix (asc "http://") s || is_prefix (asc "https://") s
                        then Ok tt else Err EValue
            | _ => Err EValue
            end
  | VInt => match v with PInt _ => Ok tt | _ => Err EValue end
  | VBool => match v with PBool _ => Ok tt | _ => Err EValue end
  | VListStr => match v with
                | PList l => if forallb is_str l then Ok tt else Err EValue
                | _ => Err EValue
                end
  | VJwk => if is_dict v then Ok tt else Err EValue
  | VNone => Err EValue
  | VChoices cs =>
      match v with
      | PList l => if forallb (fun x => in_strs x cs) l then Ok tt else Err EValue
      | _ => if in_strs v cs then Ok tt else Err EValue
      end
  | VChoiceStr cs =>                        (* in_choices(cs, False): a list is refused *)
      match v with
      | PList _ => Err EValue
      | _ => if in_strs v cs then Ok tt else Err EValue
      end
  | VChoiceList cs =>                       (* in_choices(cs, True): must be a list *)
      match v with
      | PList l => if forallb (fun x => in_strs x cs) l then Ok tt else Err EValue
      | _ => Err EValue
      end
  | VUnknown _ => Err EOracleMiss          (* validator not understood: fail closed *)
  end.

(* NativeKeyBinding.validate_dict_key_registry *)
Fixpoint validate_registry (d : dict) (reg : list kparam) : res unit :=
  match reg with
  | [] => Ok tt
  | p :: r =>
      match dget d (K (kp_name p)) with
      | None => if kp_required p then Err EValue else validate_registry d r
      | Some v => do _ <- validate_kind (kp_kind p) v; validate_registry d r
      end
  end.

Fixpoint assoc_str {A} (t : list (string * A)) (k : str) : option A :=
  match t with
  | [] => None
  | (n, a) :: r => if str_eqb (asc n) k then Some a else assoc_str r k
  end.

(* NativeKeyBinding.validate_dict_key_use_operations *)
Definition validate_use_ops (d : dict) : res unit :=
  match dget d (K "use"), dget d (K "key_ops") with
  | Some u, Some ops =>
      do operations <-
         match u with
         | PStr s => match assoc_str use_key_ops_registry s with
                     | Some l => Ok l | None => Err EKey end
         | _ => Err EValue                         (* '"use" must be a str' *)
         end;
      do items <- py_iter ops;
      if forallb (fun op => in_strs op operations) items then Ok tt else Err EValue
  | _, _ => Ok tt
  end.

(* ---------- key classes ---------- *)
Inductive ktype := KOct | KRSA | KEC | KOKP.
Definition kt_name (k : ktype) : string :=
  match k with KOct => "oct" | KRSA => "RSA" | KEC => "EC" | KOKP => "OKP" end%string.
Definition kt_all : list ktype := [KOct; KRSA; KEC; KOKP].
Definition value_registry (k : ktype) : list kparam :=
  match k with
  | KOct => value_registry_oct | KRSA => value_registry_RSA
  | KEC => value_registry_EC | KOKP => value_registry_OKP
  end.

(* BaseKey.validate_dict_key *)
Definition validate_dict_key (kt : ktype) (d : dict) : res unit :=
  do _ <- validate_registry d jwk_parameter_registry;
  do _ <- validate_registry d (value_registry kt);
  validate_use_ops d.

(* ---------- typed key material ---------- *)
Record rsa_pub := { r_n : Z; r_e : Z }.
Record rsa_prv := { r_pub : rsa_pub; r_d : Z; r_p : Z; r_q : Z; r_dp : Z; r_dq : Z; r_qi : Z }.

Inductive native :=
| NOct (k : bytes)
| NRsaPub (m : rsa_pub)
| NRsaPrv (m : rsa_prv)
| NEcPub (crv : str) (x y : Z)
| NEcPrv (crv : str) (x y d : Z)
| NOkpPub (crv : str) (x : bytes)
| NOkpPrv (crv : str) (x d : bytes).

Definition is_private (n : native) : bool :=
  match n with
  | NOct _ | NRsaPrv _ | NEcPrv _ _ _ _ | NOkpPrv _ _ _ => true
  | _ => false
  end.

(* the pyca constructors: true = "returns the native whose numbers are the
   given ones", false = ValueError (inconsistent numbers, point not on the
   curve, wrong length) *)
Record oracles := {
  o_rsa_pub : Z -> Z -> bool;                  (* RSAPublicNumbers(e, n).public_key()        [n e] *)
  o_rsa_prv : rsa_prv -> bool;                 (* RSAPrivateNumbers(...).private_key() *)
  o_rsa_complete : Z -> Z -> Z -> res rsa_prv; (* rsa_recover_prime_factors + rsa_crt_*       [n e d] *)
  o_ec_pub : str -> Z -> Z -> bool;            (* EllipticCurvePublicNumbers(x,y,crv).public_key() *)
  o_ec_prv : str -> Z -> Z -> Z -> bool;       (* EllipticCurvePrivateNumbers(d, pub).private_key() *)
  o_okp_pub : str -> bytes -> bool;            (* <Crv>PublicKey.from_public_bytes(x) *)
  o_okp_prv : str -> bytes -> res bytes        (* <Crv>PrivateKey.from_private_bytes(d) -> its public x *)
}.

(* ---------- curve tables ---------- *)
Fixpoint ec_bits_in (t : list curve_row) (crv : str) : option N :=
  match t with
  | [] => None
  | r :: t' => if str_eqb (asc (cv_name r)) crv then Some (cv_bits r) else ec_bits_in t' crv
  end.
Definition ec_bits (crv : str) : option N := ec_bits_in ec_curves crv.
Definition coord_len (bits : N) : nat := N.to_nat ((bits + 7) / 8).
Definition okp_known (crv : str) : bool :=
  existsb (fun t => str_eqb (asc (fst (fst t))) crv) okp_curves.

(* ---------- member access and decoding ---------- *)
(* to_bytes(str): utf-8.  A str with a code point >= 128 either cannot be
   encoded (lone surrogate: UnicodeEncodeError, a ValueError) or yields octets
   >= 0x80, which urlsafe_b64decode always refuses with binascii.Error (a
   ValueError): both are EValue, and to_bytes is only ever followed by the
   base64 decoder here. *)
Definition str_to_bytes (s : str) : res bytes :=
  if forallb (fun c => c <? 128) s then Ok s else Err EValue.

(* obj[k] for a member that the registry validated as str *)
Definition get_str (d : dict) (k : string) : res str :=
  match dget d (K k) with
  | None => Err EKey
  | Some (PStr s) => Ok s
  | Some _ => Err EOracleMiss                 (* not reachable after validation *)
  end.

Definition dec_int (d : dict) (k : string) : res Z :=
  do s <- get_str d k; do b <- str_to_bytes s; base64_to_int b.
Definition dec_oct (d : dict) (k : string) : res bytes :=
  do s <- get_str d k; do b <- str_to_bytes s; b64d b.

Definition has (d : dict) (k : string) : bool := dmem d (K k).

Definition crt_names : list string := ["p"; "q"; "dp"; "dq"; "qi"]%string.

(* rsa_key.py: has_all_prime_factors *)
Definition has_all_prime_factors (d : dict) : res bool :=
  let found := map (has d) crt_names in
  if forallb (fun b => b) found then Ok true
  else if existsb (fun b => b) found then Err EValue
  else Ok false.

Definition private_without_d : list string := ["p"; "q"; "dp"; "dq"; "qi"; "oth"]%string.

Section Import.
Variable O : oracles.

Definition import_oct (d : dict) : res native :=
  do k <- dec_oct d "k"; Ok (NOct k).

Definition import_rsa (d : dict) : res native :=
  if has d "d" then
    if has d "oth" then Err EValue else
    do e <- dec_int d "e";
    do n <- dec_int d "n";
    do all <- has_all_prime_factors d;
    if all then
      do dd <- dec_int d "d"; do p <- dec_int d "p"; do q <- dec_int d "q";
      do dp <- dec_int d "dp"; do dq <- dec_int d "dq"; do qi <- dec_int d "qi";
      let m := {| r_pub := {| r_n := n; r_e := e |}; r_d := dd; r_p := p; r_q := q;
                  r_dp := dp; r_dq := dq; r_qi := qi |} in
      if o_rsa_prv O m then Ok (NRsaPrv m) else Err EValue
    else
      do dd <- dec_int d "d";
      do m <- o_rsa_complete O n e dd;
      if o_rsa_prv O m then Ok (NRsaPrv m) else Err EValue
  else
    (* import_public_key: a private parameter without "d" is refused *)
    if existsb (has d) private_without_d then Err EValue else
    do e <- dec_int d "e";
    do n <- dec_int d "n";
    if o_rsa_pub O n e then Ok (NRsaPub {| r_n := n; r_e := e |}) else Err EValue.

Definition import_ec (d : dict) : res native :=
  do crv <- get_str d "crv";
  match ec_bits crv with
  | None => Err EValue                             (* obj["crv"] not in cls._dss_curves *)
  | Some _ =>
      do x <- dec_int d "x";
      do y <- dec_int d "y";
      if has d "d" then
        do dd <- dec_int d "d";
        if o_ec_prv O crv x y dd then Ok (NEcPrv crv x y dd) else Err EValue
      else
        if o_ec_pub O crv x y then Ok (NEcPub crv x y) else Err EValue
  end.

Definition import_okp (d : dict) : res native :=
  do crv <- get_str d "crv";
  if negb (okp_known crv) then Err EValue else     (* obj["crv"] not in PRIVATE/PUBLIC_KEYS_MAP *)
  if has d "d" then
    do dd <- dec_oct d "d";
    do x <- o_okp_prv O crv dd;                    (* from_private_bytes(d), its public bytes *)
    do xg <- dec_oct d "x";                        (* "x" must decode ... *)
    if beqb x xg then Ok (NOkpPrv crv x dd) else Err EValue   (* ... and be the public key of "d" *)
  else
    do x <- dec_oct d "x";
    if o_okp_pub O crv x then Ok (NOkpPub crv x) else Err EValue.

Definition import_from_dict (kt : ktype) (d : dict) : res native :=
  match kt with
  | KOct => import_oct d | KRSA => import_rsa d | KEC => import_ec d | KOKP => import_okp d
  end.

Record key := { k_type : ktype; k_native : native; k_dict : dict }.

(* {**original_value, **parameters, "kty": key_type} *)
Definition init_data (kt : ktype) (d ps : dict) : dict :=
  dset (dupdate d ps) (K "kty") (PStr (asc (kt_name kt))).

(* <KeyClass>.import_key(value: dict, parameters) *)
Definition import_key (kt : ktype) (d ps : dict) : res key :=
  do _ <- validate_dict_key kt d;
  do raw <- import_from_dict kt d;
  let data := init_data kt d ps in
  do _ <- validate_dict_key kt data;
  Ok {| k_type := kt; k_native := raw; k_dict := data |}.

Definition kt_of_name (s : str) : option ktype :=
  find (fun k => str_eqb (asc (kt_name k)) s) kt_all.

(* JWKRegistry.import_key(data: dict, key_type, parameters) *)
Definition registry_import (d : dict) (key_type : option pv) (ps : dict) : res key :=
  do kty <- match key_type with
            | Some v => Ok v
            | None => match dget d (K "kty") with
                      | Some v => Ok v
                      | None => Err (EJose MissingKeyTypeError)
                      end
            end;
  match kty with
  | PList _ | PDict _ => Err EType                  (* key_type not in cls.key_types : unhashable *)
  | PStr s =>
      if str_mem s (map asc key_types) then
        match kt_of_name s with
        | Some kt => import_key kt d ps
        | None => Err EOracleMiss
        end
      else Err (EJose InvalidKeyTypeError)
  | _ => Err (EJose InvalidKeyTypeError)
  end.
End Import.

(* ---------- export ---------- *)
Definition sv (s : list N) : pv := PStr s.

(* ec_key.py: _int_to_fixed_base64 (int.to_bytes raises OverflowError) *)
Definition int_to_fixed_base64 (z : Z) (bits : N) : res (list N) :=
  let L := coord_len bits in
  if ((0 <=? z) && (z <? 256 ^ Z.of_nat L))%Z then Ok (b64e (I2OSP (Z.to_N z) L))
  else Err EOverflow.

Definition export_rsa_pub (m : rsa_pub) : res dict :=
  do n <- int_to_base64 (r_n m); do e <- int_to_base64 (r_e m);
  Ok [(K "n", sv n); (K "e", sv e)].

Definition export_rsa_prv (m : rsa_prv) : res dict :=
  do n <- int_to_base64 (r_n (r_pub m)); do e <- int_to_base64 (r_e (r_pub m));
  do d <- int_to_base64 (r_d m); do p <- int_to_base64 (r_p m); do q <- int_to_base64 (r_q m);
  do dp <- int_to_base64 (r_dp m); do dq <- int_to_base64 (r_dq m); do qi <- int_to_base64 (r_qi m);
  Ok [(K "n", sv n); (K "e", sv e); (K "d", sv d); (K "p", sv p); (K "q", sv q);
      (K "dp", sv dp); (K "dq", sv dq); (K "qi", sv qi)].

Definition export_ec_pub (crv : str) (x y : Z) : res dict :=
  match ec_bits crv with
  | None => Err EOracleMiss
  | Some bits =>
      do xs <- int_to_fixed_base64 x bits; do ys <- int_to_fixed_base64 y bits;
      Ok [(K "crv", PStr crv); (K "x", sv xs); (K "y", sv ys)]
  end.

Definition export_ec_prv (crv : str) (x y d : Z) : res dict :=
  match ec_bits crv with
  | None => Err EOracleMiss
  | Some bits =>
      do xs <- int_to_fixed_base64 x bits; do ys <- int_to_fixed_base64 y bits;
      do ds <- int_to_fixed_base64 d bits;
      Ok [(K "crv", PStr crv); (K "x", sv xs); (K "y", sv ys); (K "d", sv ds)]
  end.

(* convert_raw_key_to_dict(raw, private) *)
Definition export_native (n : native) (private : bool) : res dict :=
  match n with
  | NOct k => Ok [(K "k", sv (b64e k))]
  | NRsaPub m => if private then Err EAttr else export_rsa_pub m
  | NRsaPrv m => if private then export_rsa_prv m else export_rsa_pub (r_pub m)
  | NEcPub crv x y => if private then Err EAttr else export_ec_pub crv x y
  | NEcPrv crv x y d => if private then export_ec_prv crv x y d else export_ec_pub crv x y
  | NOkpPub crv x => if private then Err EAttr else Ok [(K "crv", PStr crv); (K "x", sv (b64e x))]
  | NOkpPrv crv x d =>
      if private then Ok [(K "crv", PStr crv); (K "x", sv (b64e x)); (K "d", sv (b64e d))]
      else Ok [(K "crv", PStr crv); (K "x", sv (b64e x))]
  end.

Definition kt_of_native (n : native) : ktype :=
  match n with
  | NOct _ => KOct
  | NRsaPub _ | NRsaPrv _ => KRSA
  | NEcPub _ _ _ | NEcPrv _ _ _ _ => KEC
  | NOkpPub _ _ | NOkpPrv _ _ _ => KOKP
  end.

(* BaseKey.dict_value of a key built from a native key (generate_key, PEM/DER
   import): convert_raw_key_to_dict(raw, is_private); update(parameters);
   data["kty"] = key_type; validate_dict_key(data) *)
Definition key_of_native (n : native) (ps : dict) : res key :=
  let kt := kt_of_native n in
  do data <- export_native n (is_private n);
  let data := dset (dupdate data ps) (K "kty") (PStr (asc (kt_name kt))) in
  do _ <- validate_dict_key kt data;
  Ok {| k_type := kt; k_native := n; k_dict := data |}.

Definition is_private_member (kt : ktype) (k : str) : bool :=
  existsb (fun p => str_eqb (K (kp_name p)) k &&
                    match kp_private p with Some true => true | _ => false end)
          (value_registry kt).

(* BaseKey.as_dict(private, **params) *)
Definition as_dict (k : key) (private : option bool) (params : dict) : res dict :=
  match private with
  | Some true =>
      if is_private (k_native k) then Ok (dupdate (k_dict k) params) else Err EValue
  | None => Ok (dupdate (k_dict k) params)
  | Some false =>
      Ok (dupdate (filter (fun kv => negb (is_private_member (k_type k) (fst kv))) (k_dict k)) params)
  end.

(* public part of a native (key.public_key) *)
Definition public_of (n : native) : native :=
  match n with
  | NRsaPrv m => NRsaPub (r_pub m)
  | NEcPrv crv x y _ => NEcPub crv x y
  | NOkpPrv crv x _ => NOkpPub crv x
  | _ => n
  end.
