(* C03Cases.v — correspondence cases of C03: sign-side entry points of the Impl
   model (model/Jws.v) and the verification of their output, evaluated with
   the oracles instantiated by the recorded tables (model/JwsOracle.v). *)
From Model Require Export Jws JwsOracle.
Definition c03case := jcase.
Definition c03_check : c03case -> bool := jcase_check.
Definition c03_show := jcase_show.
