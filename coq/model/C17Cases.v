(* C17Cases.v — executable comparison of the model of model/C17Zip.v with the
   recorded behaviour of joserfc (DeflateZipModel.compress/decompress, the tail
   of _perform_decrypt) and of the real zlib (contract instances).

   Long octet strings are written as [bspec] descriptions (cyclic data, the
   output of a small linear congruential generator, concatenations): a literal
   of 256 000 octets costs a minute of parsing.  harness/props/c17.py evaluates
   the same descriptions in Python and asserts that they denote the real
   octets; CSpecSum cases cross-check the two evaluators (length + Adler-32). *)
From Coq Require Import Uint63.
From Model Require Import Base TableTypes C17Zip.
From Gen Require Import Tables.
Open Scope N_scope.

Inductive bspec :=
| SLit (b : bytes)
| SNum (n : N)                     (* octets as one hexadecimal numeral, see [nbytes] *)
| SCyc (pat : bytes) (n : N)       (* first n octets of pat pat pat ... *)
| SLcg (state : N) (n : N)         (* n octets of the LCG started in [state] *)
| SApp (a b : bspec).

(* 0x1<hex of the octets in reverse order>: the octets, first octet in the low
   bits, under a sentinel nibble 1 (numerals are parsed ~5x faster than strings) *)
Fixpoint pos_le_bytes (p : positive) (k : N) (cur : N) : bytes :=
  match p with
  | xH => if k =? 1 then [] else [cur + k]
  | xO q => if k =? 128 then cur :: pos_le_bytes q 1 0 else pos_le_bytes q (2 * k) cur
  | xI q => if k =? 128 then (cur + k) :: pos_le_bytes q 1 0 else pos_le_bytes q (2 * k) (cur + k)
  end.
Definition nbytes (n : N) : bytes := match n with Npos p => pos_le_bytes p 1 0 | N0 => [] end.

Definition cyc_step (pat : bytes) (st : bytes * bytes) : bytes * bytes :=
  let '(rem, acc) := st in
  match rem with
  | x :: r => (r, x :: acc)
  | [] => match pat with x :: r => (r, x :: acc) | [] => ([], acc) end
  end.
Definition cyc (pat : bytes) (n : N) : bytes :=
  rev_append (snd (N.iter n (cyc_step pat) (pat, []))) [].

(* machine integers (vm_compute evaluates them natively): N arithmetic costs
   ~100 us per octet here *)
Definition i2n (i : int) : N := Z.to_N (Uint63.to_Z i).
Definition i2n8 (i : int) : N := Z.to_N (Uint63.to_Z_rec 8 i).     (* i < 256 *)
Definition n2i (n : N) : int := Uint63.of_Z (Z.of_N n).
Definition lcg_next (x : int) : int :=
  Uint63.land (Uint63.add (Uint63.mul x 1103515245%uint63) 12345%uint63) 2147483647%uint63.
Definition lcg_step (st : int * bytes) : int * bytes :=
  let '(x, acc) := st in
  let y := lcg_next x in (y, i2n8 (Uint63.land (Uint63.lsr y 16%uint63) 255%uint63) :: acc).
Definition lcg (state n : N) : bytes := rev_append (snd (N.iter n lcg_step (n2i state, []))) [].

Fixpoint bs_eval (s : bspec) : bytes :=
  match s with
  | SLit b => b
  | SNum n => nbytes n
  | SCyc pat n => cyc pat n
  | SLcg st n => lcg st n
  | SApp a b => bs_eval a ++ bs_eval b
  end.

Fixpoint adler_acc (l : bytes) (a b : int) : N :=
  match l with
  | [] => i2n b * 65536 + i2n a
  | x :: r => let a' := Uint63.mod (Uint63.add a (n2i x)) 65521%uint63 in
              adler_acc r a' (Uint63.mod (Uint63.add b a') 65521%uint63)
  end.
Definition adler32 (l : bytes) : N := adler_acc l 1%uint63 0%uint63.

(* one recorded interaction of the implementation with zlib / the enc model *)
Inductive zrec :=
| RDecrypt                                              (* enc.decrypt was called *)
| RInflate (wbits : Z) (data : bspec) (max : Z) (ans : res (bspec * bool * bool))
| ROther.                                               (* any other use of zlib *)

Inductive c17case :=
| CDecomp (s : bspec) (events : list zrec) (expect : res bspec)
| CComp (p : bspec) (zc : bspec) (expect : bspec)
| CTail (allowed : option (list string)) (zip : option string) (dec : res bspec)
        (events : list zrec) (expect : res bspec)
| CContract (m : N) (full : option (bspec * bool)) (ans : res (bspec * bool * bool))
| CSpecSum (s : bspec) (len : N) (adler : N)
(* a history of decompress calls on one model object: streams in call order, every
   recorded zlib call of the whole history, the verdicts in call order *)
| CHist (streams : list bspec) (events : list zrec) (expect : list (res bspec))
(* one perform_encrypt on a message object: zlib.compress answer [zc] (if called),
   the plaintext argument recorded at enc.encrypt, obj.plaintext afterwards *)
| CEncTail (allowed : option (list string)) (zip : option string) (p : bspec)
           (zc : bspec) (compressed : bool) (enc_arg : bspec) (after : bspec).

Definition eval_ans (a : res (bspec * bool * bool)) : res zans :=
  match a with Ok (x, t, e) => Ok (bs_eval x, t, e) | Err e => Err e end.
Definition eval_res (a : res bspec) : res bytes :=
  match a with Ok x => Ok (bs_eval x) | Err e => Err e end.

Definition wbits_of (w : bool) : Z := if w then 15%Z else (-15)%Z.

(* the recorded zlib answers as an oracle: exactly one inflate call is expected *)
Definition inflates (events : list zrec) : list zrec :=
  filter (fun e => match e with RDecrypt => false | _ => true end) events.

Definition oracle_of (events : list zrec) : zoracle := fun w d m =>
  match inflates events with
  | [RInflate wb d' m' ans] =>
      if (wb =? wbits_of w)%Z && (m' =? Z.of_N m)%Z && beqb (bs_eval d') d
      then eval_ans ans else Err EOracleMiss
  | _ => Err EOracleMiss
  end.

(* the recorded answers of a whole history: the FIRST recorded call with the same
   (wbits, data, max_length) answers — a later call on the same stream that was
   answered differently in the implementation shows up as a disagreement *)
Fixpoint oracle_multi (events : list zrec) (w : bool) (d : bytes) (m : N) : res zans :=
  match events with
  | [] => Err EOracleMiss
  | RInflate wb d' m' ans :: rest =>
      if (wb =? wbits_of w)%Z && (m' =? Z.of_N m)%Z && beqb (bs_eval d') d
      then eval_ans ans else oracle_multi rest w d m
  | _ :: rest => oracle_multi rest w d m
  end.

Definition ev_match (e : ev) (r : zrec) : bool :=
  match e, r with
  | EvDecrypt, RDecrypt => true
  | EvInflate w s m, RInflate wb d m' _ =>
      (wb =? wbits_of w)%Z && (m' =? Z.of_N m)%Z && beqb (bs_eval d) s
  | _, _ => false
  end.
Fixpoint trace_match (t : list ev) (r : list zrec) : bool :=
  match t, r with
  | [], [] => true
  | e :: t', x :: r' => ev_match e x && trace_match t' r'
  | _, _ => false
  end.

Definition c17_check (c : c17case) : bool :=
  match c with
  | CDecomp s events expect =>
      let sb := bs_eval s in
      let '(r, t) := decompressL (oracle_of events) sb in
      res_eqb beqb r (eval_res expect) && trace_match t events
  | CComp p zc expect =>
      let pb := bs_eval p in let zb := bs_eval zc in
      beqb (compress (fun q => if beqb q pb then zb else []) pb) (bs_eval expect)
  | CTail allowed zip dec events expect =>
      let d := eval_res dec in
      let '(r, t) := decrypt_tailL (oracle_of events) (fun _ _ _ _ _ => d) allowed zip [] [] [] [] [] in
      res_eqb beqb r (eval_res expect) && trace_match t events
  | CContract m full ans =>
      z_inst_ok m (match full with Some (x, e) => Some (bs_eval x, e) | None => None end)
                (eval_ans ans)
  | CSpecSum s len adler =>
      let b := bs_eval s in (blen b =? len) && (adler32 b =? adler)
  | CHist streams events expect =>
      list_eqb (res_eqb beqb) (decompress_seq (oracle_multi events) (map bs_eval streams))
               (map eval_res expect) &&
      (length (inflates events) =? length streams)%nat &&
      forallb (fun e => match e with RInflate _ _ _ _ => true | _ => false end) (inflates events)
  | CEncTail allowed zip p zc compressed enc_arg after =>
      let pb := bs_eval p in let zb := bs_eval zc in
      let obj := {| em_plaintext := pb; em_zip := zip; em_ciphertext := []; em_tag := [] |} in
      let '(r, t) := encrypt_tailL (fun q => if beqb q pb then zb else [])
                                   (fun m _ _ _ => Ok (m, [])) allowed obj [] [] [] in
      match r with
      | Ok o => beqb (em_plaintext o) (bs_eval after) && beqb (em_ciphertext o) (bs_eval enc_arg) &&
                Bool.eqb compressed (match t with EvCompress _ :: _ => true | _ => false end)
      | Err _ => false
      end
  end.

(* model output in summary form: (length, Adler-32) of the result, trace length *)
Definition sum_res (r : res bytes) : res (N * N) :=
  match r with Ok b => Ok (blen b, adler32 b) | Err e => Err e end.
Definition c17_show (c : c17case) : res (N * N) * nat :=
  match c with
  | CDecomp s events _ =>
      let '(r, t) := decompressL (oracle_of events) (bs_eval s) in (sum_res r, length t)
  | CComp p zc _ =>
      let pb := bs_eval p in let zb := bs_eval zc in
      (sum_res (Ok (compress (fun q => if beqb q pb then zb else []) pb)), 0%nat)
  | CTail allowed zip dec events _ =>
      let d := eval_res dec in
      let '(r, t) := decrypt_tailL (oracle_of events) (fun _ _ _ _ _ => d) allowed zip [] [] [] [] [] in
      (sum_res r, length t)
  | CContract m full ans => (sum_res (match eval_ans ans with Ok (x, _, _) => Ok x | Err e => Err e end), 0%nat)
  | CSpecSum s _ _ => (sum_res (Ok (bs_eval s)), 0%nat)
  | CHist streams events _ =>
      (sum_res (match decompress_seq (oracle_multi events) (map bs_eval streams) with
                | r :: _ => r | [] => Err EOracleMiss end), length streams)
  | CEncTail allowed zip p zc _ _ _ =>
      let pb := bs_eval p in let zb := bs_eval zc in
      let obj := {| em_plaintext := pb; em_zip := zip; em_ciphertext := []; em_tag := [] |} in
      let '(r, t) := encrypt_tailL (fun q => if beqb q pb then zb else [])
                                   (fun m _ _ _ => Ok (m, [])) allowed obj [] [] [] in
      (sum_res (match r with Ok o => Ok (em_ciphertext o) | Err e => Err e end), length t)
  end.
