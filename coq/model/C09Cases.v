(* C09Cases.v — executable comparison of the jwt model with recorded behaviour
   of joserfc.jwt.encode / decode and joserfc.rfc7519.claims.convert_claims.

   The external parts (transport, JSON codec) are instantiated by one-point
   oracle tables holding what the real functions were observed to do in the
   recorded call (argument -> result); any other argument is EOracleMiss, so a
   model that hands a different header / payload to the transport than the
   implementation did disagrees with the record. *)
From Model Require Import Base PyVal C09Jwt.
Open Scope Z_scope.

(* recorded call of one transport function: which one (true = the JWE one), the key /
   algorithms / registry arguments it received *)
Inductive c09case :=
(* jwt.encode(h, c, key, algorithms, registry, encoder_cls): json.dumps record
   (encoder_cls, claims object as handed over -> octets | exception), transport record
   (is JWE function, header object at entry, payload, arguments, result, header object at
   exit), outcome, caller's header and claims objects after the call *)
| CEnc (h : hdr) (c : claims) (a : targs) (encoder_cls : option N)
       (dumps : option (option N * claims * res bytes))
       (tr : option (bool * hdr * bytes * targs * res bytes * hdr))
       (expect : res bytes) (h_after : hdr) (c_after : claims)
(* convert_claims(c, encoder_cls) *)
| CConv (c : claims) (encoder_cls : option N) (dumps : option (option N * claims * res bytes))
        (expect : res bytes) (c_after : claims)
(* jwt.decode(tok, key, algorithms, registry, decoder_cls): transport record, json.loads
   record (decoder_cls, payload -> value | exception), outcome *)
| CDec (tok : bytes) (a : targs) (decoder_cls : option N)
       (tr : option (bool * targs * res (hdr * bytes)))
       (loads : option (option N * bytes * res pv))
       (expect : res (hdr * pv))
       (wire : option hdr)   (* the JSON object in the token's first segment, parsed by the harness itself *)
       (forged : bool)       (* the harness made this token from a genuine one by changing authenticated octets
                                (or presents it with another key): no holder of the key ever produced it *)
(* calendar.timegm(t.utctimetuple()) as observed through convert_claims({"exp": t}) *)
| CNd (t : dtime) (expect : res Z).

Definition oeqb {A} (eqb : A -> A -> bool) (a b : option A) : bool :=
  match a, b with
  | Some x, Some y => eqb x y
  | None, None => true
  | _, _ => false
  end.

Definition dtime_eqb (a b : dtime) : bool :=
  (dt_y a =? dt_y b) && (dt_mo a =? dt_mo b) && (dt_d a =? dt_d b) && (dt_h a =? dt_h b)
  && (dt_mi a =? dt_mi b) && (dt_s a =? dt_s b) && (dt_us a =? dt_us b)
  && oeqb Z.eqb (dt_off a) (dt_off b).

Definition cval_eqb (a b : cval) : bool :=
  match a, b with
  | CV x, CV y => pv_eqb x y
  | CDt s, CDt t => dtime_eqb s t
  | CObj m, CObj n => N.eqb m n
  | _, _ => false
  end.

Definition claims_eqb (a b : claims) : bool :=
  list_eqb (fun x y => str_eqb (fst x) (fst y) && cval_eqb (snd x) (snd y)) a b.

Definition targs_eqb (a b : targs) : bool :=
  N.eqb (ta_key a) (ta_key b)
  && oeqb (list_eqb str_eqb) (ta_algs a) (ta_algs b)
  && oeqb (fun x y => Bool.eqb (fst x) (fst y) && N.eqb (snd x) (snd y)) (ta_reg a) (ta_reg b).

Definition pt_dumps (r : option (option N * claims * res bytes)) : option N -> claims -> res bytes :=
  fun e c => match r with
             | Some (ae, ac, out) => if oeqb N.eqb e ae && claims_eqb c ac then out else Err EOracleMiss
             | None => Err EOracleMiss
             end.

(* the recorded transport call answers only for the function that was really called *)
Definition pt_tenc (jwe : bool) (r : option (bool * hdr * bytes * targs * res bytes * hdr))
  : hdr -> bytes -> targs -> res bytes * hdr :=
  fun w p a => match r with
               | Some (j, aw, ap, aa, out, w') =>
                   if Bool.eqb j jwe && hdr_eqb w aw && beqb p ap && targs_eqb a aa
                   then (out, w') else (Err EOracleMiss, w)
               | None => (Err EOracleMiss, w)
               end.

Definition pt_tdec (jwe : bool) (tok : bytes) (r : option (bool * targs * res (hdr * bytes)))
  : bytes -> targs -> res (hdr * bytes) :=
  fun t a => match r with
             | Some (j, aa, out) =>
                 if Bool.eqb j jwe && beqb t tok && targs_eqb a aa then out else Err EOracleMiss
             | None => Err EOracleMiss
             end.

Definition pt_loads (r : option (option N * bytes * res pv)) : option N -> bytes -> res pv :=
  fun d p => match r with
             | Some (ad, a, out) => if oeqb N.eqb d ad && beqb p a then out else Err EOracleMiss
             | None => Err EOracleMiss
             end.

Definition tok_eqb (a b : hdr * pv) : bool := hdr_eqb (fst a) (fst b) && pv_eqb (snd a) (snd b).

Definition run_enc h cl a e d tr : enc_out :=
  jwt_encode (pt_dumps d) (pt_tenc false tr) (pt_tenc true tr) h cl a e.
Definition run_dec tok a d tr l : res (hdr * pv) :=
  jwt_decode (pt_loads l) (pt_tdec false tok tr) (pt_tdec true tok tr) tok a d.

(* contract of the transport used by c09_decode_header_is_wire_header, checked on the record:
   the header a transport hands back for an accepted token is the protected header that is
   in the token (nothing added on the verifying / decrypting side, e.g. no kid of a key picked
   from a key set) *)
Definition wire_contract (tr : option (bool * targs * res (hdr * bytes))) (wire : option hdr) : bool :=
  match tr, wire with
  | Some (_, _, Ok (h, _)), Some w => hdr_eqb h w
  | Some (_, _, Ok _), None => false
  | _, _ => true
  end.

(* contract of the transport used by c09_typ / c09_jwe_header_kept, checked on the record: the
   dict the transport was given is, after the call, what it was plus members with new names
   (kid of a picked key, epk, p2s, iv/tag ...): no given member is dropped or changed, whatever
   the payload *)
Fixpoint hdr_prefix (w w' : hdr) : option hdr :=
  match w, w' with
  | [], r => Some r
  | (k, v) :: a, (k2, v2) :: b => if str_eqb k k2 && pv_eqb v v2 then hdr_prefix a b else None
  | _ :: _, [] => None
  end.
Definition header_kept_contract (tr : option (bool * hdr * bytes * targs * res bytes * hdr)) : bool :=
  match tr with
  | Some (_, w, _, _, Ok _, w') =>
      match hdr_prefix w w' with
      | Some extra => forallb (fun kv => negb (dmem w (fst kv))) extra
      | None => false
      end
  | _ => true
  end.

(* the transport verdict for a forged token is "reject": contract used by
   c09_forged_token_never_decodes, compared with the recorded verdict of the real transport *)
Definition forged_contract (tr : option (bool * targs * res (hdr * bytes))) (forged : bool) : bool :=
  match tr, forged with
  | Some (_, _, Ok _), true => false
  | _, _ => true
  end.

Definition c09_check (c : c09case) : bool :=
  match c with
  | CEnc h cl a e d tr ex ha ca =>
      let o := run_enc h cl a e d tr in
      res_eqb beqb (eo_result o) ex && hdr_eqb (eo_header o) ha && claims_eqb (eo_claims o) ca
      && header_kept_contract tr
  | CConv cl e d ex ca =>
      let '(c', r) := convert_claims_g (pt_dumps d e) cl in
      res_eqb beqb r ex && claims_eqb c' ca
  | CDec tok a d tr l ex w f =>
      res_eqb tok_eqb (run_dec tok a d tr l) ex && wire_contract tr w && forged_contract tr f
      && (if f then match run_dec tok a d tr l with Ok _ => false | Err _ => true end else true)
  | CNd t e => res_eqb Z.eqb (numericdate t) e
  end.

Inductive c09out :=
| OEnc (r : res bytes) (h w : hdr) (c : claims)
| OConv (r : res bytes) (c : claims)
| ODec (r : res (hdr * pv))
| ONd (r : res Z).

Definition c09_show (c : c09case) : c09out :=
  match c with
  | CEnc h cl a e d tr _ _ _ =>
      let o := run_enc h cl a e d tr in
      OEnc (eo_result o) (eo_header o) (eo_work o) (eo_claims o)
  | CConv cl e d _ _ => let '(c', r) := convert_claims_g (pt_dumps d e) cl in OConv r c'
  | CDec tok a d tr l _ _ _ => ODec (run_dec tok a d tr l)
  | CNd t _ => ONd (numericdate t)
  end.
