(* C09Cases.v — executable comparison of the jwt model with recorded behaviour
   of joserfc.jwt.encode / decode and joserfc.rfc7519.claims.convert_claims.

   The external parts (transport, JSON codec) are instantiated by one-point
   oracle tables holding what the real functions were observed to do in the
   recorded call (argument -> result); any other argument is EOracleMiss, so a
   model that hands a different header / payload to the transport than the
   implementation did disagrees with the record. *)
From Model Require Import Base PyVal C09Jwt.
Open Scope Z_scope.

Inductive c09case :=
(* jwt.encode(h, c, key, ...): json.dumps record (object -> octets | exception),
   transport record (header object at entry, payload, result, header object at
   exit), outcome, caller's header and claims objects after the call *)
| CEnc (h : hdr) (c : claims)
       (dumps : option (pv * res bytes))
       (tr : option (hdr * bytes * res bytes * hdr))
       (expect : res bytes) (h_after : hdr) (c_after : claims)
(* convert_claims(c) *)
| CConv (c : claims) (dumps : option (pv * res bytes)) (expect : res bytes) (c_after : claims)
(* jwt.decode(tok, key, ...): transport record, json.loads record, outcome *)
| CDec (tok : bytes) (tr : res (hdr * bytes)) (loads : option (bytes * res pv))
       (expect : res (hdr * pv))
(* calendar.timegm(t.utctimetuple()) as observed through convert_claims({"exp": t}) *)
| CNd (t : dtime) (expect : res Z).

Definition oeqb {A} (eqb : A -> A -> bool) (a b : option A) : bool :=
  match a, b with
  | Some x, Some y => eqb x y
  | None, None => true
  | _, _ => false
  end.

Definition dtime_eqb (a b : dtime) : bool :=
  (dt_y a =? dt_y b) && (dt_mo a =? dt_mo b) && (dt_d a =? dt_d b) && (dt_h a =? dt_h b)
  && (dt_mi a =? dt_mi b) && (dt_s a =? dt_s b) && (dt_us a =? dt_us b)
  && oeqb Z.eqb (dt_off a) (dt_off b).

Definition cval_eqb (a b : cval) : bool :=
  match a, b with
  | CV x, CV y => pv_eqb x y
  | CDt s, CDt t => dtime_eqb s t
  | _, _ => false
  end.

Definition claims_eqb (a b : claims) : bool :=
  list_eqb (fun x y => str_eqb (fst x) (fst y) && cval_eqb (snd x) (snd y)) a b.

Definition pt_dumps (r : option (pv * res bytes)) : pv -> res bytes :=
  fun v => match r with
           | Some (a, out) => if pv_eqb v a then out else Err EOracleMiss
           | None => Err EOracleMiss
           end.

Definition pt_tenc (r : option (hdr * bytes * res bytes * hdr)) : hdr -> bytes -> res bytes * hdr :=
  fun w p => match r with
             | Some (aw, ap, out, w') =>
                 if hdr_eqb w aw && beqb p ap then (out, w') else (Err EOracleMiss, w)
             | None => (Err EOracleMiss, w)
             end.

Definition pt_tdec (tok : bytes) (r : res (hdr * bytes)) : bytes -> res (hdr * bytes) :=
  fun t => if beqb t tok then r else Err EOracleMiss.

Definition pt_loads (r : option (bytes * res pv)) : bytes -> res pv :=
  fun p => match r with
           | Some (a, out) => if beqb p a then out else Err EOracleMiss
           | None => Err EOracleMiss
           end.

Definition tok_eqb (a b : hdr * pv) : bool := hdr_eqb (fst a) (fst b) && pv_eqb (snd a) (snd b).

Definition c09_check (c : c09case) : bool :=
  match c with
  | CEnc h cl d tr e ha ca =>
      let o := encode (pt_dumps d) (pt_tenc tr) h cl in
      res_eqb beqb (eo_result o) e && hdr_eqb (eo_header o) ha && claims_eqb (eo_claims o) ca
  | CConv cl d e ca =>
      let '(c', r) := convert_claims (pt_dumps d) cl in
      res_eqb beqb r e && claims_eqb c' ca
  | CDec tok tr l e => res_eqb tok_eqb (decode (pt_loads l) (pt_tdec tok tr) tok) e
  | CNd t e => res_eqb Z.eqb (numericdate t) e
  end.

Inductive c09out :=
| OEnc (r : res bytes) (h w : hdr) (c : claims)
| OConv (r : res bytes) (c : claims)
| ODec (r : res (hdr * pv))
| ONd (r : res Z).

Definition c09_show (c : c09case) : c09out :=
  match c with
  | CEnc h cl d tr _ _ _ =>
      let o := encode (pt_dumps d) (pt_tenc tr) h cl in
      OEnc (eo_result o) (eo_header o) (eo_work o) (eo_claims o)
  | CConv cl d _ _ => let '(c', r) := convert_claims (pt_dumps d) cl in OConv r c'
  | CDec tok tr l _ => ODec (decode (pt_loads l) (pt_tdec tok tr) tok)
  | CNd t _ => ONd (numericdate t)
  end.
