(* C18Cases.v — executable comparison of the draw-discipline model with what
   the intercepted implementation did (correspondence check).

   The harness intercepts secrets.token_bytes (per call site) and the native
   key generators, keeps ONE global log of draws for the whole process, and
   for every produced token looks every emitted value (IV, recovered CEK,
   GCM-KW iv, p2s, epk) up in that log.  An observation is the position of
   the matching draw relative to the first draw of the call. *)
From Model Require Import Base TableTypes C18Model.
From Gen Require Import Tables.
Open Scope string_scope.
Open Scope list_scope.
Open Scope N_scope.

Inductive obs :=
| ONone              (* member absent *)
| OGiven             (* equals the value supplied by the caller (key, header p2s, pre-set epk) *)
| ODraw (rel : N)    (* equals the rel-th draw of this call *)
| OStale             (* equals a draw made before this call *)
| OUnknown.          (* equals no logged draw *)

Definition obs_eqb (a b : obs) : bool :=
  match a, b with
  | ONone, ONone | OGiven, OGiven | OStale, OStale | OUnknown, OUnknown => true
  | ODraw x, ODraw y => x =? y
  | _, _ => false
  end.

Record orecip := { ob_epk : obs; ob_gcm : obs; ob_p2s : obs; ob_p2c : option N; ob_cek : obs }.

Inductive c18case :=
| CEncrypt (w0 reps : N) (m : msg) (err : option exn) (draws : list (site * N))
           (iv : obs) (rs : list orecip)
| CGen (w0 reps native_min : N) (c : call) (err : option exn) (draws : list (site * N))
       (emitted : obs)
(* JWKRegistry.generate_key ([count] = None) / KeySet.generate_key_set ([count] = Some k):
   the origin of the material of every returned key, in the order of the set *)
| CGenSet (w0 native_min : N) (g : genspec) (private : bool) (count : option N) (err : option exn)
          (draws : list (site * N)) (emitted : list obs).

Definition rel (w : world) (d : draw) : obs :=
  if w_ctr w <=? d_idx d then ODraw (d_idx d - w_ctr w) else OStale.

Definition exp_epk w v :=
  match v_epk v with None => ONone | Some EpkPreset => OGiven | Some (EpkDrawn d) => rel w d end.
Definition exp_gcm w v := match v_gcm_iv v with None => ONone | Some d => rel w d end.
Definition exp_p2s w v :=
  match v_p2s v, v_p2c v with
  | Some d, _ => rel w d
  | None, Some _ => OGiven
  | None, None => ONone
  end.
Definition exp_cek w c :=
  match c with CekDrawn d => rel w d | CekKey => OGiven | CekAgreed => OUnknown | CekNone => ONone end.

Definition opt_eqb {A} (eqb : A -> A -> bool) (a b : option A) : bool :=
  match a, b with Some x, Some y => eqb x y | None, None => true | _, _ => false end.

Definition shape (ds : list draw) : list (site * N) := map (fun d => (d_site d, d_size d)) ds.
Definition shape_eqb (a b : list (site * N)) : bool :=
  list_eqb (fun x y => site_eqb (fst x) (fst y) && (snd x =? snd y)) a b.

Definition orecip_ok (w : world) (c : cek_src) (v : rview) (o : orecip) : bool :=
  obs_eqb (exp_epk w v) (ob_epk o) && obs_eqb (exp_gcm w v) (ob_gcm o)
  && obs_eqb (exp_p2s w v) (ob_p2s o) && opt_eqb N.eqb (v_p2c v) (ob_p2c o)
  && obs_eqb (exp_cek w c) (ob_cek o).

Fixpoint orecips_ok w c (vs : list rview) (os : list orecip) : bool :=
  match vs, os with
  | [], [] => true
  | v :: vs', o :: os' => orecip_ok w c v o && orecips_ok w c vs' os'
  | _, _ => false
  end.

Definition err_ok {A} (r : res A) (e : option exn) : bool :=
  match r, e with
  | Ok _, None => true
  | Err x, Some y => exn_eqb x y
  | _, _ => false
  end.

(* one model run compared with the recorded behaviour; returns the next world *)
Definition enc_once (m : msg) (err : option exn) (draws : list (site * N)) (iv : obs)
           (rs : list orecip) (w : world) : bool * world :=
  let r := encrypt jwe_alg_table_drafts jwe_enc_table_drafts m w in
  (err_ok (o_res r) err && shape_eqb (shape (o_draws r)) draws
   && match o_res r with
      | Ok t => obs_eqb (rel w (t_iv t)) iv && orecips_ok w (t_cek t) (t_recips t) rs
      | Err _ => true
      end, o_world r).

Definition gen_once (native_min : N) (c : call) (err : option exn) (draws : list (site * N))
           (emitted : obs) (w : world) : bool * world :=
  let r := match c with
           | CallGenOct b p => gen_oct b p w
           | CallGenRSA b => gen_rsa native_min b w
           | CallGenEC crv => gen_ec crv w
           | CallGenOKP crv => gen_okp crv w
           | CallEncrypt _ | CallGenSet _ _ _ => fail EAssert w
           end in
  (err_ok (o_res r) err && shape_eqb (shape (o_draws r)) draws
   && match o_res r with Ok d => obs_eqb (rel w d) emitted | Err _ => true end, o_world r).

Definition genset_once (nm : N) (g : genspec) (private : bool) (count : option N) (err : option exn)
           (draws : list (site * N)) (emitted : list obs) (w : world) : bool :=
  let r := match count with
           | None => bindM (gen_one nm g private) (fun d => ret [d]) w
           | Some k => gen_key_set nm g private (N.to_nat k) w
           end in
  err_ok (o_res r) err && shape_eqb (shape (o_draws r)) draws
  && match o_res r with
     | Ok ds => list_eqb obs_eqb (map (rel w) ds) emitted
     | Err _ => true
     end.

Definition iterate (n : N) (f : world -> bool * world) (w0 : N) : bool :=
  fst (N.iter n (fun st => let '(b, w) := st in
                           let '(b', w') := f w in (b && b', w'))
              (true, {| w_ctr := w0 |})).

Definition c18_check (c : c18case) : bool :=
  match c with
  | CEncrypt w0 reps m err draws iv rs => (0 <? reps) && iterate reps (enc_once m err draws iv rs) w0
  | CGen w0 reps nm c err draws em => (0 <? reps) && iterate reps (gen_once nm c err draws em) w0
  | CGenSet w0 nm g p k err draws em => genset_once nm g p k err draws em {| w_ctr := w0 |}
  end.

(* what the model predicts for the first repetition (printed for failing cases) *)
Definition c18_show (c : c18case) :=
  match c with
  | CEncrypt w0 _ m _ _ _ _ =>
      let w := {| w_ctr := w0 |} in
      let r := encrypt jwe_alg_table_drafts jwe_enc_table_drafts m w in
      (match o_res r with Ok _ => None | Err e => Some e end, shape (o_draws r),
       match o_res r with
       | Ok t => (rel w (t_iv t),
                  map (fun v => (exp_epk w v, exp_gcm w v, exp_p2s w v, v_p2c v, exp_cek w (t_cek t))) (t_recips t))
       | Err _ => (ONone, [])
       end)
  | CGen w0 _ nm c _ _ _ =>
      let w := {| w_ctr := w0 |} in
      let r := match c with
               | CallGenOct b p => gen_oct b p w
               | CallGenRSA b => gen_rsa nm b w
               | CallGenEC crv => gen_ec crv w
               | CallGenOKP crv => gen_okp crv w
               | CallEncrypt _ | CallGenSet _ _ _ => fail EAssert w
               end in
      (match o_res r with Ok _ => None | Err e => Some e end, shape (o_draws r),
       (match o_res r with Ok d => rel w d | Err _ => ONone end, []))
  | CGenSet w0 nm g p k _ _ _ =>
      let w := {| w_ctr := w0 |} in
      let r := match k with
               | None => bindM (gen_one nm g p) (fun d => ret [d]) w
               | Some k => gen_key_set nm g p (N.to_nat k) w
               end in
      (match o_res r with Ok _ => None | Err e => Some e end, shape (o_draws r),
       (ONone, map (fun d => (rel w d, ONone, ONone, @None N, ONone))
                   (match o_res r with Ok ds => ds | Err _ => [] end)))
  end.
