(* C13Json.v — json.dumps(v, ensure_ascii=True, separators=(',', ':')) on the
   [pv] universe (CPython 3.12 json.encoder: py_encode_basestring_ascii /
   c_make_encoder), and str.encode("utf-8").
   Floats are not modelled (float.__repr__): EOracleMiss; bytes raise TypeError. *)
From Model Require Export Base PyVal IntCodec.
Open Scope N_scope.

(* lower-case hexadecimal digit *)
Definition hexdig (v : N) : N := if v <? 10 then v + 48 else v + 87.

(* \uXXXX *)
Definition u4 (c : N) : list N :=
  [92; 117; hexdig ((c / 4096) mod 16); hexdig ((c / 256) mod 16);
   hexdig ((c / 16) mod 16); hexdig (c mod 16)].

(* ESCAPE_ASCII: quotation mark, reverse solidus and everything outside
   space..tilde are escaped (ESCAPE_DCT short forms, else \uXXXX); astral code
   points as a UTF-16 surrogate pair *)
Definition esc_char (c : N) : list N :=
  if c =? 34 then [92; 34]
  else if c =? 92 then [92; 92]
  else if c =? 10 then [92; 110]
  else if c =? 13 then [92; 114]
  else if c =? 9 then [92; 116]
  else if c =? 8 then [92; 98]
  else if c =? 12 then [92; 102]
  else if (32 <=? c) && (c <=? 126) then [c]
  else if c <? 65536 then u4 c
  else let v := c - 65536 in
       u4 (55296 + (v / 1024) mod 1024) ++ u4 (56320 + v mod 1024).

Definition jstr (s : str) : list N := 34 :: flat_map esc_char s ++ [34].

(* int.__repr__ *)
Definition dec_N (n : N) : list N :=
  match digits 10 n with [] => [48] | d => map (fun x => x + 48) d end.
Definition dec_Z (z : Z) : list N :=
  if (z <? 0)%Z then 45 :: dec_N (Z.abs_N z) else dec_N (Z.to_N z).

Fixpoint jdumps (v : pv) : res (list N) :=
  match v with
  | PNone => Ok [110; 117; 108; 108]
  | PBool b => Ok (if b then [116; 114; 117; 101] else [102; 97; 108; 115; 101])
  | PInt z => Ok (dec_Z z)
  | PFloat _ => Err EOracleMiss
  | PStr s => Ok (jstr s)
  | PBytes _ => Err EType
  | PList l =>
      do body <- (fix go (l : list pv) (first : bool) {struct l} : res (list N) :=
                    match l with
                    | [] => Ok []
                    | x :: r =>
                        do a <- jdumps x;
                        do b <- go r false;
                        Ok ((if first then [] else [44]) ++ a ++ b)
                    end) l true;
      Ok (91 :: body ++ [93])
  | PDict d =>
      do body <- (fix go (d : list (str * pv)) (first : bool) {struct d} : res (list N) :=
                    match d with
                    | [] => Ok []
                    | (k, x) :: r =>
                        do a <- jdumps x;
                        do b <- go r false;
                        Ok ((if first then [] else [44]) ++ jstr k ++ 58 :: a ++ b)
                    end) d true;
      Ok (123 :: body ++ [125])
  end.

(* the two inner loops as stand-alone functions (proofs/C13Proofs.v shows they
   are what [jdumps] runs) *)
Fixpoint jdict_body (d : list (str * pv)) (first : bool) : res (list N) :=
  match d with
  | [] => Ok []
  | (k, x) :: r =>
      do a <- jdumps x;
      do b <- jdict_body r false;
      Ok ((if first then [] else [44]) ++ jstr k ++ 58 :: a ++ b)
  end.

(* str.encode('utf-8'): lone surrogates raise UnicodeEncodeError (a ValueError) *)
Definition utf8_char (c : N) : res (list N) :=
  if c <? 128 then Ok [c]
  else if c <? 2048 then Ok [192 + c / 64; 128 + c mod 64]
  else if (55296 <=? c) && (c <=? 57343) then Err EValue
  else if c <? 65536 then Ok [224 + c / 4096; 128 + (c / 64) mod 64; 128 + c mod 64]
  else Ok [240 + c / 262144; 128 + (c / 4096) mod 64; 128 + (c / 64) mod 64; 128 + c mod 64].

Fixpoint utf8 (s : str) : res bytes :=
  match s with
  | [] => Ok []
  | c :: r => do a <- utf8_char c; do b <- utf8 r; Ok (a ++ b)
  end.
