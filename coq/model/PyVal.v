(* PyVal.v — the dynamic universe of Python/JSON values that flow through token
   handling, with the handful of Python operations the library applies to
   attacker- or caller-controlled values ("Python semantics kernel").
   Strings are lists of code points, octet strings lists of octets.
   Dicts are association lists with unique keys (the harness builds them from
   Python dicts, whose keys are unique); lookup takes the first match. *)
From Model Require Export Base.
Open Scope N_scope.

(* finite floats are exact rationals num/den (den a power of two, as given by
   float.as_integer_ratio); NaN is kept so that models can say what the code
   does with it *)
Inductive flt := FFin (num : Z) (den : positive) | FInf (neg : bool) | FNan.

Definition str := list N.

Inductive pv :=
| PNone
| PBool (b : bool)
| PInt (z : Z)
| PFloat (f : flt)
| PStr (s : str)
| PBytes (s : bytes)
| PList (l : list pv)
| PDict (d : list (str * pv)).

Definition str_eqb (a b : str) : bool := list_eqb N.eqb a b.
Lemma str_eqb_eq a b : str_eqb a b = true <-> a = b.
Proof. apply list_eqb_eq. intros; apply N.eqb_eq. Qed.
Lemma str_eqb_refl a : str_eqb a a = true.
Proof. apply str_eqb_eq. reflexivity. Qed.
Lemma str_eqb_neq a b : str_eqb a b = false <-> a <> b.
Proof.
  split; intro H.
  - intro E. apply str_eqb_eq in E. congruence.
  - destruct (str_eqb a b) eqn:E; [apply str_eqb_eq in E; contradiction | reflexivity].
Qed.

(* ---------- dictionaries ---------- *)
Fixpoint dget {A} (d : list (str * A)) (k : str) : option A :=
  match d with
  | [] => None
  | (k', v) :: r => if str_eqb k' k then Some v else dget r k
  end.
Definition dmem {A} (d : list (str * A)) (k : str) : bool :=
  match dget d k with Some _ => true | None => false end.
Definition dkeys {A} (d : list (str * A)) : list str := map fst d.
Fixpoint ddel {A} (d : list (str * A)) (k : str) : list (str * A) :=
  match d with
  | [] => []
  | (k', v) :: r => if str_eqb k' k then ddel r k else (k', v) :: ddel r k
  end.
(* d[k] = v : replaces in place when present (Python keeps the position), appends otherwise *)
Fixpoint dset {A} (d : list (str * A)) (k : str) (v : A) : list (str * A) :=
  match d with
  | [] => [(k, v)]
  | (k', v') :: r => if str_eqb k' k then (k', v) :: r else (k', v') :: dset r k v
  end.
(* d.update(e) *)
Definition dupdate {A} (d e : list (str * A)) : list (str * A) :=
  fold_left (fun acc kv => dset acc (fst kv) (snd kv)) e d.

Fixpoint str_mem (k : str) (l : list str) : bool :=
  match l with [] => false | x :: r => str_eqb x k || str_mem k r end.

Lemma str_mem_In k l : str_mem k l = true <-> In k l.
Proof.
  induction l as [|x l IH]; simpl.
  - split; [discriminate | tauto].
  - rewrite orb_true_iff, IH, str_eqb_eq. tauto.
Qed.

Fixpoint keys_unique (l : list str) : bool :=
  match l with [] => true | k :: r => negb (str_mem k r) && keys_unique r end.

Lemma dget_dset_same {A} (d : list (str * A)) k v : dget (dset d k v) k = Some v.
Proof.
  induction d as [|[k' v'] d IH]; simpl.
  - rewrite str_eqb_refl. reflexivity.
  - destruct (str_eqb k' k) eqn:E; simpl; rewrite E; [reflexivity | exact IH].
Qed.

Lemma dget_dset_other {A} (d : list (str * A)) k k2 v :
  k <> k2 -> dget (dset d k v) k2 = dget d k2.
Proof.
  intro N. induction d as [|[k' v'] d IH]; simpl.
  - destruct (str_eqb k k2) eqn:E; [apply str_eqb_eq in E; contradiction | reflexivity].
  - destruct (str_eqb k' k) eqn:E; simpl.
    + apply str_eqb_eq in E. subst k'.
      destruct (str_eqb k k2) eqn:E2; [apply str_eqb_eq in E2; contradiction | reflexivity].
    + destruct (str_eqb k' k2); [reflexivity | exact IH].
Qed.

(* ---------- numbers ---------- *)
Definition b2z (b : bool) : Z := if b then 1%Z else 0%Z.

(* three-way comparison of a float with an integer, exact as in CPython;
   None for NaN (every ordered comparison with NaN is False) *)
Definition flt_cmp_Z (f : flt) (z : Z) : option comparison :=
  match f with
  | FNan => None
  | FInf true => Some Lt
  | FInf false => Some Gt
  | FFin n d => Some (Z.compare n (z * Z.pos d))
  end.

Definition flt_cmp (f g : flt) : option comparison :=
  match f, g with
  | FNan, _ | _, FNan => None
  | FInf a, FInf b => Some (if Bool.eqb a b then Eq else if a then Lt else Gt)
  | FInf true, FFin _ _ => Some Lt
  | FInf false, FFin _ _ => Some Gt
  | FFin _ _, FInf true => Some Gt
  | FFin _ _, FInf false => Some Lt
  | FFin n d, FFin m e => Some (Z.compare (n * Z.pos e) (m * Z.pos d))
  end.

(* numeric view of a value for == and ordering: bool and int are integers *)
Inductive num := NZ (z : Z) | NF (f : flt).
Definition as_num (v : pv) : option num :=
  match v with
  | PBool b => Some (NZ (b2z b))
  | PInt z => Some (NZ z)
  | PFloat f => Some (NF f)
  | _ => None
  end.
Definition num_cmp (a b : num) : option comparison :=
  match a, b with
  | NZ x, NZ y => Some (Z.compare x y)
  | NF f, NZ y => flt_cmp_Z f y
  | NZ x, NF g => option_map CompOpp (flt_cmp_Z g x)
  | NF f, NF g => flt_cmp f g
  end.
Definition num_eqb (a b : num) : bool :=
  match num_cmp a b with Some Eq => true | _ => false end.
Definition num_ltb (a b : num) : bool :=
  match num_cmp a b with Some Lt => true | _ => false end.
Definition num_gtb (a b : num) : bool :=
  match num_cmp a b with Some Gt => true | _ => false end.

(* ---------- Python == ---------- *)
Fixpoint py_eq (a b : pv) {struct a} : bool :=
  match a, b with
  | PNone, PNone => true
  | PStr s, PStr t => str_eqb s t
  | PBytes s, PBytes t => beqb s t
  | PList l, PList m =>
      (fix go (l : list pv) (m : list pv) {struct l} : bool :=
         match l, m with
         | [], [] => true
         | x :: l', y :: m' => py_eq x y && go l' m'
         | _, _ => false
         end) l m
  | PDict d, PDict e =>
      Nat.eqb (length d) (length e) &&
      (fix go (d : list (str * pv)) {struct d} : bool :=
         match d with
         | [] => true
         | (k, v) :: d' =>
             match dget e k with Some w => py_eq v w | None => false end && go d'
         end) d
  | (PBool _ | PInt _ | PFloat _), (PBool _ | PInt _ | PFloat _) =>
      match as_num a, as_num b with
      | Some x, Some y => num_eqb x y
      | _, _ => false
      end
  | _, _ => false
  end.

(* x in list *)
Definition list_contains (l : list pv) (x : pv) : bool := existsb (fun y => py_eq y x) l.

(* bool(v) *)
Definition py_truth (v : pv) : bool :=
  match v with
  | PNone => false
  | PBool b => b
  | PInt z => negb (z =? 0)%Z
  | PFloat (FFin n _) => negb (n =? 0)%Z
  | PFloat _ => true
  | PStr s => match s with [] => false | _ => true end
  | PBytes s => match s with [] => false | _ => true end
  | PList l => match l with [] => false | _ => true end
  | PDict d => match d with [] => false | _ => true end
  end.

(* hashable(k): what may be used as a dict key / looked up in a dict or set *)
Definition py_hashable (k : pv) : bool :=
  match k with PList _ | PDict _ => false | _ => true end.

(* is s a (contiguous) substring of t *)
Fixpoint is_prefix (s t : str) : bool :=
  match s, t with
  | [], _ => true
  | a :: s', b :: t' => (a =? b) && is_prefix s' t'
  | _ :: _, [] => false
  end.
Fixpoint is_substr (s t : str) : bool :=
  is_prefix s t || match t with [] => false | _ :: t' => is_substr s t' end.

(* `k in v` *)
Definition py_in (k v : pv) : res bool :=
  match v with
  | PDict d =>
      match k with
      | PStr s => Ok (dmem d s)
      | PList _ | PDict _ => Err EType
      | _ => Ok false            (* keys are strings: nothing else is present *)
      end
  | PList l => Ok (list_contains l k)
  | PStr t => match k with PStr s => Ok (is_substr s t) | _ => Err EType end
  | PBytes t =>
      match k with
      | PBytes s => Ok (is_substr s t)
      | PInt z => if ((0 <=? z) && (z <? 256))%Z then Ok (existsb (N.eqb (Z.to_N z)) t) else Err EValue
      | PBool b => Ok (existsb (N.eqb (Z.to_N (b2z b))) t)
      | _ => Err EType
      end
  | _ => Err EType               (* None, bool, int, float are not containers *)
  end.

(* v[k] with k a str *)
Definition py_getitem_str (v : pv) (k : str) : res pv :=
  match v with
  | PDict d => match dget d k with Some x => Ok x | None => Err EKey end
  | PList _ | PStr _ | PBytes _ => Err EType     (* indices must be integers *)
  | _ => Err EType                                 (* not subscriptable *)
  end.

(* v.get(k) *)
Definition py_get_str (v : pv) (k : str) : res pv :=
  match v with
  | PDict d => match dget d k with Some x => Ok x | None => Ok PNone end
  | _ => Err EAttr
  end.

(* iteration: for x in v *)
Definition py_iter (v : pv) : res (list pv) :=
  match v with
  | PList l => Ok l
  | PDict d => Ok (map (fun kv => PStr (fst kv)) d)
  | PStr s => Ok (map (fun c => PStr [c]) s)
  | PBytes s => Ok (map (fun c => PInt (Z.of_N c)) s)
  | _ => Err EType
  end.

Definition is_dict (v : pv) : bool := match v with PDict _ => true | _ => false end.
Definition is_str (v : pv) : bool := match v with PStr _ => true | _ => false end.
Definition is_list (v : pv) : bool := match v with PList _ => true | _ => false end.

(* JSON values: what json.loads can return (no bytes; NaN/Infinity excluded) *)
Fixpoint is_json (v : pv) : bool :=
  match v with
  | PNone | PBool _ | PInt _ | PStr _ => true
  | PFloat (FFin _ _) => true
  | PFloat _ => false
  | PBytes _ => false
  | PList l => (fix go (l : list pv) : bool := match l with [] => true | x :: r => is_json x && go r end) l
  | PDict d => (fix go (d : list (str * pv)) : bool :=
                  match d with [] => true | (_, x) :: r => is_json x && go r end) d
  end.

Lemma py_eq_str s t : py_eq (PStr s) (PStr t) = str_eqb s t.
Proof. reflexivity. Qed.
