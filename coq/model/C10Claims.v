(* C10Claims.v — Impl model of joserfc/rfc7519/registry.py:
     ClaimsRegistry.__init__ / validate / check_value,
     JWTClaimsRegistry.__init__ / validate_aud / validate_exp / validate_nbf /
     validate_iat, _validate_numeric_time.
   Values are the dynamic [pv] universe of PyVal.v.  A claims request
   (`**kwargs` of the constructor) is an association list claim name -> option
   dict; an option dict is the record [copt] of its four members, each
   [None] when the key is absent and [Some v] when it is present with value v
   (so `{"value": None}` is [Some PNone]: a non-empty dict whose .get("value")
   is None).  Dicts are association lists with unique keys (PyVal.v), hence
   "for key in claims: value = claims[key]" is iteration over the pairs. *)
From Model Require Import Base PyVal.
From Gen Require Import TablesC10.
Open Scope Z_scope.

Record copt := { o_essential : option pv; o_allow_blank : option pv;
                 o_value : option pv; o_values : option pv }.

Definition copts := list (str * copt).
Definition cclaims := list (str * pv).

(* option.get(name) *)
Definition oget (f : option pv) : pv := match f with Some v => v | None => PNone end.
Definition is_some {A} (x : option A) : bool := match x with Some _ => true | None => false end.
(* bool(option): a dict is truthy iff it has a key *)
Definition opt_truthy (o : copt) : bool :=
  is_some (o_essential o) || is_some (o_allow_blank o) || is_some (o_value o) || is_some (o_values o).

Definition is_none (v : pv) : bool := match v with PNone => true | _ => false end.

Definition s_aud : str := asc "aud".
Definition s_exp : str := asc "exp".
Definition s_nbf : str := asc "nbf".
Definition s_iat : str := asc "iat".

(* which registered claim a name is *)
Inductive ckind := KAud | KExp | KNbf | KIat | KOther.
Definition kind_of (k : str) : ckind :=
  if str_eqb s_aud k then KAud else if str_eqb s_exp k then KExp
  else if str_eqb s_nbf k then KNbf else if str_eqb s_iat k then KIat else KOther.

Definition invalid_claim : res unit := Err (EJose InvalidClaimError).

(* ClaimsRegistry.check_value(claim_name, value) *)
Definition check_value (opts : copts) (name : str) (v : pv) : res unit :=
  match dget opts name with
  | None => Ok tt                                        (* option = None: falsy *)
  | Some o =>
      if negb (opt_truthy o) then Ok tt                  (* option = {}: falsy *)
      else
        (* if not allow_blank and value == "" *)
        if negb (py_truth (oget (o_allow_blank o))) && py_eq v (PStr []) then invalid_claim
        else
          let ov := oget (o_value o) in
          (* if option_value is not None and value != option_value *)
          if negb (is_none ov) && negb (py_eq v ov) then invalid_claim
          else
            let ovs := oget (o_values o) in
            (* if option_values is not None and value not in option_values *)
            if is_none ovs then Ok tt
            else do b <- py_in v ovs; if b then Ok tt else invalid_claim
  end.

(* JWTClaimsRegistry.validate_aud(value) *)
Definition validate_aud (opts : copts) (v : pv) : res unit :=
  match dget opts s_aud with
  | None => Ok tt
  | Some o =>
      if negb (opt_truthy o) then Ok tt
      else
        let ovs0 := oget (o_values o) in
        let ovs := if is_none ovs0
                   then (let ov := oget (o_value o) in if py_truth ov then PList [ov] else PNone)
                   else ovs0 in
        if negb (py_truth ovs) then Ok tt
        else
          let aud_list := match v with PList l => l | _ => [v] end in
          (* any([v in aud_list for v in option_values]) *)
          do it <- py_iter ovs;
          if existsb (fun x => list_contains aud_list x) it then Ok tt else invalid_claim
  end.

(* _validate_numeric_time: isinstance(s, (int, float)) and not isinstance(s, bool) *)
Definition as_time (v : pv) : option num :=
  match v with PInt z => Some (NZ z) | PFloat f => Some (NF f) | _ => None end.

Definition validate_exp (now lw : Z) (opts : copts) (v : pv) : res unit :=
  match as_time v with
  | None => invalid_claim
  | Some n =>
      if num_ltb n (NZ (now - lw)) then Err (EJose ExpiredTokenError)
      else check_value opts s_exp v
  end.

(* validate_nbf and validate_iat have the same body up to the claim name *)
Definition validate_notafter (name : str) (now lw : Z) (opts : copts) (v : pv) : res unit :=
  match as_time v with
  | None => invalid_claim
  | Some n =>
      if num_gtb n (NZ (now + lw)) then Err (EJose InvalidTokenError)
      else check_value opts name v
  end.

(* one turn of the loop of ClaimsRegistry.validate:
     func = getattr(self, "validate_" + key, None)
     if func: func(value)  elif key in self.options: self.check_value(key, value)
   The set of names that hit a method comes from the generated table. *)
Definition check_claim (now lw : Z) (opts : copts) (k : str) (v : pv) : res unit :=
  if str_mem k c10_validate_methods then
    match kind_of k with
    | KAud => validate_aud opts v
    | KExp => validate_exp now lw opts v
    | KNbf => validate_notafter s_nbf now lw opts v
    | KIat => validate_notafter s_iat now lw opts v
    | KOther => Err EOracleMiss         (* a validate_ method this model does not know *)
    end
  else if dmem opts k then check_value opts k v
  else Ok tt.

Fixpoint run_claims (now lw : Z) (opts : copts) (l : cclaims) : res unit :=
  match l with
  | [] => Ok tt
  | (k, v) :: r => do _ <- check_claim now lw opts k v; run_claims now lw opts r
  end.

(* claims.get(key) is None *)
Definition claim_is_none (claims : cclaims) (k : str) : bool :=
  match dget claims k with None => true | Some v => is_none v end.

(* essential_keys (computed in __init__) that are missed *)
Definition missing (opts : copts) (claims : cclaims) : bool :=
  existsb (fun ko => py_truth (oget (o_essential (snd ko))) && claim_is_none claims (fst ko)) opts.

(* JWTClaimsRegistry(now=now, leeway=lw, **opts).validate(claims) *)
Definition validate (now lw : Z) (opts : copts) (claims : cclaims) : res unit :=
  if missing opts claims then Err (EJose MissingClaimError)
  else run_claims now lw opts claims.

(* leeway omitted *)
Definition validate_default (now : Z) (opts : copts) (claims : cclaims) : res unit :=
  validate now c10_default_leeway opts claims.

(* ---------- ClaimsRegistry(...) used directly: no built-in rule ---------- *)
Definition check_claim_base (opts : copts) (k : str) (v : pv) : res unit :=
  if str_mem k c10_base_validate_methods then Err EOracleMiss   (* a validate_ method on the base class: unknown to the model *)
  else if dmem opts k then check_value opts k v
  else Ok tt.

Fixpoint run_claims_base (opts : copts) (l : cclaims) : res unit :=
  match l with
  | [] => Ok tt
  | (k, v) :: r => do _ <- check_claim_base opts k v; run_claims_base opts r
  end.

Definition validate_base (opts : copts) (claims : cclaims) : res unit :=
  if missing opts claims then Err (EJose MissingClaimError)
  else run_claims_base opts claims.

(* ---------- the registry as an object with a history of validate() calls ----------
   __init__ stores now, leeway, options and essential_keys; validate reads them
   and writes nothing. *)
Record registry := { r_now : Z; r_leeway : Z; r_options : copts; r_essential : list str }.

Definition registry_init (now lw : Z) (opts : copts) : registry :=
  {| r_now := now; r_leeway := lw; r_options := opts;
     r_essential := map fst (filter (fun ko => py_truth (oget (o_essential (snd ko)))) opts) |}.

Definition validate_obj (r : registry) (claims : cclaims) : res unit * registry :=
  (if existsb (claim_is_none claims) (r_essential r) then Err (EJose MissingClaimError)
   else run_claims (r_now r) (r_leeway r) (r_options r) claims,
   r).

Fixpoint run_history (r : registry) (h : list cclaims) : list (res unit) * registry :=
  match h with
  | [] => ([], r)
  | c :: t =>
      let (x, r1) := validate_obj r c in
      let (xs, r2) := run_history r1 t in
      (x :: xs, r2)
  end.
