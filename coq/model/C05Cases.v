(* C05Cases.v — executable comparison of the gate model with recorded behaviour
   of joserfc (correspondence check).  Every recorded API call is a [call] of
   model/C05Model.v; a case is a history of calls (length 1 for single calls)
   executed on the shared process-wide state, with the verdict the
   implementation gave for each call. *)
From Model Require Import Base PyVal TableTypes C05Model.
From Gen Require Import Tables.
Open Scope N_scope.

Inductive c05case :=
| Hist (drafts : bool) (h : list call) (expect : list verdict)
| NoneVerify (msg sig : bytes) (expect : res bool)
| NoneSign (msg : bytes) (expect : res bytes).

Definition verdict_eqb (a b : verdict) : bool :=
  match a, b with
  | VName x, VName y => res_eqb str_eqb x y
  | VUnit x, VUnit y => res_eqb (fun _ _ => true) x y
  | _, _ => false
  end.

(* the draft algorithms are registered through the model of `register` *)
Definition drafts_world : world :=
  run (map CallRegJws (skipn (length jws_alg_table) jws_alg_table_drafts) ++
       map CallRegAlg (skipn (length jwe_alg_table) jwe_alg_table_drafts) ++
       map CallRegEnc (skipn (length jwe_enc_table) jwe_enc_table_drafts) ++
       map CallRegZip (skipn (length jwe_zip_table) jwe_zip_table_drafts))%list w0.

Definition case_world (drafts : bool) : world := if drafts then drafts_world else w0.

Definition c05_check (c : c05case) : bool :=
  match c with
  | Hist d h e => list_eqb verdict_eqb (verdicts h (case_world d)) e
  | NoneVerify m s e => res_eqb Bool.eqb (Ok (none_verify m s)) e
  | NoneSign m e => res_eqb beqb (Ok (none_sign m)) e
  end.

Inductive c05out := OV (l : list verdict) | OB (b : bool) | OS (s : bytes).
Definition c05_show (c : c05case) : c05out :=
  match c with
  | Hist d h _ => OV (verdicts h (case_world d))
  | NoneVerify m s _ => OB (none_verify m s)
  | NoneSign m _ => OS (none_sign m)
  end.
