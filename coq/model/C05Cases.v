(* C05Cases.v — executable comparison of the gate model with recorded behaviour
   of joserfc (correspondence check).  Every recorded API call is a [call] of
   model/C05Model.v; a case is a history of calls (length 1 for single calls)
   executed on the shared process-wide state, with the verdict the
   implementation gave for each call. *)
From Model Require Import Base PyVal TableTypes C05Model.
From Gen Require Import Tables.
Open Scope N_scope.

(* Hist: a history of calls on the shared process state; [expect] = the verdict the
   implementation gave for each call, [heap] = deep snapshot (vars(reg)) of every
   caller-created registry object of the history after its last call *)
Inductive c05case :=
| Hist (drafts : bool) (h : list call) (expect : list verdict) (heap : list regobj)
| NoneVerify (msg sig : bytes) (expect : res bool)
| NoneSign (msg : bytes) (expect : res bytes).

Definition verdict_eqb (a b : verdict) : bool :=
  match a, b with
  | VName x, VName y => res_eqb str_eqb x y
  | VUnit x, VUnit y => res_eqb (fun _ _ => true) x y
  | _, _ => false
  end.

(* structural equality of values (1 and True, 1 and 1.0 are different snapshots) *)
Definition flt_eqb (a b : flt) : bool :=
  match a, b with
  | FFin n d, FFin m e => Z.eqb n m && Pos.eqb d e
  | FInf x, FInf y => Bool.eqb x y
  | FNan, FNan => true
  | _, _ => false
  end.
Fixpoint pv_eqb (a b : pv) {struct a} : bool :=
  match a, b with
  | PNone, PNone => true
  | PBool x, PBool y => Bool.eqb x y
  | PInt x, PInt y => Z.eqb x y
  | PFloat x, PFloat y => flt_eqb x y
  | PStr x, PStr y => str_eqb x y
  | PBytes x, PBytes y => beqb x y
  | PList l, PList m =>
      (fix go (l m : list pv) {struct l} : bool :=
         match l, m with
         | [], [] => true
         | x :: l', y :: m' => pv_eqb x y && go l' m'
         | _, _ => false
         end) l m
  | PDict d, PDict e =>
      (fix go (d e : list (str * pv)) {struct d} : bool :=
         match d, e with
         | [], [] => true
         | (k, x) :: d', (k', y) :: e' => str_eqb k k' && pv_eqb x y && go d' e'
         | _, _ => false
         end) d e
  | _, _ => false
  end.
Definition regcls_eqb (a b : regcls) : bool :=
  match a, b with
  | RcJws, RcJws | Rc7797, Rc7797 | RcJwe, RcJwe
  | RcJwsSub, RcJwsSub | Rc7797Sub, Rc7797Sub | RcJweSub, RcJweSub => true
  | _, _ => false
  end.
Definition regobj_eqb (a b : regobj) : bool :=
  regcls_eqb (ro_cls a) (ro_cls b) && pv_eqb (ro_allowed a) (ro_allowed b) &&
  Bool.eqb (ro_strict a) (ro_strict b) && Bool.eqb (ro_verify_all a) (ro_verify_all b) &&
  list_eqb str_eqb (ro_extra_headers a) (ro_extra_headers b).

(* the draft algorithms are registered through the model of `register` *)
Definition drafts_world : world :=
  run (map CallRegJws (skipn (length jws_alg_table) jws_alg_table_drafts) ++
       map CallRegAlg (skipn (length jwe_alg_table) jwe_alg_table_drafts) ++
       map CallRegEnc (skipn (length jwe_enc_table) jwe_enc_table_drafts) ++
       map CallRegZip (skipn (length jwe_zip_table) jwe_zip_table_drafts))%list w0.

Definition case_world (drafts : bool) : world := if drafts then drafts_world else w0.

Definition c05_check (c : c05case) : bool :=
  match c with
  | Hist d h e heap => list_eqb verdict_eqb (verdicts h (case_world d)) e &&
                       list_eqb regobj_eqb (w_regs (run h (case_world d))) heap
  | NoneVerify m s e => res_eqb Bool.eqb (Ok (none_verify m s)) e
  | NoneSign m e => res_eqb beqb (Ok (none_sign m)) e
  end.

Inductive c05out := OV (l : list verdict) (heap : list regobj) | OB (b : bool) | OS (s : bytes).
Definition c05_show (c : c05case) : c05out :=
  match c with
  | Hist d h _ _ => OV (verdicts h (case_world d)) (w_regs (run h (case_world d)))
  | NoneVerify m s _ => OB (none_verify m s)
  | NoneSign m _ => OS (none_sign m)
  end.
