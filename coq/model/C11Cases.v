(* C11Cases.v — executable comparison of the JWK import/export model with the
   recorded behaviour of joserfc (correspondence check).  The pyca
   constructors are instantiated with the answers recorded by the harness
   (computed by calling pyca directly on independently decoded numbers). *)
From Model Require Import Base PyVal B64 IntCodec TableTypes C11Model.
Open Scope N_scope.

Definition flt_eqb (f g : flt) : bool :=
  match f, g with
  | FFin a b, FFin c d => Z.eqb a c && Pos.eqb b d
  | FInf a, FInf b => Bool.eqb a b
  | FNan, FNan => true
  | _, _ => false
  end.

(* structural equality (True <> 1, dict order significant) *)
Fixpoint pv_eqb (a b : pv) {struct a} : bool :=
  match a, b with
  | PNone, PNone => true
  | PBool x, PBool y => Bool.eqb x y
  | PInt x, PInt y => Z.eqb x y
  | PFloat f, PFloat g => flt_eqb f g
  | PStr s, PStr t => str_eqb s t
  | PBytes s, PBytes t => beqb s t
  | PList l, PList m =>
      (fix go (l m : list pv) {struct l} : bool :=
         match l, m with
         | [], [] => true
         | x :: l', y :: m' => pv_eqb x y && go l' m'
         | _, _ => false
         end) l m
  | PDict d, PDict e =>
      (fix go (d e : list (str * pv)) {struct d} : bool :=
         match d, e with
         | [], [] => true
         | (k, x) :: d', (k', y) :: e' => str_eqb k k' && pv_eqb x y && go d' e'
         | _, _ => false
         end) d e
  | _, _ => false
  end.

Definition dict_eqb (a b : dict) : bool := pv_eqb (PDict a) (PDict b).

Definition rsa_pub_eqb (a b : rsa_pub) : bool :=
  Z.eqb (r_n a) (r_n b) && Z.eqb (r_e a) (r_e b).
Definition rsa_prv_eqb (a b : rsa_prv) : bool :=
  rsa_pub_eqb (r_pub a) (r_pub b) && Z.eqb (r_d a) (r_d b) && Z.eqb (r_p a) (r_p b)
  && Z.eqb (r_q a) (r_q b) && Z.eqb (r_dp a) (r_dp b) && Z.eqb (r_dq a) (r_dq b)
  && Z.eqb (r_qi a) (r_qi b).

Definition native_eqb (a b : native) : bool :=
  match a, b with
  | NOct x, NOct y => beqb x y
  | NRsaPub x, NRsaPub y => rsa_pub_eqb x y
  | NRsaPrv x, NRsaPrv y => rsa_prv_eqb x y
  | NEcPub c x y, NEcPub c' x' y' => str_eqb c c' && Z.eqb x x' && Z.eqb y y'
  | NEcPrv c x y d, NEcPrv c' x' y' d' => str_eqb c c' && Z.eqb x x' && Z.eqb y y' && Z.eqb d d'
  | NOkpPub c x, NOkpPub c' x' => str_eqb c c' && beqb x x'
  | NOkpPrv c x d, NOkpPrv c' x' d' => str_eqb c c' && beqb x x' && beqb d d'
  | _, _ => false
  end.

(* recorded answers of the pyca constructors for one import *)
Record orc_ans := { oa_ok : bool; oa_rsa : res rsa_prv; oa_okp : res bytes }.
Definition const_oracles (a : orc_ans) : oracles :=
  {| o_rsa_pub := fun _ _ => oa_ok a;
     o_rsa_prv := fun _ => oa_ok a;
     o_rsa_complete := fun _ _ _ => oa_rsa a;
     o_ec_pub := fun _ _ _ => oa_ok a;
     o_ec_prv := fun _ _ _ _ => oa_ok a;
     o_okp_pub := fun _ _ => oa_ok a;
     o_okp_prv := fun _ _ => oa_okp a |}.

Inductive c11case :=
(* reg = true: JWKRegistry.import_key(d, parameters=ps); false: <kt>Key.import_key(d, ps).
   expect: (key.as_dict(), key.as_dict(private=False), key.as_dict(private=True, zz="1"),
   numbers of the native key) *)
| CImport (reg : bool) (kt : ktype) (d ps : dict) (a : orc_ans) (expect : res (dict * dict * res dict * native))
(* <kt>Key.validate_dict_key(d) *)
| CValidate (kt : ktype) (d : dict) (expect : res unit)
(* key built from a native key with parameters ps: as_dict(), as_dict(private=False) *)
| CGen (n : native) (ps : dict) (e_full e_pub : res dict)
(* ec_key._int_to_fixed_base64 *)
| CFixed (z : Z) (bits : N) (expect : res (list N)).

Definition import_view (a : orc_ans) (reg : bool) (kt : ktype) (d ps : dict)
  : res (dict * dict * res dict * native) :=
  do k <- (if reg then registry_import (const_oracles a) d None ps
           else import_key (const_oracles a) kt d ps);
  do full <- as_dict k None [];
  do pub <- as_dict k (Some false) [];
  Ok (full, pub, as_dict k (Some true) [(asc "zz", PStr (asc "1"))], k_native k).

Definition gen_view (n : native) (ps : dict) : res dict * res dict :=
  match key_of_native n ps with
  | Ok k => (as_dict k None [], as_dict k (Some false) [])
  | Err e => (Err e, Err e)
  end.

Definition triple_eqb (x y : dict * dict * res dict * native) : bool :=
  let '(a, b, c, n) := x in let '(a', b', c', n') := y in
  dict_eqb a a' && dict_eqb b b' && res_eqb dict_eqb c c' && native_eqb n n'.
Definition unit_eqb (_ _ : unit) : bool := true.

Definition c11_check (c : c11case) : bool :=
  match c with
  | CImport reg kt d ps a e => res_eqb triple_eqb (import_view a reg kt d ps) e
  | CValidate kt d e => res_eqb unit_eqb (validate_dict_key kt d) e
  | CGen n ps e1 e2 =>
      let '(r1, r2) := gen_view n ps in res_eqb dict_eqb r1 e1 && res_eqb dict_eqb r2 e2
  | CFixed z b e => res_eqb beqb (int_to_fixed_base64 z b) e
  end.

(* what the model computed, in short (error class, number of members): the full
   values are in the case itself.  Kept small on purpose: the evaluation
   driver reads coqc's output only after the process has ended. *)
Inductive c11out :=
| OImp (r : res (nat * nat))
| OVal (r : res unit)
| OGen (a b : res nat)
| OFix (r : res nat).

Definition names (r : res dict) : res nat :=
  match r with Ok d => Ok (length d) | Err e => Err e end.

Definition c11_show (c : c11case) : c11out :=
  match c with
  | CImport reg kt d ps a _ =>
      OImp (match import_view a reg kt d ps with
            | Ok (x, y, _, _) => Ok (length x, length y) | Err e => Err e end)
  | CValidate kt d _ => OVal (validate_dict_key kt d)
  | CGen n ps _ _ => let '(r1, r2) := gen_view n ps in OGen (names r1) (names r2)
  | CFixed z b _ =>
      OFix (match int_to_fixed_base64 z b with Ok s => Ok (length s) | Err e => Err e end)
  end.
