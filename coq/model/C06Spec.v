(* C06Spec.v — the property, written from its text (properties.jsonl, C06),
   independently of the tables of /repo: which key is SUITABLE for an
   algorithm and an operation.  Algorithm names, key types, curves and sizes
   are the literals of the property text. *)
From Coq Require Import String List NArith Bool.
From Model Require Import Base PyVal C06Model.
Import ListNotations.
Open Scope string_scope.
Open Scope N_scope.

(* what key import guarantees about a Key object (validated by
   BaseKey.validate_dict_key; OctKey.is_private is constantly True; the curve
   name of a CurveKey is computed from its native object) *)
Definition ec_curve_names : list string := ["P-256"; "P-384"; "P-521"; "secp256k1"].
Definition okp_curve_names : list string := ["Ed25519"; "Ed448"; "X25519"; "X448"].

Definition use_wf (v : option pv) : Prop :=
  v = None \/ exists s, v = Some (PStr s) /\ s <> [].
Definition ops_wf (v : option pv) : Prop :=
  v = None \/ exists l, v = Some (PList l).

Definition key_wf (k : key) : Prop :=
  use_wf (k_use k) /\ ops_wf (k_ops k) /\
  (k_kty k = KOct -> k_priv k = true) /\
  (k_kty k = KEc -> In (k_crv k) ec_curve_names) /\
  (k_kty k = KOkp -> In (k_crv k) okp_curve_names).

(* "the key's declared use must match" *)
Definition declared_use_ok (u : string) (k : key) : Prop :=
  k_use k = None \/ k_use k = Some (PStr (asc u)).

(* "declared key_ops must include the operation" *)
Definition ops_include (op : string) (k : key) : Prop :=
  k_ops k = None \/ exists l, k_ops k = Some (PList l) /\ In (PStr (asc op)) l.

Definition one_of (a : string) (l : list string) : bool := existsb (String.eqb a) l.

Definition hmac_algs := ["HS256"; "HS384"; "HS512"].
Definition rsa_sig_algs := ["RS256"; "RS384"; "RS512"; "PS256"; "PS384"; "PS512"].

(* key type (and curve) the JWS algorithm requires *)
Definition jws_kind_ok (alg : string) (k : key) : Prop :=
  if one_of alg hmac_algs then k_kty k = KOct
  else if one_of alg rsa_sig_algs then k_kty k = KRsa
  else if String.eqb alg "ES256" then k_kty k = KEc /\ k_crv k = "P-256"
  else if String.eqb alg "ES384" then k_kty k = KEc /\ k_crv k = "P-384"
  else if String.eqb alg "ES512" then k_kty k = KEc /\ k_crv k = "P-521"
  else if String.eqb alg "ES256K" then k_kty k = KEc /\ k_crv k = "secp256k1"
  else if String.eqb alg "EdDSA" then k_kty k = KOkp /\ (k_crv k = "Ed25519" \/ k_crv k = "Ed448")
  else if String.eqb alg "none" then True     (* no key is used; the text names no requirement *)
  else False.

(* sign = true: signing; false: verifying *)
Definition jws_suitable (alg : string) (sign : bool) (k : key) : Prop :=
  declared_use_ok "sig" k /\
  jws_kind_ok alg k /\
  (alg <> "none" ->
   ops_include (if sign then "sign" else "verify") k /\
   (sign = true -> k_priv k = true)).

(* ---------- JWE ---------- *)
Definition rsa_enc_algs := ["RSA1_5"; "RSA-OAEP"; "RSA-OAEP-256"].
Definition pbes2_algs := ["PBES2-HS256+A128KW"; "PBES2-HS384+A192KW"; "PBES2-HS512+A256KW"].
Definition ecdh_es_algs := ["ECDH-ES"; "ECDH-ES+A128KW"; "ECDH-ES+A192KW"; "ECDH-ES+A256KW"].
Definition ecdh_1pu_algs := ["ECDH-1PU"; "ECDH-1PU+A128KW"; "ECDH-1PU+A192KW"; "ECDH-1PU+A256KW"].

(* exact size of AES key-wrap / GCM key-wrap keys *)
Definition wrap_size (alg : string) : option N :=
  if one_of alg ["A128KW"; "A128GCMKW"] then Some 128
  else if one_of alg ["A192KW"; "A192GCMKW"] then Some 192
  else if one_of alg ["A256KW"; "A256GCMKW"] then Some 256
  else None.

(* "EC or X25519/X448" *)
Definition ecdh_kind (k : key) : Prop :=
  k_kty k = KEc \/ (k_kty k = KOkp /\ (k_crv k = "X25519" \/ k_crv k = "X448")).
(* "both parties on one curve" *)
Definition same_curve (a b : key) : Prop := k_kty a = k_kty b /\ k_crv a = k_crv b.
Definition same_curve_epk (a : key) (e : epk) : Prop := k_kty a = epk_kty e /\ k_crv a = epk_crv e.

(* everything but the declared use.  encrypt = true: producing a JWE;
   cek = the content-encryption key size of "enc" (for dir) *)
Definition jwe_kind_suitable (alg : string) (encrypt : bool) (cek : N) (k : key)
           (sender : option key) (e : epk) : Prop :=
  if one_of alg rsa_enc_algs then
    k_kty k = KRsa /\
    (if encrypt then 2048 <= k_bits k /\ ops_include "encrypt" k
     else ops_include "decrypt" k /\ k_priv k = true)
  else match wrap_size alg with
  | Some sz =>
    k_kty k = KOct /\ k_bits k = sz /\ ops_include (if encrypt then "wrapKey" else "unwrapKey") k
  | None =>
  if String.eqb alg "dir" then k_kty k = KOct /\ k_bits k = cek
  else if one_of alg pbes2_algs then k_kty k = KOct /\ ops_include "deriveKey" k
  else if one_of alg ecdh_es_algs then
    ecdh_kind k /\ (encrypt = false -> k_priv k = true /\ same_curve_epk k e)
  else if one_of alg ecdh_1pu_algs then
    ecdh_kind k /\
    (exists s, sender = Some s /\ same_curve s k /\ (encrypt = true -> k_priv s = true)) /\
    (encrypt = false -> k_priv k = true /\ same_curve_epk k e)
  else False
  end.

(* the declared use of the recipient key and of the sender key (when one is given) *)
Definition jwe_suitable (alg : string) (encrypt : bool) (cek : N) (k : key)
           (sender : option key) (e : epk) : Prop :=
  declared_use_ok "enc" k /\
  (forall s, sender = Some s -> declared_use_ok "enc" s) /\
  jwe_kind_suitable alg encrypt cek k sender e.

(* ---------- unsafe symmetric secrets ---------- *)
(* the prefixes of PEM / OpenSSH / ssh-* key text (the table of the text's
   "PEM/SSH-formatted key text"), as octets *)
Definition unsafe_prefixes : list (list N) :=
  [asc "-----BEGIN "; asc "---- BEGIN "; asc "ssh-rsa "; asc "ssh-dss ";
   asc "ssh-ed25519 "; asc "ecdsa-sha2-"].
(* leading whitespace (what PEM / OpenSSH readers skip): space, TAB, LF, CR, VT, FF *)
Definition whitespace (c : N) : Prop :=
  c = 32 \/ c = 9 \/ c = 10 \/ c = 13 \/ c = 11 \/ c = 12.
Definition starts_with_unsafe (text : list N) : Prop :=
  exists ws p rest, Forall whitespace ws /\ In p unsafe_prefixes /\ text = (ws ++ p ++ rest)%list.
