(* C06Model.v — Impl model of the key-suitability gates of joserfc:
   BaseKey.check_use / check_alg / check_key_op / get_op_key (rfc7517/models.py),
   JWSAlgModel.check_key_type (rfc7515/model.py), KeyManagement.check_key_type,
   JWEKeyWrapping.check_op_key (rfc7516/models.py), the per-algorithm sign /
   verify / encrypt_cek / decrypt_cek / agreed-upon-key bodies of
   rfc7518/jws_algs.py, rfc8037/jws_eddsa.py, rfc7518/jwe_algs.py,
   drafts/jwe_ecdh_1pu.py, EC/OKP exchange_derive_key, KeySet.pick_random_key,
   and the ORDER AND PRESENCE of these gates on every entry point of
   jws.py, rfc7797/compact.py, rfc7797/json.py, jwe.py, jwt.py.

   Keys are abstract records (kind, curve name, size, private?, declared
   use / key_ops / alg as Python values).  Cryptographic primitives are NOT
   modelled: a primitive handed a native key object is the function [prim],
   a parameter of every definition below (Section variable); the only thing
   ever assumed about it is the type contract [prim_contract] (it raises when
   handed a native of the wrong kind), and only by the theorems that say so.
   Whether the key MATERIAL matches the token is the boolean [mat]. *)
From Coq Require Import String List NArith Bool.
From Model Require Import Base PyVal TableTypes.
From Gen Require Import Tables.
Import ListNotations.
Open Scope string_scope.
Open Scope N_scope.

(* ---------- keys ---------- *)
Inductive kty := KOct | KRsa | KEc | KOkp.
Definition kty_str (t : kty) : string :=
  match t with KOct => "oct" | KRsa => "RSA" | KEc => "EC" | KOkp => "OKP" end.

Record key := {
  k_kty : kty;
  k_crv : string;          (* EC / OKP: the JWK curve name; "" otherwise *)
  k_bits : N;              (* oct: 8*len(raw); RSA: modulus bits; 0 otherwise *)
  k_priv : bool;           (* is_private (oct keys: always true) *)
  k_use : option pv;       (* key.get("use") : None = absent *)
  k_ops : option pv;       (* key.get("key_ops") *)
  k_alg : option pv        (* key.get("alg") *)
}.

(* native objects handed to primitives by get_op_key / raw_value *)
Inductive native :=
| NBytes (bits : N)
| NRsa (priv : bool) (bits : N)
| NEc (priv : bool) (crv : string)
| NOkp (priv : bool) (crv : string).

Definition native_of (k : key) (priv : bool) : native :=
  match k_kty k with
  | KOct => NBytes (k_bits k)
  | KRsa => NRsa priv (k_bits k)
  | KEc => NEc priv (k_crv k)
  | KOkp => NOkp priv (k_crv k)
  end.

Definition sasc (s : string) : str := asc s.
Definition mem_str (s : string) (l : list string) : bool := existsb (String.eqb s) l.

(* ---------- BaseKey gates ---------- *)
(* if designed_use and designed_use != use: raise UnsupportedKeyUseError *)
Definition check_use (u : string) (k : key) : res unit :=
  match k_use k with
  | None => Ok tt
  | Some v => if py_truth v && negb (py_eq v (PStr (sasc u)))
              then Err (EJose UnsupportedKeyUseError) else Ok tt
  end.

Definition check_alg (a : string) (k : key) : res unit :=
  match k_alg k with
  | None => Ok tt
  | Some v => if py_truth v && negb (py_eq v (PStr (sasc a)))
              then Err (EJose UnsupportedKeyAlgorithmError) else Ok tt
  end.

Definition find_op (op : string) : option kop :=
  find (fun r => String.eqb (ko_name r) op) jwk_operation_registry.

(* reg.private is used by truthiness: None and False both mean "public is enough" *)
Definition op_needs_private (r : kop) : bool :=
  match ko_private r with Some true => true | _ => false end.

(* key_ops is not None and operation not in key_ops -> UnsupportedKeyOperationError;
   assert operation in registry; reg.private and not is_private -> same error *)
Definition check_key_op (op : string) (k : key) : res unit :=
  do _ <- match k_ops k with
          | None | Some PNone => Ok tt
          | Some v => do b <- py_in (PStr (sasc op)) v;
                      if b then Ok tt else Err (EJose UnsupportedKeyOperationError)
          end;
  match find_op op with
  | None => Err EAssert
  | Some r => if op_needs_private r && negb (k_priv k)
              then Err (EJose UnsupportedKeyOperationError) else Ok tt
  end.

Definition get_op_key (op : string) (k : key) : res native :=
  do _ <- check_key_op op k;
  match find_op op with
  | None => Err EAssert
  | Some r => Ok (native_of k (op_needs_private r))
  end.

(* key.curve_name : only CurveKey subclasses have the attribute *)
Definition curve_name (k : key) : res string :=
  match k_kty k with KEc | KOkp => Ok (k_crv k) | _ => Err EAttr end.

(* ---------- primitives ---------- *)
Inductive pop :=
| PHmac | PRsaSign | PRsaVerify | PEcSign | PEcVerify | PEdSign | PEdVerify
| PRsaEncrypt | PRsaDecrypt | PAesWrap | PAesGcm | PPbkdf.

(* which native a primitive accepts (the type contract of the external code) *)
Definition fits (p : pop) (n : native) : bool :=
  match p, n with
  | PHmac, NBytes _ | PAesWrap, NBytes _ | PAesGcm, NBytes _ | PPbkdf, NBytes _ => true
  | PRsaSign, NRsa true _ | PRsaDecrypt, NRsa true _ => true
  | PRsaVerify, NRsa false _ | PRsaEncrypt, NRsa false _ => true
  | PEcSign, NEc true _ => true
  | PEcVerify, NEc false _ => true
  | PEdSign, NOkp true _ => true
  | PEdVerify, NOkp false _ => true
  | _, _ => false
  end.

Definition prim_contract (prim : pop -> native -> res unit) : Prop :=
  forall p n, prim p n = Ok tt -> fits p n = true.

(* the instance used by the correspondence run: what CPython / pyca do *)
Definition prim_std (p : pop) (n : native) : res unit :=
  if fits p n then Ok tt else Err EType.

Definition find_jws (alg : string) : option jws_alg_row :=
  find (fun r => String.eqb (ja_name r) alg) jws_alg_table.
Definition find_jwe (alg : string) : option jwe_alg_row :=
  find (fun r => String.eqb (ea_name r) alg) jwe_alg_table_drafts.
Definition find_enc (enc : string) : option jwe_enc_row :=
  find (fun r => String.eqb (ee_name r) enc) jwe_enc_table_drafts.
Definition find_curve (crv : string) : option curve_row :=
  find (fun r => String.eqb (cv_name r) crv) ec_curves.

(* OKP native class names of a curve: (public class, private class) *)
Definition okp_classes (crv : string) : option (string * string) :=
  match find (fun r => String.eqb (fst (fst r)) crv) okp_curves with
  | Some (_, pub, prv) => Some (pub, prv)
  | None => None
  end.

Section WithPrim.
Variable prim : pop -> native -> res unit.

(* ---------- JWS algorithm bodies ---------- *)
Definition jws_check_key_type (r : jws_alg_row) (k : key) : res unit :=
  if String.eqb (kty_str (k_kty k)) (ja_key_type r) then Ok tt
  else Err (EJose InvalidKeyTypeError).

(* ECAlgModel._check_key : key.curve_name != self.curve -> ValueError *)
Definition ec_check_key (r : jws_alg_row) (k : key) : res unit :=
  do c <- curve_name k;
  if String.eqb c (ja_curve r) then Ok tt else Err EValue.

(* if not isinstance(op_key, (Ed25519..., Ed448...)): raise ValueError *)
Definition ed_assert (priv : bool) (n : native) : res unit :=
  match n with
  | NOkp p crv => if Bool.eqb p priv && (String.eqb crv "Ed25519" || String.eqb crv "Ed448")
                  then Ok tt else Err EValue
  | _ => Err EValue
  end.

(* key.curve_key_size = raw_value.curve.key_size (only reached by EC keys) *)
Definition curve_key_size (k : key) : res N :=
  match k_kty k with
  | KEc => match find_curve (k_crv k) with Some c => Ok (cv_bits c) | None => Err EKey end
  | _ => Err EAttr
  end.

Definition jws_sign (r : jws_alg_row) (k : key) : res unit :=
  let f := ja_family r in
  if String.eqb f "none" then Ok tt
  else if String.eqb f "HMAC" then do n <- get_op_key "sign" k; prim PHmac n
  else if String.eqb f "RSA" || String.eqb f "PSS" then do n <- get_op_key "sign" k; prim PRsaSign n
  else if String.eqb f "EC" then
    do _ <- ec_check_key r k; do n <- get_op_key "sign" k; do _ <- prim PEcSign n;
    do _ <- curve_key_size k; Ok tt
  else if String.eqb f "EdDSA" then
    do n <- get_op_key "sign" k; do _ <- ed_assert true n; prim PEdSign n
  else Err EOracleMiss.

(* result: Ok b = alg.verify returned b.  [mat]: the signature verifies under
   this key's material; [siglen]: octet length of the signature *)
Definition jws_verify (r : jws_alg_row) (k : key) (mat : bool) (siglen : N) : res bool :=
  let f := ja_family r in
  if String.eqb f "none" then Ok false
  else if String.eqb f "HMAC" then do n <- get_op_key "verify" k; do _ <- prim PHmac n; Ok mat
  else if String.eqb f "RSA" || String.eqb f "PSS" then
    do n <- get_op_key "verify" k; do _ <- prim PRsaVerify n; Ok mat
  else if String.eqb f "EC" then
    do _ <- ec_check_key r k;
    do sz <- curve_key_size k;
    if negb (siglen =? 2 * ((sz + 7) / 8)) then Ok false
    else do n <- get_op_key "verify" k; do _ <- prim PEcVerify n; Ok mat
  else if String.eqb f "EdDSA" then
    do n <- get_op_key "verify" k; do _ <- ed_assert false n; do _ <- prim PEdVerify n; Ok mat
  else Err EOracleMiss.

(* ---------- where the key comes from ---------- *)
(* a Key object / a KeySet holding this one key / a KeySet of several keys resolved by
   the "kid" of the (recipient) header / a callable returning the key for that "kid" *)
(* SrcText / SrcTextCall: the raw bytes / str of an oct secret given as the key
   argument / returned by a callable (normalised by _normalize_key, see import_text) *)
Inductive keysrc := SrcKey | SrcSet | SrcKid | SrcCall | SrcText | SrcTextCall.

(* KeySet.pick_random_key(alg) on a one-key set, then "Invalid key" ValueError *)
Definition pick_random (alg : string) (k : key) : res key :=
  let types := match find (fun e => String.eqb (fst e) alg) keyset_algorithm_keys_drafts with
               | Some (_, l) => l | None => [] end in
  match types with
  | [] => Ok k
  | _ => if mem_str (kty_str (k_kty k)) types then Ok k else Err EValue
  end.

(* guess_key(key, obj, use_random): the token never carries a kid here; a
   one-key set answers get_by_kid(None) with its key *)
Definition guess_key (src : keysrc) (use_random : bool) (alg : string) (k : key) : res key :=
  match src with
  | SrcKey => Ok k
  | SrcSet => if use_random then pick_random alg k else Ok k
  | SrcKid | SrcCall => Ok k       (* get_by_kid(kid) / key(obj): the designated key *)
  | SrcText | SrcTextCall => Ok k  (* OctKey.import_key(text): the oct key of these octets *)
  end.

(* ---------- JWS entry points ---------- *)
Inductive jws_entry :=
| JSerCompact | JDesCompact          (* jws.serialize_compact / deserialize_compact *)
| JSerFlat | JSerGen | JDesFlat | JDesGen   (* jws.serialize_json / deserialize_json *)
| J97SerCompact | J97DesCompact      (* rfc7797 compact, b64=false branch *)
| J97SerJson | J97DesJson            (* rfc7797 json, b64=false branch *)
| JwtEncode | JwtDecode              (* jwt.encode / jwt.decode with a JWS registry *)
| JValCompact                        (* jws.extract_compact + jws.validate_compact *)
| J97SerCompactB64 | J97DesCompactB64   (* rfc7797 compact with "b64": true -> jws.*_compact *)
| J97SerJsonB64 | J97DesJsonB64.        (* rfc7797 json with "b64": true -> jws.*_json *)

Definition jws_is_sign (e : jws_entry) : bool :=
  match e with
  | JSerCompact | JSerFlat | JSerGen | J97SerCompact | J97SerJson | JwtEncode
  | J97SerCompactB64 | J97SerJsonB64 => true
  | _ => false
  end.
(* alg.check_key_type(key) is called on this path *)
Definition jws_has_type_gate (e : jws_entry) : bool :=
  match e with J97SerJson => false | _ => true end.
(* key.check_alg(alg) is called on this path *)
Definition jws_has_alg_gate (e : jws_entry) : bool :=
  match e with JSerCompact | JwtEncode | J97SerCompactB64 => true | _ => false end.

Definition when (b : bool) (m : res unit) : res unit := if b then m else Ok tt.

(* Ok tt = a token was produced / the token was accepted *)
Definition jws_run (e : jws_entry) (src : keysrc) (alg : string) (k0 : key)
           (mat : bool) (siglen : N) : res unit :=
  match find_jws alg with
  | None => Err (EJose UnsupportedAlgorithmError)
  | Some r =>
      do k <- guess_key src (jws_is_sign e) alg k0;
      do _ <- check_use "sig" k;
      do _ <- when (jws_has_type_gate e) (jws_check_key_type r k);
      do _ <- when (jws_has_alg_gate e) (check_alg alg k);
      if jws_is_sign e then jws_sign r k
      else do b <- jws_verify r k mat siglen;
           if b then Ok tt else Err (EJose BadSignatureError)
  end.

(* ---------- JWE algorithm bodies ---------- *)
Definition jwe_check_key_type (r : jwe_alg_row) (k : key) : res unit :=
  if mem_str (kty_str (k_kty k)) (ea_key_types r) then Ok tt
  else Err (EJose InvalidKeyTypeError).

(* JWEKeyWrapping.check_op_key: len(op_key) * 8 != self.key_size *)
Definition check_op_key (r : jwe_alg_row) (n : native) : res unit :=
  match n, ea_key_size r with
  | NBytes b, Some sz => if b =? sz then Ok tt else Err (EJose InvalidKeyLengthError)
  | NBytes _, None => Err (EJose InvalidKeyLengthError)
  | _, _ => Err EType            (* len() of a pyca key object *)
  end.

(* op_key.key_size < self.key_size -> InvalidKeyLengthError (only RSA natives
   get here: check_key_type comes first; bytes have no key_size) *)
Definition rsa_size_gate (r : jwe_alg_row) (n : native) : res unit :=
  match n, ea_key_size r with
  | NRsa _ b, Some sz => if b <? sz then Err (EJose InvalidKeyLengthError) else Ok tt
  | NRsa _ _, None => Err EType
  | _, _ => Err EAttr
  end.

(* other.exchange_derive_key : self = the party holding private material.
   ECKey:  if not isinstance(key, ECKey): raise InvalidExchangeKeyError
           pubkey = key.get_op_key("deriveKey");
           if self.private_key and self.curve_name == key.curve_name: ok
           else InvalidExchangeKeyError
   OKPKey: isinstance(self.private_key, X25519PrivateKey) and isinstance(pubkey, X25519PublicKey)
           or the same for X448, else InvalidExchangeKeyError
   oct / RSA keys have no such method (AttributeError) *)
Definition exchange_derive_key (self other : key) : res unit :=
  match k_kty self with
  | KEc =>
      do _ <- (match k_kty other with KEc => Ok tt | _ => Err (EJose InvalidExchangeKeyError) end);
      do _ <- get_op_key "deriveKey" other;
      if k_priv self then
        do c <- curve_name other;
        if String.eqb (k_crv self) c then Ok tt else Err (EJose InvalidExchangeKeyError)
      else Err (EJose InvalidExchangeKeyError)
  | KOkp =>
      do n <- get_op_key "deriveKey" other;
      let same c := k_priv self && String.eqb (k_crv self) c &&
                    match n with NOkp false c' => String.eqb c' c | _ => false end in
      if same "X25519" || same "X448" then Ok tt else Err (EJose InvalidExchangeKeyError)
  | _ => Err EAttr
  end.

(* the ephemeral key generated by prepare_ephemeral_key: private, on the
   recipient's curve, no declared use / key_ops / alg *)
Definition ephemeral_for (k : key) : key :=
  {| k_kty := k_kty k; k_crv := k_crv k; k_bits := 0; k_priv := true;
     k_use := None; k_ops := None; k_alg := None |}.

(* the "epk" header of a received token: kind and curve of the sender's
   ephemeral public key *)
Record epk := { epk_kty : kty; epk_crv : string }.
Definition epk_key (e : epk) : key :=
  {| k_kty := epk_kty e; k_crv := epk_crv e; k_bits := 0; k_priv := false;
     k_use := None; k_ops := None; k_alg := None |}.

(* recipient_key.import_key(headers["epk"]) : the recipient key's class
   imports the epk dict *)
Definition import_epk (k : key) (e : epk) : res key :=
  match k_kty k, epk_kty e with
  | KEc, KEc | KOkp, KOkp => Ok (epk_key e)
  | _, _ => Err EValue             (* a required member of that key type is missing,
                                      or the crv is not one of that key type *)
  end.

Definition enc_is_cbc (enc : jwe_enc_row) : bool := String.eqb (ee_family enc) "CBCHS".

(* ECDH1PUAlgModel._check_enc *)
Definition check_enc_1pu (r : jwe_alg_row) (enc : jwe_enc_row) : res unit :=
  if negb (String.eqb (ea_wrap r) "") && negb (enc_is_cbc enc)
  then Err (EJose InvalidEncryptionAlgorithmError) else Ok tt.

Definition is_agreement (r : jwe_alg_row) : bool :=
  String.eqb (ea_family r) "ECDHES" || String.eqb (ea_family r) "ECDH1PU".

(* per-recipient part of perform_encrypt, after the entry point attached the keys *)
Definition jwe_encrypt_alg (r : jwe_alg_row) (enc : jwe_enc_row) (k : key)
           (sender : option key) : res unit :=
  let f := ea_family r in
  if String.eqb f "dir" then
    do _ <- jwe_check_key_type r k;
    if k_bits k =? ee_cek_size enc then Ok tt else Err (EJose InvalidKeyLengthError)
  else if String.eqb f "RSA" then
    do _ <- jwe_check_key_type r k;
    do n <- get_op_key "encrypt" k;
    do _ <- rsa_size_gate r n;
    prim PRsaEncrypt n
  else if String.eqb f "AESKW" then
    do _ <- jwe_check_key_type r k;
    do n <- get_op_key "wrapKey" k;
    do _ <- check_op_key r n;
    prim PAesWrap n
  else if String.eqb f "AESGCMKW" then
    do _ <- jwe_check_key_type r k;
    do n <- get_op_key "wrapKey" k;
    do _ <- check_op_key r n;
    prim PAesGcm n
  else if String.eqb f "PBES2" then
    do _ <- jwe_check_key_type r k;
    do n <- get_op_key "deriveKey" k;
    prim PPbkdf n
  else if String.eqb f "ECDHES" then
    do _ <- jwe_check_key_type r k;                 (* prepare_ephemeral_key *)
    exchange_derive_key (ephemeral_for k) k
  else if String.eqb f "ECDH1PU" then
    do _ <- jwe_check_key_type r k;                 (* prepare_ephemeral_key *)
    do _ <- check_enc_1pu r enc;
    match sender with
    | None => Err EAssert
    | Some s =>
        do _ <- exchange_derive_key s k;
        exchange_derive_key (ephemeral_for k) k
    end
  else Err EOracleMiss.

(* per-recipient part of perform_decrypt (decrypt_recipient); Ok tt = a CEK
   candidate was computed without an exception *)
Definition jwe_decrypt_alg (r : jwe_alg_row) (enc : jwe_enc_row) (k : key)
           (sender : option key) (e : epk) : res unit :=
  let f := ea_family r in
  if String.eqb f "dir" then
    do _ <- jwe_check_key_type r k;
    if k_bits k =? ee_cek_size enc then Ok tt else Err (EJose InvalidKeyLengthError)
  else if String.eqb f "RSA" then
    do _ <- jwe_check_key_type r k;
    do n <- get_op_key "decrypt" k;
    prim PRsaDecrypt n
  else if String.eqb f "AESKW" then
    do _ <- jwe_check_key_type r k;
    do n <- get_op_key "unwrapKey" k;
    do _ <- check_op_key r n;
    prim PAesWrap n
  else if String.eqb f "AESGCMKW" then
    do _ <- jwe_check_key_type r k;
    do n <- get_op_key "unwrapKey" k;
    do _ <- check_op_key r n;
    prim PAesGcm n
  else if String.eqb f "PBES2" then
    do _ <- jwe_check_key_type r k;
    do n <- get_op_key "deriveKey" k;
    prim PPbkdf n
  else if String.eqb f "ECDHES" then
    do _ <- jwe_check_key_type r k;
    do ek <- import_epk k e;
    exchange_derive_key k ek
  else if String.eqb f "ECDH1PU" then
    do _ <- check_enc_1pu r enc;
    match sender with
    | None => Err (EJose InvalidExchangeKeyError)   (* "A sender key is required" *)
    | Some s =>
        do _ <- jwe_check_key_type r k;
        do ek <- import_epk k e;
        do _ <- exchange_derive_key k s;
        exchange_derive_key k ek
    end
  else Err EOracleMiss.

(* ---------- JWE entry points ---------- *)
Inductive jwe_entry :=
| EEncCompact | EDecCompact               (* jwe.encrypt_compact / decrypt_compact *)
| EEncFlat | EEncGen | EDecFlat | EDecGen (* jwe.encrypt_json / decrypt_json, one recipient *)
| EEncFlatPre | EEncGenPre                (* encrypt_json, key given to add_recipient(header, key) *)
| EJwtEncode | EJwtDecode.                (* jwt.encode / decode with a JWERegistry *)

Definition jwe_is_enc (e : jwe_entry) : bool :=
  match e with
  | EEncCompact | EEncFlat | EEncGen | EEncFlatPre | EEncGenPre | EJwtEncode => true
  | _ => false
  end.
Definition jwe_preattached (e : jwe_entry) : bool :=
  match e with EEncFlatPre | EEncGenPre => true | _ => false end.

(* InvalidExchangeKeyError -> DecodeError in perform_decrypt *)
Definition map_exchange_err (m : res unit) : res unit :=
  match m with
  | Err (EJose InvalidExchangeKeyError) => Err (EJose DecodeError)
  | x => x
  end.

Definition jwe_is_jwt (e : jwe_entry) : bool :=
  match e with EJwtEncode | EJwtDecode => true | _ => false end.
(* encrypt_json attaches (and use-checks) the sender key before the recipient key *)
Definition jwe_sender_first (e : jwe_entry) : bool :=
  match e with EEncFlat | EEncGen | EEncFlatPre | EEncGenPre => true | _ => false end.

(* jwt.encode / jwt.decode cannot pass a sender key *)
Definition eff_sender (e : jwe_entry) (sender : option key) : option key :=
  if jwe_is_jwt e then None else sender.

(* _guess_sender_key: sender_key.check_use("enc"), whatever the algorithm *)
Definition sender_use_gate (sender : option key) : res unit :=
  match sender with Some s => check_use "enc" s | None => Ok tt end.

(* the key-attaching part of the entry point: recipient key (guess_key + check_use, or
   the key given to add_recipient + check_use) and sender key, in the order of the code *)
Definition jwe_attach (e : jwe_entry) (src : keysrc) (alg : string) (k0 : key)
           (sender : option key) : res key :=
  let rcpt := if jwe_preattached e then do _ <- check_use "enc" k0; Ok k0
              else do k <- guess_key src (jwe_is_enc e) alg k0;
                   do _ <- check_use "enc" k; Ok k in
  if jwe_sender_first e then do _ <- sender_use_gate sender; rcpt
  else do k <- rcpt; do _ <- sender_use_gate sender; Ok k.

(* mat = the recipient (and sender) material is the one the token was made
   for; otherwise key unwrapping / content decryption fails (DecodeError, or
   InvalidCEKLengthError for RSA1_5 implicit rejection) *)
Definition jwe_run (e : jwe_entry) (src : keysrc) (alg enc : string) (k0 : key)
           (sender0 : option key) (ek : epk) (mat : bool) : res unit :=
  let sender := eff_sender e sender0 in
  match find_enc enc, find_jwe alg with
  | None, _ | _, None => Err (EJose UnsupportedAlgorithmError)
  | Some en, Some r =>
      do k <- jwe_attach e src alg k0 sender;
      if jwe_is_enc e then jwe_encrypt_alg r en k sender
      else do _ <- map_exchange_err (jwe_decrypt_alg r en k sender ek);
           if mat then Ok tt else Err (EJose DecodeError)
  end.

(* ---------- general JSON with several recipients ---------- *)
(* one recipient of a GeneralJSONEncryption: its own "alg", the key that the key
   source resolves for it (or the key handed to add_recipient), the kind of the
   received "epk", and whether that key's material is the one the token was made for *)
Record mrec := { m_alg : string; m_key : key; m_pre : bool; m_epk : epk; m_mat : bool }.

Fixpoint forall_res {A} (f : A -> res unit) (l : list A) : res unit :=
  match l with
  | [] => Ok tt
  | x :: r => do _ <- f x; forall_res f r
  end.

Definition with_alg (alg : string) (f : jwe_alg_row -> res unit) : res unit :=
  match find_jwe alg with
  | None => Err (EJose UnsupportedAlgorithmError)
  | Some r => f r
  end.

(* pre_encrypt_recipients, one recipient: __prepare_recipient_algorithm (key agreement:
   prepare_ephemeral_key = check_key_type), direct mode with several recipients is a
   ConflictAlgorithmError, key wrapping / key encryption run encrypt_cek now, key
   agreement with key wrapping is delayed until the content is encrypted *)
Definition jwe_enc_pre (n : nat) (r : jwe_alg_row) (en : jwe_enc_row) (k : key)
           (sender : option key) : res unit :=
  if is_agreement r then
    do _ <- jwe_check_key_type r k;
    if ea_direct r && Nat.ltb 1 n then Err (EJose ConflictAlgorithmError) else Ok tt
  else if ea_direct r && Nat.ltb 1 n then Err (EJose ConflictAlgorithmError)
  else jwe_encrypt_alg r en k sender.

(* the (direct or delayed) key agreement of one recipient *)
Definition jwe_enc_post (r : jwe_alg_row) (en : jwe_enc_row) (k : key)
           (sender : option key) : res unit :=
  if is_agreement r then jwe_encrypt_alg r en k sender else Ok tt.

(* jwe.encrypt_json(obj, keys, sender_key=sender) on a GeneralJSONEncryption *)
Definition jwe_multi_enc (src : keysrc) (enc : string) (rs : list mrec)
           (sender : option key) : res unit :=
  match find_enc enc with
  | None => Err (EJose UnsupportedAlgorithmError)
  | Some en =>
      let n := length rs in
      do _ <- forall_res (fun m =>
                do _ <- jwe_attach (if m_pre m then EEncGenPre else EEncGen) src (m_alg m) (m_key m) sender;
                Ok tt) rs;
      do _ <- forall_res (fun m => with_alg (m_alg m) (fun r => jwe_enc_pre n r en (m_key m) sender)) rs;
      forall_res (fun m => with_alg (m_alg m) (fun r => jwe_enc_post r en (m_key m) sender)) rs
  end.

(* except (AssertionError, JoseError): swallowed unless verify_all_recipients *)
Definition swallowed (e : exn) : bool :=
  match e with EJose _ | EAssert => true | _ => false end.

Definition jwe_dec_one (r : jwe_alg_row) (en : jwe_enc_row) (m : mrec) (sender : option key) : res unit :=
  do _ <- jwe_decrypt_alg r en (m_key m) sender (m_epk m);
  if m_mat m then Ok tt else Err (EJose DecodeError).

(* the recipient loop of _perform_decrypt; got = a CEK has been recovered *)
Fixpoint dec_loop (verify_all : bool) (en : jwe_enc_row) (sender : option key)
         (rs : list mrec) (got : bool) : res bool :=
  match rs with
  | [] => Ok got
  | m :: rest =>
      match find_jwe (m_alg m) with
      | None => Err (EJose UnsupportedAlgorithmError)
      | Some r =>
          match jwe_dec_one r en m sender with
          | Ok _ => dec_loop verify_all en sender rest true
          | Err e => if swallowed e && negb verify_all
                     then dec_loop verify_all en sender rest got else Err e
          end
      end
  end.

(* jwe.decrypt_json(data, keys, registry=JWERegistry(verify_all_recipients=...)) on a
   general JSON serialization: _attach_recipient_keys over EVERY recipient, then the loop *)
Definition jwe_multi_dec (verify_all : bool) (src : keysrc) (enc : string) (rs : list mrec)
           (sender : option key) : res unit :=
  match find_enc enc with
  | None => Err (EJose UnsupportedAlgorithmError)
  | Some en =>
      do _ <- forall_res (fun m =>
                do _ <- jwe_attach EDecGen src (m_alg m) (m_key m) sender; Ok tt) rs;
      map_exchange_err
        (do got <- dec_loop verify_all en sender rs false;
         if got then Ok tt else Err (EJose DecodeError))
  end.

End WithPrim.

(* ---------- OctKey.import_key(text): the unsafe-secret warning ---------- *)
(* bytes.lstrip(): leading space, \t, \n, \r, \x0b, \x0c are dropped *)
Definition is_ws (c : N) : bool :=
  (c =? 32) || (c =? 9) || (c =? 10) || (c =? 13) || (c =? 11) || (c =? 12).
Fixpoint lstrip (t : bytes) : bytes :=
  match t with
  | c :: r => if is_ws c then lstrip r else t
  | [] => []
  end.
(* value.lstrip().startswith(POSSIBLE_UNSAFE_KEYS) *)
Definition oct_import_warns (text : bytes) : bool :=
  existsb (fun p => is_prefix p (lstrip text)) possible_unsafe_keys.

(* ---------- every route by which key TEXT becomes an oct key ---------- *)
(* OctKey.import_key(text);  JWKRegistry.import_key(text, "oct") -> OctKey.import_key;
   the raw str / bytes key argument of an entry point: guess_key -> _normalize_key(key)
   -> OctKey.import_key(key);  a callable returning str / bytes: guess_key ->
   _normalize_key(key(obj)) -> OctKey.import_key.  All of them end in
   OctBinding.import_from_bytes(to_bytes(text)), where the warning is raised. *)
Inductive text_route := RtImportKey | RtRegistry | RtEntryArg | RtEntryCallable.

(* the key made of the text: its octets, always "private", nothing declared *)
Definition oct_of_text (text : bytes) : key :=
  {| k_kty := KOct; k_crv := ""; k_bits := 8 * lenN text; k_priv := true;
     k_use := None; k_ops := None; k_alg := None |}.

Definition import_from_bytes (text : bytes) : key * bool :=
  (oct_of_text text, oct_import_warns text).

(* -> (the key, a UserWarning "This key may not be safe to import" was raised) *)
Definition import_text (r : text_route) (text : bytes) : key * bool :=
  match r with
  | RtImportKey => import_from_bytes text                 (* OctKey.import_key *)
  | RtRegistry => import_from_bytes text                  (* JWKRegistry.import_key(_, "oct") *)
  | RtEntryArg => import_from_bytes text                  (* _normalize_key(key) *)
  | RtEntryCallable => import_from_bytes text             (* _normalize_key(key(obj)) *)
  end.

(* ---------- histories on ONE key object ---------- *)
(* A Key object carries no state that the gates read: check_key_op / get_op_key look at
   the key's parameters and the operation only.  A history is the list of operations
   performed, in order, on the same object; the model answers each of them with the
   stateless gate. *)
Definition op_verdict (k : key) (op : string) : res unit :=
  do _ <- get_op_key op k; Ok tt.
Definition run_history (k : key) (ops : list string) : list (res unit) :=
  map (op_verdict k) ops.
