(* JweCases.v — executable comparison of the JWE model with recorded runs of
   joserfc.jwe (shared by C02 / C04 / C08).  Each case carries the finite
   oracle table recorded from the real run: a primitive query the real run did
   not make evaluates to [Err EOracleMiss] and the case disagrees. *)
From Model Require Import JweBase JweCrypto JweMsg JweKeys.
Open Scope N_scope.

Inductive jwecase :=
| CDecCompact (t : otable) (g : registry) (value : bytes) (k : key) (sender : option key)
              (expect : res (bytes * pv))
| CDecJson (t : otable) (g : registry) (data : pv) (keys : list key) (sender : option key)
           (expect : res (bytes * pv))
| CEncCompact (t : otable) (g : registry) (o : eobj) (d : edraw) (expect : res bytes)
| CEncJson (t : otable) (g : registry) (o : eobj) (d : edraw) (expect : res pv)
(* with key resolution (model/JweKeys.v) *)
| CDecCompactK (t : otable) (g : registry) (value : bytes) (src : ksrc) (ssrc : option ksrc0)
               (expect : res (bytes * pv))
| CDecJsonK (t : otable) (g : registry) (data : pv) (src : ksrc) (ssrc : option ksrc0)
            (expect : res (bytes * pv))
| CEncCompactK (t : otable) (g : registry) (o : eobj) (d : edraw) (k : kkey) (sk : option kkey)
               (expect : res bytes)
| CEncJsonK (t : otable) (g : registry) (o : eobj) (d : edraw) (ks : list (kkey * option kkey))
            (expect : res pv)
(* with the registry selection of the entry point (algorithms= / registry= / neither / both) *)
| CDecCompactSel (t : otable) (algs : option (list str)) (reg : option registry) (value : bytes) (k : key)
                 (sender : option key) (expect : res (bytes * pv))
| CDecJsonSel (t : otable) (algs : option (list str)) (reg : option registry) (data : pv) (keys : list key)
              (sender : option key) (expect : res (bytes * pv))
(* re-encryption of an existing message object (prior base64_segments) *)
| CEncJsonPrior (t : otable) (g : registry) (prior : list (str * bytes)) (es : list ephstate) (o : eobj) (d : edraw)
                (expect : res pv).

Definition nokey : key := {| k_kty := []; k_crv := []; k_priv := false; k_id := [] |}.

Definition dec_obs (r : res (bytes * jobj)) : res (bytes * pv) :=
  match r with Ok (m, o) => Ok (m, PDict (j_prot o)) | Err e => Err e end.

Definition pair_eqb (a b : bytes * pv) : bool := beqb (fst a) (fst b) && pv_eqb (snd a) (snd b).

Inductive jweout := OD (r : res (bytes * pv)) | OB (r : res bytes) | OP (r : res pv).

Definition jwe_run (c : jwecase) : jweout :=
  match c with
  | CDecCompact t g v k s _ => OD (dec_obs (decrypt_compact (table_oracles t) g v k s))
  | CDecJson t g d ks s _ => OD (dec_obs (decrypt_json (table_oracles t) g d ks nokey s))
  | CEncCompact t g o d _ => OB (encrypt_compact (table_oracles t) g o d)
  | CEncJson t g o d _ => OP (encrypt_json (table_oracles t) g o d)
  | CDecCompactK t g v src ss _ => OD (dec_obs (decrypt_compact_k (table_oracles t) g v src ss))
  | CDecJsonK t g d src ss _ => OD (dec_obs (decrypt_json_k (table_oracles t) g d src ss))
  | CEncCompactK t g o d k sk _ => OB (encrypt_compact_k (table_oracles t) g o d k sk)
  | CEncJsonK t g o d ks _ => OP (encrypt_json_k (table_oracles t) g o d ks)
  | CDecCompactSel t a r v k s _ => OD (dec_obs (decrypt_compact (table_oracles t) (jwe_sel a r) v k s))
  | CDecJsonSel t a r d ks s _ => OD (dec_obs (decrypt_json (table_oracles t) (jwe_sel a r) d ks nokey s))
  | CEncJsonPrior t g p es o d _ => OP (encrypt_json_obj (table_oracles t) p es g o d)
  end.

Definition jwe_check (c : jwecase) : bool :=
  match c, jwe_run c with
  | CDecCompact _ _ _ _ _ e, OD r => res_eqb pair_eqb r e
  | CDecJson _ _ _ _ _ e, OD r => res_eqb pair_eqb r e
  | CEncCompact _ _ _ _ e, OB r => res_eqb beqb r e
  | CEncJson _ _ _ _ e, OP r => res_eqb pv_eqb r e
  | CDecCompactK _ _ _ _ _ e, OD r => res_eqb pair_eqb r e
  | CDecJsonK _ _ _ _ _ e, OD r => res_eqb pair_eqb r e
  | CEncCompactK _ _ _ _ _ _ e, OB r => res_eqb beqb r e
  | CEncJsonK _ _ _ _ _ e, OP r => res_eqb pv_eqb r e
  | CDecCompactSel _ _ _ _ _ _ e, OD r => res_eqb pair_eqb r e
  | CDecJsonSel _ _ _ _ _ _ e, OD r => res_eqb pair_eqb r e
  | CEncJsonPrior _ _ _ _ _ _ e, OP r => res_eqb pv_eqb r e
  | _, _ => false
  end.

Definition jwe_show (c : jwecase) : jweout := jwe_run c.

(* constructors used by the harness *)
Definition mk_key (t c : str) (p : bool) (i : bytes) : key :=
  {| k_kty := t; k_crv := c; k_priv := p; k_id := i |}.
Definition mk_reg (a : option (list str)) (v : bool) : registry := {| g_allowed := a; g_verify_all := v |}.
Definition mk_recip (h : pv) (k : key) (s : option key) (e : option (key * pv)) : recip :=
  {| r_header := h; r_ek := None; r_key := k; r_sender := s; r_eph := e |}.
Definition mk_eobj (s : ser) (p : dict) (u : pv) (a : option bytes) (m : bytes) (rs : list recip) : eobj :=
  {| e_ser := s; e_prot := p; e_unprot := u; e_aad := a; e_plain := m; e_recips := rs |}.
Definition mk_rdraw (a b : bytes) : rdraw := {| d_kwiv := a; d_p2s := b |}.
Definition mk_edraw (c i : bytes) (l : list rdraw) : edraw := {| d_cek := c; d_civ := i; d_rec := l |}.
Definition mk_kkey (k : key) (kid use : pv) : kkey := {| kk_key := k; kk_kid := kid; kk_use := use |}.
Definition mk_ephstate (c : option (key * pv)) (g : bool) (d : option (key * pv)) : ephstate :=
  {| es_cur := c; es_generated := g; es_draw := d |}.
