(* C20Model.v — shared state of joserfc made explicit, and the API calls that
   touch it compiled to ATOMIC STEPS at source-line granularity.

   world  = per key: the heap of dict objects ever bound to `_dict_value`
            (object 0 is the `{}` created in BaseKey.__init__), the index of
            the one currently bound, the `cached_property public_key` slot;
            the shared KeySet.keys lists; the draw counter of the random
            sources; the class-level tables / algorithm singletons (static).
   prog   = a thread: a tree of labelled atomic actions; the label is the
            source line (function.line) at which the step starts: the real
            scheduler of harness/props/c20.py stops threads at exactly these
            lines, so a schedule is a list of thread indices, one per step.
   Two variants of the step lists: [fixed = false] transcribes
   rfc7517/models.py as it was (`self._dict_value = data`, `for k in
   self.dict_value`), [fixed = true] the repaired code
   (`self._dict_value.update(data)`, `for k in list(data)`).

   Local lines (no access to shared state) are ANop steps; they are kept so
   that the label trace of the model can be compared with the line trace of
   the implementation. *)
From Model Require Import Base PyVal TableTypes.
From Gen Require Import Tables TablesC20.
Open Scope N_scope.

Definition dict := list (str * pv).
Definition kidK : str := asc "kid".

(* ---------- immutable part of a key: functions of the raw key ---------- *)
Record kimm := {
  ki_kty : string;       (* key_type *)
  ki_view : dict;        (* convert_raw_key_to_dict(raw) + extra_parameters + kty *)
  ki_extra : bool;       (* extra_parameters is not None *)
  ki_valid : bool;       (* validate_dict_key(view) passes *)
  ki_private : bool;     (* is_private *)
  ki_tp : str            (* RFC 7638 thumbprint of the view (hash oracle) *)
}.
Definition kimm0 : kimm :=
  {| ki_kty := ""; ki_view := []; ki_extra := false; ki_valid := false; ki_private := false; ki_tp := [] |}.
Definition imm := list kimm.
Definition kim (im : imm) (k : nat) : kimm := nth k im kimm0.

Definition vreg (kty : string) : list kparam :=
  if String.eqb kty "oct" then value_registry_oct
  else if String.eqb kty "RSA" then value_registry_RSA
  else if String.eqb kty "EC" then value_registry_EC
  else if String.eqb kty "OKP" then value_registry_OKP
  else [].
Definition is_true (o : option bool) : bool := match o with Some true => true | _ => false end.
Definition privfields (kty : string) : list str :=
  map (fun p => asc (kp_name p)) (filter (fun p => is_true (kp_private p)) (vreg kty)).
Definition tpfields (kty : string) : list str :=
  map (fun p => asc (kp_name p)) (filter kp_required (vreg kty)) ++ [asc "kty"].
Fixpoint slookup {A} (l : list (string * A)) (k : string) : option A :=
  match l with [] => None | (k', v) :: r => if String.eqb k' k then Some v else slookup r k end.
Definition cached_pub (kty : string) : bool :=
  match slookup c20_cached_public kty with Some b => b | None => false end.

(* rfc7638.thumbprint(d, fields): KeyError when a field is missing, else the
   hash oracle's value (all dicts a key ever exposes agree with the view on
   these fields: C20Proofs.good_sel) *)
Definition thumb_of (ki : kimm) (d : dict) : res str :=
  if forallb (dmem d) (tpfields (ki_kty ki)) then Ok (ki_tp ki) else Err EKey.

(* ---------- static part: class tables, registries, singletons, and the registry
   instances the CALLER created and shares between calls (allow-list, flags) ---------- *)
Record creg := { cr_allowed : option (list string); cr_strict : bool; cr_verify_all : bool }.
Definition creg0 : creg := {| cr_allowed := None; cr_strict := true; cr_verify_all := true |}.
(* the registry a call works with: its own (built from algorithms=) or a shared one (registry=) *)
Inductive regref := ROwn (allowed : option (list string)) | RShared (r : nat).

Record static := {
  st_regs : list creg;                       (* caller-created JWSRegistry / JWERegistry instances *)
  st_jws_algs : list jws_alg_row;            (* JWSRegistry.algorithms: the singletons *)
  st_jws_reco : list string;                 (* JWSRegistry.recommended *)
  st_jwe_algs : list jwe_alg_row;
  st_jwe_encs : list jwe_enc_row;
  st_jwe_zips : list jwe_zip_row;
  st_jwe_reco : list string;
  st_ksalg : list (string * list string);    (* KeySet.algorithm_keys *)
  st_ops : list kop;                         (* BaseKey.operation_registry *)
  st_jws_default_allowed : option (list string);  (* default_registry.allowed *)
  st_jwe_default_allowed : option (list string)
}.
Definition static0 : static :=
  {| st_regs := [];
     st_jws_algs := jws_alg_table; st_jws_reco := jws_recommended;
     st_jwe_algs := jwe_alg_table; st_jwe_encs := jwe_enc_table; st_jwe_zips := jwe_zip_table;
     st_jwe_reco := jwe_recommended; st_ksalg := keyset_algorithm_keys;
     st_ops := jwk_operation_registry;
     st_jws_default_allowed := jws_default_registry_allowed;
     st_jwe_default_allowed := jwe_default_registry_allowed |}.

(* ---------- mutable world ---------- *)
Record kst := { ks_objs : list dict; ks_ptr : nat; ks_pub : bool }.
Definition kst0 : kst := {| ks_objs := [[]]; ks_ptr := 0; ks_pub := false |}.
Record world := { w_keys : list kst; w_sets : list (list nat); w_rng : N; w_static : static }.

Fixpoint upd {A} (l : list A) (n : nat) (x : A) : list A :=
  match l, n with
  | [], _ => []
  | _ :: r, O => x :: r
  | y :: r, S m => y :: upd r m x
  end.

Definition getk (w : world) (k : nat) : kst := nth k (w_keys w) kst0.
Definition setk (w : world) (k : nat) (s : kst) : world :=
  {| w_keys := upd (w_keys w) k s; w_sets := w_sets w; w_rng := w_rng w; w_static := w_static w |}.
Definition vis (s : kst) : dict := nth (ks_ptr s) (ks_objs s) [].
Definition set_vis (s : kst) (d : dict) : kst :=
  {| ks_objs := upd (ks_objs s) (ks_ptr s) d; ks_ptr := ks_ptr s; ks_pub := ks_pub s |}.
Definition nonempty {A} (l : list A) : bool := match l with [] => false | _ => true end.

Definition eff_allowed (st : static) (rr : regref) : option (list string) :=
  match rr with ROwn a => a | RShared r => cr_allowed (nth r (st_regs st) creg0) end.
Definition with_regs (st : static) (regs : list creg) : static :=
  {| st_regs := regs; st_jws_algs := st_jws_algs st; st_jws_reco := st_jws_reco st; st_jwe_algs := st_jwe_algs st;
     st_jwe_encs := st_jwe_encs st; st_jwe_zips := st_jwe_zips st; st_jwe_reco := st_jwe_reco st; st_ksalg := st_ksalg st;
     st_ops := st_ops st; st_jws_default_allowed := st_jws_default_allowed st;
     st_jwe_default_allowed := st_jwe_default_allowed st |}.

Definition init_world (nkeys : nat) (sets : list (list nat)) : world :=
  {| w_keys := repeat kst0 nkeys; w_sets := sets; w_rng := 0; w_static := static0 |}.

(* ---------- atomic actions ---------- *)
Inductive action :=
| ANop
| ATest (k : nat)                         (* if self._dict_value: *)
| ARead (k : nat)                         (* return self._dict_value, and the caller's use of it on the same line *)
| AAssign (k : nat)                       (* ORIGINAL  self._dict_value = data *)
| AReadObj (k i : nat)                    (* ORIGINAL  return data, and the caller's use of it *)
| AUpdate (k : nat)                       (* FIXED     self._dict_value.update(data) *)
| ASetKid (k : nat) (tp : str)            (* self._dict_value["kid"] = <thumbprint computed by this thread> *)
| AIterNext (k i pos size : nat)          (* ORIGINAL  next step of `for k in self.dict_value` over object i *)
| APubGet (k : nat)                       (* cached_property: lookup in the instance dict *)
| APubSet (k : nat)                       (* cached_property: store *)
| ASetKeys (s : nat)                      (* self.keys of a shared KeySet *)
| AAlgKeys (alg : string)                 (* KeySet.algorithm_keys.get(alg) *)
| AOpReg (op : string)                    (* operation_registry[op].private *)
| AJwsAlg (alg : string) (rr : regref)    (* registry.algorithms / recommended / the singleton's key_type *)
| AJweAlg (alg enc : string) (rr : regref) (* JWERegistry.algorithms["alg"/"enc"], recommended, the singletons' attributes *)
| ADraw.                                  (* one draw from the shared random source *)

Inductive obs :=
| OUnit
| OBool (b : bool)
| ODict (i : nat) (d : dict)
| ONat (n : nat)
| OKeys (l : list nat)
| OStrs (o : option (list string))
| OOp (o : option (option bool))
| OAlg (o : option (string * bool)) (al : option (list string))   (* key_type of the singleton, recommended?, the registry's allow-list *)
| OJwe (a : option (string * list string)) (areco : bool) (e : bool) (ereco : bool) (al : option (list string))
| ODrawn (idx : N)
| OIter (r : res (option str)).

Definition find_jws (l : list jws_alg_row) (alg : string) : option jws_alg_row :=
  find (fun r => String.eqb (ja_name r) alg) l.
Definition find_op (l : list kop) (op : string) : option kop :=
  find (fun r => String.eqb (ko_name r) op) l.
Definition smem (x : string) (l : list string) : bool := existsb (String.eqb x) l.

Definition sem (im : imm) (a : action) (w : world) : world * obs :=
  match a with
  | ANop => (w, OUnit)
  | ATest k => (w, OBool (nonempty (vis (getk w k))))
  | ARead k => (w, ODict (ks_ptr (getk w k)) (vis (getk w k)))
  | AAssign k =>
      let s := getk w k in
      (setk w k {| ks_objs := ks_objs s ++ [ki_view (kim im k)]; ks_ptr := length (ks_objs s); ks_pub := ks_pub s |},
       ONat (length (ks_objs s)))
  | AReadObj k i => (w, ODict i (nth i (ks_objs (getk w k)) []))
  | AUpdate k =>
      let s := getk w k in (setk w k (set_vis s (dupdate (vis s) (ki_view (kim im k)))), OUnit)
  | ASetKid k tp =>
      let s := getk w k in (setk w k (set_vis s (dset (vis s) kidK (PStr tp))), OUnit)
  | AIterNext k i pos size =>
      let d := nth i (ks_objs (getk w k)) [] in
      (w, OIter (if Nat.eqb (length d) size then Ok (nth_error (dkeys d) pos) else Err ERuntime))
  | APubGet k => (w, OBool (ks_pub (getk w k)))
  | APubSet k =>
      let s := getk w k in
      (setk w k {| ks_objs := ks_objs s; ks_ptr := ks_ptr s; ks_pub := true |}, OUnit)
  | ASetKeys s => (w, OKeys (nth s (w_sets w) []))
  | AAlgKeys alg => (w, OStrs (slookup (st_ksalg (w_static w)) alg))
  | AOpReg op => (w, OOp (option_map ko_private (find_op (st_ops (w_static w)) op)))
  | AJwsAlg alg rr =>
      (w, OAlg (option_map (fun r => (ja_key_type r, smem alg (st_jws_reco (w_static w))))
                           (find_jws (st_jws_algs (w_static w)) alg))
               (eff_allowed (w_static w) rr))
  | AJweAlg alg enc rr =>
      (w, OJwe (option_map (fun r => (ea_family r, ea_key_types r))
                           (find (fun r => String.eqb (ea_name r) alg) (st_jwe_algs (w_static w))))
               (smem alg (st_jwe_reco (w_static w)))
               (existsb (fun r => String.eqb (ee_name r) enc) (st_jwe_encs (w_static w)))
               (smem enc (st_jwe_reco (w_static w)))
               (eff_allowed (w_static w) rr))
  | ADraw =>
      ({| w_keys := w_keys w; w_sets := w_sets w; w_rng := w_rng w + 1; w_static := w_static w |},
       ODrawn (w_rng w))
  end.

(* ---------- threads ---------- *)
Inductive prog (A : Type) :=
| Ret (a : A)
| Act (l : string) (a : action) (k : obs -> prog A).
Arguments Ret {A} a.
Arguments Act {A} l a k.

Fixpoint pbind {A B} (p : prog A) (f : A -> prog B) : prog B :=
  match p with
  | Ret a => f a
  | Act l a k => Act l a (fun o => pbind (k o) f)
  end.
(* exceptions propagate *)
Definition pbindr {A B} (p : prog (res A)) (f : A -> prog (res B)) : prog (res B) :=
  pbind p (fun r => match r with Ok a => f a | Err e => Ret (Err e) end).
Definition nop {A} (l : string) (p : prog A) : prog A := Act l ANop (fun _ => p).
Fixpoint nops {A} (l : string) (n : nat) (p : prog A) : prog A :=
  match n with O => p | S m => nop l (nops l m p) end.

Section Programs.
  Variable fixed : bool.
  Variable im : imm.
  (* which element random.choice returns for a given draw (oracle) *)
  Variable pickf : N -> nat -> nat.

  Definition rd {A} (o : obs) (f : nat -> dict -> prog (res A)) : prog (res A) :=
    match o with ODict i d => f i d | _ => Ret (Err EOracleMiss) end.

  (* BaseKey.dict_value -> (object, its content when returned) *)
  Definition dv (k : nat) : prog (res (nat * dict)) :=
    let ki := kim im k in
    Act "dv.if" (ATest k) (fun o =>
      match o with
      | OBool true => Act "dv.ret" (ARead k) (fun o => rd o (fun i d => Ret (Ok (i, d))))
      | _ =>
        nop "dv.convert" (nop "dv.ifextra" (nops "dv.extra" (if ki_extra ki then 1 else 0) (nop "dv.kty"
        (nop "dv.validate"
          (if ki_valid ki then
             if fixed then
               Act "dv.update" (AUpdate k) (fun _ =>
               Act "dv.ret2" (ARead k) (fun o => rd o (fun i d => Ret (Ok (i, d)))))
             else
               Act "dv.assign" (AAssign k) (fun o =>
                 match o with
                 | ONat i => Act "dv.retdata" (AReadObj k i) (fun o => rd o (fun i d => Ret (Ok (i, d))))
                 | _ => Ret (Err EOracleMiss)
                 end)
           else Ret (Err EValue))))))
      end).

  (* BaseKey.get(f) : dict_value.get(f) *)
  Definition getf (k : nat) (f : str) : prog (res pv) :=
    nop "get.ret" (pbindr (dv k) (fun id => Ret (Ok (match dget (snd id) f with Some v => v | None => PNone end)))).
  Definition kidp (k : nat) : prog (res pv) := nop "kid.ret" (getf k kidK).

  Fixpoint forset {A} (n : nat) (p : prog A) : prog A :=
    match n with O => p | S m => nop "r.for" (nop "r.set" (forset m p)) end.

  (* BaseKey.thumbprint(); [setkid]: the call is the right-hand side of
     ensure_kid's assignment, which completes on the line that returns *)
  Definition thumb (k : nat) (setkid : bool) : prog (res str) :=
    let ki := kim im k in
    let nreg := length (vreg (ki_kty ki)) in
    let nf := length (tpfields (ki_kty ki)) in
    nops "tp.fields" (S nreg) (nop "tp.append" (nop "tp.ret"
    (pbindr (dv k) (fun id =>
       nop "r.sorted" (nop "r.data"
       (match thumb_of ki (snd id) with
        | Err e => nop "r.for" (nop "r.set" (Ret (Err e)))
        | Ok tp =>
          forset nf (nop "r.for" (nop "r.json" (nop "r.hash" (nop "r.digest"
          (Act "r.ret" (if setkid then ASetKid k tp else ANop) (fun _ => Ret (Ok tp)))))))
        end)))))).

  (* BaseKey.ensure_kid() *)
  Definition ensure_kid (k : nat) : prog (res unit) :=
    nop "ek.if" (pbindr (dv k) (fun id =>
      if dmem (snd id) kidK then Ret (Ok tt)
      else nop "ek.set" (pbindr (thumb k true) (fun _ => Ret (Ok tt))))).

  (* the loop of as_dict(private=False) *)
  Fixpoint strip_loop (privs : list str) (ks : list str) (data : dict) : prog (res pv) :=
    match ks with
    | [] => nop "ad.for" (nop "ad.update2" (nop "ad.ret2" (Ret (Ok (PDict data)))))
    | f :: r =>
        nop "ad.for" (nop "ad.ifk"
          (if str_mem f privs then nop "ad.del" (strip_loop privs r (ddel data f))
           else strip_loop privs r data))
    end.
  (* original code: the loop runs over the live shared dict object i *)
  Fixpoint strip_live (fuel : nat) (privs : list str) (k i pos size : nat) (cur : option str) (data : dict)
    : prog (res pv) :=
    match cur with
    | None => nop "ad.update2" (nop "ad.ret2" (Ret (Ok (PDict data))))
    | Some f =>
      match fuel with
      | O => Ret (Err EOracleMiss)
      | S fuel' =>
        let next (data' : dict) :=
          Act "ad.for" (AIterNext k i pos size) (fun o =>
            match o with
            | OIter (Ok c) => strip_live fuel' privs k i (S pos) size c data'
            | OIter (Err e) => Ret (Err e)
            | _ => Ret (Err EOracleMiss)
            end) in
        nop "ad.ifk"
          (if str_mem f privs then
             (* del data[k]: KeyError when the copy lacks the key *)
             if dmem data f then nop "ad.del" (next (ddel data f)) else nop "ad.del" (Ret (Err EKey))
           else next data)
      end
    end.

  (* BaseKey.as_dict(private) without extra params *)
  Definition as_dict (k : nat) (private : option bool) : prog (res pv) :=
    let ki := kim im k in
    let privs := privfields (ki_kty ki) in
    nop "ad.ifpriv"
    (if is_true private && negb (ki_private ki) then nop "ad.raise" (Ret (Err EValue))
     else nop "ad.copy" (pbindr (dv k) (fun id =>
       let data := snd id in
       nop "ad.ifnotfalse"
       (match private with
        | Some false =>
            if fixed then strip_loop privs (dkeys data) data
            else nop "ad.for" (pbindr (dv k) (fun id2 =>
                   let i := fst id2 in let d2 := snd id2 in
                   strip_live (S (S (length d2 + length (ki_view ki)))) privs k i 1 (length d2)
                              (nth_error (dkeys d2) 0) data))
        | _ => nop "ad.update1" (nop "ad.ret1" (Ret (Ok (PDict data))))
        end)))).

  (* KeySet.__init__(keys) followed by reading every key's kid *)
  Fixpoint ensure_all (ks : list nat) : prog (res unit) :=
    match ks with
    | [] => nop "ks.for" (nop "ks.assign" (Ret (Ok tt)))
    | k :: r => nop "ks.for" (nop "ks.ensure" (pbindr (ensure_kid k) (fun _ => ensure_all r)))
    end.
  Fixpoint kids_of (ks : list nat) (acc : list pv) : prog (res pv) :=
    match ks with
    | [] => Ret (Ok (PList (rev acc)))
    | k :: r => pbindr (kidp k) (fun v => kids_of r (v :: acc))
    end.
  Definition new_set (ks : list nat) : prog (res pv) :=
    pbindr (ensure_all ks) (fun _ => kids_of ks []).

  Definition rkeys {A} (o : obs) (f : list nat -> prog (res A)) : prog (res A) :=
    match o with OKeys l => f l | _ => Ret (Err EOracleMiss) end.

  (* KeySet.as_dict(private) *)
  Fixpoint ksd_body (ks : list nat) (private : option bool) (acc : list pv) : prog (res pv) :=
    match ks with
    | [] => nop "ksd.ret" (Ret (Ok (PDict [(asc "keys", PList (rev acc))])))
    | k :: r =>
        nop "ksd.ensure" (pbindr (ensure_kid k) (fun _ =>
        nop "ksd.append" (pbindr (as_dict k private) (fun v =>
        nop "ksd.for" (ksd_body r private (v :: acc))))))
    end.
  Definition set_as_dict (s : nat) (private : option bool) : prog (res pv) :=
    nop "ksd.init" (Act "ksd.for" (ASetKeys s) (fun o => rkeys o (fun ks => ksd_body ks private []))).

  Definition kid_matches (v : pv) (kid : option str) : bool :=
    match v, kid with
    | PNone, None => true
    | PStr s, Some t => str_eqb s t
    | _, _ => false
    end.

  (* KeySet.get_by_kid(kid) *)
  Fixpoint gbk_loop (ks : list nat) (kid : option str) : prog (res nat) :=
    match ks with
    | [] => nop "gbk.for" (nop "gbk.ifstr" (nop "gbk.raise" (Ret (Err (EJose InvalidKeyIdError)))))
    | k :: r =>
        nop "gbk.for" (nop "gbk.ifkid" (pbindr (kidp k) (fun v =>
          if kid_matches v kid then nop "gbk.retkey" (Ret (Ok k)) else gbk_loop r kid)))
    end.
  Definition get_by_kid (s : nat) (kid : option str) : prog (res nat) :=
    Act "gbk.if" (ASetKeys s) (fun o => rkeys o (fun ks =>
      match kid, ks with
      | None, [k] => nop "gbk.ret0" (Ret (Ok k))
      | _, _ => gbk_loop ks kid
      end)).

  (* KeySet.pick_random_key(alg) *)
  Definition pick_random (s : nat) (alg : string) : prog (res (option nat)) :=
    Act "prk.algkeys" (AAlgKeys alg) (fun o =>
      match o with
      | OStrs kt =>
        nop "prk.if"
        (let types := match kt with Some l => l | None => [] end in
         let cont (ks : list nat) : prog (res (option nat)) :=
           nop "prk.ifkeys"
             (match ks with
              | [] => nop "prk.retnone" (Ret (Ok None))
              | _ => Act "prk.choice" ADraw (fun o =>
                       match o with
                       | ODrawn idx => Ret (Ok (Some (nth (pickf idx (length ks)) ks 0%nat)))
                       | _ => Ret (Err EOracleMiss)
                       end)
              end) in
         if nonempty types then
           Act "prk.comp" (ASetKeys s) (fun o => rkeys o (fun all =>
             nops "prk.comp" (length all)
               (cont (filter (fun k => smem (ki_kty (kim im k)) types) all))))
         else Act "prk.all" (ASetKeys s) (fun o => rkeys o cont))
      | _ => Ret (Err EOracleMiss)
      end).

  Inductive keyref := KKey (k : nat) | KSet (s : nat).

  Definition falsy_kid (kid : option str) : bool :=
    match kid with None => true | Some [] => true | _ => false end.

  (* jwk.guess_key(key, obj, use_random) -> (key, the kid now in obj's header) *)
  Definition guess_key (kr : keyref) (kid : option str) (use_random : bool) (alg : string)
    : prog (res (nat * pv)) :=
    let hk := match kid with Some s => PStr s | None => PNone end in
    nop "gk.callable" (nop "gk.norm" (nop "gk.isset"
    (match kr with
     | KKey k => nop "gk.iskey" (nop "gk.rvkey" (nop "gk.ret" (Ret (Ok (k, hk)))))
     | KSet s =>
       nop "gk.headers" (nop "gk.kid" (nop "gk.ifrandom"
       (if falsy_kid kid && use_random then
          nop "gk.pick" (pbindr (pick_random s alg) (fun c =>
            nop "gk.ifnone"
            (match c with
             | None => nop "gk.raise" (Ret (Err EValue))
             | Some k =>
               nop "gk.ensure" (pbindr (ensure_kid k) (fun _ =>
               nop "gk.assert" (pbindr (kidp k) (fun v1 =>
                 match v1 with
                 | PNone => Ret (Err EAssert)
                 | _ => nop "gk.setkid" (pbindr (kidp k) (fun v2 => nop "gk.ret" (Ret (Ok (k, v2)))))
                 end))))
             end)))
        else
          nop "gk.getbykid" (pbindr (get_by_kid s kid) (fun k => nop "gk.ret" (Ret (Ok (k, hk))))))))
     end))).

  (* BaseKey.check_key_op(op) ; get_op_key(op) *)
  Definition op_private (o : obs) : option bool :=
    match o with OOp (Some p) => Some (is_true p) | _ => None end.
  Definition key_ops_ok (v : pv) (op : string) : bool :=
    match v with
    | PNone => true
    | PList l => list_contains l (PStr (asc op))
    | _ => true    (* not reached: validate_dict_key only lets lists through *)
    end.
  Definition check_key_op (k : nat) (op : string) : prog (res unit) :=
    nop "cko.get" (pbindr (getf k (asc "key_ops")) (fun v =>
      nop "cko.if"
      (if negb (key_ops_ok v op) then nop "cko.raise" (Ret (Err (EJose UnsupportedKeyOperationError)))
       else Act "cko.assert" (AOpReg op) (fun o =>
         match op_private o with
         | None => Ret (Err EAssert)
         | Some _ =>
           Act "cko.reg" (AOpReg op) (fun o =>
             nop "cko.ifpriv"
             (match op_private o with
              | Some true => if ki_private (kim im k) then Ret (Ok tt)
                             else nop "cko.raise2" (Ret (Err (EJose UnsupportedKeyOperationError)))
              | _ => Ret (Ok tt)
              end))
         end)))).
  Definition get_op_key (k : nat) (op : string) : prog (res unit) :=
    nop "gok.check" (pbindr (check_key_op k op) (fun _ =>
      Act "gok.reg" (AOpReg op) (fun o =>
        nop "gok.ifpriv"
        (match op_private o with
         | Some true => nop "gok.assert" (nop "gok.retpriv" (Ret (Ok tt)))
         | _ =>
           if cached_pub (ki_kty (kim im k)) then
             Act "gok.retpub" (APubGet k) (fun o =>
               match o with
               | OBool true => Ret (Ok tt)
               | _ => nop "pub.if" (Act "pub.ret" (APubSet k) (fun _ => Ret (Ok tt)))
               end)
           else nop "gok.retpub" (Ret (Ok tt))
         end)))).

  Definition py_truthy_str (v : pv) : option str :=
    match v with PStr (c :: s) => Some (c :: s) | _ => None end.

  (* registry.get_alg(alg) with the per-call allow-list *)
  Definition get_alg (alg : string) (o : obs) : res string :=
    match o with
    | OAlg None _ => Err (EJose UnsupportedAlgorithmError)
    | OAlg (Some (kt, reco)) allowed =>
        match allowed with
        | Some (x :: l) => if smem alg (x :: l) then Ok kt else Err (EJose UnsupportedAlgorithmError)
        | _ => if reco then Ok kt else Err (EJose UnsupportedAlgorithmError)
        end
    | _ => Err EOracleMiss
    end.

  (* jws.serialize_compact / deserialize_compact up to the call of the
     signature primitive: which key, which kid in the header, which verdict of
     the key checks *)
  Definition jws_op (sign : bool) (kr : keyref) (kid : option str) (alg : string)
             (allowed : regref) (crypto : option jcls) : prog (res pv) :=
    (* the verdict of the signature primitive: an oracle, a pure function of the
       raw key and of the call's own arguments *)
    let fin (v : pv) : res pv := match crypto with None => Ok v | Some c => Err (EJose c) end in
    let use_check (k : nat) (cont : prog (res pv)) : prog (res pv) :=
      pbindr (getf k (asc "use")) (fun u =>
        match py_truthy_str u with
        | Some s => if str_eqb s (asc "sig") then cont else Ret (Err (EJose UnsupportedKeyUseError))
        | None => cont
        end) in
    let alg_check (k : nat) (cont : prog (res pv)) : prog (res pv) :=
      pbindr (getf k (asc "alg")) (fun u =>
        match py_truthy_str u with
        | Some s => if str_eqb s (asc alg) then cont else Ret (Err (EJose UnsupportedKeyAlgorithmError))
        | None => cont
        end) in
    let ktype_check (k : nat) (kt : string) (cont : prog (res pv)) : prog (res pv) :=
      if String.eqb (ki_kty (kim im k)) kt then cont else Ret (Err (EJose InvalidKeyTypeError)) in
    if sign then
      Act "jws.getalg" (AJwsAlg alg allowed) (fun o =>
        match get_alg alg o with
        | Err e => Ret (Err e)
        | Ok kt =>
          pbindr (guess_key kr kid true alg) (fun kh =>
            let k := fst kh in
            use_check k (ktype_check k kt (alg_check k
              (pbindr (get_op_key k "sign") (fun _ => Ret (fin (snd kh)))))))
        end)
    else
      pbindr (guess_key kr kid false alg) (fun kh =>
        let k := fst kh in
        use_check k
          (Act "jws.getalg" (AJwsAlg alg allowed) (fun o =>
             match get_alg alg o with
             | Err e => Ret (Err e)
             | Ok kt => ktype_check k kt (pbindr (get_op_key k "verify") (fun _ => Ret (fin (snd kh))))
             end))).

  (* jwe.encrypt_compact / decrypt_compact for direct encryption and AES key wrapping, up to
     the primitives: guess_key, check_use("enc"), the registry / singleton reads, the CEK and
     IV draws of a producer, check_key_type, get_op_key *)
  Definition allowed_ok (name : string) (allowed : option (list string)) (reco : bool) : bool :=
    match allowed with Some (x :: l) => smem name (x :: l) | _ => reco end.
  Definition jwe_reg (alg enc : string) (o : obs) : res (string * list string) :=
    match o with
    | OJwe a ar e er allowed =>
        if e && allowed_ok enc allowed er then
          match a with
          | Some fk => if allowed_ok alg allowed ar then Ok fk else Err (EJose UnsupportedAlgorithmError)
          | None => Err (EJose UnsupportedAlgorithmError)
          end
        else Err (EJose UnsupportedAlgorithmError)
    | _ => Err EOracleMiss
    end.
  Definition draw_then {A} (l : string) (doit : bool) (p : prog A) : prog A :=
    if doit then Act l ADraw (fun _ => p) else p.

  Definition jwe_op (encrypt : bool) (kr : keyref) (kid : option str) (alg enc : string)
             (allowed : regref) (crypto : option jcls) : prog (res pv) :=
    let fin (v : pv) : res pv := match crypto with None => Ok v | Some c => Err (EJose c) end in
    pbindr (guess_key kr kid encrypt alg) (fun kh =>
      let k := fst kh in
      pbindr (getf k (asc "use")) (fun u =>
        let cont :=
          Act "jwe.reg" (AJweAlg alg enc allowed) (fun o =>
            match jwe_reg alg enc o with
            | Err e => Ret (Err e)
            | Ok (fam, kts) =>
              let ktype (p : prog (res pv)) : prog (res pv) :=
                if smem (ki_kty (kim im k)) kts then p else Ret (Err (EJose InvalidKeyTypeError)) in
              if String.eqb fam "dir" then
                ktype (draw_then "jwe.iv" encrypt (Ret (fin (snd kh))))
              else if String.eqb fam "AESKW" then
                draw_then "jwe.cek" encrypt
                  (ktype (pbindr (get_op_key k (if encrypt then "wrapKey" else "unwrapKey")) (fun _ =>
                     draw_then "jwe.iv" encrypt (Ret (fin (snd kh))))))
              else Ret (Err EOracleMiss)
            end) in
        match py_truthy_str u with
        | Some s => if str_eqb s (asc "enc") then cont else Ret (Err (EJose UnsupportedKeyUseError))
        | None => cont
        end)).

  (* ---------- API calls ---------- *)
  Inductive call :=
  | CAsDict (k : nat) (private : option bool)
  | CThumb (k : nat)
  | CEnsureKid (k : nat)
  | CKid (k : nat)
  | CNewSet (ks : list nat)
  | CGetByKid (s : nat) (kid : option str)
  | CPick (s : nat) (alg : string)
  | CSetAsDict (s : nat) (private : option bool)
  | CJws (sign : bool) (kr : keyref) (kid : option str) (alg : string) (allowed : regref)
         (crypto : option jcls)
  | CJwe (encrypt : bool) (kr : keyref) (kid : option str) (alg enc : string) (allowed : regref)
         (crypto : option jcls).

  Definition compile (c : call) : prog (res pv) :=
    match c with
    | CAsDict k p => as_dict k p
    | CThumb k => pbindr (thumb k false) (fun s => Ret (Ok (PStr s)))
    | CEnsureKid k => pbindr (ensure_kid k) (fun _ => Ret (Ok PNone))
    | CKid k => kidp k
    | CNewSet ks => new_set ks
    | CGetByKid s kid => pbindr (get_by_kid s kid) (fun k => Ret (Ok (PInt (Z.of_nat k))))
    | CPick s alg => pbindr (pick_random s alg)
                       (fun o => Ret (Ok (match o with Some k => PInt (Z.of_nat k) | None => PNone end)))
    | CSetAsDict s p => set_as_dict s p
    | CJws sg kr kid alg allowed cr => jws_op sg kr kid alg allowed cr
    | CJwe en kr kid alg enc allowed cr => jwe_op en kr kid alg enc allowed cr
    end.
End Programs.

(* ---------- executions ---------- *)
(* one step of thread t *)
Definition tstep {A} (im : imm) (w : world) (p : prog A) : option (world * prog A * string * action * obs) :=
  match p with
  | Ret _ => None
  | Act l a k => let '(w', o) := sem im a w in Some (w', k o, l, a, o)
  end.

Record event := { ev_tid : nat; ev_lbl : string; ev_act : action; ev_obs : obs }.

(* run a schedule: a list of thread indices, one per step; a step of a
   finished or non-existing thread is recorded as "<done>" and changes nothing *)
Fixpoint run_sched {A} (im : imm) (sched : list nat) (w : world) (ts : list (prog A))
  : world * list (prog A) * list event :=
  match sched with
  | [] => (w, ts, [])
  | t :: r =>
    match nth_error ts t with
    | Some (Act l a k) =>
        let '(w', o) := sem im a w in
        let '(w'', ts'', tr) := run_sched im r w' (upd ts t (k o)) in
        (w'', ts'', {| ev_tid := t; ev_lbl := l; ev_act := a; ev_obs := o |} :: tr)
    | _ =>
        let '(w'', ts'', tr) := run_sched im r w ts in
        (w'', ts'', {| ev_tid := t; ev_lbl := "<done>"; ev_act := ANop; ev_obs := OUnit |} :: tr)
    end
  end.

(* sequential (isolated) run of one thread, bounded by fuel *)
Fixpoint run_seq {A} (im : imm) (fuel : nat) (w : world) (p : prog A) : option (A * world) :=
  match p with
  | Ret a => Some (a, w)
  | Act l a k =>
    match fuel with
    | O => None
    | S f => let '(w', o) := sem im a w in run_seq im f w' (k o)
    end
  end.

Definition result_of {A} (p : prog A) : option A := match p with Ret a => Some a | _ => None end.

(* the relational view: any thread index chosen by the scheduler *)
Inductive gstep {A} (im : imm) : world * list (prog A) -> world * list (prog A) -> Prop :=
| gs : forall w ts t l a k,
    nth_error ts t = Some (Act l a k) ->
    gstep im (w, ts) (fst (sem im a w), upd ts t (k (snd (sem im a w)))).
Inductive greach {A} (im : imm) : world * list (prog A) -> world * list (prog A) -> Prop :=
| gr_refl : forall c, greach im c c
| gr_step : forall c1 c2 c3, gstep im c1 c2 -> greach im c2 c3 -> greach im c1 c3.
