(* C13Thumb.v — Impl model of
     joserfc.rfc7638.thumbprint
     joserfc.rfc7517.models.BaseKey.{__init__ (dict part), dict_value, thumbprint,
        ensure_kid, kid, as_dict}
     joserfc._keys.KeySet.{__init__, as_dict}
     the JWK member encodings of OctBinding / RSABinding / ECBinding / OKPBinding
   and the Spec of RFC 7638 section 3 (written from the RFC text).
   hashlib.new(name, data).digest() is the Section variable [hashnew]. *)
From Model Require Export Base PyVal B64 IntCodec TableTypes C13Json.
From Gen Require Import Tables.
Open Scope N_scope.

Definition dict := list (str * pv).

(* member names *)
Definition s_kid : str := [107; 105; 100].
Definition s_kty : str := [107; 116; 121].
Definition s_crv : str := [99; 114; 118].
Definition s_k : str := [107].
Definition s_n : str := [110].
Definition s_e : str := [101].
Definition s_d : str := [100].
Definition s_p : str := [112].
Definition s_q : str := [113].
Definition s_dp : str := [100; 112].
Definition s_dq : str := [100; 113].
Definition s_qi : str := [113; 105].
Definition s_x : str := [120].
Definition s_y : str := [121].
Definition s_sha256 : str := [115; 104; 97; 50; 53; 54].

(* ---------- sorted(fields): code-point lexicographic order ---------- *)
Fixpoint str_leb (a b : str) : bool :=
  match a, b with
  | [], _ => true
  | _ :: _, [] => false
  | x :: a', y :: b' => if x <? y then true else if y <? x then false else str_leb a' b'
  end.

Fixpoint insert_sorted (k : str) (l : list str) : list str :=
  match l with
  | [] => [k]
  | x :: r => if str_leb k x then k :: l else x :: insert_sorted k r
  end.

Definition sort_fields (l : list str) : list str := fold_right insert_sorted [] l.

(* data = OrderedDict(); for k in sorted_fields: data[k] = dict_value[k] *)
Fixpoint build_data (d : dict) (fs : list str) (acc : dict) : res dict :=
  match fs with
  | [] => Ok acc
  | k :: r =>
      match dget d k with
      | None => Err EKey
      | Some v => build_data d r (dset acc k v)
      end
  end.

(* ---------- key classes (tables from /repo) ---------- *)
Record kcls := { kc_kty : string; kc_reg : list kparam; kc_digest : string }.

Definition OctCls := {| kc_kty := "oct"; kc_reg := value_registry_oct; kc_digest := thumbprint_digest_oct |}.
Definition RSACls := {| kc_kty := "RSA"; kc_reg := value_registry_RSA; kc_digest := thumbprint_digest_RSA |}.
Definition ECCls := {| kc_kty := "EC"; kc_reg := value_registry_EC; kc_digest := thumbprint_digest_EC |}.
Definition OKPCls := {| kc_kty := "OKP"; kc_reg := value_registry_OKP; kc_digest := thumbprint_digest_OKP |}.
Definition key_classes : list kcls := [OctCls; RSACls; ECCls; OKPCls].
Definition asym_classes : list kcls := [RSACls; ECCls; OKPCls].

(* [k for k in value_registry if value_registry[k].required] + ["kty"] *)
Definition required_fields (c : kcls) : list str :=
  map (fun p => asc (kp_name p)) (filter kp_required (kc_reg c)).
Definition key_fields (c : kcls) : list str := required_fields c ++ [s_kty].

(* k in value_registry and value_registry[k].private *)
Definition private_member (c : kcls) (k : str) : bool :=
  existsb (fun p => str_eqb (asc (kp_name p)) k &&
                    match kp_private p with Some true => true | _ => false end) (kc_reg c).

(* validate_dict_key_registry(data, value_registry), for the validator kinds
   that occur in the four value registries *)
Fixpoint validate_reg (reg : list kparam) (d : dict) : res unit :=
  match reg with
  | [] => Ok tt
  | p :: r =>
      let k := asc (kp_name p) in
      match dget d k with
      | None => if kp_required p then Err EValue else validate_reg r d
      | Some v =>
          match kp_kind p with
          | VStr => if is_str v then validate_reg r d else Err EValue
          | VNone => Err EValue
          | _ => Err EOracleMiss
          end
      end
  end.

(* a key object: its class, whether the native key is a private key, and the
   materialised dict_value *)
Record kobj := { ko_cls : kcls; ko_priv : bool; ko_dict : dict }.

(* {**original_value, **parameters, "kty": key_type}  and
   data = convert_raw_key_to_dict(..); data.update(extra); data["kty"] = key_type *)
Definition mk_dict (c : kcls) (orig : dict) (params : option dict) : dict :=
  dset (match params with Some p => dupdate orig p | None => orig end)
       s_kty (PStr (asc (kc_kty c))).

(* BaseKey.as_dict(private, **params) *)
Definition as_dict (k : kobj) (private : option bool) (params : dict) : res dict :=
  match private with
  | Some true =>
      if ko_priv k then Ok (dupdate (ko_dict k) params) else Err EValue
  | None => Ok (dupdate (ko_dict k) params)
  | Some false =>
      Ok (dupdate (filter (fun kv => negb (private_member (ko_cls k) (fst kv))) (ko_dict k)) params)
  end.

(* BaseKey.kid *)
Definition kid_of (k : kobj) : option pv := dget (ko_dict k) s_kid.

(* ---------- JWK member encodings of the native keys ---------- *)
Inductive native :=
| NOct (k : bytes)
| NRSA (n e : Z) (priv : option (Z * Z * Z * Z * Z * Z))      (* d p q dp dq qi *)
| NEC (crv : str) (bits : N) (x y : Z) (d : option Z)
| NOKP (crv : str) (x : bytes) (d : option bytes).

(* urlsafe_b64encode(num.to_bytes((key_size + 7) // 8, "big")) *)
Definition fixed_b64 (z : Z) (bits : N) : res str :=
  let L := N.to_nat ((bits + 7) / 8) in
  if (z <? 0)%Z then Err EOverflow
  else if 256 ^ N.of_nat L <=? Z.to_N z then Err EOverflow
  else Ok (b64e (I2OSP (Z.to_N z) L)).

Definition native_private (nk : native) : bool :=
  match nk with
  | NOct _ => true
  | NRSA _ _ p => match p with Some _ => true | None => false end
  | NEC _ _ _ _ d => match d with Some _ => true | None => false end
  | NOKP _ _ d => match d with Some _ => true | None => false end
  end.

(* binding.convert_raw_key_to_dict(raw_key, is_private) *)
Definition export_native (nk : native) : res dict :=
  match nk with
  | NOct k => Ok [(s_k, PStr (b64e k))]
  | NRSA n e priv =>
      do bn <- int_to_base64 n;
      do be <- int_to_base64 e;
      match priv with
      | None => Ok [(s_n, PStr bn); (s_e, PStr be)]
      | Some (d, p, q, dp, dq, qi) =>
          do bd <- int_to_base64 d;
          do bp <- int_to_base64 p;
          do bq <- int_to_base64 q;
          do bdp <- int_to_base64 dp;
          do bdq <- int_to_base64 dq;
          do bqi <- int_to_base64 qi;
          Ok [(s_n, PStr bn); (s_e, PStr be); (s_d, PStr bd); (s_p, PStr bp);
              (s_q, PStr bq); (s_dp, PStr bdp); (s_dq, PStr bdq); (s_qi, PStr bqi)]
      end
  | NEC crv bits x y d =>
      do bx <- fixed_b64 x bits;
      do by_ <- fixed_b64 y bits;
      match d with
      | None => Ok [(s_crv, PStr crv); (s_x, PStr bx); (s_y, PStr by_)]
      | Some dv =>
          do bd <- fixed_b64 dv bits;
          Ok [(s_crv, PStr crv); (s_x, PStr bx); (s_y, PStr by_); (s_d, PStr bd)]
      end
  | NOKP crv x d =>
      match d with
      | None => Ok [(s_crv, PStr crv); (s_x, PStr (b64e x))]
      | Some dv => Ok [(s_crv, PStr crv); (s_x, PStr (b64e x)); (s_d, PStr (b64e dv))]
      end
  end.

(* raw_key.public_key() *)
Definition native_public (nk : native) : native :=
  match nk with
  | NOct k => NOct k
  | NRSA n e _ => NRSA n e None
  | NEC crv bits x y _ => NEC crv bits x y None
  | NOKP crv x _ => NOKP crv x None
  end.

Definition native_cls (nk : native) : kcls :=
  match nk with
  | NOct _ => OctCls | NRSA _ _ _ => RSACls | NEC _ _ _ _ _ => ECCls | NOKP _ _ _ => OKPCls
  end.

(* a key built from a native key (generate_key, import of PEM/DER): dict_value *)
Definition key_of_native (nk : native) (params : option dict) : res kobj :=
  do e <- export_native nk;
  Ok {| ko_cls := native_cls nk; ko_priv := native_private nk;
        ko_dict := mk_dict (native_cls nk) e params |}.

Section Thumb.
  (* hashlib.new(name, data).digest(); ValueError for an unsupported name *)
  Variable hashnew : str -> bytes -> res bytes.
  (* assumed contract: a digest is an octet string *)
  Hypothesis hashnew_octets : forall n x h, hashnew n x = Ok h -> bytes_ok h = true.

  (* rfc7638.thumbprint(dict_value, fields, digest_method) *)
  Definition thumbprint (d : dict) (fields : list str) (digest : str) : res str :=
    do data <- build_data d (sort_fields fields) [];
    do js <- jdumps (PDict data);
    do bs <- utf8 js;
    do h <- hashnew digest bs;
    Ok (b64e h).

  (* BaseKey.thumbprint *)
  Definition key_thumbprint (c : kcls) (dv : dict) : res str :=
    thumbprint dv (key_fields c) (asc (kc_digest c)).

  (* BaseKey.ensure_kid *)
  Definition ensure_kid (k : kobj) : res kobj :=
    if dmem (ko_dict k) s_kid then Ok k
    else
      do t <- key_thumbprint (ko_cls k) (ko_dict k);
      Ok {| ko_cls := ko_cls k; ko_priv := ko_priv k;
            ko_dict := dset (ko_dict k) s_kid (PStr t) |}.

  (* KeySet.__init__: for key in keys: key.ensure_kid() *)
  Fixpoint keyset_init (ks : list kobj) : res (list kobj) :=
    match ks with
    | [] => Ok []
    | k :: r => do k' <- ensure_kid k; do r' <- keyset_init r; Ok (k' :: r')
    end.

  (* KeySet.as_dict(private, **params): returns the exported dicts and the
     (possibly mutated) keys *)
  Fixpoint keyset_as_dict (ks : list kobj) (private : option bool) (params : dict)
    : res (list dict * list kobj) :=
    match ks with
    | [] => Ok ([], [])
    | k :: r =>
        do k' <- ensure_kid k;
        do e <- as_dict k' private params;
        do '(es, r') <- keyset_as_dict r private params;
        Ok (e :: es, k' :: r')
    end.

  (* generate_key(..., auto_kid) *)
  Definition generate (nk : native) (params : option dict) (auto_kid : bool) : res kobj :=
    do k <- key_of_native nk params;
    if auto_kid then ensure_kid k else Ok k.
End Thumb.

(* ====================================================================== *)
(* Spec: RFC 7638 section 3 (and RFC 8037 section 2 for OKP)               *)
(* ====================================================================== *)

(* 3.2: "the required members for an elliptic curve public key ... in
   lexicographic order, are: crv kty x y"; RSA: "e kty n"; symmetric: "k kty";
   RFC 8037 section 2: OKP: "crv kty x" *)
Definition rfc7638_required (kty : string) : option (list str) :=
  if String.eqb kty "RSA" then Some [asc "e"; asc "kty"; asc "n"]
  else if String.eqb kty "EC" then Some [asc "crv"; asc "kty"; asc "x"; asc "y"]
  else if String.eqb kty "oct" then Some [asc "k"; asc "kty"]
  else if String.eqb kty "OKP" then Some [asc "crv"; asc "kty"; asc "x"]
  else None.

(* 3 step 1: a JSON object containing only the required members, no whitespace
   or line breaks before or after any syntactic element, members ordered
   lexicographically by the code points of the member names; the member
   values here are strings that need no escaping *)
Definition member_text (kv : str * str) : list N :=
  [34] ++ fst kv ++ [34; 58; 34] ++ snd kv ++ [34].

Fixpoint join_comma (l : list (list N)) : list N :=
  match l with
  | [] => []
  | [a] => a
  | a :: r => a ++ 44 :: join_comma r
  end.

Definition rfc7638_canonical (members : list (str * str)) : list N :=
  [123] ++ join_comma (map member_text members) ++ [125].

(* the string value of member k of a JWK *)
Definition member_str (K : dict) (k : str) : str :=
  match dget K k with Some (PStr s) => s | _ => [] end.

(* the JWK restricted to the named members, in the given order *)
Definition restrict (K : dict) (names : list str) : list (str * str) :=
  map (fun k => (k, member_str K k)) names.

(* characters that a JSON string prints verbatim: printable ASCII other than
   quotation mark and reverse solidus (base64url text, curve and key type
   names all consist of such characters) *)
Definition plain_char (c : N) : bool :=
  (32 <=? c) && (c <=? 126) && negb (c =? 34) && negb (c =? 92).
Definition plain (s : str) : bool := forallb plain_char s.

(* strict code-point order of a list of names *)
Fixpoint strictly_sorted (l : list str) : bool :=
  match l with
  | [] => true
  | a :: r => match r with
              | [] => true
              | b :: _ => str_leb a b && negb (str_eqb a b) && strictly_sorted r
              end
  end.
