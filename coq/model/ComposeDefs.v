(* ComposeDefs.v — translations between the representations used by the
   per-property models and by the pipeline model model/Jws.v.  Only
   definitions; the facts about them are in proofs/ComposeJws*.v.

     allow-lists : Jws.v   option (list str)           (rg_allowed)
                   C05     pv  (None | list of values)  -> [allowed_pv]
     keys        : Jws.v   record with kid/kty/crv/bits/use/ops/alg/private
                   C14     kid, kty, material id, thumbprint -> [to14 th]
                   C06     kty (4 constructors), crv, bits, priv, use/ops/alg as pv
                                                          -> [to06] (partial: the 4 key types)
     key sources : Jws.keysrc -> C14KeySet.ksrc          -> [src14 th]
     results     : [rmap f] maps the Ok value of a result *)
From Coq Require Import String List NArith Bool.
From Model Require Import Base PyVal TableTypes.
From Model Require Jws C05Model C14KeySet C06Model C15Registry.
Import ListNotations.
Open Scope N_scope.

Definition rmap {A B} (f : A -> B) (r : res A) : res B :=
  match r with Ok x => Ok (f x) | Err e => Err e end.

(* ---------- C05 ---------- *)
Definition allowed_pv (a : option (list str)) : pv :=
  match a with None => PNone | Some l => PList (map PStr l) end.
Definition allowed_list (a : option (list str)) : option (list pv) :=
  match a with None => None | Some l => Some (map PStr l) end.

(* ---------- C14 ---------- *)
(* [th]: the RFC 7638 thumbprint of a key (C14 keeps it because KeySet.__init__
   uses it as kid of a key without one; Jws.v has no such field) *)
Definition to14 (th : Jws.key -> str) (k : Jws.key) : C14KeySet.key :=
  C14KeySet.mkKey (Jws.k_kid k) (Jws.k_kty k) (Jws.k_id k) (th k).

Definition src14 (th : Jws.key -> str) (s : Jws.keysrc) : C14KeySet.ksrc :=
  match s with
  | Jws.KOne k => C14KeySet.KSKey (to14 th k)
  | Jws.KSet ks => C14KeySet.KSSet (map (to14 th) ks)
  | Jws.KBad => C14KeySet.KSOther
  end.

(* the header carrier of a compact JWS / of one JSON signature member *)
Definition g_compact (h : list (str * pv)) : C14KeySet.guest :=
  C14KeySet.mkGuest C14KeySet.GJwsCompact (Some h) None None.
Definition g_member (prot hdr : option (list (str * pv))) : C14KeySet.guest :=
  C14KeySet.mkGuest C14KeySet.GJwsMember prot None hdr.

(* ---------- C06 ---------- *)
Definition kty_of (s : string) : option C06Model.kty :=
  if String.eqb s "oct" then Some C06Model.KOct
  else if String.eqb s "RSA" then Some C06Model.KRsa
  else if String.eqb s "EC" then Some C06Model.KEc
  else if String.eqb s "OKP" then Some C06Model.KOkp
  else None.

Definition to06 (k : Jws.key) : option C06Model.key :=
  match kty_of (Jws.k_kty k) with
  | Some t =>
      Some {| C06Model.k_kty := t; C06Model.k_crv := Jws.k_crv k; C06Model.k_bits := Jws.k_bits k;
              C06Model.k_priv := Jws.k_private k;
              C06Model.k_use := option_map PStr (Jws.k_use k);
              C06Model.k_ops := option_map (fun l => PList (map PStr l)) (Jws.k_ops k);
              C06Model.k_alg := option_map PStr (Jws.k_alg k) |}
  | None => None
  end.

(* the EC gate of Jws.alg_sign / alg_verify (first two tests of the FEc branch) *)
Definition jws_ec_gate (r : jws_alg_row) (k : Jws.key) : res unit :=
  match Jws.mistyped Jws.FEc k with
  | Some e => Err e
  | None => if negb (String.eqb (Jws.k_crv k) (ja_curve r)) then Err EValue else Ok tt
  end.

(* registries whose validators are the six plain kinds (all of /repo's header registries) *)
Definition plain_kind (k : vkind) : bool :=
  match k with
  | VStr | VUrl | VInt | VBool | VListStr | VJwk | VNone => true
  | _ => false
  end.
Definition plain_reg (reg : list hparam) : bool := forallb (fun p => plain_kind (hp_kind p)) reg.
