(* Json.v — Gallina model of the two JSON functions joserfc relies on for
   headers:  json.dumps(v, ensure_ascii=True, separators=(",", ":"))  and
   json.loads  (CPython 3.12, strict mode), for values without floats.
   Strings are code-point lists.  The parser is a fuelled recursive descent;
   [PUnsup] marks inputs outside the modelled fragment (floats, NaN/Infinity,
   fuel exhaustion) and is excluded in every statement. *)
From Coq Require Import Decimal DecimalN.
From Model Require Export Base PyVal.
Open Scope N_scope.

(* ---------- printer ---------- *)
Fixpoint uint_chars (u : Decimal.uint) : list N :=
  match u with
  | Nil => []
  | D0 u => 48 :: uint_chars u | D1 u => 49 :: uint_chars u | D2 u => 50 :: uint_chars u
  | D3 u => 51 :: uint_chars u | D4 u => 52 :: uint_chars u | D5 u => 53 :: uint_chars u
  | D6 u => 54 :: uint_chars u | D7 u => 55 :: uint_chars u | D8 u => 56 :: uint_chars u
  | D9 u => 57 :: uint_chars u
  end.
Definition print_N (n : N) : list N := uint_chars (N.to_uint n).
Definition print_Z (z : Z) : list N :=
  if (z <? 0)%Z then 45 :: print_N (Z.abs_N z) else print_N (Z.to_N z).

Definition hexdig (d : N) : N := if d <? 10 then 48 + d else 87 + d.   (* lowercase *)
Definition hex4 (c : N) : list N :=
  [hexdig (c / 4096 mod 16); hexdig (c / 256 mod 16); hexdig (c / 16 mod 16); hexdig (c mod 16)].
Definition uesc (c : N) : list N := 92 :: 117 :: hex4 c.               (* \uXXXX *)

(* py_encode_basestring_ascii, one code point *)
Definition esc_char (c : N) : list N :=
  if c =? 34 then [92; 34]
  else if c =? 92 then [92; 92]
  else if c =? 10 then [92; 110]
  else if c =? 13 then [92; 114]
  else if c =? 9 then [92; 116]
  else if c =? 8 then [92; 98]
  else if c =? 12 then [92; 102]
  else if (32 <=? c) && (c <=? 126) then [c]
  else if c <? 65536 then uesc c
  else let v := c - 65536 in uesc (55296 + v / 1024) ++ uesc (56320 + v mod 1024).
Definition print_str (s : str) : list N := 34 :: flat_map esc_char s ++ [34].

Fixpoint join (sep : list N) (l : list (list N)) : list N :=
  match l with
  | [] => []
  | [x] => x
  | x :: r => x ++ sep ++ join sep r
  end.

Fixpoint json_print (v : pv) : list N :=
  match v with
  | PNone => [110; 117; 108; 108]
  | PBool true => [116; 114; 117; 101]
  | PBool false => [102; 97; 108; 115; 101]
  | PInt z => print_Z z
  | PFloat _ => [63]                      (* not modelled *)
  | PBytes _ => [63]                      (* TypeError in Python; excluded by json_ok *)
  | PStr s => print_str s
  | PList l => 91 :: join [44] (map json_print l) ++ [93]
  | PDict d => 123 :: join [44] (map (fun kv => print_str (fst kv) ++ 58 :: json_print (snd kv)) d) ++ [125]
  end.

(* ---------- parser ---------- *)
Inductive pres (A : Type) := POk (a : A) | PErr | PUnsup.
Arguments POk {A} a.
Arguments PErr {A}.
Arguments PUnsup {A}.

Definition is_ws (c : N) : bool := (c =? 32) || (c =? 9) || (c =? 10) || (c =? 13).
Fixpoint skip_ws (s : list N) : list N :=
  match s with c :: r => if is_ws c then skip_ws r else s | [] => [] end.

Definition is_digit (c : N) : bool := (48 <=? c) && (c <=? 57).
Definition cons_digit (c : N) (u : Decimal.uint) : Decimal.uint :=
  if c =? 48 then D0 u else if c =? 49 then D1 u else if c =? 50 then D2 u
  else if c =? 51 then D3 u else if c =? 52 then D4 u else if c =? 53 then D5 u
  else if c =? 54 then D6 u else if c =? 55 then D7 u else if c =? 56 then D8 u else D9 u.
Fixpoint read_digits (s : list N) : Decimal.uint * list N :=
  match s with
  | c :: r => if is_digit c then let (u, rest) := read_digits r in (cons_digit c u, rest) else (Nil, s)
  | [] => (Nil, [])
  end.

(* optional minus, then 0 or a nonzero digit followed by digits; a following '.', 'e', 'E' is a float: not modelled *)
Definition parse_nat (s : list N) : pres (N * list N) :=
  match read_digits s with
  | (Nil, _) => PErr
  | (D0 Nil, rest) => POk (0, rest)
  | (D0 _, _) => PErr                      (* "01": Python stops after 0 -> extra data *)
  | (u, rest) => POk (N.of_uint u, rest)
  end.
(* json.scanner NUMBER_RE: an optional minus, then 0 or a non-zero digit followed by
   digits; then an optional fraction ("." and at least one digit) and an optional
   exponent (e or E, an optional sign, at least one digit).  Anything else after the
   integer part leaves the integer as the value and the rest as extra data. *)
Definition starts_float (s : list N) : bool :=
  match s with
  | [] => false
  | c :: r =>
      if c =? 46 then match r with d :: _ => is_digit d | [] => false end
      else if (c =? 101) || (c =? 69) then
        match r with
        | [] => false
        | d :: r' =>
            if is_digit d then true
            else if (d =? 43) || (d =? 45) then match r' with d2 :: _ => is_digit d2 | [] => false end
            else false
        end
      else false
  end.
Definition parse_number (s : list N) : pres (pv * list N) :=
  match s with
  | [] => PErr
  | c :: r =>
      if c =? 45 then
        match parse_nat r with
        | POk (n, rest) => if starts_float rest then PUnsup else POk (PInt (- Z.of_N n), rest)
        | PErr => match r with 73 :: _ => PUnsup | _ => PErr end     (* -Infinity *)
        | PUnsup => PUnsup
        end
      else
        match parse_nat s with
        | POk (n, rest) => if starts_float rest then PUnsup else POk (PInt (Z.of_N n), rest)
        | PErr => PErr
        | PUnsup => PUnsup
        end
  end.

Definition hexval1 (c : N) : option N :=
  if (48 <=? c) && (c <=? 57) then Some (c - 48)
  else if (97 <=? c) && (c <=? 102) then Some (c - 87)
  else if (65 <=? c) && (c <=? 70) then Some (c - 55)
  else None.
Definition parse_hex4 (s : list N) : option (N * list N) :=
  match s with
  | a :: b :: c :: d :: r =>
      match hexval1 a, hexval1 b, hexval1 c, hexval1 d with
      | Some x, Some y, Some z, Some w => Some (4096 * x + 256 * y + 16 * z + w, r)
      | _, _, _, _ => None
      end
  | _ => None
  end.

(* body of a string after the opening quote *)
Definition unescape1 (e : N) : option N :=
  if e =? 34 then Some 34 else if e =? 92 then Some 92 else if e =? 47 then Some 47
  else if e =? 98 then Some 8 else if e =? 102 then Some 12 else if e =? 110 then Some 10
  else if e =? 114 then Some 13 else if e =? 116 then Some 9 else None.

(* \uXXXX after the "\u": one code unit, or a surrogate pair combined *)
Definition parse_uescape (r : list N) : option (N * list N) :=
  match parse_hex4 r with
  | None => None
  | Some (u, r1) =>
      if (55296 <=? u) && (u <=? 56319) then
        match r1 with
        | a :: b :: r2 =>
            if (a =? 92) && (b =? 117) then
              match parse_hex4 r2 with
              | Some (u2, r3) =>
                  if (56320 <=? u2) && (u2 <=? 57343)
                  then Some (65536 + (u - 55296) * 1024 + (u2 - 56320), r3)
                  else Some (u, r1)
              | None => Some (u, r1)
              end
            else Some (u, r1)
        | _ => Some (u, r1)
        end
      else Some (u, r1)
  end.

Fixpoint parse_str (fuel : nat) (s : list N) (acc : list N) : pres (str * list N) :=
  match fuel with
  | O => PUnsup
  | S f =>
      match s with
      | [] => PErr
      | c :: r =>
          if c =? 34 then POk (rev acc, r)
          else if c =? 92 then
            match r with
            | [] => PErr
            | e :: r' =>
                if e =? 117 then
                  match parse_uescape r' with
                  | Some (u, r2) => parse_str f r2 (u :: acc)
                  | None => PErr
                  end
                else
                  match unescape1 e with
                  | Some x => parse_str f r' (x :: acc)
                  | None => PErr
                  end
            end
          else if c <? 32 then PErr
          else parse_str f r (c :: acc)
      end
  end.

Definition parse_string (s : list N) : pres (str * list N) := parse_str (S (length s)) s [].

Section Containers.
  Variable pvalue : list N -> pres (pv * list N).

  (* after '[' and whitespace, input not starting with ']' *)
  Fixpoint parse_elems (n : nat) (s : list N) (acc : list pv) : pres (pv * list N) :=
    match n with
    | O => PUnsup
    | S n' =>
        match pvalue s with
        | POk (v, r) =>
            match skip_ws r with
            | 44 :: r' => parse_elems n' r' (v :: acc)
            | 93 :: r' => POk (PList (rev (v :: acc)), r')
            | _ => PErr
            end
        | PErr => PErr
        | PUnsup => PUnsup
        end
    end.

  (* after '{' and whitespace, input not starting with '}' *)
  Fixpoint parse_members (n : nat) (s : list N) (acc : list (str * pv)) : pres (pv * list N) :=
    match n with
    | O => PUnsup
    | S n' =>
        match skip_ws s with
        | 34 :: r =>
            match parse_string r with
            | POk (k, r1) =>
                match skip_ws r1 with
                | 58 :: r2 =>
                    match pvalue r2 with
                    | POk (v, r3) =>
                        match skip_ws r3 with
                        | 44 :: r4 => parse_members n' r4 (dset acc k v)
                        | 125 :: r4 => POk (PDict (dset acc k v), r4)
                        | _ => PErr
                        end
                    | PErr => PErr
                    | PUnsup => PUnsup
                    end
                | _ => PErr
                end
            | PErr => PErr
            | PUnsup => PUnsup
            end
        | _ => PErr
        end
    end.
End Containers.

Fixpoint parse_value (fuel : nat) (s : list N) : pres (pv * list N) :=
  match fuel with
  | O => PUnsup
  | S f =>
      match skip_ws s with
      | 110 :: 117 :: 108 :: 108 :: r => POk (PNone, r)
      | 116 :: 114 :: 117 :: 101 :: r => POk (PBool true, r)
      | 102 :: 97 :: 108 :: 115 :: 101 :: r => POk (PBool false, r)
      | 34 :: r =>
          match parse_string r with
          | POk (t, r') => POk (PStr t, r') | PErr => PErr | PUnsup => PUnsup
          end
      | 91 :: r =>
          match skip_ws r with
          | [] => PErr
          | c :: r' => if c =? 93 then POk (PList [], r')
                       else parse_elems (parse_value f) (S (length r')) (c :: r') []
          end
      | 123 :: r =>
          match skip_ws r with
          | [] => PErr
          | c :: r' => if c =? 125 then POk (PDict [], r')
                       else parse_members (parse_value f) (S (length r')) (c :: r') []
          end
      | 78 :: _ => PUnsup                  (* NaN *)
      | 73 :: _ => PUnsup                  (* Infinity *)
      | c :: r => if (c =? 45) || is_digit c then parse_number (c :: r) else PErr
      | [] => PErr
      end
  end.

(* json.loads on a text: one value, optional surrounding whitespace *)
Definition json_loads (s : list N) : pres pv :=
  match parse_value (S (length s)) s with
  | POk (v, r) => match skip_ws r with [] => POk v | _ => PErr end
  | PErr => PErr
  | PUnsup => PUnsup
  end.

(* ---------- the fragment the round trip is stated for ---------- *)
Definition scalar_cp (c : N) : bool := (c <? 1114112) && negb ((55296 <=? c) && (c <=? 57343)).
Definition str_ok (s : str) : bool := forallb scalar_cp s.

Fixpoint json_ok (v : pv) : bool :=
  match v with
  | PNone | PBool _ | PInt _ => true
  | PFloat _ | PBytes _ => false
  | PStr s => str_ok s
  | PList l => (fix go (l : list pv) : bool := match l with [] => true | x :: r => json_ok x && go r end) l
  | PDict d =>
      keys_unique (map fst d) &&
      (fix go (d : list (str * pv)) : bool :=
         match d with [] => true | (k, x) :: r => str_ok k && json_ok x && go r end) d
  end.

Fixpoint depth (v : pv) : nat :=
  match v with
  | PList l => S ((fix go (l : list pv) : nat := match l with [] => O | x :: r => Nat.max (depth x) (go r) end) l)
  | PDict d => S ((fix go (d : list (str * pv)) : nat :=
                     match d with [] => O | (_, x) :: r => Nat.max (depth x) (go r) end) d)
  | _ => 1%nat
  end.

(* joserfc.util.json_b64encode / json_b64decode on header dicts (ASCII text:
   ensure_ascii=True output is ASCII, so to_bytes(text, "ascii") is the identity
   on code points and json.loads on the bytes sees the same characters) *)
From Model Require Import B64.
Definition json_b64encode (h : pv) : list N := b64e (json_print h).
Definition json_b64decode (seg : list N) : res (pres pv) :=
  match b64d seg with
  | Ok b => Ok (json_loads b)
  | Err e => Err e
  end.
