(* C16Cases.v — executable comparison of the C16 model with recorded behaviour of
   /repo (correspondence check): the Python semantics kernel of PyVal.v against
   CPython, the front-end functions of joserfc against model/C16Model.v
   (function level), the JWS compact entry points with recorded oracles for
   json.loads and alg.verify (entry level), and the guard requirements of the
   theorems against the flags probed from /repo (gen/TablesC16.v). *)
From Coq Require Import String List ZArith NArith Bool.
From Model Require Import Base PyVal TableTypes B64 C16Model.
From Gen Require Import Tables TablesC16.
From Proofs Require Import C16Proofs C16Refuted.
Import ListNotations.
Open Scope N_scope.

Definition G : guards := guards_of repo_guards_list.

(* class-level comparison; values compared where given *)
Definition res_cls {A B} (m : res A) (e : res B) : bool :=
  match m, e with
  | Ok _, Ok _ => true
  | Err a, Err b => exn_eqb a b
  | _, _ => false
  end.
(* the model declines (EOracleMiss): not compared *)
Definition declined {A} (m : res A) : bool := match m with Err EOracleMiss => true | _ => false end.

Definition res_pv (m e : res pv) : bool :=
  match m, e with Ok a, Ok b => py_eq a b | Err a, Err b => exn_eqb a b | _, _ => false end.

Fixpoint lookup (tbl : list (bytes * res pv)) (b : bytes) : res pv :=
  match tbl with [] => Err EOracleMiss | (k, v) :: r => if beqb k b then v else lookup r b end.

Definition miss {A} : res A := Err EOracleMiss.
(* a primitive the real run did not reach *)
Definition unreached {A} : res A := Err EIndex.

(* results of the primitives recorded from the real run (each called at most once) *)
Record recorded := {
  rp_verify : res bool; rp_enc : res bytes; rp_inflate : res bytes; rp_rsa : res bytes; rp_aes : res bytes;
  rp_gcm : res bytes; rp_pbkdf2 : res bytes; rp_import : res unit; rp_ecdh_epk : res bytes;
  rp_ecdh_sender : res bytes; rp_kdf : res bytes
}.
Definition no_rec (vr : res bool) : recorded :=
  {| rp_verify := vr; rp_enc := unreached; rp_inflate := unreached; rp_rsa := unreached; rp_aes := unreached;
     rp_gcm := unreached; rp_pbkdf2 := unreached; rp_import := unreached; rp_ecdh_epk := unreached;
     rp_ecdh_sender := unreached; rp_kdf := unreached |}.

Definition rprims (json : bytes -> res pv) (r : recorded) : prims :=
  {| p_json_loads := json;
     p_jws_verify := fun _ _ _ _ => rp_verify r;
     p_enc_decrypt := fun _ _ _ _ _ _ => rp_enc r;
     p_inflate := fun _ => rp_inflate r;
     p_rsa_decrypt := fun _ _ _ => rp_rsa r;
     p_aes_unwrap := fun _ _ => rp_aes r;
     p_gcm_unwrap := fun _ _ _ _ => rp_gcm r;
     p_pbkdf2 := fun _ _ _ _ => rp_pbkdf2 r;
     p_import_epk := fun _ _ _ => rp_import r;
     (* the imported epk has no kid; the sender keys of the harness have one *)
     p_ecdh := fun _ other => match k_kid other with PNone => rp_ecdh_epk r | _ => rp_ecdh_sender r end;
     p_concat_kdf := fun _ _ _ => rp_kdf r |}.
Definition cprims (tbl : list (bytes * res pv)) (vr : res bool) : prims := rprims (lookup tbl) (no_rec vr).
Definition jprims (j : res pv) : prims := rprims (fun _ => j) (no_rec miss).
Definition is_unreached {A} (m : res A) : bool := match m with Err EIndex => true | _ => false end.

Definition mk_jws_reg (r7797 strict : bool) (allowed : list string) : jws_reg :=
  {| jr_hreg := if r7797 then jws7797_default_header_registry else jws_default_instance_header_registry;
     jr_strict := strict; jr_allowed := allowed; jr_7797 := r7797 |}.
Definition mk_jwe_reg (strict : bool) (allowed : list string) : jwe_reg :=
  {| er_hreg := jwe_default_instance_header_registry; er_strict := strict; er_allowed := allowed; er_verify_all := true;
     er_drafts := true |}.
Definition mk_jwe_reg2 (strict verify_all : bool) (allowed : list string) : jwe_reg :=
  {| er_hreg := jwe_default_instance_header_registry; er_strict := strict; er_allowed := allowed;
     er_verify_all := verify_all; er_drafts := true |}.

Definition kind_of (name : string) : vkind :=
  match find (fun p => String.eqb (fst p) name) validator_kinds with Some (_, k) => k | None => VUnknown 0 end.

Fixpoint index_of (ks : list key) (k : key) (i : N) : N :=
  match ks with [] => 999 | x :: r => if py_eq (k_kid x) (k_kid k) then i else index_of r k (i + 1) end.

Inductive c16case :=
| KIn (k v : pv) (e : res bool)
| KGetitem (v : pv) (k : str) (e : res pv)
| KGet (v : pv) (k : str) (e : res pv)
| KIter (v : pv) (e : res (list pv))
| KTruth (v : pv) (e : bool)
| KHashable (v : pv) (e : bool)
| KEq (a b : pv) (e : bool)
| FToBytes (ascii : bool) (v : pv) (e : res bytes)
| FUtf8 (s : str) (e : res bytes)
| FSplit (value : bytes) (n : N)
| FValidate (kind : string) (v : pv) (e : res unit)
| FCheckCrit (h : pv) (e : res unit)
| FCheckSupported (h : pv) (e : res unit)
| FValidateRegistry (which : N) (h : pv) (req : bool) (e : res unit)
| FJwsCheckHeader (r7797 strict : bool) (h : pv) (e : res unit)
| FJweCheckHeader (strict : bool) (allowed : list string) (h : pv) (more : bool) (e : res unit)
| FJwsGetAlg (allowed : list string) (name : pv) (e : res string)
| FJweGet (which : N) (allowed : list string) (name : pv) (e : res string)
| FSafeB64 (h : pv) (e : res unit)
| FU32 (s : pv) (b64 : bool) (e : res bytes)
| FMemberHeaders (p h : pv) (e : res pv)
| FRecipientHeaders (json : bool) (p u h : pv) (e : res pv)
| FJsonB64 (text : pv) (j : res pv) (e : res pv)
| FDecodeHeader (seg : bytes) (j : res pv) (e : res pv)
| FValidateDictKey (ec : bool) (d : pv) (e : res unit)
| FGetByKid (ks : list key) (kid : pv) (e : res N)
| FCheckUse (k : key) (use : string) (e : res unit)
| FClaims (j : res pv) (e : res pv)
(* entry: 0 jws.deserialize_compact, 1 rfc7797.deserialize_compact, 2 jwt.decode *)
| EJws (entry : N) (strict : bool) (allowed : list string) (ka : keyarg) (value : cinput)
       (oracle : list (bytes * res pv)) (vr : res bool) (e : res unit)
(* JWE end to end: entry 0 jwe.decrypt_compact, 1 jwt.decode (JWE registry), 2 jwe.decrypt_json *)
| EJwe (entry : N) (strict verify_all : bool) (allowed : list string) (ka : keyarg) (sa : senderarg)
       (value : cinput) (data : pv) (oracle : list (bytes * res pv)) (r : recorded) (e : res unit)
| FGuessKey (ka : keyarg) (h : pv) (e : res N)
| FGuessSender (sa : senderarg) (h : pv) (e : res N)
| FUnpad (data : bytes) (e : res bytes)
| CContract (name : string) (e : exn)
| CGuards.

Definition unit_cls (m : res unit) (e : res unit) : bool := res_cls m e.

Definition c16_check (c : c16case) : bool :=
  match c with
  | KIn k v e => res_eqb Bool.eqb (py_in k v) e
  | KGetitem v k e => res_pv (py_getitem_str v k) e
  | KGet v k e => res_pv (py_get_str v k) e
  | KIter v e => match py_iter v, e with
                 | Ok a, Ok b => py_eq (PList a) (PList b)
                 | Err a, Err b => exn_eqb a b
                 | _, _ => false end
  | KTruth v e => Bool.eqb (py_truth v) e
  | KHashable v e => Bool.eqb (py_hashable v) e
  | KEq a b e => Bool.eqb (py_eq a b) e
  | FToBytes a v e => declined (to_bytes a v) || res_eqb beqb (to_bytes a v) e
  | FUtf8 s e => res_eqb beqb (encode_utf8 s) e
  | FSplit v n => lenN (split_dot v) =? n
  | FValidate kind v e => unit_cls (validate_kind (kind_of kind) v) e
  | FCheckCrit h e => unit_cls (check_crit_header G h) e
  | FCheckSupported h e => unit_cls (check_supported_header jws_default_instance_header_registry h) e
  | FValidateRegistry w h req e =>
      unit_cls (validate_registry_header
                  (match w with 0 => jws_default_instance_header_registry | 1 => jwe_default_instance_header_registry
                              | _ => jws7797_default_header_registry end) h req) e
  | FJwsCheckHeader r s h e => unit_cls (jws_check_header G (mk_jws_reg r s []) h) e
  | FJweCheckHeader s a h more e => unit_cls (jwe_check_header G (mk_jwe_reg s a) h more) e
  | FJwsGetAlg a name e =>
      match jws_get_alg G (mk_jws_reg false true a) name, e with
      | Ok r, Ok n => String.eqb (ja_name r) n | Err x, Err y => exn_eqb x y | _, _ => false end
  | FJweGet w a name e =>
      let r := match w with
               | 0 => match jwe_get_alg G (mk_jwe_reg true a) name with Ok r => Ok (ea_name r) | Err x => Err x end
               | 1 => match jwe_get_enc G (mk_jwe_reg true a) name with Ok r => Ok (ee_name r) | Err x => Err x end
               | _ => match jwe_get_zip G (mk_jwe_reg true a) name with Ok r => Ok (ez_name r) | Err x => Err x end
               end in
      res_eqb String.eqb r e
  | FSafeB64 h e => unit_cls (safe_b64_header h) e
  | FU32 s b e => declined (u32be_len_input s b) || res_eqb beqb (u32be_len_input s b) e
  | FMemberHeaders p h e => declined (member_headers p h) || res_pv (member_headers p h) e
  | FRecipientHeaders j p u h e => declined (recipient_headers j p u h) || res_pv (recipient_headers j p u h) e
  | FJsonB64 text j e =>
      let P := jprims j in
      declined (json_b64decode G P text) || res_pv (json_b64decode G P text) e
  | FDecodeHeader seg j e =>
      let P' := jprims j in
      declined (decode_header G P' seg) || res_pv (decode_header G P' seg) e
  | FValidateDictKey ec d e =>
      unit_cls (validate_dict_key G (if ec then value_registry_EC else value_registry_OKP) d) e
  | FGetByKid ks kid e =>
      match get_by_kid G ks kid, e with
      | Ok k, Ok i => index_of ks k 0 =? i | Err a, Err b => exn_eqb a b | _, _ => false end
  | FCheckUse k u e => unit_cls (check_use k u) e
  | FClaims j e =>
      let P := jprims j in
      res_pv (decode_claims G P []) e
  | EJws entry strict allowed ka value oracle vr e =>
      let P := cprims oracle vr in
      let r0 := mk_jws_reg false strict allowed in
      let r7 := mk_jws_reg true strict allowed in
      match entry with
      | 0 => let m := jws_deserialize_compact G P r0 ka value in declined m || res_cls m e
      | 1 => let m := r7797_deserialize_compact G P r0 r7 ka value in declined m || res_cls m e
      | _ => let m := jwt_decode_jws G P r0 ka value in declined m || res_cls m e
      end
  | EJwe entry strict va allowed ka sa value data oracle r e =>
      let P := rprims (lookup oracle) r in
      let reg := mk_jwe_reg2 strict va allowed in
      match entry with
      | 0 => let m := jwe_decrypt_compact G P reg ka sa value in declined m || is_unreached m || res_cls m e
      | 1 => let m := jwt_decode_jwe G P reg ka value in declined m || is_unreached m || res_cls m e
      | _ => let m := jwe_decrypt_json G P reg ka sa data in declined m || is_unreached m || res_cls m e
      end
  | FGuessKey ka h e =>
      match guess_key G ka (Ok h), e with
      | Ok k, Ok i => (match k_kid k with PStr s => lenN s | _ => 0 end) =? i
      | Err a, Err b => exn_eqb a b | _, _ => false end
  | FGuessSender sa h e =>
      match guess_sender_key G sa (Ok h), e with
      | Ok (Some k), Ok i => (match k_kid k with PStr s => lenN s | _ => 0 end) =? i
      | Ok None, Ok i => i =? 999
      | Err a, Err b => exn_eqb a b | _, _ => false end
  | FUnpad data e => res_eqb beqb (pkcs7_unpad data) e
  | CContract name e => existsb (exn_eqb e) (classes_of name)
  | CGuards =>
      needs_jws_compact G && needs_7797_compact G && needs_jws_json G && needs_7797_json G &&
      needs_jwe_compact G && needs_jwe_json G && g_rec_claims G && g_algstr_jws G && g_kid_repr G
  end.

(* what the model computed, for the failure report: (class or Ok) as a res unit, plus the flags *)
Definition cls_of {A} (m : res A) : res unit := match m with Ok _ => Ok tt | Err e => Err e end.
Definition c16_show (c : c16case) : res unit * list bool :=
  (match c with
   | KIn k v _ => cls_of (py_in k v)
   | KGetitem v k _ => cls_of (py_getitem_str v k)
   | KGet v k _ => cls_of (py_get_str v k)
   | KIter v _ => cls_of (py_iter v)
   | FToBytes a v _ => cls_of (to_bytes a v)
   | FUtf8 s _ => cls_of (encode_utf8 s)
   | FValidate kind v _ => validate_kind (kind_of kind) v
   | FCheckCrit h _ => check_crit_header G h
   | FCheckSupported h _ => check_supported_header jws_default_instance_header_registry h
   | FJwsCheckHeader r s h _ => jws_check_header G (mk_jws_reg r s []) h
   | FJweCheckHeader s a h more _ => jwe_check_header G (mk_jwe_reg s a) h more
   | FJwsGetAlg a name _ => cls_of (jws_get_alg G (mk_jws_reg false true a) name)
   | FJweGet w a name _ => match w with 0 => cls_of (jwe_get_alg G (mk_jwe_reg true a) name)
                                      | 1 => cls_of (jwe_get_enc G (mk_jwe_reg true a) name)
                                      | _ => cls_of (jwe_get_zip G (mk_jwe_reg true a) name) end
   | FSafeB64 h _ => safe_b64_header h
   | FU32 s b _ => cls_of (u32be_len_input s b)
   | FMemberHeaders p h _ => cls_of (member_headers p h)
   | FRecipientHeaders j p u h _ => cls_of (recipient_headers j p u h)
   | FValidateDictKey ec d _ => validate_dict_key G (if ec then value_registry_EC else value_registry_OKP) d
   | FGetByKid ks kid _ => cls_of (get_by_kid G ks kid)
   | FCheckUse k u _ => check_use k u
   | EJws entry strict allowed ka value oracle vr _ =>
      let P := cprims oracle vr in
      let r0 := mk_jws_reg false strict allowed in
      let r7 := mk_jws_reg true strict allowed in
      match entry with
      | 0 => cls_of (jws_deserialize_compact G P r0 ka value)
      | 1 => cls_of (r7797_deserialize_compact G P r0 r7 ka value)
      | _ => cls_of (jwt_decode_jws G P r0 ka value)
      end
   | EJwe entry strict va allowed ka sa value data oracle r _ =>
      let P := rprims (lookup oracle) r in
      let reg := mk_jwe_reg2 strict va allowed in
      match entry with
      | 0 => cls_of (jwe_decrypt_compact G P reg ka sa value)
      | 1 => cls_of (jwt_decode_jwe G P reg ka value)
      | _ => cls_of (jwe_decrypt_json G P reg ka sa data)
      end
   | FGuessKey ka h _ => cls_of (guess_key G ka (Ok h))
   | FGuessSender sa h _ => cls_of (guess_sender_key G sa (Ok h))
   | _ => Ok tt
   end, guards_list G).

(* EJwe cases on which the model was not compared (it needs a primitive the real run did not reach, or declines) *)
Definition c16_compared (c : c16case) : bool :=
  match c with
  | EJwe entry strict va allowed ka sa value data oracle r e =>
      let P := rprims (lookup oracle) r in
      let reg := mk_jwe_reg2 strict va allowed in
      negb (match entry with
            | 0 => let m := jwe_decrypt_compact G P reg ka sa value in declined m || is_unreached m
            | 1 => let m := jwt_decode_jwe G P reg ka value in declined m || is_unreached m
            | _ => let m := jwe_decrypt_json G P reg ka sa data in declined m || is_unreached m
            end)
  | _ => true
  end.
