(* C07Spec.v — the wire format of JWS written from the RFC texts, independent
   of the Impl model:
   RFC 7515 section 5.1 / 7.1: JWS Signing Input =
       ASCII(BASE64URL(UTF8(JWS Protected Header)) || '.' || BASE64URL(JWS Payload));
   RFC 7797 section 3: with "b64": false the payload is used as it is;
   RFC 7518 section 3.1 (table), 3.2 HMAC with SHA-2, 3.3 RSASSA-PKCS1-v1_5,
   3.4 ECDSA (signature = the octet sequences R and S, each of the curve's
   coordinate length, big-endian, concatenated), 3.5 RSASSA-PSS (MGF1 with the
   same hash, salt length = hash output length); RFC 8037 section 3.1 EdDSA;
   RFC 8812 section 3.2 ES256K. *)
From Model Require Export Base B64 IntCodec.
Open Scope N_scope.

Definition spec_signing_input (hdr_octets payload : bytes) (b64 : bool) : bytes :=
  b64e hdr_octets ++ 46 :: (if b64 then b64e payload else payload).

(* ECDSA: R || S as I2OSP (RFC 8017 section 4.1) of length L = ceil(bits / 8) *)
Definition spec_ecdsa_sig (r s : N) (L : nat) : bytes := I2OSP r L ++ I2OSP s L.

Record spec_alg := {
  sa_name : string; sa_kty : string; sa_kind : string;   (* "HMAC" | "PKCS1v15" | "PSS" | "ECDSA" | "EdDSA" | "none" *)
  sa_hash : string; sa_mgf : string; sa_salt : N; sa_curve : string; sa_L : N
}.
Definition mk n kty kind h mgf salt crv L : spec_alg :=
  {| sa_name := n; sa_kty := kty; sa_kind := kind; sa_hash := h; sa_mgf := mgf; sa_salt := salt; sa_curve := crv; sa_L := L |}.

(* RFC 7518 section 3.1 + RFC 8037 + RFC 8812; hash output lengths 32 / 48 / 64 octets;
   coordinate lengths 32 (P-256, secp256k1), 48 (P-384), 66 (P-521) octets *)
Definition spec_table : list spec_alg := [
  mk "none" "oct" "none" "" "" 0 "" 0;
  mk "HS256" "oct" "HMAC" "sha256" "" 0 "" 0;
  mk "HS384" "oct" "HMAC" "sha384" "" 0 "" 0;
  mk "HS512" "oct" "HMAC" "sha512" "" 0 "" 0;
  mk "RS256" "RSA" "PKCS1v15" "sha256" "" 0 "" 0;
  mk "RS384" "RSA" "PKCS1v15" "sha384" "" 0 "" 0;
  mk "RS512" "RSA" "PKCS1v15" "sha512" "" 0 "" 0;
  mk "ES256" "EC" "ECDSA" "sha256" "" 0 "P-256" 32;
  mk "ES384" "EC" "ECDSA" "sha384" "" 0 "P-384" 48;
  mk "ES512" "EC" "ECDSA" "sha512" "" 0 "P-521" 66;
  mk "PS256" "RSA" "PSS" "sha256" "sha256" 32 "" 0;
  mk "PS384" "RSA" "PSS" "sha384" "sha384" 48 "" 0;
  mk "PS512" "RSA" "PSS" "sha512" "sha512" 64 "" 0;
  mk "EdDSA" "OKP" "EdDSA" "" "" 0 "" 0;
  mk "ES256K" "EC" "ECDSA" "sha256" "" 0 "secp256k1" 32
]%string.
