(* C07Spec.v — the wire format of JWS written from the RFC texts, independent
   of the Impl model:
   RFC 7515 section 5.1 / 7.1: JWS Signing Input =
       ASCII(BASE64URL(UTF8(JWS Protected Header)) || '.' || BASE64URL(JWS Payload));
   RFC 7797 section 3: with "b64": false the payload is used as it is;
   RFC 7518 section 3.1 (table), 3.2 HMAC with SHA-2, 3.3 RSASSA-PKCS1-v1_5,
   3.4 ECDSA (signature = the octet sequences R and S, each of the curve's
   coordinate length, big-endian, concatenated), 3.5 RSASSA-PSS (MGF1 with the
   same hash, salt length = hash output length); RFC 8037 section 3.1 EdDSA;
   RFC 8812 section 3.2 ES256K. *)
From Model Require Export Base B64 IntCodec.
Open Scope N_scope.

Definition spec_signing_input (hdr_octets payload : bytes) (b64 : bool) : bytes :=
  b64e hdr_octets ++ 46 :: (if b64 then b64e payload else payload).

(* ECDSA: R || S as I2OSP (RFC 8017 section 4.1) of length L = ceil(bits / 8) *)
Definition spec_ecdsa_sig (r s : N) (L : nat) : bytes := I2OSP r L ++ I2OSP s L.

Inductive skind := KNone | KHmac | KPkcs | KPss | KEcdsa | KEddsa.
Record spec_alg := {
  sa_name : string; sa_kty : string; sa_kind : skind;
  sa_hash : string; sa_mgf : string; sa_salt : N; sa_curve : string; sa_L : N
}.
Definition mk n kty kind h mgf salt crv L : spec_alg :=
  {| sa_name := n; sa_kty := kty; sa_kind := kind; sa_hash := h; sa_mgf := mgf; sa_salt := salt; sa_curve := crv; sa_L := L |}.

(* RFC 7518 section 3.1 + RFC 8037 + RFC 8812; hash output lengths 32 / 48 / 64 octets;
   coordinate lengths 32 (P-256, secp256k1), 48 (P-384), 66 (P-521) octets *)
Definition spec_table : list spec_alg := [
  mk "none" "oct" KNone "" "" 0 "" 0;
  mk "HS256" "oct" KHmac "sha256" "" 0 "" 0;
  mk "HS384" "oct" KHmac "sha384" "" 0 "" 0;
  mk "HS512" "oct" KHmac "sha512" "" 0 "" 0;
  mk "RS256" "RSA" KPkcs "sha256" "" 0 "" 0;
  mk "RS384" "RSA" KPkcs "sha384" "" 0 "" 0;
  mk "RS512" "RSA" KPkcs "sha512" "" 0 "" 0;
  mk "ES256" "EC" KEcdsa "sha256" "" 0 "P-256" 32;
  mk "ES384" "EC" KEcdsa "sha384" "" 0 "P-384" 48;
  mk "ES512" "EC" KEcdsa "sha512" "" 0 "P-521" 66;
  mk "PS256" "RSA" KPss "sha256" "sha256" 32 "" 0;
  mk "PS384" "RSA" KPss "sha384" "sha384" 48 "" 0;
  mk "PS512" "RSA" KPss "sha512" "sha512" 64 "" 0;
  mk "EdDSA" "OKP" KEddsa "" "" 0 "" 0;
  mk "ES256K" "EC" KEcdsa "sha256" "" 0 "secp256k1" 32
]%string.

(* ---------- verification, RFC 7515 section 5.2 (steps 2-8 on the compact form) ----------
   The primitives: HMAC (RFC 2104), RSASSA-PKCS1-v1_5 / RSASSA-PSS verification
   (RFC 8017), ECDSA verification on the integers (R, S), EdDSA verification
   (RFC 8032), each for the parameters of the Spec row. *)
Definition OS2IP (l : bytes) : Z := Z.of_N (be_to_N l).

Section SpecVerify.
  Variable S_mac : string -> N -> bytes -> res bytes.
  Variable S_pk_verify : spec_alg -> N -> bytes -> bytes -> res bool.
  Variable S_ec_verify : spec_alg -> N -> bytes -> Z -> Z -> res bool.

  (* the signature [sig] over [msg] is valid for algorithm [a] under the key
     (material [kid], key type [kty], curve [crv]) *)
  Definition spec_sig_ok (a : spec_alg) (kid : N) (kty crv : string) (msg sig : bytes) : Prop :=
    sa_kty a = kty /\
    match sa_kind a with
    | KNone => False                                   (* RFC 7518 3.6: no integrity *)
    | KHmac => S_mac (sa_hash a) kid msg = Ok sig      (* 3.2: recompute and compare *)
    | KPkcs | KPss => S_pk_verify a kid msg sig = Ok true
    | KEddsa => (crv = "Ed25519" \/ crv = "Ed448")%string /\ S_pk_verify a kid msg sig = Ok true
    | KEcdsa =>                                        (* 3.4: split the 2L octets into R and S *)
        crv = sa_curve a /\ (0 < sa_L a) /\ length sig = (2 * N.to_nat (sa_L a))%nat /\
        S_ec_verify a kid msg (OS2IP (firstn (N.to_nat (sa_L a)) sig))
                              (OS2IP (skipn (N.to_nat (sa_L a)) sig)) = Ok true
    end.

  (* a compact JWS  BASE64URL(hdr) . BASE64URL(payload) . BASE64URL(sig)  is valid
     for algorithm a and that key *)
  Definition spec_verify_compact (a : spec_alg) (kid : N) (kty crv : string)
             (hdr payload sig : bytes) : Prop :=
    spec_sig_ok a kid kty crv (spec_signing_input hdr payload true) sig.
End SpecVerify.
