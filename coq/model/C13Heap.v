(* C13Heap.v — object identity for the exporting calls of a key.
   The key object owns one dictionary object (its _dict_value) at address [a]
   of a heap of dictionary objects.  BaseKey.as_dict builds
   `data = self.dict_value.copy()` ... `return data`: the caller receives a NEW
   object.  The application may afterwards replace the content of any object
   it received by anything ([SEdit]).  ensure_kid writes into the key's own
   object.  (Top-level members only: nested lists such as key_ops are values
   here, see the note in the harness.) *)
From Model Require Export Base PyVal C13Thumb.
Open Scope N_scope.

Definition heap := list (N * dict).

Fixpoint hget (h : heap) (a : N) : option dict :=
  match h with
  | [] => None
  | (b, d) :: r => if b =? a then Some d else hget r a
  end.

Definition hset (h : heap) (a : N) (d : dict) : heap := (a, d) :: h.

Definition fresh (h : heap) : N := 1 + fold_right (fun p m => N.max (fst p) m) 0 h.

Inductive step :=
| SAsDict (private : option bool) (params : dict)   (* x = key.as_dict(private, **params) *)
| SEdit (i : nat) (d : dict)                        (* the application rewrites the i-th object it received *)
| SEnsureKid                                        (* key.ensure_kid(), e.g. from KeySet(...) / KeySet.as_dict *)
| SThumbprint.                                      (* key.thumbprint(): reads only *)

(* state: the heap and the addresses handed to the application, oldest first *)
Record hstate := { s_heap : heap; s_outs : list N }.

Section Steps.
  Variable hashnew : str -> bytes -> res bytes.
  Variable c : kcls.
  Variable priv : bool.
  Variable a : N.          (* the key's own dictionary object *)

  Definition key_at (h : heap) : res kobj :=
    match hget h a with
    | Some d => Ok {| ko_cls := c; ko_priv := priv; ko_dict := d |}
    | None => Err ERuntime
    end.

  Definition run_step (s : hstate) (x : step) : res hstate :=
    match x with
    | SAsDict private params =>
        do k <- key_at (s_heap s);
        do e <- as_dict k private params;
        let b := fresh (s_heap s) in
        Ok {| s_heap := hset (s_heap s) b e; s_outs := s_outs s ++ [b] |}
    | SEdit i d =>
        match nth_error (s_outs s) i with
        | Some b => Ok {| s_heap := hset (s_heap s) b d; s_outs := s_outs s |}
        | None => Ok s
        end
    | SEnsureKid =>
        do k <- key_at (s_heap s);
        do k' <- ensure_kid hashnew k;
        Ok {| s_heap := hset (s_heap s) a (ko_dict k'); s_outs := s_outs s |}
    | SThumbprint =>
        do k <- key_at (s_heap s);
        do _ <- key_thumbprint hashnew c (ko_dict k);
        Ok s
    end.

  Fixpoint run (s : hstate) (l : list step) : res hstate :=
    match l with
    | [] => Ok s
    | x :: r => do s' <- run_step s x; run s' r
    end.
End Steps.
