(* JweMsg.v — the JWE message layer: rfc7516/compact.py, json.py, message.py
   and the entry points of jwe.py (with the key already resolved to Key
   objects: key resolution belongs to C06 / C14). *)
From Model Require Export JweCrypto.
From Gen Require Import Tables.
Open Scope N_scope.

(* registry configuration that matters here *)
Record registry := { g_allowed : option (list str); g_verify_all : bool }.

Record jobj := {
  j_ser : ser;
  j_prot : dict;               (* protected header (parsed) *)
  j_unprot : pv;               (* shared unprotected header or PNone *)
  j_aad : option bytes;        (* decoded aad member *)
  j_b64prot : option bytes;    (* base64_segments["protected"]: the RECEIVED segment *)
  j_iv : bytes; j_ct : bytes; j_tag : bytes;
  j_recips : list recip
}.

Definition in_strs (n : str) (l : list string) : bool := existsb (fun x => str_eqb (asc x) n) l.

(* JWERegistry._check_algorithm for a name that is in the class table *)
Definition check_allowed (g : registry) (n : str) : res unit :=
  let allowed_truthy := match g_allowed g with Some (_ :: _) => true | _ => false end in
  if allowed_truthy then
    match g_allowed g with
    | Some l => if str_mem n l then Ok tt else Err (EJose UnsupportedAlgorithmError)
    | None => Ok tt
    end
  else if in_strs n jwe_recommended_drafts then Ok tt else Err (EJose UnsupportedAlgorithmError).

Definition find_alg (n : str) : option jwe_alg_row :=
  find (fun r => str_eqb (asc (ea_name r)) n) jwe_alg_table_drafts.
Definition find_enc (n : str) : option jwe_enc_row :=
  find (fun r => str_eqb (asc (ee_name r)) n) jwe_enc_table_drafts.
Definition find_zip (n : str) : option jwe_zip_row :=
  find (fun r => str_eqb (asc (ez_name r)) n) jwe_zip_table_drafts.

(* a name that is not a str is "not supported" *)
Definition name_of (v : pv) : res (option str) :=
  match v with
  | PStr s => Ok (Some s)
  | _ => Ok None
  end.

Definition get_alg (g : registry) (v : pv) : res jwe_alg_row :=
  do n <- name_of v;
  match n with
  | Some s => match find_alg s with
              | Some r => do _ <- check_allowed g s; Ok r
              | None => Err (EJose UnsupportedAlgorithmError)
              end
  | None => Err (EJose UnsupportedAlgorithmError)
  end.
Definition get_enc (g : registry) (v : pv) : res jwe_enc_row :=
  do n <- name_of v;
  match n with
  | Some s => match find_enc s with
              | Some r => do _ <- check_allowed g s; Ok r
              | None => Err (EJose UnsupportedAlgorithmError)
              end
  | None => Err (EJose UnsupportedAlgorithmError)
  end.
Definition get_zip (g : registry) (v : pv) : res jwe_zip_row :=
  do n <- name_of v;
  match n with
  | Some s => match find_zip s with
              | Some r => do _ <- check_allowed g s; Ok r
              | None => Err (EJose UnsupportedAlgorithmError)
              end
  | None => Err (EJose UnsupportedAlgorithmError)
  end.

Definition is_json_ser (s : ser) : bool := match s with Compact => false | _ => true end.

(* the octets fed to the AEAD as additional data, given the encoded protected header *)
Definition aad_of (s : ser) (b64prot : bytes) (aad : option bytes) : bytes :=
  match s, aad with
  | Compact, _ => b64prot
  | _, Some ((_ :: _) as a) => b64prot ++ [46] ++ b64e a
  | _, _ => b64prot
  end.

(* a set of CEKs as a duplicate-free list *)
Definition set_add (c : bytes) (l : list bytes) : list bytes :=
  if existsb (beqb c) l then l else l ++ [c].

Definition catchable (x : exn) : bool := match x with EJose _ | EAssert => true | _ => false end.

Section Msg.
Variable O : oracles.

(* json_b64encode(dict) *)
Definition json_b64encode (d : dict) : res bytes :=
  do t <- o_dumps O (PDict d);
  do a <- ascii_enc t;
  Ok (b64e a).

(* json_b64decode(text) *)
Definition json_b64decode (text : pv) : res pv :=
  do b <- to_bytes_ascii text;
  do raw <- b64d b;
  o_loads O raw.

Definition as_dict (v : pv) : res dict :=
  match v with PDict d => Ok d | PList _ | PStr _ | PBytes _ => Err EValue | _ => Err EType end.

(* ---------------- rfc7516/compact.py:extract_compact ---------------- *)
Definition dec_err (e : exn) : exn :=
  match e with EType | EValue => EJose DecodeError | x => x end.

Definition extract_compact (value : bytes) (k : key) (sender : option key) : res jobj :=
  match split_dot value with
  | [hseg; ekseg; ivseg; ctseg; tagseg] =>
      do protected <-
        (match (do p <- json_b64decode (PBytes hseg);
                do d <- (match p with PDict d => Ok d | _ => Err EValue end);
                if negb (dmem d (s_ "alg")) then Err (EJose MissingAlgorithmError)
                else if negb (dmem d (s_ "enc")) then Err (EJose MissingEncryptionError) else Ok d) with
         | Ok p => Ok p
         | Err e => Err (dec_err e)
         end);
      do iv <- b64d ivseg;
      do ct <- b64d ctseg;
      do tag <- b64d tagseg;
      do ek <- b64d ekseg;
      Ok {| j_ser := Compact; j_prot := protected; j_unprot := PNone; j_aad := None;
            j_b64prot := Some hseg; j_iv := iv; j_ct := ct; j_tag := tag;
            j_recips := [ {| r_header := PNone; r_ek := Some ek; r_key := k;
                             r_sender := sender; r_eph := None |} ] |}
  | _ => Err EValue
  end.

(* ---------------- rfc7516/json.py ---------------- *)
Definition seg_bytes (data : pv) (k : string) : res bytes :=
  do v <- py_getitem_str data (asc k); to_bytes_pv v.

Definition extract_recipient (item : pv) (k : key) (sender : option key) : res recip :=
  do h <- py_get_str item (s_ "header");
  do has <- py_in (PStr (s_ "encrypted_key")) item;
  do ek <- (if has then do b <- seg_bytes item "encrypted_key"; do e <- b64d b; Ok (Some e) else Ok (Some []));
  Ok {| r_header := h; r_ek := ek; r_key := k; r_sender := sender; r_eph := None |}.

Fixpoint extract_recipients (items : list pv) (keys : list key) (dflt : key) (sender : option key)
  : res (list recip) :=
  match items with
  | [] => Ok []
  | it :: rest =>
      let k := match keys with k :: _ => k | [] => dflt end in
      do r <- extract_recipient it k sender;
      do rs <- extract_recipients rest (tl keys) dflt sender;
      Ok (r :: rs)
  end.

Definition extract_json (data : pv) (keys : list key) (dflt : key) (sender : option key) : res jobj :=
  do general <- py_in (PStr (s_ "recipients")) data;
  do pseg <- py_getitem_str data (s_ "protected");
  do pj <- json_b64decode pseg;
  do prot <- (match pj with PDict d => Ok d | _ => Err (EJose DecodeError) end);
  do unprot <- py_get_str data (s_ "unprotected");
  do b64p <- seg_bytes data "protected";
  do b64iv <- seg_bytes data "iv";
  do b64ct <- seg_bytes data "ciphertext";
  do b64tag <- seg_bytes data "tag";
  do iv <- b64d b64iv;
  do ct <- b64d b64ct;
  do tag <- b64d b64tag;
  do has_aad <- py_in (PStr (s_ "aad")) data;
  do aad <- (if has_aad then do b <- seg_bytes data "aad"; do a <- b64d b; Ok (Some a) else Ok None);
  do rs <- (if general then
              do l <- py_getitem_str data (s_ "recipients");
              do items <- py_iter l;
              extract_recipients items keys dflt sender
            else
              do r <- extract_recipient data (match keys with k :: _ => k | [] => dflt end) sender;
              Ok [r]);
  Ok {| j_ser := if general then General else Flat; j_prot := prot; j_unprot := unprot;
        j_aad := aad; j_b64prot := Some b64p; j_iv := iv; j_ct := ct; j_tag := tag;
        j_recips := rs |}.

(* ---------------- rfc7516/message.py:_perform_decrypt ---------------- *)
Fixpoint recip_loop (g : registry) (e : jwe_enc_row) (o : jobj) (rs : list recip) (ceks : list bytes)
  : res (list bytes) :=
  match rs with
  | [] => Ok ceks
  | r :: rest =>
      do hs <- headers (j_ser o) (j_prot o) (j_unprot o) (r_header r);
      do _ <- o_check_header O (PDict hs) true;
      do algv <- hitem hs "alg";
      do a <- get_alg g algv;
      match decrypt_recipient O a e hs r (j_tag o) with
      | Ok cek => recip_loop g e o rest (set_add cek ceks)
      | Err x =>
          if catchable x then (if g_verify_all g then Err x else recip_loop g e o rest ceks)
          else Err x
      end
  end.

(* the additional authenticated data of the decryption side *)
Definition dec_aad (o : jobj) : res bytes :=
  do b64p <- (match j_b64prot o with Some b => Ok b | None => json_b64encode (j_prot o) end);
  Ok (aad_of (j_ser o) b64p (j_aad o)).

Definition unzip (g : registry) (prot : dict) (m : bytes) : res bytes :=
  if dmem prot (s_ "zip") then
    do _ <- get_zip g (hget prot "zip");
    o_inflate O m
  else Ok m.

Definition perform_decrypt_inner (g : registry) (o : jobj) : res bytes :=
  do _ <- (if dmem (j_prot o) (s_ "enc") then Ok tt else Err (EJose MissingEncryptionError));
  do encv <- hitem (j_prot o) "enc";
  do e <- get_enc g encv;
  do _ <- check_iv e (j_iv o);
  do ceks <- recip_loop g e o (j_recips o) [];
  match ceks with
  | [] => Err (EJose DecodeError)
  | [cek] =>
      if negb (lenN cek * 8 =? ee_cek_size e) then Err (EJose InvalidCEKLengthError)
      else
        do aad <- dec_aad o;
        do msg <- enc_decrypt O e (j_ct o) (j_tag o) cek (j_iv o) aad;
        unzip g (j_prot o) msg
  | _ => Err (EJose DecodeError)
  end.

Definition perform_decrypt (g : registry) (o : jobj) : res bytes :=
  match perform_decrypt_inner g o with
  | Err (EJose InvalidExchangeKeyError) => Err (EJose DecodeError)
  | x => x
  end.

(* jwe.decrypt_compact / decrypt_json: plaintext and the parsed object *)
Definition decrypt_compact (g : registry) (value : bytes) (k : key) (sender : option key)
  : res (bytes * jobj) :=
  do o <- extract_compact value k sender;
  do m <- perform_decrypt g o;
  Ok (m, o).

Definition decrypt_json (g : registry) (data : pv) (keys : list key) (dflt : key) (sender : option key)
  : res (bytes * jobj) :=
  do o <- extract_json data keys dflt sender;
  do m <- perform_decrypt g o;
  Ok (m, o).

(* ================= encryption ================= *)
Record edraw := { d_cek : bytes; d_civ : bytes; d_rec : list rdraw }.
Definition no_rdraw : rdraw := {| d_kwiv := []; d_p2s := [] |}.

(* __prepare_recipient_algorithm *)
Definition prepare_recipient_algorithm (g : registry) (s : ser) (prot : dict) (unprot : pv) (r : recip)
  : res (jwe_alg_row * dict * recip) :=
  do hs <- headers s prot unprot (r_header r);
  do _ <- o_check_header O (PDict hs) false;
  do algv <- hitem hs "alg";
  do a <- get_alg g algv;
  if is_agreement a then
    do pr <- prepare_ephemeral_key a s prot r;
    Ok (a, fst pr, snd pr)
  else Ok (a, prot, r).

(* __pre_encrypt_direct_mode *)
Definition pre_encrypt_direct_mode (a : jwe_alg_row) (e : jwe_enc_row) (s : ser) (prot : dict)
           (unprot : pv) (r : recip) : res (bytes * recip) :=
  do cek <- (if is_agreement a then
               do hs <- headers s prot unprot (r_header r);
               do c <- enc_auk O a e hs r None;
               if negb (lenN c * 8 =? ee_cek_size e) then Err (EJose InvalidCEKLengthError) else Ok c
             else if fam_is (ea_family a) "dir" then dir_compute_cek a (ee_cek_size e) r
             else Err EAssert);
  Ok (cek, set_ek r []).

(* pre_encrypt_recipients: state = protected header, CEK, processed recipients
   (each with the algorithm row when its key wrapping is delayed) *)
Fixpoint pre_loop (g : registry) (e : jwe_enc_row) (s : ser) (unprot : pv) (total : nat)
         (draw_cek : bytes) (rs : list recip) (ds : list rdraw)
         (prot : dict) (cek : bytes) (acc : list (recip * option jwe_alg_row))
  : res (dict * bytes * list (recip * option jwe_alg_row)) :=
  match rs with
  | [] => Ok (prot, cek, acc)
  | r :: rest =>
      let d := match ds with d :: _ => d | [] => no_rdraw end in
      do apr <- prepare_recipient_algorithm g s prot unprot r;
      let '(a, prot1, r1) := apr in
      if ea_direct a then
        if Nat.ltb 1 total then Err (EJose ConflictAlgorithmError)
        else
          do cr <- pre_encrypt_direct_mode a e s prot1 unprot r1;
          pre_loop g e s unprot total draw_cek rest (tl ds) prot1 (fst cr) (acc ++ [(snd cr, None)])
      else
        let cek1 := match cek with [] => draw_cek | _ => cek end in
        if is_agreement a then
          pre_loop g e s unprot total draw_cek rest (tl ds) prot1 cek1 (acc ++ [(r1, Some a)])
        else
          do pre <- encrypt_cek O a s prot1 unprot r1 d cek1;
          let '(prot2, r2, ek) := pre in
          pre_loop g e s unprot total draw_cek rest (tl ds) prot2 cek1 (acc ++ [(set_ek r2 ek, None)])
  end.

(* post_encrypt_recipients *)
Fixpoint post_loop (e : jwe_enc_row) (s : ser) (prot : dict) (unprot : pv) (cek tag : bytes)
         (l : list (recip * option jwe_alg_row)) : res (list recip) :=
  match l with
  | [] => Ok []
  | (r, None) :: rest => do rs <- post_loop e s prot unprot cek tag rest; Ok (r :: rs)
  | (r, Some a) :: rest =>
      do hs <- headers s prot unprot (r_header r);
      do auk <- enc_auk O a e hs r (if ea_tag_aware a then Some tag else None);
      do ek <- kw_wrap_cek O (key_size_of a) cek auk;
      do rs <- post_loop e s prot unprot cek tag rest;
      Ok (set_ek r ek :: rs)
  end.

(* DeflateZipModel.compress: data = zlib.compress(s); return data[2:-4]
   ("since DEF is always gzip, we can drop gzip headers and tail": the raw RFC 1951 stream) *)
Definition strip_zlib (z : bytes) : bytes := firstn (length z - 6) (skipn 2 z).
Definition zip_compress (O : oracles) (m : bytes) : res bytes :=
  do z <- o_deflate O m; Ok (strip_zlib z).

Definition zip_plain (g : registry) (prot : dict) (m : bytes) : res bytes :=
  if dmem prot (s_ "zip") then
    do _ <- get_zip g (hget prot "zip");
    zip_compress O m
  else Ok m.

Record eobj := {
  e_ser : ser; e_prot : dict; e_unprot : pv; e_aad : option bytes; e_plain : bytes;
  e_recips : list recip
}.

(* perform_encrypt: returns the final protected header, recipients and segments *)
Record eout := {
  x_prot : dict; x_recips : list recip; x_aadseg : bytes;
  x_iv : bytes; x_ct : bytes; x_tag : bytes;
  x_cek : bytes; x_b64prot : bytes      (* not serialized: the CEK and the encoded protected header *)
}.

Definition perform_encrypt (g : registry) (o : eobj) (d : edraw) : res eout :=
  do encv <- hitem (e_prot o) "enc";
  do e <- get_enc g encv;
  do st <- pre_loop g e (e_ser o) (e_unprot o) (length (e_recips o)) (d_cek d)
                    (e_recips o) (d_rec d) (e_prot o) [] [];
  let '(prot, cek, acc) := st in
  let iv := d_civ d in
  do m <- zip_plain g prot (e_plain o);
  do b64p <- json_b64encode prot;
  let aad := aad_of (e_ser o) b64p (e_aad o) in
  do ctag <- enc_encrypt O e m cek iv aad;
  do rs <- post_loop e (e_ser o) prot (e_unprot o) cek (snd ctag) acc;
  Ok {| x_prot := prot; x_recips := rs; x_aadseg := aad; x_iv := iv; x_ct := fst ctag; x_tag := snd ctag;
        x_cek := cek; x_b64prot := b64p |}.

(* represent_compact *)
Definition represent_compact (x : eout) : res bytes :=
  match x_recips x with
  | r :: _ =>
      do ek <- need_ek r;
      Ok (join_dot [x_aadseg x; b64e ek; b64e (x_iv x); b64e (x_ct x); b64e (x_tag x)])
  | [] => Err EAssert
  end.

Definition recip_members (r : recip) : dict :=
  (if py_truth (r_header r) then [(s_ "header", r_header r)] else []) ++
  (match r_ek r with Some ((_ :: _) as ek) => [(s_ "encrypted_key", PStr (b64e ek))] | _ => [] end).

(* represent_general_json / represent_flattened_json *)
Definition represent_json (o : eobj) (x : eout) : res pv :=
  do b64p <- json_b64encode (x_prot x);
  let base : dict :=
    [(s_ "protected", PStr b64p); (s_ "iv", PStr (b64e (x_iv x)));
     (s_ "ciphertext", PStr (b64e (x_ct x))); (s_ "tag", PStr (b64e (x_tag x)))] ++
    (match e_aad o with Some ((_ :: _) as a) => [(s_ "aad", PStr (b64e a))] | _ => [] end) ++
    (if py_truth (e_unprot o) then [(s_ "unprotected", e_unprot o)] else []) in
  match e_ser o with
  | General => Ok (PDict (base ++ [(s_ "recipients", PList (map (fun r => PDict (recip_members r)) (x_recips x)))]))
  | _ => match x_recips x with
         | r :: _ => Ok (PDict (base ++ recip_members r))
         | [] => Err EIndex
         end
  end.

(* encrypting a message OBJECT that already went through decrypt / encrypt: whatever its base64_segments
   hold from before ([prior]) is only overwritten, never read, by perform_encrypt and represent_* *)
Definition perform_encrypt_obj (prior : list (str * bytes)) (g : registry) (o : eobj) (d : edraw) : res eout :=
  perform_encrypt g o d.

(* The ephemeral-key state of a recipient object across encryptions (JWEKeyAgreement.prepare_ephemeral_key):
   [es_cur] = recipient.ephemeral_key before the call, [es_generated] = recipient._ephemeral_key_generated (the key
   was generated by an earlier encryption, not set by the caller), [es_draw] = what generate_key returns in this call.
   A key is generated when there is none or when the present one was library-generated; a caller-set key is kept. *)
Record ephstate := { es_cur : option (key * pv); es_generated : bool; es_draw : option (key * pv) }.
Definition eph_select (s : ephstate) : option (key * pv) :=
  match es_cur s with
  | Some k => if es_generated s then es_draw s else Some k
  | None => es_draw s
  end.
Definition eph_generated_after (s : ephstate) : bool :=
  match es_cur s with Some _ => es_generated s | None => true end.
Definition set_eph (r : recip) (e : option (key * pv)) : recip :=
  {| r_header := r_header r; r_ek := r_ek r; r_key := r_key r; r_sender := r_sender r; r_eph := e |}.
Fixpoint apply_eph (rs : list recip) (es : list ephstate) : list recip :=
  match rs, es with
  | r :: rs', s :: es' => set_eph r (eph_select s) :: apply_eph rs' es'
  | _, _ => rs
  end.
Definition with_eph (o : eobj) (es : list ephstate) : eobj :=
  {| e_ser := e_ser o; e_prot := e_prot o; e_unprot := e_unprot o; e_aad := e_aad o; e_plain := e_plain o;
     e_recips := apply_eph (e_recips o) es |}.

Definition encrypt_json_obj (prior : list (str * bytes)) (es : list ephstate) (g : registry) (o : eobj) (d : edraw)
  : res pv :=
  let o' := with_eph o es in
  do x <- perform_encrypt_obj prior g o' d; represent_json o' x.

Definition encrypt_compact (g : registry) (o : eobj) (d : edraw) : res bytes :=
  do x <- perform_encrypt g o d; represent_compact x.
Definition encrypt_json (g : registry) (o : eobj) (d : edraw) : res pv :=
  do x <- perform_encrypt g o d; represent_json o x.

End Msg.
