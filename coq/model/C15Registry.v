(* C15Registry.v — Impl model of joserfc/registry.py (validators, header
   registries, check_supported_header, validate_registry_header,
   check_crit_header) and of the three registry entry points
     rfc7515/registry.py : JWSRegistry.check_header
     rfc7797/registry.py : JWSRegistry.check_header, _safe_b64_header
     rfc7516/registry.py : JWERegistry.check_header, get_alg, _check_algorithm
   over the dynamic universe [pv].  Registries are [list hparam] in dict order
   (the data come from Gen.Tables); headers are association lists. *)
From Model Require Import Base PyVal TableTypes.
Open Scope N_scope.

Definition hdr := list (str * pv).

(* registry names are ASCII literals; header names are code-point strings *)
Definition pname (p : hparam) : str := asc (hp_name p).
Definition reg_names (r : list hparam) : list str := map pname r.

(* d[k] = p on a registry dict: in place when the name exists, appended otherwise *)
Fixpoint reg_set (r : list hparam) (p : hparam) : list hparam :=
  match r with
  | [] => [p]
  | q :: r' => if str_eqb (pname q) (pname p) then p :: r' else q :: reg_set r' p
  end.
(* registry.update(extra) *)
Definition reg_update (r e : list hparam) : list hparam := fold_left reg_set e r.

(* JWSRegistry.__init__ / JWERegistry.__init__:
     self.header_registry = {}; update(default); if extra is not None: update(extra) *)
Definition mk_registry (default extra : list hparam) : list hparam :=
  reg_update (reg_update [] default) extra.

(* ---------- validators (registry.py: is_str ... not_support, in_choices) ---------- *)
Definition http_prefix : str := asc "http://".
Definition https_prefix : str := asc "https://".

(* `v in choices` for a list of str literals: == against each element *)
Definition v_in_choices (choices : list string) (v : pv) : bool :=
  list_contains (map (fun c => PStr (asc c)) choices) v.

Definition validate (k : vkind) (v : pv) : res unit :=
  match k with
  | VStr => match v with PStr _ => Ok tt | _ => Err EValue end
  | VUrl =>
      match v with
      | PStr s => if is_prefix http_prefix s || is_prefix https_prefix s then Ok tt else Err EValue
      | _ => Err EValue
      end
  | VInt => match v with PInt _ => Ok tt | _ => Err EValue end      (* bool is excluded explicitly *)
  | VBool => match v with PBool _ => Ok tt | _ => Err EValue end
  | VListStr =>
      match v with
      | PList l => if forallb is_str l then Ok tt else Err EValue
      | _ => Err EValue
      end
  | VJwk => match v with PDict _ => Ok tt | _ => Err EValue end
  | VNone => Err EValue
  | VChoices c =>
      match v with
      | PList l => if forallb (v_in_choices c) l then Ok tt else Err EValue
      | _ => if v_in_choices c v then Ok tt else Err EValue
      end
  | VChoiceStr c =>                    (* in_choices(c, False): a list is refused first *)
      match v with
      | PList _ => Err EValue
      | _ => if v_in_choices c v then Ok tt else Err EValue
      end
  | VChoiceList c =>                   (* in_choices(c, True): anything but a list is refused first *)
      match v with
      | PList l => if forallb (v_in_choices c) l then Ok tt else Err EValue
      | _ => Err EValue
      end
  | VUnknown _ => Err EOracleMiss      (* a validator the extractor could not identify: fail closed *)
  end.

(* ---------- check_supported_header ---------- *)
Definition check_supported_header (reg : list hparam) (h : hdr) : res unit :=
  if forallb (fun k => str_mem k (reg_names reg)) (dkeys h) then Ok tt else Err EValue.

(* ---------- validate_registry_header ---------- *)
Fixpoint validate_registry_header (reg : list hparam) (h : hdr) (check_required : bool) : res unit :=
  match reg with
  | [] => Ok tt
  | p :: r =>
      if check_required && hp_required p && negb (dmem h (pname p)) then Err EValue
      else
        match dget h (pname p) with
        | Some v =>
            match validate (hp_kind p) v with
            | Ok _ => validate_registry_header r h check_required
            | Err EValue => Err EValue          (* except ValueError: raise ValueError *)
            | Err e => Err e
            end
        | None => validate_registry_header r h check_required
        end
  end.

(* ---------- check_crit_header ---------- *)
Definition crit_name : str := asc "crit".
Definition b64_name : str := asc "b64".
Definition alg_name : str := asc "alg".
Definition enc_name : str := asc "enc".

(* for k in header["crit"]: if k not in header: raise ValueError *)
Fixpoint crit_loop (h : hdr) (l : list pv) : res unit :=
  match l with
  | [] => Ok tt
  | k :: r => do b <- py_in k (PDict h); if (b : bool) then crit_loop h r else Err EValue
  end.

Definition check_crit_header (h : hdr) : res unit :=
  match dget h crit_name with
  | None => Ok tt
  | Some c =>
      (* try: is_list_str(header["crit"]) except ValueError: raise ValueError *)
      match validate VListStr c with
      | Ok _ => do l <- py_iter c; crit_loop h l
      | Err EValue => Err EValue
      | Err e => Err e
      end
  end.

(* ---------- rfc7515 JWSRegistry.check_header ---------- *)
Definition jws_check_header (reg : list hparam) (strict : bool) (h : hdr) : res unit :=
  do _ <- check_crit_header h;
  do _ <- validate_registry_header reg h true;
  if strict then check_supported_header reg h else Ok tt.

(* ---------- rfc7797 ---------- *)
Definition safe_b64_header (h : hdr) : res unit :=
  match dget h crit_name with       (* header.get("crit") *)
  | Some (PList l) => if list_contains l (PStr b64_name) then Ok tt else Err EValue
  | _ => Err EValue
  end.

Definition jws7797_check_header (reg : list hparam) (strict : bool) (h : hdr) : res unit :=
  do _ <- (if dmem h b64_name then safe_b64_header h else Ok tt);
  jws_check_header reg strict h.

(* ---------- rfc7516 ---------- *)
Definition find_alg (tbl : list jwe_alg_row) (s : str) : option jwe_alg_row :=
  find (fun r => str_eqb (asc (ea_name r)) s) tbl.

Definition name_in (l : list string) (s : str) : bool :=
  existsb (fun c => str_eqb (asc c) s) l.

(* get_alg + _check_algorithm; [allowed] is the `algorithms=` argument (a list
   of str or None), [recommended] the class-level list *)
Definition jwe_get_alg (tbl : list jwe_alg_row) (recommended : list string)
           (allowed : option (list string)) (name : pv) : res jwe_alg_row :=
  match name with
  | PStr s =>
      match find_alg tbl s with
      | None => Err (EJose UnsupportedAlgorithmError)
      | Some row =>
          let pool := match allowed with
                      | Some (a :: l) => a :: l      (* if self.allowed: *)
                      | _ => recommended
                      end in
          if name_in pool s then Ok row else Err (EJose UnsupportedAlgorithmError)
      end
  | _ => Err (EJose UnsupportedAlgorithmError)     (* not isinstance(name, str) *)
  end.

Definition jwe_check_header (tbl : list jwe_alg_row) (recommended : list string)
           (allowed : option (list string)) (reg : list hparam) (strict : bool)
           (h : hdr) (check_more : bool) : res unit :=
  do _ <- check_crit_header h;
  do _ <- validate_registry_header reg h true;
  do a <- py_getitem_str (PDict h) alg_name;
  do row <- jwe_get_alg tbl recommended allowed a;
  match ea_more row with
  | [] => if strict then check_supported_header reg h else Ok tt
  | _ :: _ =>
      do _ <- validate_registry_header (ea_more row) h check_more;
      if strict then check_supported_header (reg_update reg (ea_more row)) h else Ok tt
  end.

(* ---------- call sites: which header an entry point hands to check_header ----------
   HeaderMember.headers() / Recipient.headers(): rv = {}; rv.update(part) for
   each non-empty part in order (protected, shared unprotected, per-recipient) *)
Definition merge_parts (parts : list hdr) : hdr := fold_left (fun acc p => dupdate acc p) parts [].
