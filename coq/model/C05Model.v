(* C05Model.v — Impl model of the algorithm allow-list gate of joserfc:
     rfc7515/registry.py  JWSRegistry.get_alg, register, construct_registry
     rfc7516/registry.py  JWERegistry._check_algorithm, get_alg/get_enc/get_zip, register
     the registry selection (`registry is None` / `if algorithms:`) of every entry
     point of jws.py, rfc7797/compact.py, rfc7797/json.py, jwe.py, jwt.py,
     rfc7518/jws_algs.py NoneAlgModel.
   Algorithm names and allow-lists are dynamic Python values ([pv]); the class
   level tables are the rows of Gen.Tables.  The process-wide state is [world]. *)
From Model Require Import Base PyVal TableTypes.
From Gen Require Import Tables.
Open Scope N_scope.

Definition nm (s : string) : str := asc s.
Definition pname (s : string) : pv := PStr (nm s).

(* ---------- registry objects created by the caller ---------- *)
(* a JWSRegistry / rfc7797 JWSRegistry / JWERegistry instance: vars(reg).  Only
   [ro_allowed] is read by the gate; the other attributes are carried so that the
   model can say that no call changes them. *)
(* the class of the object: the three library classes and (caller-defined) subclasses
   of each.  jws.* and rfc7797.* entry points accept every JWS-family object
   (rfc7797 functions are typed `registry: Optional[_JWSRegistry]`, the BASE class);
   jwt dispatches on isinstance(registry, JWERegistry). *)
Inductive regcls := RcJws | Rc7797 | RcJwe | RcJwsSub | Rc7797Sub | RcJweSub.
Record regobj := {
  ro_cls : regcls;
  ro_allowed : pv;                (* reg.allowed *)
  ro_strict : bool;               (* reg.strict_check_header *)
  ro_verify_all : bool;           (* reg.verify_all_recipients (JWE; true otherwise) *)
  ro_extra_headers : list str     (* keys of reg.header_registry beyond the class default *)
}.

(* ---------- process-wide state ---------- *)
Record world := {
  w_regs : list regobj;           (* the caller's registry objects, in creation order *)
  w_jws : list jws_alg_row;       (* JWSRegistry.algorithms, dict order, keyed by name *)
  w_jws_rec : list string;        (* JWSRegistry.recommended *)
  w_alg : list jwe_alg_row;       (* JWERegistry.algorithms["alg"] *)
  w_enc : list jwe_enc_row;       (* JWERegistry.algorithms["enc"] *)
  w_zip : list jwe_zip_row;       (* JWERegistry.algorithms["zip"] *)
  w_jwe_rec : list string;        (* JWERegistry.recommended (one list for alg, enc, zip) *)
  w_jws_def : pv;                 (* rfc7515.registry.default_registry.allowed *)
  w_jwe_def : pv                  (* rfc7516.registry.default_registry.allowed *)
}.

Definition allowed_pv (a : option (list string)) : pv :=
  match a with None => PNone | Some l => PList (map pname l) end.

(* the state right after `import joserfc.jws, joserfc.jwe` *)
Definition w0 : world := {|
  w_regs := [];
  w_jws := jws_alg_table; w_jws_rec := jws_recommended;
  w_alg := jwe_alg_table; w_enc := jwe_enc_table; w_zip := jwe_zip_table;
  w_jwe_rec := jwe_recommended;
  w_jws_def := allowed_pv jws_default_registry_allowed;
  w_jwe_def := allowed_pv jwe_default_registry_allowed |}.

(* the state after register_ecdh_1pu(); register_chaha20_poly1305() *)
Definition w0_drafts : world := {|
  w_regs := [];
  w_jws := jws_alg_table_drafts; w_jws_rec := jws_recommended_drafts;
  w_alg := jwe_alg_table_drafts; w_enc := jwe_enc_table_drafts; w_zip := jwe_zip_table_drafts;
  w_jwe_rec := jwe_recommended_drafts;
  w_jws_def := allowed_pv jws_default_registry_allowed_drafts;
  w_jwe_def := allowed_pv jwe_default_registry_allowed_drafts |}.

Definition w_empty : world := {|
  w_regs := [];
  w_jws := []; w_jws_rec := []; w_alg := []; w_enc := []; w_zip := []; w_jwe_rec := [];
  w_jws_def := PNone; w_jwe_def := PNone |}.

(* ---------- the gate ---------- *)
Definition unsupported {A} : res A := Err (EJose UnsupportedAlgorithmError).

(* a dict whose keys are ks (values irrelevant for `in`) *)
Definition keys_dict (ks : list str) : pv := PDict (map (fun k => (k, PNone)) ks).

(* JWERegistry._check_algorithm / the body of JWSRegistry.get_alg:
     if not isinstance(name, str) or name not in registry: raise UnsupportedAlgorithmError
     if self.allowed:  if name not in self.allowed: raise UnsupportedAlgorithmError
     else:             if name not in self.recommended: raise UnsupportedAlgorithmError *)
Definition check_algorithm (allowed : pv) (recommended : list string) (keys : list str)
           (name : pv) : res unit :=
  if negb (is_str name) then unsupported else
  do present <- py_in name (keys_dict keys);
  if negb present then unsupported
  else if py_truth allowed then
    (do ok <- py_in name allowed; if ok then Ok tt else unsupported)
  else
    (do ok <- py_in name (PList (map pname recommended)); if ok then Ok tt else unsupported).

Fixpoint find_row {R} (name_of : R -> string) (tbl : list R) (s : str) : option R :=
  match tbl with
  | [] => None
  | r :: t => if str_eqb (nm (name_of r)) s then Some r else find_row name_of t s
  end.

Definition row_names {R} (name_of : R -> string) (tbl : list R) : list str :=
  map (fun r => nm (name_of r)) tbl.

(* check, then `return registry[name]` *)
Definition get_row {R} (name_of : R -> string) (tbl : list R) (allowed : pv)
           (recommended : list string) (name : pv) : res R :=
  do _ <- check_algorithm allowed recommended (row_names name_of tbl) name;
  match name with
  | PStr s => match find_row name_of tbl s with Some r => Ok r | None => Err EKey end
  | _ => Err EKey
  end.

(* JWSRegistry(algorithms=allowed).get_alg(name)  (also the rfc7797 subclass) *)
Definition jws_get_alg (w : world) (allowed name : pv) : res jws_alg_row :=
  get_row ja_name (w_jws w) allowed (w_jws_rec w) name.
(* JWERegistry(algorithms=allowed).get_alg / get_enc / get_zip *)
Definition jwe_get_alg (w : world) (allowed name : pv) : res jwe_alg_row :=
  get_row ea_name (w_alg w) allowed (w_jwe_rec w) name.
Definition jwe_get_enc (w : world) (allowed name : pv) : res jwe_enc_row :=
  get_row ee_name (w_enc w) allowed (w_jwe_rec w) name.
Definition jwe_get_zip (w : world) (allowed name : pv) : res jwe_zip_row :=
  get_row ez_name (w_zip w) allowed (w_jwe_rec w) name.

(* ---------- which registry an entry point uses ----------
   A registry is represented by its [allowed] attribute (the only instance
   attribute the gate reads).  [registry = None] : no registry= argument. *)

(* rfc7515/registry.py construct_registry *)
Definition construct_registry (w : world) (algorithms : pv) : pv :=
  if py_truth algorithms then algorithms else w_jws_def w.

(* jws.serialize_compact / validate_compact / deserialize_compact / serialize_json /
   deserialize_json:  if registry is None: registry = construct_registry(algorithms) *)
Definition jws_select (w : world) (algorithms : pv) (registry : option pv) : pv :=
  match registry with Some a => a | None => construct_registry w algorithms end.

(* rfc7797: without a "b64" header member the call is forwarded unchanged; with it
   `if registry is None: registry = JWSRegistry(algorithms=algorithms)` *)
Inductive jws_kind := KPlain | K7797 (has_b64 : bool).

Definition jws_entry_select (w : world) (k : jws_kind) (algorithms : pv) (registry : option pv) : pv :=
  match k with
  | K7797 true => match registry with Some a => a | None => algorithms end
  | _ => jws_select w algorithms registry
  end.

(* jwe.encrypt_compact / decrypt_compact / encrypt_json / decrypt_json:
     if algorithms: registry = JWERegistry(algorithms=algorithms)
     elif registry is None: registry = default_registry *)
Definition jwe_select (w : world) (algorithms : pv) (registry : option pv) : pv :=
  if py_truth algorithms then algorithms
  else match registry with Some a => a | None => w_jwe_def w end.

(* ---------- entry points up to the gate ---------- *)
(* registry.check_header: "alg"/"enc"/"zip" have validator is_str (ValueError) *)
Definition hdr_str (v : pv) : res unit := if is_str v then Ok tt else Err EValue.

(* one signature member: check_header(headers); alg = registry.get_alg(headers["alg"]) *)
Definition jws_member_gate (w : world) (sel : pv) (alg : pv) : res jws_alg_row :=
  do _ <- hdr_str alg; jws_get_alg w sel alg.

Fixpoint gate_all {R} (g : pv -> res R) (names : list pv) : res (list R) :=
  match names with
  | [] => Ok []
  | n :: t => do r <- g n; do rs <- gate_all g t; Ok (r :: rs)
  end.

(* algs: the "alg" of every signature member in order (one for compact/flattened) *)
Definition jws_entry (w : world) (k : jws_kind) (algorithms : pv) (registry : option pv)
           (algs : list pv) : res (list jws_alg_row) :=
  gate_all (jws_member_gate w (jws_entry_select w k algorithms registry)) algs.

(* one recipient: JWERegistry.check_header validates enc, zip, alg (registry order)
   as str, then get_alg *)
Definition jwe_recipient_gate (w : world) (sel : pv) (enc : pv) (zip : option pv) (alg : pv)
  : res jwe_alg_row :=
  do _ <- hdr_str enc;
  do _ <- match zip with Some z => hdr_str z | None => Ok tt end;
  do _ <- hdr_str alg;
  jwe_get_alg w sel alg.

Definition jwe_zip_gate (w : world) (sel : pv) (zip : option pv) : res (option jwe_zip_row) :=
  match zip with
  | None => Ok None
  | Some z => do r <- jwe_get_zip w sel z; Ok (Some r)
  end.

(* all gates of perform_encrypt / _perform_decrypt in program order:
   get_enc(protected["enc"]); per recipient check_header + get_alg; get_zip if "zip" in protected *)
Definition jwe_entry (w : world) (algorithms : pv) (registry : option pv)
           (enc : pv) (algs : list pv) (zip : option pv)
  : res (jwe_enc_row * list jwe_alg_row * option jwe_zip_row) :=
  let sel := jwe_select w algorithms registry in
  do e <- jwe_get_enc w sel enc;
  do rs <- gate_all (jwe_recipient_gate w sel enc zip) algs;
  do z <- jwe_zip_gate w sel zip;
  Ok (e, rs, z).

(* jwt.encode / jwt.decode dispatch on isinstance(registry, JWERegistry) *)
Inductive regarg := RNone | RJws (allowed : pv) | RJwe (allowed : pv).

Definition jwt_entry (w : world) (algorithms : pv) (r : regarg) (alg : pv)
           (enc : option pv) (zip : option pv) : res unit :=
  match r with
  | RJwe a =>
      match enc with
      | Some e => do _ <- jwe_entry w algorithms (Some a) e [alg] zip; Ok tt
      | None => Err EKey
      end
  | RJws a => do _ <- jws_entry w KPlain algorithms (Some a) [alg]; Ok tt
  | RNone => do _ <- jws_entry w KPlain algorithms None [alg]; Ok tt
  end.

(* ---------- complete operations: gates, then cryptography ----------
   The cryptographic stages are arbitrary functions (Section variables without
   any hypothesis): the theorems hold whatever they compute. *)
Section Staged.
  Variables K M X : Type.
  (* JWS *)
  Variable jws_crypto : list jws_alg_row -> res X.
  Definition jws_op (w : world) (k : jws_kind) (algorithms : pv) (registry : option pv)
             (algs : list pv) : res X :=
    do rows <- jws_entry w k algorithms registry algs; jws_crypto rows.

  (* JWE encryption: enc gate, recipients (gate + key management), zip gate, content encryption *)
  Variable key_mgmt : jwe_enc_row -> list jwe_alg_row -> res K.
  Variable content_enc : jwe_enc_row -> K -> option jwe_zip_row -> res X.
  Definition jwe_encrypt_op (w : world) (algorithms : pv) (registry : option pv)
             (enc : pv) (algs : list pv) (zip : option pv) : res X :=
    let sel := jwe_select w algorithms registry in
    do e <- jwe_get_enc w sel enc;
    do rs <- gate_all (jwe_recipient_gate w sel enc zip) algs;
    do k <- key_mgmt e rs;
    do z <- jwe_zip_gate w sel zip;
    content_enc e k z.

  (* JWE decryption: the zip gate comes after the content decryption *)
  Variable content_dec : jwe_enc_row -> K -> res M.
  Variable decompress : option jwe_zip_row -> M -> res X.
  Definition jwe_decrypt_op (w : world) (algorithms : pv) (registry : option pv)
             (enc : pv) (algs : list pv) (zip : option pv) : res X :=
    let sel := jwe_select w algorithms registry in
    do e <- jwe_get_enc w sel enc;
    do rs <- gate_all (jwe_recipient_gate w sel enc zip) algs;
    do k <- key_mgmt e rs;
    do m <- content_dec e k;
    do z <- jwe_zip_gate w sel zip;
    decompress z m.
End Staged.

(* ---------- 'none' ---------- *)
(* JWSAlgModel.verify dispatched on the class of the registered model; the class
   NoneAlgModel (family "none" in Tables) returns False, sign returns b"". *)
Definition is_none_row (r : jws_alg_row) : bool := String.eqb (ja_family r) "none".

Section Verify.
  (* verdict of the real signature check of the token's signature under row r *)
  Variable crypto_verify : jws_alg_row -> bool.
  Definition alg_verify (r : jws_alg_row) : bool :=
    if is_none_row r then false else crypto_verify r.

  (* deserialize_* / verify_general_json: members in order, each gated and then
     verified; the first failed verification ends the loop (False), a failed gate
     raises; `if not ok: raise BadSignatureError`.  (A general JSON JWS has at
     least one member here: the empty "signatures" list is refused separately.) *)
  Fixpoint jws_verify_members (w : world) (sel : pv) (algs : list pv) : res bool :=
    match algs with
    | [] => Ok true
    | n :: t => do r <- jws_member_gate w sel n;
                if alg_verify r then jws_verify_members w sel t else Ok false
    end.
  Definition jws_verify_op (w : world) (k : jws_kind) (algorithms : pv) (registry : option pv)
             (algs : list pv) : res unit :=
    do ok <- jws_verify_members w (jws_entry_select w k algorithms registry) algs;
    if ok then Ok tt else Err (EJose BadSignatureError).
End Verify.

Definition none_verify (msg sig : bytes) : bool := false.
Definition none_sign (msg : bytes) : bytes := [].

(* ---------- registration and histories ---------- *)
(* cls.algorithms[alg.name] = alg *)
Fixpoint set_row {R} (name_of : R -> string) (tbl : list R) (r : R) : list R :=
  match tbl with
  | [] => [r]
  | x :: t => if str_eqb (nm (name_of x)) (nm (name_of r)) then r :: t
              else x :: set_row name_of t r
  end.
(* if alg.recommended: cls.recommended.append(alg.name) *)
Definition rec_add (l : list string) (flag : bool) (n : string) : list string :=
  if flag then l ++ [n] else l.

Definition reg_jws (w : world) (r : jws_alg_row) : world := {|
  w_regs := w_regs w;
  w_jws := set_row ja_name (w_jws w) r; w_jws_rec := rec_add (w_jws_rec w) (ja_recommended r) (ja_name r);
  w_alg := w_alg w; w_enc := w_enc w; w_zip := w_zip w; w_jwe_rec := w_jwe_rec w;
  w_jws_def := w_jws_def w; w_jwe_def := w_jwe_def w |}.
Definition reg_alg (w : world) (r : jwe_alg_row) : world := {|
  w_regs := w_regs w;
  w_jws := w_jws w; w_jws_rec := w_jws_rec w;
  w_alg := set_row ea_name (w_alg w) r; w_enc := w_enc w; w_zip := w_zip w;
  w_jwe_rec := rec_add (w_jwe_rec w) (ea_recommended r) (ea_name r);
  w_jws_def := w_jws_def w; w_jwe_def := w_jwe_def w |}.
Definition reg_enc (w : world) (r : jwe_enc_row) : world := {|
  w_regs := w_regs w;
  w_jws := w_jws w; w_jws_rec := w_jws_rec w;
  w_alg := w_alg w; w_enc := set_row ee_name (w_enc w) r; w_zip := w_zip w;
  w_jwe_rec := rec_add (w_jwe_rec w) (ee_recommended r) (ee_name r);
  w_jws_def := w_jws_def w; w_jwe_def := w_jwe_def w |}.
Definition reg_zip (w : world) (r : jwe_zip_row) : world := {|
  w_regs := w_regs w;
  w_jws := w_jws w; w_jws_rec := w_jws_rec w;
  w_alg := w_alg w; w_enc := w_enc w; w_zip := set_row ez_name (w_zip w) r;
  w_jwe_rec := rec_add (w_jwe_rec w) (ez_recommended r) (ez_name r);
  w_jws_def := w_jws_def w; w_jwe_def := w_jwe_def w |}.

Inductive loc := LAlg | LEnc | LZip.

(* how a call designates its registry= argument: not passed, an object constructed
   for this call, or one of the caller's long-lived objects (index into w_regs) *)
Inductive regsel := RAbsent | RFresh (c : regcls) (allowed : pv) | RRef (i : nat).
Inductive getter := GJws | GJwe (l : loc).

Inductive call :=
| CallJwsGet (allowed name : pv)                 (* JWSRegistry(algorithms=allowed).get_alg(name) *)
| CallJwsDefGet (name : pv)                      (* rfc7515 default_registry.get_alg(name) *)
| CallJweGet (l : loc) (allowed name : pv)       (* JWERegistry(algorithms=allowed).get_<l>(name) *)
| CallJweDefGet (l : loc) (name : pv)
| CallRefGet (g : getter) (i : nat) (name : pv)  (* reg_i.get_*(name) on a caller object *)
| CallNewReg (o : regobj)                        (* the caller constructs a registry *)
| CallJwsSign (k : jws_kind) (algorithms : pv) (registry : regsel) (algs : list pv)
| CallJwsVerify (k : jws_kind) (algorithms : pv) (registry : regsel) (algs : list pv)
| CallJwe (algorithms : pv) (registry : regsel) (enc : pv) (algs : list pv) (zip : option pv)
| CallJwt (verify : bool) (algorithms : pv) (registry : regsel) (alg : pv) (enc zip : option pv)
| CallRegJws (r : jws_alg_row)
| CallRegAlg (r : jwe_alg_row)
| CallRegEnc (r : jwe_enc_row)
| CallRegZip (r : jwe_zip_row).

(* what a call shows to its caller: the name of the returned model, or success/exception *)
Inductive verdict := VName (r : res str) | VUnit (r : res unit).

Definition rname {R} (name_of : R -> string) (r : res R) : res str :=
  match r with Ok x => Ok (nm (name_of x)) | Err e => Err e end.
Definition runit {A} (r : res A) : res unit :=
  match r with Ok _ => Ok tt | Err e => Err e end.

Definition jwe_get (w : world) (l : loc) (allowed name : pv) : res str :=
  match l with
  | LAlg => rname ea_name (jwe_get_alg w allowed name)
  | LEnc => rname ee_name (jwe_get_enc w allowed name)
  | LZip => rname ez_name (jwe_get_zip w allowed name)
  end.

(* verdicts of well-formed calls: right keys, valid headers, and (verification)
   tokens that carry a genuine signature: the real check says "good" for every
   algorithm that performs one *)
Definition good_sig (_ : jws_alg_row) : bool := true.

Definition jwt_verdict (w : world) (verify : bool) (algorithms : pv) (r : regarg) (alg : pv)
           (enc zip : option pv) : res unit :=
  match r with
  | RJwe _ => jwt_entry w algorithms r alg enc zip
  | RJws a => if verify then jws_verify_op good_sig w KPlain algorithms (Some a) [alg]
              else jwt_entry w algorithms r alg enc zip
  | RNone => if verify then jws_verify_op good_sig w KPlain algorithms None [alg]
             else jwt_entry w algorithms r alg enc zip
  end.

(* the registry object a call receives: None = argument not passed *)
Definition resolve (w : world) (r : regsel) : res (option (regcls * pv)) :=
  match r with
  | RAbsent => Ok None
  | RFresh c a => Ok (Some (c, a))
  | RRef i => match nth_error (w_regs w) i with
              | Some o => Ok (Some (ro_cls o, ro_allowed o))
              | None => Err ERuntime              (* no such object: not a call the caller can make *)
              end
  end.
Definition to_regarg (ro : option (regcls * pv)) : regarg :=
  match ro with
  | None => RNone
  | Some (RcJwe, a) | Some (RcJweSub, a) => RJwe a
  | Some (_, a) => RJws a
  end.
Definition with_reg {A} (w : world) (r : regsel) (f : option (regcls * pv) -> res A) : res A :=
  do ro <- resolve w r; f ro.

Definition add_reg (w : world) (o : regobj) : world := {|
  w_regs := w_regs w ++ [o];
  w_jws := w_jws w; w_jws_rec := w_jws_rec w;
  w_alg := w_alg w; w_enc := w_enc w; w_zip := w_zip w; w_jwe_rec := w_jwe_rec w;
  w_jws_def := w_jws_def w; w_jwe_def := w_jwe_def w |}.

(* every API call as a function world -> args -> verdict * world; the world carries
   the class tables, the default registries and the caller's registry objects *)
Definition step (w : world) (c : call) : verdict * world :=
  match c with
  | CallJwsGet a n => (VName (rname ja_name (jws_get_alg w a n)), w)
  | CallJwsDefGet n => (VName (rname ja_name (jws_get_alg w (w_jws_def w) n)), w)
  | CallJweGet l a n => (VName (jwe_get w l a n), w)
  | CallJweDefGet l n => (VName (jwe_get w l (w_jwe_def w) n), w)
  | CallRefGet g i n =>
      (VName (match nth_error (w_regs w) i with
              | None => Err ERuntime
              | Some o => match g with
                          | GJws => rname ja_name (jws_get_alg w (ro_allowed o) n)
                          | GJwe l => jwe_get w l (ro_allowed o) n
                          end
              end), w)
  | CallNewReg o => (VUnit (Ok tt), add_reg w o)
  | CallJwsSign k a r algs =>
      (VUnit (with_reg w r (fun ro => runit (jws_entry w k a (option_map snd ro) algs))), w)
  | CallJwsVerify k a r algs =>
      (VUnit (with_reg w r (fun ro => jws_verify_op good_sig w k a (option_map snd ro) algs)), w)
  | CallJwe a r enc algs zip =>
      (VUnit (with_reg w r (fun ro => runit (jwe_entry w a (option_map snd ro) enc algs zip))), w)
  | CallJwt v a r alg enc zip =>
      (VUnit (with_reg w r (fun ro => jwt_verdict w v a (to_regarg ro) alg enc zip)), w)
  | CallRegJws r => (VUnit (Ok tt), reg_jws w r)
  | CallRegAlg r => (VUnit (Ok tt), reg_alg w r)
  | CallRegEnc r => (VUnit (Ok tt), reg_enc w r)
  | CallRegZip r => (VUnit (Ok tt), reg_zip w r)
  end.

Definition is_register (c : call) : bool :=
  match c with
  | CallRegJws _ | CallRegAlg _ | CallRegEnc _ | CallRegZip _ => true
  | _ => false
  end.

Definition is_new (c : call) : bool := match c with CallNewReg _ => true | _ => false end.
(* neither a registration nor a construction *)
Definition is_plain (c : call) : bool := negb (is_register c) && negb (is_new c).

(* the registry objects a call refers to exist *)
Definition sel_ok (w : world) (r : regsel) : bool :=
  match r with RRef i => Nat.ltb i (length (w_regs w)) | _ => true end.
Definition refs_ok (w : world) (c : call) : bool :=
  match c with
  | CallRefGet _ i _ => Nat.ltb i (length (w_regs w))
  | CallJwsSign _ _ r _ | CallJwsVerify _ _ r _ | CallJwe _ r _ _ _ | CallJwt _ _ r _ _ _ => sel_ok w r
  | _ => true
  end.

(* same class tables and default registries *)
Definition same_tables (a b : world) : Prop :=
  w_jws a = w_jws b /\ w_jws_rec a = w_jws_rec b /\ w_alg a = w_alg b /\ w_enc a = w_enc b /\
  w_zip a = w_zip b /\ w_jwe_rec a = w_jwe_rec b /\ w_jws_def a = w_jws_def b /\ w_jwe_def a = w_jwe_def b.

(* state after a history *)
Definition run (h : list call) (w : world) : world :=
  fold_left (fun w c => snd (step w c)) h w.
(* verdicts of a history, in order *)
Fixpoint verdicts (h : list call) (w : world) : list verdict :=
  match h with
  | [] => []
  | c :: t => fst (step w c) :: verdicts t (snd (step w c))
  end.

(* ---------- Spec (written from the property text) ---------- *)
(* the names a caller allowed: the explicit list when one is given (a list that
   lists nothing is the library's documented "no list given" default), else the
   recommended set *)
Definition effective (a : option (list pv)) (recommended : list string) : list pv :=
  match a with
  | Some (x :: l) => x :: l
  | _ => map pname recommended
  end.
(* the literal reading of "explicit list": an empty list allows nothing *)
Definition effective_strict (a : option (list pv)) (recommended : list string) : list pv :=
  match a with
  | Some l => l
  | None => map pname recommended
  end.
Definition pv_of_allowed (a : option (list pv)) : pv :=
  match a with None => PNone | Some l => PList l end.

(* which allow-list the caller's arguments designate: for JWS an explicit registry
   is used as given, else the algorithms list; for JWE a (non-empty) algorithms
   list takes precedence over a registry *)
Definition spec_jws_choice (algorithms : option (list pv)) (registry : option (option (list pv)))
  : option (list pv) :=
  match registry with
  | Some a => a
  | None => algorithms
  end.
Definition spec_jwe_choice (algorithms : option (list pv)) (registry : option (option (list pv)))
  : option (list pv) :=
  match algorithms with
  | Some (x :: l) => Some (x :: l)
  | _ => match registry with Some a => a | None => None end
  end.
