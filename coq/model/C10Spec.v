(* C10Spec.v — the Spec of property C10, written clause by clause from the
   property statement (not from the code).

   Domain.  Claims: JSON values ([is_json]: no NaN/Infinity, no bytes); a JSON
   number is an integer or a finite float ([jnum]); JSON true/false are NOT
   numbers.  Requests: per claim name an option {essential, allow_blank, value,
   values}; well-formed ([wf_opts]) = essential / allow_blank absent, null or a
   boolean; value absent, null or a JSON scalar (string, boolean, number);
   values absent, null or a list of JSON scalars.

   Readings chosen where the statement is not explicit (each is the reading
   under which the unchanged code is correct; see props/C10.v for the lemmas
   that record the alternatives):
   R1 "equals": equality of JSON scalars by value where numbers compare
      numerically (1 = 1.0) and, as everywhere in Python, the booleans are the
      integers 0/1 (a request `value: 1` is met by the claim `true`).  The
      strict JSON reading (true <> 1) is [accepts_strict_bool]; it is refuted
      for the code by c10_strict_bool_eq_refuted.
   R2 "a claim that carries a request": the claim name has an option that is
      not the empty dict {} (an empty option requests nothing).
   R3 a member given as null (`"value": None`) is the same as an absent member.
   R4 aud: the requested audiences are `values` when given, otherwise the
      single `value`; a blank `value` ("" / 0 / false) and an empty `values`
      list request no audience, and then every aud is accepted.  (For claims
      other than aud an empty `values` list is taken literally: no value is
      "one of" them.)
   R5 a claim with both `value` and `values` (other than aud) must satisfy
      both.
   R6 "exp after now-leeway" is strict in [accepts]; the boundary
      exp = now-leeway is the point the statement leaves open, and
      [accepts_gen false] is the variant that allows it. *)
From Model Require Import Base PyVal C10Claims.
Open Scope Z_scope.

(* ---------- JSON numbers as exact rationals n/d ---------- *)
Definition jnum (v : pv) : option (Z * positive) :=
  match v with
  | PInt z => Some (z, 1%positive)
  | PFloat (FFin n d) => Some (n, d)
  | _ => None
  end.

(* value used for equality: booleans count as 0/1 unless [strictb] *)
Definition qval (strictb : bool) (v : pv) : option (Z * positive) :=
  match v with
  | PBool b => if strictb then None else Some (b2z b, 1%positive)
  | _ => jnum v
  end.

Definition is_scalar (v : pv) : bool :=
  match v with
  | PStr _ | PBool _ | PInt _ | PFloat (FFin _ _) => true
  | _ => false
  end.

(* does the claim value v equal the requested scalar r *)
Definition req_eq (strictb : bool) (r v : pv) : bool :=
  match r with
  | PStr s => match v with PStr t => str_eqb s t | _ => false end
  | PBool a =>
      match v with
      | PBool b => Bool.eqb a b
      | _ => if strictb then false else
             match jnum v with Some (c, d) => (b2z a * Z.pos d =? c) | None => false end
      end
  | PInt _ | PFloat _ =>
      match qval false r, qval strictb v with
      | Some (a, b), Some (c, d) => (a * Z.pos d =? c * Z.pos b)
      | _, _ => false
      end
  | _ => false
  end.

(* ---------- reading the request ---------- *)
(* R2: the request carried by claim name k *)
Definition request (opts : copts) (k : str) : option copt :=
  match dget opts k with
  | Some o => if opt_truthy o then Some o else None
  | None => None
  end.
Definition req_flag (f : option pv) : bool :=
  match f with Some (PBool true) => true | _ => false end.
(* R3 *)
Definition req_value (o : copt) : option pv :=
  match o_value o with Some PNone | None => None | Some r => Some r end.
Definition req_values (o : copt) : option (list pv) :=
  match o_values o with Some (PList l) => Some l | _ => None end.

Definition blank_scalar (r : pv) : bool :=
  match r with
  | PStr [] => true
  | PStr _ => false
  | _ => match qval false r with Some (n, _) => (n =? 0) | None => false end
  end.

(* R4 *)
Definition aud_requested (o : copt) : list pv :=
  match req_values o with
  | Some l => l
  | None => match req_value o with
            | Some r => if blank_scalar r then [] else [r]
            | None => []
            end
  end.
Definition audiences (v : pv) : list pv := match v with PList l => l | _ => [v] end.

(* ---------- well-formed requests ---------- *)
Definition wf_flag (f : option pv) : bool :=
  match f with None | Some PNone | Some (PBool _) => true | _ => false end.
Definition wf_value (f : option pv) : bool :=
  match f with None | Some PNone => true | Some r => is_scalar r end.
Definition wf_values (f : option pv) : bool :=
  match f with None | Some PNone => true | Some (PList l) => forallb is_scalar l | _ => false end.
Definition wf_opt (o : copt) : bool :=
  wf_flag (o_essential o) && wf_flag (o_allow_blank o) && wf_value (o_value o) && wf_values (o_values o).
Definition wf_opts (opts : copts) : bool := forallb (fun ko => wf_opt (snd ko)) opts.
Definition json_claims (claims : cclaims) : bool := forallb (fun kv => is_json (snd kv)) claims.

(* ---------- the clauses ---------- *)
(* "every essential claim is present and not null" *)
Definition present_not_null (claims : cclaims) (k : str) : bool :=
  match dget claims k with Some PNone | None => false | Some _ => true end.
Definition cl_essential (opts : copts) (claims : cclaims) : bool :=
  forallb (fun ko => implb (req_flag (o_essential (snd ko))) (present_not_null claims (fst ko))) opts.

(* "every claim with a requested value equals it or is one of the requested
   values (for aud: at least one requested audience is among the token's
   audiences)" *)
Definition cl_value_one (sb : bool) (opts : copts) (k : str) (v : pv) : bool :=
  match request opts k with
  | None => true
  | Some o =>
      match kind_of k with
      | KAud =>
          match aud_requested o with
          | [] => true
          | rq => existsb (fun r => existsb (req_eq sb r) (audiences v)) rq
          end
      | _ =>
          match req_value o with Some r => req_eq sb r v | None => true end &&
          match req_values o with Some l => existsb (fun r => req_eq sb r v) l | None => true end
      end
  end.

(* "no claim other than aud that carries a request is the empty string unless
   blanks are allowed" *)
Definition is_empty_str (v : pv) : bool := match v with PStr [] => true | _ => false end.
Definition cl_blank_one (opts : copts) (k : str) (v : pv) : bool :=
  match kind_of k with
  | KAud => true
  | _ => match request opts k with
         | None => true
         | Some o => implb (is_empty_str v) (req_flag (o_allow_blank o))
         end
  end.

(* "exp, nbf and iat, when present, are numbers" *)
Definition cl_number_one (k : str) (v : pv) : bool :=
  match kind_of k with
  | KExp | KNbf | KIat => is_some (jnum v)
  | _ => true
  end.
(* "with exp after now-leeway and nbf and iat not after now+leeway" *)
Definition exp_after (strict : bool) (now lw : Z) (v : pv) : bool :=
  match jnum v with
  | Some (n, d) => if strict then ((now - lw) * Z.pos d <? n) else ((now - lw) * Z.pos d <=? n)
  | None => true
  end.
Definition not_after (now lw : Z) (v : pv) : bool :=
  match jnum v with
  | Some (n, d) => (n <=? (now + lw) * Z.pos d)
  | None => true
  end.
Definition cl_time_one (strict : bool) (now lw : Z) (k : str) (v : pv) : bool :=
  match kind_of k with
  | KExp => exp_after strict now lw v
  | KNbf | KIat => not_after now lw v
  | _ => true
  end.

Definition on_claims (f : str -> pv -> bool) (claims : cclaims) : bool :=
  forallb (fun kv => f (fst kv) (snd kv)) claims.

(* strict = is exp = now-leeway already expired; sb = strict JSON booleans *)
Definition accepts_full (strict sb : bool) (now lw : Z) (opts : copts) (claims : cclaims) : bool :=
  cl_essential opts claims &&
  on_claims (cl_value_one sb opts) claims &&
  on_claims (cl_blank_one opts) claims &&
  on_claims cl_number_one claims &&
  on_claims (cl_time_one strict now lw) claims.

Definition accepts_gen (strict : bool) := accepts_full strict false.
Definition accepts := accepts_gen true.
Definition accepts_strict_bool := accepts_full true true.

(* the open point: some exp claim lies exactly on now-leeway *)
Definition exp_on_boundary (now lw : Z) (claims : cclaims) : bool :=
  existsb (fun kv => match kind_of (fst kv), jnum (snd kv) with
                     | KExp, Some (n, d) => (n =? (now - lw) * Z.pos d)
                     | _, _ => false
                     end) claims.

(* ---------- which error classes the statement allows ---------- *)
Definition viol_missing (opts : copts) (claims : cclaims) : bool := negb (cl_essential opts claims).
Definition viol_invalid_one (opts : copts) (k : str) (v : pv) : bool :=
  negb (cl_value_one false opts k v && cl_blank_one opts k v && cl_number_one k v).
Definition viol_expired_one (now lw : Z) (k : str) (v : pv) : bool :=
  match kind_of k with KExp => is_some (jnum v) && negb (exp_after false now lw v) | _ => false end.
Definition viol_early_one (now lw : Z) (k : str) (v : pv) : bool :=
  match kind_of k with KNbf | KIat => is_some (jnum v) && negb (not_after now lw v) | _ => false end.
Definition some_claim (f : str -> pv -> bool) (claims : cclaims) : bool :=
  existsb (fun kv => f (fst kv) (snd kv)) claims.

(* the class of error e is one the statement provides for the violated clauses *)
Definition err_matches (now lw : Z) (opts : copts) (claims : cclaims) (e : exn) : Prop :=
  match e with
  | EJose MissingClaimError => viol_missing opts claims = true
  | EJose InvalidClaimError =>
      viol_missing opts claims = false /\ some_claim (viol_invalid_one opts) claims = true
  | EJose ExpiredTokenError =>
      viol_missing opts claims = false /\ some_claim (viol_expired_one now lw) claims = true
  | EJose InvalidTokenError =>
      viol_missing opts claims = false /\ some_claim (viol_early_one now lw) claims = true
  | _ => False
  end.

(* the clauses one claim (k, v) violates call for class e *)
Definition claim_err_matches (now lw : Z) (opts : copts) (k : str) (v : pv) (e : exn) : Prop :=
  match e with
  | EJose InvalidClaimError => viol_invalid_one opts k v = true
  | EJose ExpiredTokenError => viol_expired_one now lw k v = true
  | EJose InvalidTokenError => viol_early_one now lw k v = true
  | _ => False
  end.
(* every clause about one claim holds (exp = now-leeway allowed) *)
Definition claim_satisfied (now lw : Z) (opts : copts) (k : str) (v : pv) : bool :=
  cl_value_one false opts k v && cl_blank_one opts k v && cl_number_one k v && cl_time_one false now lw k v.

(* ---------- a registry without built-in rules (ClaimsRegistry used directly):
   every claim, whatever its name (aud, exp, ... included), is judged by its
   request only: equals `value`, is one of `values`, not blank unless allowed ---------- *)
Definition plain_ok (opts : copts) (k : str) (v : pv) : bool :=
  match request opts k with
  | None => true
  | Some o =>
      (match req_value o with Some r => req_eq false r v | None => true end &&
       match req_values o with Some l => existsb (fun r => req_eq false r v) l | None => true end) &&
      implb (is_empty_str v) (req_flag (o_allow_blank o))
  end.
Definition accepts_base (opts : copts) (claims : cclaims) : bool :=
  cl_essential opts claims && on_claims (plain_ok opts) claims.
