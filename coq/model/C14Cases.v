(* C14Cases.v — executable comparison of the key-set model with recorded
   behaviour of joserfc (correspondence check for C14). *)
From Model Require Import Base PyVal TableTypes C14KeySet.
From Gen Require Import Tables.
Open Scope N_scope.

Inductive tblsel := TStd | TDrafts.
Definition tbl_of (t : tblsel) : list (string * list string) :=
  match t with TStd => keyset_algorithm_keys | TDrafts => keyset_algorithm_keys_drafts end.

(* how the key was handed over: directly, through a callable returning it,
   or through a callable that answers [src] when the header names a kid and
   [src2] otherwise *)
Inductive kfmode := MDirect | MCall | MCallByKid (src2 : ksrc).
Definition mk_kf (m : kfmode) (src : ksrc) : kflex :=
  match m with
  | MDirect => KFDirect src
  | MCall => KFCall (fun _ => src)
  | MCallByKid src2 => KFCall (fun g => if dmem (headers g) s_kid then src else src2)
  end.

(* "the primitive rejected the token because it was made with another key":
   compared loosely — any exception class except InvalidKeyIdError *)
Definition wrong_key : exn := ERuntime.

Definition opt_eqb {A} (eqb : A -> A -> bool) (a b : option A) : bool :=
  match a, b with
  | None, None => true
  | Some x, Some y => eqb x y
  | _, _ => false
  end.

Definition res_eqb2 {A B} (f : A -> B -> bool) (a : res A) (b : res B) : bool :=
  match a, b with
  | Ok x, Ok y => f x y
  | Err e, Err e' => exn_eqb e e'
  | _, _ => false
  end.
Fixpoint list_eqb2 {A B} (f : A -> B -> bool) (a : list A) (b : list B) : bool :=
  match a, b with
  | [], [] => true
  | x :: a', y :: b' => f x y && list_eqb2 f a' b'
  | _, _ => false
  end.

Inductive c14case :=
(* KeySet(keys): kids of the keys afterwards *)
| CInit (ks : list key) (expect : list (option str))
(* KeySet.get_by_kid(kid): material id of the key returned *)
| CLookup (ks : list key) (kid : pv) (expect : res N)
(* KeySet.pick_random_key(alg) with random.choice replaced by "take index idx":
   candidate list handed to random.choice, key returned *)
| CPick (t : tblsel) (ks : list key) (alg : pv) (idx : nat)
        (expect_cands : option (list N)) (expect : res (option N))
(* one call of jwk.guess_key as logged inside an entry point *)
| CGuess (t : tblsel) (m : kfmode) (src : ksrc) (g : guest) (use_random : bool) (idx : nat)
         (expect : res (N * option str * guest))
(* one call of jwe._guess_sender_key *)
| CSender (t : tblsel) (sk : sksrc) (g : guest) (use_random : bool) (idx : nat)
          (expect : res (N * guest))
(* jws.serialize_compact / serialize_json / jwt.encode (use_random) and
   deserialize_compact / deserialize_json / jwt.decode: per member
   (header object, choice index, id of the key the token was really made with) *)
| CJws (t : tblsel) (use_random : bool) (kc : bool) (m : kfmode) (src : ksrc)
       (ms : list (guest * nat * N)) (impl : res (list (N * guest)))
(* jwe.encrypt_* / decrypt_* : per recipient (header object, choice index,
   sender choice index, id of the real recipient key) *)
| CJwe (t : tblsel) (use_random : bool) (va : bool) (m : kfmode) (src : ksrc) (sk : option sksrc)
       (rs : list (guest * nat * nat * N)) (impl : res (list (N * option N * guest)))
(* KeySet.as_dict: (kty, kid, material id) of every exported entry *)
| CExport (ks : list key) (expect : list (option string * option str * N))
(* KeySet.import_key_set: (kid, kty, material id) of every key *)
| CImport (es : list jwk_entry) (expect : res (list (option str * string * N))).

Definition ostr_eqb := opt_eqb str_eqb.
Definition triple_eqb (a b : option str * string * N) : bool :=
  let '(k1, t1, i1) := a in let '(k2, t2, i2) := b in
  ostr_eqb k1 k2 && String.eqb t1 t2 && N.eqb i1 i2.

(* kc = false: rfc7797.serialize_json with b64 = false (no key type check).
   On the producing side the header object reported is the one parsed from
   the EMITTED token (jws_emit) *)
Definition m_jws (t : tblsel) (ur kc : bool) (m : kfmode) (src : ksrc) (ms : list (guest * nat * N))
  : res (list (key * guest)) :=
  map_res (fun x : guest * nat * N =>
             let '(g, idx, pid) := x in
             do kg0 <- (if kc then jws_step (tbl_of t) (ch_idx idx) ur (mk_kf m src) g
                        else jws7797_json_step (tbl_of t) (ch_idx idx) (mk_kf m src) g);
             let kg := if ur then (fst kg0, jws_emit (snd kg0)) else kg0 in
             if ur || (k_id (fst kg) =? pid) then Ok kg else Err wrong_key) ms.

(* encrypt: every recipient is resolved, then the headers are checked;
   decrypt: every recipient is resolved (jwe_attach: first failure raises,
   whatever verify_all_recipients says), then the headers are checked *)
Definition m_jwe (t : tblsel) (ur : bool) (m : kfmode) (src : ksrc) (sk : option sksrc)
           (rs : list (guest * nat * nat * N)) : res (list (key * option key * guest)) :=
  do sel <- (if ur then
               map_res (fun x : guest * nat * nat * N =>
                          let '(g, idx, sidx, pid) := x in
                          jwe_select (tbl_of t) (ch_idx idx) (ch_idx sidx) ur (mk_kf m src) sk g) rs
             else jwe_attach (tbl_of t) (ch_idx 0) (ch_idx 0) (mk_kf m src) sk
                             (map (fun x : guest * nat * nat * N => fst (fst (fst x))) rs));
  Ok sel.

(* JWERegistry.check_header on every recipient: runs inside perform_encrypt /
   perform_decrypt, interleaved with the per-recipient key wrapping, so an
   earlier recipient's post-selection error may come first *)
Definition m_jwe_post (sel : list (key * option key * guest)) : res (list unit) :=
  map_res (fun r : key * option key * guest => jwe_postcheck (headers (snd r))) sel.

(* after the lookups: does decryption succeed?  every recipient whose looked-up
   key is the key the token was made with yields the CEK; with
   verify_all_recipients every recipient must, without it one suffices (the
   others must fail with a JoseError to be skipped: compared loosely) *)
Fixpoint match_flags (ids pids : list N) : list bool :=
  match ids, pids with
  | i :: r, p :: r' => (i =? p) :: match_flags r r'
  | _, _ => []
  end.

(* errors that may follow a successful selection on the producing side
   (key material unusable for the algorithm: curve, length, key type in JWE) *)
Definition post_allowed (jwe nokc : bool) (e : exn) : bool :=
  match e with
  | EValue | EAssert => true
  | EJose UnsupportedKeyOperationError => true   (* signing with a public-only key of the set *)
  | EType | EAttr => nokc       (* rfc7797.serialize_json b64=false signs with a key of the wrong type *)
  | EJose InvalidKeyLengthError | EJose InvalidKeyTypeError | EJose InvalidExchangeKeyError
  | EKey | EJose DecodeError | EJose ConflictAlgorithmError => jwe
  | _ => false
  end.

Definition fin_check {A B} (same : A -> B -> bool) (ur jwe nokc : bool) (model : res (list A)) (impl : res (list B)) : bool :=
  match model, impl with
  | Ok l, Ok l' =>
      (fix go (l : list A) (l' : list B) : bool :=
         match l, l' with
         | [], [] => true
         | a :: r, b :: r' => same a b && go r r'
         | _, _ => false
         end) l l'
  | Ok _, Err e => ur && post_allowed jwe nokc e
  | Err ERuntime, Err e => negb (exn_eqb e (EJose InvalidKeyIdError)) && negb (exn_eqb e EOracleMiss)
  | Err e, Err e' => exn_eqb e e'
  | Err _, Ok _ => false
  end.

Definition c14_check (c : c14case) : bool :=
  match c with
  | CInit ks e => list_eqb ostr_eqb (map k_kid (keyset_init ks)) e
  | CLookup ks kid e => res_eqb N.eqb (match get_by_kid ks kid with Ok k => Ok (k_id k) | Err x => Err x end) e
  | CPick t ks alg idx ec e =>
      match pick_candidates (tbl_of t) ks alg, ec with
      | Ok [], None => true
      | Ok (x :: r), Some c' => list_eqb N.eqb (map k_id (x :: r)) c'
      | Err _, None => true
      | _, _ => false
      end &&
      res_eqb (opt_eqb N.eqb)
        (match pick_random_key (tbl_of t) (ch_idx idx) ks alg with
         | Ok o => Ok (option_map k_id o) | Err x => Err x end) e
  | CGuess t m src g ur idx e =>
      res_eqb2 (fun (a : key * guest) (b : N * option str * guest) =>
                 let '(k, g1) := a in let '(i, kid, g2) := b in
                 N.eqb (k_id k) i && ostr_eqb (k_kid k) kid && guest_same g1 g2)
              (guess_key (tbl_of t) (ch_idx idx) (mk_kf m src) g ur) e
  | CSender t sk g ur idx e =>
      res_eqb2 (fun (a : key * guest) (b : N * guest) =>
                 N.eqb (k_id (fst a)) (fst b) && guest_same (snd a) (snd b))
              (guess_sender_key (tbl_of t) (ch_idx idx) sk g ur) e
  | CJws t ur kc m src ms impl =>
      fin_check (fun (a : key * guest) (b : N * guest) =>
                   N.eqb (k_id (fst a)) (fst b) && guest_same (snd a) (snd b))
                ur false (negb kc) (m_jws t ur kc m src ms) impl
  | CJwe t ur va m src sk rs impl =>
      let same := fun (a : key * option key * guest) (b : N * option N * guest) =>
                   let '(k, s, g1) := a in let '(i, si, g2) := b in
                   N.eqb (k_id k) i && opt_eqb N.eqb (option_map k_id s) si && guest_same g1 g2 in
      match m_jwe t ur m src sk rs with
      | Err e => fin_check same ur true false (Err e) impl
      | Ok sel =>
          let fl := match_flags (map (fun r : key * option key * guest => k_id (fst (fst r))) sel)
                                (map (fun x : guest * nat * nat * N => snd x) rs) in
          let all := forallb (fun b => b) fl in
          match m_jwe_post sel with
          | Err e =>
              fin_check same ur true false (Err e) impl
              || (if ur then match impl with Err e' => post_allowed true false e' | Ok _ => false end
                  else negb all && fin_check same ur true false (Err wrong_key) impl)
          | Ok _ =>
              if ur || all then fin_check same ur true false (Ok sel) impl
              else if va || negb (existsb (fun b => b) fl) then fin_check same ur true false (Err wrong_key) impl
              else fin_check same ur true false (Ok sel) impl || fin_check same ur true false (Err wrong_key) impl
          end
      end
  | CExport ks e =>
      list_eqb2 (fun (a : jwk_entry) (b : option string * option str * N) =>
                  let '(t, kid, i) := b in
                  opt_eqb String.eqb (e_kty a) t && ostr_eqb (e_kid a) kid && N.eqb (e_id a) i)
               (keyset_as_dict ks) e
  | CImport es e =>
      res_eqb (list_eqb triple_eqb)
              (match import_key_set es with
               | Ok ks => Ok (map (fun k => (k_kid k, k_kty k, k_id k)) ks)
               | Err x => Err x end) e
  end.

(* what the model computed, for the failure report *)
Inductive c14out :=
| OKids (l : list (option str))
| OKey (r : res (N * option str))
| OPick (c : res (list N)) (r : res (option N))
| OSel (r : res (list (N * option str * option N * guest)))
| OEntries (l : list (option string * option str * N))
| OKeys (r : res (list (option str * string * N))).

Definition c14_show (c : c14case) : c14out :=
  match c with
  | CInit ks _ => OKids (map k_kid (keyset_init ks))
  | CLookup ks kid _ =>
      OKey (match get_by_kid ks kid with Ok k => Ok (k_id k, k_kid k) | Err x => Err x end)
  | CPick t ks alg idx _ _ =>
      OPick (match pick_candidates (tbl_of t) ks alg with Ok c => Ok (map k_id c) | Err x => Err x end)
            (match pick_random_key (tbl_of t) (ch_idx idx) ks alg with
             | Ok o => Ok (option_map k_id o) | Err x => Err x end)
  | CGuess t m src g ur idx _ =>
      OSel (match guess_key (tbl_of t) (ch_idx idx) (mk_kf m src) g ur with
            | Ok (k, g1) => Ok [(k_id k, k_kid k, None, g1)] | Err x => Err x end)
  | CSender t sk g ur idx _ =>
      OSel (match guess_sender_key (tbl_of t) (ch_idx idx) sk g ur with
            | Ok (k, g1) => Ok [(k_id k, k_kid k, None, g1)] | Err x => Err x end)
  | CJws t ur kc m src ms _ =>
      OSel (match m_jws t ur kc m src ms with
            | Ok l => Ok (map (fun a : key * guest => (k_id (fst a), k_kid (fst a), None, snd a)) l)
            | Err x => Err x end)
  | CJwe t ur va m src sk rs _ =>
      OSel (match (do sel <- m_jwe t ur m src sk rs; do _ <- m_jwe_post sel; Ok sel) with
            | Ok l => Ok (map (fun a : key * option key * guest =>
                                 let '(k, s, g1) := a in (k_id k, k_kid k, option_map k_id s, g1)) l)
            | Err x => Err x end)
  | CExport ks _ => OEntries (map (fun a => (e_kty a, e_kid a, e_id a)) (keyset_as_dict ks))
  | CImport es _ =>
      OKeys (match import_key_set es with
             | Ok ks => Ok (map (fun k => (k_kid k, k_kty k, k_id k)) ks)
             | Err x => Err x end)
  end.
