(* C14Spec.v — Spec side of C14, written from the property text (independent of
   the Impl functions of C14KeySet.v, except for the data types). *)
From Model Require Import Base PyVal TableTypes C14KeySet.
Open Scope N_scope.

(* "the key whose kid equals the token's kid": k is the first key of ks whose
   kid, as a Python value, is the header value *)
Definition first_with (ks : list key) (kid : pv) (k : key) : Prop :=
  exists pre post, ks = pre ++ k :: post /\ kid_pv k = kid /\
                   Forall (fun k' => kid_pv k' <> kid) pre.

(* python dicts have unique keys *)
Definition hdr_wf (o : option hdr) : Prop := keys_unique (dkeys (tr o)) = true.
Definition guest_wf (g : guest) : Prop := hdr_wf (g_prot g) /\ hdr_wf (g_unprot g) /\ hdr_wf (g_hdr g).

(* contract of random.choice: an element of the (non-empty) argument *)
Definition chooser_ok (ch : chooser) : Prop := forall x r, In (ch x r) (x :: r).

Definition orelse {A} (a b : option A) : option A := match a with Some _ => a | None => b end.

(* the effective ("merged") header member of each serialization: the
   unprotected / per-recipient position overrides the protected one *)
Definition merged_get (g : guest) (k : str) : option pv :=
  match g_kind g with
  | GJwsCompact | GJweCompact => dget (tr (g_prot g)) k
  | GJwsMember => orelse (dget (tr (g_hdr g)) k) (dget (tr (g_prot g)) k)
  | GJweJson => orelse (dget (tr (g_hdr g)) k)
                       (orelse (dget (tr (g_unprot g)) k) (dget (tr (g_prot g)) k))
  end.

(* where the producing side records a header member: the protected header of
   the compact serializations, the unprotected (JWS) / per-recipient (JWE)
   header of the JSON serializations *)
Definition written_at (g : guest) (k : str) (v : pv) : Prop :=
  match g_kind g with
  | GJwsCompact | GJweCompact => dget (tr (g_prot g)) k = Some v
  | GJwsMember | GJweJson => dget (tr (g_hdr g)) k = Some v
  end.

(* key types the algorithms require (property text / RFC 7518, 8037, 8812,
   draft ECDH-1PU): HS*, dir, A*KW, A*GCMKW, PBES2* -> oct; RS*, PS*, RSA* -> RSA;
   ES* -> EC; EdDSA -> OKP; ECDH* -> EC or OKP.  "none" carries the default
   key type of an algorithm model (oct). *)
Definition is_suffix (s t : string) : bool :=
  let ls := String.length s in let lt := String.length t in
  Nat.leb ls lt && String.eqb (String.substring (lt - ls) ls t) s.

Definition expected_key_types (a : string) : option (list string) :=
  if String.eqb a "none" then Some ["oct"%string]
  else if String.prefix "HS" a || String.eqb a "dir" || String.prefix "PBES2-" a
          || (String.prefix "A" a && is_suffix "KW" a) then Some ["oct"%string]
  else if String.prefix "RS" a || String.prefix "PS" a then Some ["RSA"%string]
  else if String.prefix "ES" a then Some ["EC"%string]
  else if String.eqb a "EdDSA" then Some ["OKP"%string]
  else if String.prefix "ECDH-" a then Some ["EC"%string; "OKP"%string]
  else None.
