(* C13Sha256.v — FIPS 180-4 SHA-256 on octet lists.  NOT part of the Impl
   model (hashing is a Section variable there): it instantiates that variable
   in the Examples of props/C13.v, so that the Spec reproduces the thumbprints
   printed in RFC 7638 3.1 and RFC 8037 A.3 inside Coq.  The function itself
   is validated against hashlib in the correspondence run (case CSha). *)
From Model Require Import Base.
Open Scope N_scope.

Definition w32 : N := 4294967296.
Definition mask32 : N := 4294967295.
Definition add32 (a b : N) : N := N.land (a + b) mask32.
Definition rotr (n x : N) : N := N.lor (N.shiftr x n) (N.land (N.shiftl x (32 - n)) mask32).
Definition not32 (x : N) : N := mask32 - x.
Definition ch (x y z : N) : N := N.lxor (N.land x y) (N.land (not32 x) z).
Definition maj (x y z : N) : N := N.lxor (N.lxor (N.land x y) (N.land x z)) (N.land y z).
Definition bsig0 (x : N) : N := N.lxor (N.lxor (rotr 2 x) (rotr 13 x)) (rotr 22 x).
Definition bsig1 (x : N) : N := N.lxor (N.lxor (rotr 6 x) (rotr 11 x)) (rotr 25 x).
Definition ssig0 (x : N) : N := N.lxor (N.lxor (rotr 7 x) (rotr 18 x)) (N.shiftr x 3).
Definition ssig1 (x : N) : N := N.lxor (N.lxor (rotr 17 x) (rotr 19 x)) (N.shiftr x 10).

Definition sha_K : list N := [
  0x428a2f98; 0x71374491; 0xb5c0fbcf; 0xe9b5dba5; 0x3956c25b; 0x59f111f1; 0x923f82a4; 0xab1c5ed5;
  0xd807aa98; 0x12835b01; 0x243185be; 0x550c7dc3; 0x72be5d74; 0x80deb1fe; 0x9bdc06a7; 0xc19bf174;
  0xe49b69c1; 0xefbe4786; 0x0fc19dc6; 0x240ca1cc; 0x2de92c6f; 0x4a7484aa; 0x5cb0a9dc; 0x76f988da;
  0x983e5152; 0xa831c66d; 0xb00327c8; 0xbf597fc7; 0xc6e00bf3; 0xd5a79147; 0x06ca6351; 0x14292967;
  0x27b70a85; 0x2e1b2138; 0x4d2c6dfc; 0x53380d13; 0x650a7354; 0x766a0abb; 0x81c2c92e; 0x92722c85;
  0xa2bfe8a1; 0xa81a664b; 0xc24b8b70; 0xc76c51a3; 0xd192e819; 0xd6990624; 0xf40e3585; 0x106aa070;
  0x19a4c116; 0x1e376c08; 0x2748774c; 0x34b0bcb5; 0x391c0cb3; 0x4ed8aa4a; 0x5b9cca4f; 0x682e6ff3;
  0x748f82ee; 0x78a5636f; 0x84c87814; 0x8cc70208; 0x90befffa; 0xa4506ceb; 0xbef9a3f7; 0xc67178f2].

Definition sha_H0 : list N :=
  [0x6a09e667; 0xbb67ae85; 0x3c6ef372; 0xa54ff53a; 0x510e527f; 0x9b05688c; 0x1f83d9ab; 0x5be0cd19].

(* big-endian words of a block *)
Fixpoint words (l : list N) : list N :=
  match l with
  | a :: b :: c :: d :: r => (((a * 256 + b) * 256 + c) * 256 + d) :: words r
  | _ => []
  end.

(* message schedule, most recent word first *)
Fixpoint schedule (fuel : nat) (rw : list N) : list N :=
  match fuel with
  | O => rw
  | S f =>
      let w := add32 (add32 (ssig1 (nth 1 rw 0)) (nth 6 rw 0)) (add32 (ssig0 (nth 14 rw 0)) (nth 15 rw 0)) in
      schedule f (w :: rw)
  end.

Definition round (st : list N) (kw : N * N) : list N :=
  match st with
  | [a; b; c; d; e; f; g; h] =>
      let t1 := add32 (add32 (add32 h (bsig1 e)) (add32 (ch e f g) (fst kw))) (snd kw) in
      let t2 := add32 (bsig0 a) (maj a b c) in
      [add32 t1 t2; a; b; c; add32 d t1; e; f; g]
  | _ => st
  end.

Definition compress (st : list N) (block : list N) : list N :=
  let w := rev (schedule 48 (rev (words block))) in
  let st' := fold_left round (combine sha_K w) st in
  map (fun p => add32 (fst p) (snd p)) (combine st st').

Definition be_bytes (k : nat) (n : N) : list N :=
  (fix go (k : nat) (n : N) (acc : list N) : list N :=
     match k with O => acc | S k' => go k' (n / 256) (n mod 256 :: acc) end) k n [].

Definition sha_pad (msg : list N) : list N :=
  let len := length msg in
  let z := Nat.modulo (119 - Nat.modulo len 64) 64 in
  msg ++ [128] ++ repeat 0 z ++ be_bytes 8 (8 * N.of_nat len).

Fixpoint blocks (fuel : nat) (l : list N) (st : list N) : list N :=
  match fuel with
  | O => st
  | S f => match l with
           | [] => st
           | _ => blocks f (skipn 64 l) (compress st (firstn 64 l))
           end
  end.

Definition sha256 (msg : list N) : list N :=
  let p := sha_pad msg in
  flat_map (be_bytes 4) (blocks (S (Nat.div (length p) 64)) p sha_H0).

Example sha256_abc :
  sha256 [97; 98; 99] = hex "ba7816bf8f01cfea414140de5dae2223b00361a396177a9cb410ff61f20015ad".
Proof. vm_compute. reflexivity. Qed.
Example sha256_empty :
  sha256 [] = hex "e3b0c44298fc1c149afbf4c8996fb92427ae41e4649b934ca495991b7852b855".
Proof. vm_compute. reflexivity. Qed.
