(* C09Spec.v — independent characterisations used by the C09 theorems,
   written from the property text / the proleptic Gregorian calendar, not from
   the code: calendar successor functions, the NumericDate of a datetime as
   exact microseconds, the typ-defaulted header and the converted claims. *)
From Model Require Import Base PyVal C09Jwt.
Open Scope Z_scope.

(* Gregorian leap rule: every 4th year, except centuries not divisible by 400 *)
Definition leap_spec (y : Z) : bool :=
  if y mod 400 =? 0 then true else if y mod 100 =? 0 then false else y mod 4 =? 0.

Definition days_in_month (y m : Z) : Z :=
  if m =? 2 then (if leap_spec y then 29 else 28)
  else if (m =? 4) || (m =? 6) || (m =? 9) || (m =? 11) then 30 else 31.

Definition valid_date (y m d : Z) : Prop := 1 <= m <= 12 /\ 1 <= d <= days_in_month y m.

(* the day after (y, m, d) *)
Definition next_day (y m d : Z) : Z * Z * Z :=
  if d <? days_in_month y m then (y, m, d + 1)
  else if m <? 12 then (y, m + 1, 1) else (y + 1, 1, 1).

Definition dt_valid (t : dtime) : Prop :=
  valid_date (dt_y t) (dt_mo t) (dt_d t) /\
  0 <= dt_h t < 24 /\ 0 <= dt_mi t < 60 /\ 0 <= dt_s t < 60 /\ 0 <= dt_us t < 1000000.

(* the wall-clock reading one second later (same microsecond, same offset) *)
Definition dt_next_second (t : dtime) : dtime :=
  let '(mkdt y mo d h mi s us off) := t in
  if s <? 59 then mkdt y mo d h mi (s + 1) us off
  else if mi <? 59 then mkdt y mo d h (mi + 1) 0 us off
  else if h <? 23 then mkdt y mo d (h + 1) 0 0 us off
  else let '(y', mo', d') := next_day y mo d in mkdt y' mo' d' 0 0 0 us off.

Fixpoint dt_plus (n : nat) (t : dtime) : dtime :=
  match n with O => t | S k => dt_next_second (dt_plus k t) end.

Definition dt_with_off (t : dtime) (o : option Z) : dtime :=
  mkdt (dt_y t) (dt_mo t) (dt_d t) (dt_h t) (dt_mi t) (dt_s t) (dt_us t) o.

(* the same instant read on a clock that is n seconds further east *)
Definition dt_east (n : nat) (t : dtime) : dtime :=
  match dt_off t with
  | Some o => dt_with_off (dt_plus n t) (Some (o + Z.of_nat n))
  | None => t
  end.

(* exact position on the UTC time line in microseconds since 1970-01-01T00:00:00Z,
   given a function [secs] counting wall-clock seconds since 1970-01-01T00:00:00 *)
Definition exact_us (secs : dtime -> Z) (t : dtime) : Z :=
  (secs t - match dt_off t with Some o => o | None => 0 end) * 1000000 + dt_us t.

(* ---------- header ---------- *)
Definition lit_typ : str := asc "typ".
Definition lit_JWT : pv := PStr (asc "JWT").
(* {"typ": "JWT"} overridden by the caller's members: typ first, then the
   caller's other members in their order *)
Definition spec_header (h : hdr) : hdr :=
  (lit_typ, match dget h lit_typ with Some v => v | None => lit_JWT end) :: ddel h lit_typ.

(* ---------- claims ---------- *)
Definition lit_nd_keys : list str := [asc "exp"; asc "nbf"; asc "iat"].

(* a claims dict is encodable as a JSON object: distinct names, JSON values;
   strings are sequences of Unicode scalar values *)
Definition scalar_ok (c : N) : bool := ((c <? 55296) || ((57343 <? c) && (c <? 1114112)))%N.
Definition str_ok (s : str) : bool := forallb scalar_ok s.
Fixpoint json_str_ok (v : pv) : bool :=
  match v with
  | PStr s => str_ok s
  | PList l => (fix go (l : list pv) : bool :=
                  match l with [] => true | x :: r => json_str_ok x && go r end) l
  | PDict d => (fix go (d : list (str * pv)) : bool :=
                  match d with [] => true | (k, x) :: r => str_ok k && json_str_ok x && go r end) d
  | _ => true
  end.
Definition json_ok (v : pv) : bool := json_wf v && json_str_ok v.

Definition cval_ok (x : cval) : bool := match x with CV v => json_ok v | CDt _ => true | CObj _ => false end.
Definition claims_ok (c : claims) : bool :=
  keys_unique (dkeys c) && forallb (fun kv => str_ok (fst kv) && cval_ok (snd kv)) c.

(* what the decoded claims must be, member by member *)
Definition spec_claim (ks : list str) (k : str) (x : cval) : option pv :=
  match x with
  | CV v => Some v
  | CDt t => if str_mem k ks
             then match numericdate t with Ok n => Some (PInt n) | Err _ => None end
             else None
  | CObj _ => None
  end.
