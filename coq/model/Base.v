(* Base.v — common vocabulary of the Impl model of joserfc.
   Octets and code points are [N]; octet strings are [list N] with the
   boolean well-formedness predicate [bytes_ok].  Results are [res]. *)
From Coq Require Export String Ascii List ZArith NArith Bool Lia.
Export ListNotations.
Open Scope N_scope.

Definition bytes := list N.
Definition bytes_ok (l : bytes) : bool := forallb (fun b => b <? 256) l.

(* ---------- exceptions ---------- *)
(* joserfc.errors classes (checked against the module by proofs/TablesOk.v) *)
Inductive jcls :=
| DecodeError | UnsupportedKeyUseError | UnsupportedKeyAlgorithmError
| UnsupportedKeyOperationError | InvalidKeyLengthError | MissingKeyTypeError
| InvalidKeyTypeError | InvalidKeyIdError | InvalidExchangeKeyError
| InvalidEncryptedKeyError | MissingAlgorithmError | ConflictAlgorithmError
| UnsupportedAlgorithmError | MissingEncryptionError | BadSignatureError
| ExceededSizeError | InvalidEncryptionAlgorithmError | InvalidCEKLengthError
| InvalidClaimError | MissingClaimError | InsecureClaimError
| ExpiredTokenError | InvalidTokenError | InvalidPayloadError.

(* EValue stands for ValueError and all its subclasses (binascii.Error,
   JSONDecodeError, UnicodeError, pyca ValueErrors). *)
Inductive exn :=
| EJose (c : jcls) | EValue | EType | EKey | EAttr | EIndex | EAssert
| EOverflow | EZlib | ERuntime | EOracleMiss.

Inductive res (A : Type) := Ok (a : A) | Err (e : exn).
Arguments Ok {A} a.
Arguments Err {A} e.

Definition bind {A B} (m : res A) (f : A -> res B) : res B :=
  match m with Ok a => f a | Err e => Err e end.
Notation "'do' x <- m ; f" := (bind m (fun x => f))
  (at level 200, x name, m at level 100, f at level 200).
Notation "'do' ' p <- m ; f" := (bind m (fun x => let p := x in f))
  (at level 200, p pattern, m at level 100, f at level 200).

Definition allowed_exn (e : exn) : bool :=
  match e with EJose _ | EValue => true | _ => false end.

Definition jcls_eqb (a b : jcls) : bool :=
  match a, b with
  | DecodeError, DecodeError | UnsupportedKeyUseError, UnsupportedKeyUseError
  | UnsupportedKeyAlgorithmError, UnsupportedKeyAlgorithmError
  | UnsupportedKeyOperationError, UnsupportedKeyOperationError
  | InvalidKeyLengthError, InvalidKeyLengthError
  | MissingKeyTypeError, MissingKeyTypeError
  | InvalidKeyTypeError, InvalidKeyTypeError
  | InvalidKeyIdError, InvalidKeyIdError
  | InvalidExchangeKeyError, InvalidExchangeKeyError
  | InvalidEncryptedKeyError, InvalidEncryptedKeyError
  | MissingAlgorithmError, MissingAlgorithmError
  | ConflictAlgorithmError, ConflictAlgorithmError
  | UnsupportedAlgorithmError, UnsupportedAlgorithmError
  | MissingEncryptionError, MissingEncryptionError
  | BadSignatureError, BadSignatureError
  | ExceededSizeError, ExceededSizeError
  | InvalidEncryptionAlgorithmError, InvalidEncryptionAlgorithmError
  | InvalidCEKLengthError, InvalidCEKLengthError
  | InvalidClaimError, InvalidClaimError
  | MissingClaimError, MissingClaimError
  | InsecureClaimError, InsecureClaimError
  | ExpiredTokenError, ExpiredTokenError
  | InvalidTokenError, InvalidTokenError
  | InvalidPayloadError, InvalidPayloadError => true
  | _, _ => false
  end.

Definition exn_eqb (a b : exn) : bool :=
  match a, b with
  | EJose x, EJose y => jcls_eqb x y
  | EValue, EValue | EType, EType | EKey, EKey | EAttr, EAttr
  | EIndex, EIndex | EAssert, EAssert | EOverflow, EOverflow
  | EZlib, EZlib | ERuntime, ERuntime | EOracleMiss, EOracleMiss => true
  | _, _ => false
  end.

(* ---------- list / octet helpers ---------- *)
Fixpoint list_eqb {A} (eqb : A -> A -> bool) (a b : list A) : bool :=
  match a, b with
  | [], [] => true
  | x :: a', y :: b' => eqb x y && list_eqb eqb a' b'
  | _, _ => false
  end.

Definition beqb (a b : bytes) : bool := list_eqb N.eqb a b.

Lemma list_eqb_eq {A} (eqb : A -> A -> bool)
      (H : forall x y, eqb x y = true <-> x = y) :
  forall a b, list_eqb eqb a b = true <-> a = b.
Proof.
  induction a as [|x a IH]; destruct b as [|y b]; simpl; split; intro E;
    try reflexivity; try discriminate.
  - apply andb_true_iff in E. destruct E as [E1 E2].
    apply H in E1. apply IH in E2. congruence.
  - inversion E; subst. apply andb_true_iff. split; [apply H | apply IH]; reflexivity.
Qed.

Lemma beqb_eq a b : beqb a b = true <-> a = b.
Proof. apply list_eqb_eq. intros; apply N.eqb_eq. Qed.

Definition res_eqb {A} (eqb : A -> A -> bool) (a b : res A) : bool :=
  match a, b with
  | Ok x, Ok y => eqb x y
  | Err e, Err f => exn_eqb e f
  | _, _ => false
  end.

Definition lenN {A} (l : list A) : N := N.of_nat (length l).

(* ---------- literals used by generated case files ---------- *)
Definition hexval (c : ascii) : N :=
  let n := N_of_ascii c in
  if (48 <=? n) && (n <=? 57) then n - 48
  else if (97 <=? n) && (n <=? 102) then n - 87
  else if (65 <=? n) && (n <=? 70) then n - 55
  else 0.

(* "48656c" -> [72;101;108] *)
Fixpoint hex (s : string) : bytes :=
  match s with
  | String a (String b r) => (16 * hexval a + hexval b) :: hex r
  | _ => []
  end.

(* code-point strings: 6 hex digits per code point *)
Fixpoint hex6 (s : string) : list N :=
  match s with
  | String a (String b (String c (String d (String e (String f r))))) =>
      (1048576 * hexval a + 65536 * hexval b + 4096 * hexval c
       + 256 * hexval d + 16 * hexval e + hexval f) :: hex6 r
  | _ => []
  end.

(* big integers in generated case files: sign + big-endian hex magnitude
   (decimal literals of thousands of digits are slow to parse) *)
Definition zhex (neg : bool) (s : string) : Z :=
  let m := Z.of_N (fold_left (fun acc b => acc * 256 + b) (hex s) 0) in
  if neg then (- m)%Z else m.

(* ASCII literal *)
Fixpoint asc (s : string) : list N :=
  match s with
  | EmptyString => []
  | String a r => N_of_ascii a :: asc r
  end.

(* indices of the cases on which a boolean check fails *)
Fixpoint failing_from {A} (i : nat) (f : A -> bool) (l : list A) : list nat :=
  match l with
  | [] => []
  | x :: r => if f x then failing_from (S i) f r else i :: failing_from (S i) f r
  end.
Definition failing {A} (f : A -> bool) (l : list A) : list nat := failing_from 0%nat f l.
