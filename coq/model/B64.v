(* B64.v — joserfc.util.urlsafe_b64encode / urlsafe_b64decode.
   The encoder is base64.urlsafe_b64encode(s).rstrip(b"="); the decoder is
   joserfc's wrapper ('+' / '/' pre-check, padding restored from the length,
   "-_" translation) around a transcription of CPython 3.12
   binascii.a2b_base64(strict_mode=True) as a state machine. *)
From Model Require Export Base.
Open Scope N_scope.

(* sextet -> URL-safe alphabet character *)
Definition enc_char (v : N) : N :=
  if v <? 26 then v + 65          (* A-Z *)
  else if v <? 52 then v + 71     (* a-z : 97 - 26 *)
  else if v <? 62 then v - 4      (* 0-9 : 48 - 52 *)
  else if v =? 62 then 45         (* - *)
  else 95.                        (* _ *)

(* URL-safe alphabet character -> sextet (None: not in the alphabet) *)
Definition dec_char (c : N) : option N :=
  if (65 <=? c) && (c <=? 90) then Some (c - 65)
  else if (97 <=? c) && (c <=? 122) then Some (c - 71)
  else if (48 <=? c) && (c <=? 57) then Some (c + 4)
  else if c =? 45 then Some 62
  else if c =? 95 then Some 63
  else None.

Definition in_alphabet (c : N) : bool :=
  match dec_char c with Some _ => true | None => false end.

(* ---- encoder ---- *)
Fixpoint b64e (l : bytes) : list N :=
  match l with
  | [] => []
  | [a] => [enc_char (a / 4); enc_char ((a mod 4) * 16)]
  | [a; b] => [enc_char (a / 4); enc_char ((a mod 4) * 16 + b / 16);
               enc_char ((b mod 16) * 4)]
  | a :: b :: c :: r =>
      enc_char (a / 4) :: enc_char ((a mod 4) * 16 + b / 16)
      :: enc_char ((b mod 16) * 4 + c / 64) :: enc_char (c mod 64) :: b64e r
  end.

(* ---- binascii.a2b_base64(strict_mode=True) on the translated input ----
   [qp] quad position, [left] leftchar, [pads], [pstart] padding_started,
   [acc] output in reverse.  '=' is 61. The standard-alphabet table lookup
   after translate(b"-_" -> b"+/") is [dec_char] on the untranslated
   character, except that a literal '+' or '/' would also be data: the
   wrapper refuses those before calling (see [b64d]). *)
Fixpoint a2b_loop (l : list N) (qp : nat) (left : N) (pads : nat)
         (pstart : bool) (acc : list N) : res bytes :=
  match l with
  | [] => match qp with O => Ok (rev acc) | _ => Err EValue end
  | c :: rest =>
      if c =? 61 then
        if (Nat.leb 2 qp) && (Nat.leb 4 (qp + S pads)) then
          match rest with
          | [] => Ok (rev acc)
          | _ => Err EValue                 (* Excess data after padding *)
          end
        else a2b_loop rest qp left (if Nat.leb 2 qp then S pads else pads) true acc
      else
        match dec_char c with
        | None => Err EValue                 (* Only base64 data is allowed *)
        | Some v =>
            if pstart then Err EValue        (* Discontinuous padding *)
            else
              match qp with
              | 0%nat => a2b_loop rest 1 v 0 false acc
              | 1%nat => a2b_loop rest 2 (v mod 16) 0 false ((left * 4 + v / 16) :: acc)
              | 2%nat => a2b_loop rest 3 (v mod 4) 0 false ((left * 16 + v / 4) :: acc)
              | _ => a2b_loop rest 0 0 0 false ((left * 64 + v) :: acc)
              end
        end
  end.

Definition a2b_strict (l : list N) : res bytes :=
  match l with
  | 61 :: _ => Err EValue                    (* Leading padding not allowed *)
  | _ => a2b_loop l 0 0 0 false []
  end.

(* -len(s) % 4 *)
Definition pad_count (n : nat) : nat :=
  match Nat.modulo n 4 with
  | 0%nat => 0 | 1%nat => 3 | 2%nat => 2 | _ => 1
  end.

(* urlsafe_b64decode: input is a bytes object (elements < 256) *)
Definition b64d (s : list N) : res bytes :=
  if existsb (fun c => (c =? 43) || (c =? 47)) s then Err EValue
  else a2b_strict (s ++ repeat 61 (pad_count (length s))).

(* canonical encodings: what b64e produces *)
Definition canonical (s : list N) : bool :=
  match b64d s with
  | Ok x => list_eqb N.eqb s (b64e x)
  | Err _ => false
  end.
