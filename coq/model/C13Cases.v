(* C13Cases.v — executable comparison of the thumbprint model with recorded
   behaviour of joserfc (correspondence check).  hashlib is instantiated by
   the table of (name, data) -> digest calls the implementation really made
   while producing the recorded result. *)
From Model Require Import Base PyVal B64 IntCodec TableTypes C13Json C13Thumb C13Sha256.
Open Scope N_scope.

Definition oracle := list (str * bytes * res bytes).

Fixpoint oracle_hash (o : oracle) (name : str) (x : bytes) : res bytes :=
  match o with
  | [] => Err EOracleMiss
  | (n, d, r) :: rest => if str_eqb n name && beqb d x then r else oracle_hash rest name x
  end.

(* structural equality of values (dict order matters: Python dicts are ordered
   and the operations modelled here fix the order) *)
Definition flt_eqb (a b : flt) : bool :=
  match a, b with
  | FFin n d, FFin m e => Z.eqb n m && Pos.eqb d e
  | FInf x, FInf y => Bool.eqb x y
  | _, _ => false
  end.

Fixpoint pv_eqb (a b : pv) {struct a} : bool :=
  match a, b with
  | PNone, PNone => true
  | PBool x, PBool y => Bool.eqb x y
  | PInt x, PInt y => Z.eqb x y
  | PFloat x, PFloat y => flt_eqb x y
  | PStr s, PStr t => str_eqb s t
  | PBytes s, PBytes t => beqb s t
  | PList l, PList m =>
      (fix go (l m : list pv) {struct l} : bool :=
         match l, m with
         | [], [] => true
         | x :: l', y :: m' => pv_eqb x y && go l' m'
         | _, _ => false
         end) l m
  | PDict d, PDict e =>
      (fix go (d e : list (str * pv)) {struct d} : bool :=
         match d, e with
         | [], [] => true
         | (k, x) :: d', (k2, y) :: e' => str_eqb k k2 && pv_eqb x y && go d' e'
         | _, _ => false
         end) d e
  | _, _ => false
  end.

Definition dict_eqb (d e : dict) : bool := pv_eqb (PDict d) (PDict e).

Definition cls_of (i : N) : kcls := nth (N.to_nat i) key_classes OctCls.
Definition mk_key (t : N * bool * dict) : kobj :=
  let '(i, p, d) := t in {| ko_cls := cls_of i; ko_priv := p; ko_dict := d |}.

Inductive c13case :=
| CJson (v : pv) (expect : res (list N))
| CThumb (o : oracle) (d : dict) (fields : list str) (dg : str) (expect : res str)
| CKeyThumb (o : oracle) (cls : N) (d : dict) (expect : res str)
| CEnsureKid (o : oracle) (cls : N) (d : dict) (expect : res dict)
| CAsDict (cls : N) (priv : bool) (d : dict) (private : option bool) (params : dict) (expect : res dict)
| CMkDict (cls : N) (orig : dict) (params : option dict) (expect : dict)
| CExport (nk : native) (expect : res dict)
| CKeySet (o : oracle) (ks : list (N * bool * dict)) (private : option bool) (params : dict)
          (expect : res (list dict * list dict))
| CSpec (kty : string) (K : dict) (canon : list N)
| CSha (x : bytes) (expect : bytes)         (* the SHA-256 used in the Examples of props/C13.v *)
(* a key built through a SUBCLASS that selects digest dg (generate_key / import_key / constructor /
   registry with the subclass): its thumbprint is the model's for the class's fields and dg *)
| CSubKey (o : oracle) (cls : N) (d : dict) (dg : str) (expect : res str)
(* <Class>.generate_key(.., parameters, private, auto_kid) seen from the native key it produced:
   the resulting dict_value (a kid given in parameters is kept, else auto_kid assigns the thumbprint) *)
| CGenerate (o : oracle) (nk : native) (params : option dict) (auto_kid : bool) (expect : res dict).

Definition keyset_run (o : oracle) (ks : list (N * bool * dict)) (private : option bool) (params : dict)
  : res (list dict * list dict) :=
  do ks1 <- keyset_init (oracle_hash o) (map mk_key ks);
  do '(es, ks2) <- keyset_as_dict (oracle_hash o) ks1 private params;
  Ok (es, map ko_dict ks2).

Definition ensure_kid_run (o : oracle) (cls : N) (d : dict) : res dict :=
  do k <- ensure_kid (oracle_hash o) {| ko_cls := cls_of cls; ko_priv := true; ko_dict := d |};
  Ok (ko_dict k).

Definition spec_run (kty : string) (K : dict) : option (list N) :=
  match rfc7638_required kty with
  | Some names => Some (rfc7638_canonical (restrict K names))
  | None => None
  end.

Definition dicts_eqb (a b : list dict) : bool := list_eqb dict_eqb a b.

Definition c13_check (c : c13case) : bool :=
  match c with
  | CJson v e => res_eqb beqb (jdumps v) e
  | CThumb o d f dg e => res_eqb beqb (thumbprint (oracle_hash o) d f dg) e
  | CKeyThumb o cls d e => res_eqb beqb (key_thumbprint (oracle_hash o) (cls_of cls) d) e
  | CEnsureKid o cls d e => res_eqb dict_eqb (ensure_kid_run o cls d) e
  | CAsDict cls p d private params e =>
      res_eqb dict_eqb (as_dict {| ko_cls := cls_of cls; ko_priv := p; ko_dict := d |} private params) e
  | CMkDict cls orig params e => dict_eqb (mk_dict (cls_of cls) orig params) e
  | CExport nk e => res_eqb dict_eqb (export_native nk) e
  | CKeySet o ks private params e =>
      res_eqb (fun a b => dicts_eqb (fst a) (fst b) && dicts_eqb (snd a) (snd b))
              (keyset_run o ks private params) e
  | CSpec kty K canon =>
      match spec_run kty K with Some s => beqb s canon | None => false end
  | CSha x e => beqb (sha256 x) e
  | CSubKey o cls d dg e => res_eqb beqb (thumbprint (oracle_hash o) d (key_fields (cls_of cls)) dg) e
  | CGenerate o nk params auto e =>
      res_eqb dict_eqb (do k <- generate (oracle_hash o) nk params auto; Ok (ko_dict k)) e
  end.

(* what the model computed, for the failing cases only: a short prefix of its
   JSON rendering (printing whole key dictionaries is slow and the evaluator
   reads the output through a pipe) *)
Definition c13out := res (list N).
Definition clip (l : list N) : list N := firstn 48 l.
Definition show_dict (r : res dict) : c13out :=
  match r with
  | Ok d => match jdumps (PDict d) with Ok s => Ok (clip s) | Err e => Err e end
  | Err e => Err e
  end.
Definition show_str (r : res (list N)) : c13out :=
  match r with Ok s => Ok (clip s) | Err e => Err e end.

Definition c13_show (c : c13case) : c13out :=
  match c with
  | CJson v _ => show_str (jdumps v)
  | CThumb o d f dg _ => show_str (thumbprint (oracle_hash o) d f dg)
  | CKeyThumb o cls d _ => show_str (key_thumbprint (oracle_hash o) (cls_of cls) d)
  | CEnsureKid o cls d _ => show_dict (ensure_kid_run o cls d)
  | CAsDict cls p d private params _ =>
      show_dict (as_dict {| ko_cls := cls_of cls; ko_priv := p; ko_dict := d |} private params)
  | CMkDict cls orig params _ => show_dict (Ok (mk_dict (cls_of cls) orig params))
  | CExport nk _ => show_dict (export_native nk)
  | CKeySet o ks private params _ =>
      match keyset_run o ks private params with
      | Ok (es, _) => show_dict (Ok (map (fun e => ([], PDict e)) es))
      | Err e => Err e
      end
  | CSpec kty K _ => match spec_run kty K with Some s => Ok (clip s) | None => Err EOracleMiss end
  | CSha x _ => Ok (clip (sha256 x))
  | CSubKey o cls d dg _ => show_str (thumbprint (oracle_hash o) d (key_fields (cls_of cls)) dg)
  | CGenerate o nk params auto _ => show_dict (do k <- generate (oracle_hash o) nk params auto; Ok (ko_dict k))
  end.
