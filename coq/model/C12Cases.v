(* C12Cases.v — executable comparison of the export model (C12Keys.v) with
   behaviour recorded from joserfc (correspondence check of property C12). *)
From Model Require Import Base PyVal TableTypes C12Keys.
From Gen Require Import Tables.
Open Scope N_scope.

(* structural, order-sensitive equality of Python values (dict order is the
   insertion order, which CPython fixes; True <> 1 here, unlike py_eq) *)
Definition flt_eqb (f g : flt) : bool :=
  match f, g with
  | FFin n d, FFin m e => (n =? m)%Z && (d =? e)%positive
  | FInf a, FInf b => Bool.eqb a b
  | FNan, FNan => true
  | _, _ => false
  end.

Fixpoint pv_eqb (a b : pv) {struct a} : bool :=
  match a, b with
  | PNone, PNone => true
  | PBool x, PBool y => Bool.eqb x y
  | PInt x, PInt y => (x =? y)%Z
  | PFloat f, PFloat g => flt_eqb f g
  | PStr s, PStr t => str_eqb s t
  | PBytes s, PBytes t => beqb s t
  | PList l, PList m =>
      (fix go (l m : list pv) {struct l} : bool :=
         match l, m with
         | [], [] => true
         | x :: l', y :: m' => pv_eqb x y && go l' m'
         | _, _ => false
         end) l m
  | PDict d, PDict e =>
      (fix go (d e : list (str * pv)) {struct d} : bool :=
         match d, e with
         | [], [] => true
         | (k, x) :: d', (k', y) :: e' => str_eqb k k' && pv_eqb x y && go d' e'
         | _, _ => false
         end) d e
  | _, _ => false
  end.

Definition kd_eqb (a b : kd) : bool := pv_eqb (PDict a) (PDict b).

(* the digest of a case: a finite table recorded from the implementation
   (members handed to json.dumps |-> thumbprint string) *)
Fixpoint table_H (t : list (kd * str)) (i : kd) : str :=
  match t with
  | [] => asc "?missing-thumbprint?"
  | (j, s) :: r => if kd_eqb j i then s else table_H r i
  end.

Definition mk_key (x : kind * bool * kd) : key :=
  let '(k, p, d) := x in {| k_kind := k; k_raw_private := p; k_dict := d |}.

(* which native export as_bytes performs *)
Inductive export := XPrivate | XPublic.
Definition export_eqb (a b : export) : bool :=
  match a, b with XPrivate, XPrivate | XPublic, XPublic => true | _, _ => false end.

(* as_bytes instantiated on a one-point native key: only the dispatch is observed *)
Definition as_bytes_kind (raw_private : bool) (enc : encoding) (private : pv) (pw : bool) : res export :=
  match as_bytes unit unit (fun _ => tt) (fun _ _ _ => [1]) (fun _ _ => [0])
                 (if raw_private then RawPriv tt else RawPub tt) enc private
                 (if pw then Some [112; 119] else None) with
  | Ok [1] => Ok XPrivate
  | Ok _ => Ok XPublic
  | Err e => Err e
  end.

(* key generation entry points: <Class>.generate_key, JWKRegistry.generate_key (known /
   unknown key type), KeySet.generate_key_set(count) *)
Inductive gen_entry := GClass | GRegistry | GRegistryUnknown | GKeySet (count : nat).

Definition gen_is_private (en : gen_entry) (k : kind) (private : pv) : res (list bool) :=
  let one (r : res (gkey unit unit)) :=
    do g <- r; Ok [g_is_private unit unit g] in
  match en with
  | GClass => one (class_generate unit unit (fun _ => tt) (fun _ _ => tt) k 0 private)
  | GRegistry => one (registry_generate unit unit (fun _ => tt) (fun _ _ => tt) true k 0 private)
  | GRegistryUnknown => one (registry_generate unit unit (fun _ => tt) (fun _ _ => tt) false k 0 private)
  | GKeySet n =>
      do l <- keyset_generate unit unit (fun _ => tt) (fun _ _ => tt) true k private n;
      Ok (map (g_is_private unit unit) l)
  end.

Inductive c12case :=
(* key.as_dict(private, **params): kind, raw key is a private native, dict_value *)
| CAsDict (k : kind) (raw_private : bool) (d : kd) (private : pv) (params : kd) (expect : res kd)
(* KeySet(keys).as_dict(private, **params)["keys"]; dicts are the dict_values BEFORE the
   key set was built (no generated kid yet) *)
| CKeySet (thumbs : list (kd * str)) (keys : list (kind * bool * kd)) (private : pv) (params : kd)
          (expect : res (list kd))
(* the OrderedDict that key.thumbprint() hands to json.dumps *)
| CThumbIn (k : kind) (d : kd) (expect : res kd)
(* key.ensure_kid(); key.dict_value *)
| CEnsureKid (k : kind) (d : kd) (thumbs : list (kd * str)) (expect : res kd)
(* alg.prepare_ephemeral_key(recipient): [eph] = recipient.ephemeral_key before the call,
   [generated] = its _ephemeral_key_generated mark, [fresh] = the key generate_key returned
   during the call (any key when none was generated); expect = header written *)
| CEpk (rk : kind) (eph : option (kind * bool * kd)) (generated : bool) (fresh : kind * bool * kd)
       (hdr : kd) (expect : res kd)
(* key.as_bytes(encoding, private, password): which native export happened *)
| CAsBytes (raw_private : bool) (enc : encoding) (private : pv) (pw : bool) (expect : res export)
(* is_private of the key(s) returned by a generating entry point called with flag [private]
   (positionally or by keyword; an omitted flag is the default True) *)
| CGen (en : gen_entry) (k : kind) (private : pv) (expect : res (list bool))
(* a sequence of calls on ONE key object; expect = the result of every call (RUnit for
   ensure_kid, RStr for thumbprint) and the final dict_value *)
| CHistory (k : kind) (raw_private : bool) (d : kd) (thumbs : list (kd * str)) (ops : list kop)
           (expect : list kout) (final : kd)
(* registry flags seen through the live class: (name, bool(private), required) *)
| CFlags (k : kind) (flags : list (str * bool * bool)).

Definition reg_flags (reg : list kparam) : list (str * bool * bool) :=
  map (fun p => (pname p, flag_truth (kp_private p), kp_required p)) reg.

Definition flags_eqb (a b : list (str * bool * bool)) : bool :=
  list_eqb (fun x y => let '(n, p, r) := x in let '(n', p', r') := y in
                       str_eqb n n' && Bool.eqb p p' && Bool.eqb r r') a b.

Definition kout_eqb (a b : kout) : bool :=
  match a, b with
  | RDict x, RDict y => res_eqb kd_eqb x y
  | RUnit x, RUnit y => res_eqb (fun _ _ => true) x y
  | RStr x, RStr y => res_eqb str_eqb x y
  | _, _ => false
  end.

Definition history_of (c : c12case) : option (kd * list kout) :=
  match c with
  | CHistory k rp d t ops _ _ =>
      Some (run_history (table_H t) (value_registry k) (match k with KOct => true | _ => rp end) d ops)
  | _ => None
  end.

Definition c12_out (c : c12case) : res (list kd) + res export + list (str * bool * bool) + res (list bool) :=
  match c with
  | CAsDict k rp d private params _ =>
      inl (inl (inl (do o <- key_as_dict (mk_key (k, rp, d)) private params; Ok [o])))
  | CKeySet t keys private params _ =>
      inl (inl (inl (keyset_as_dict (table_H t) (map mk_key keys) private params)))
  | CThumbIn k d _ => inl (inl (inl (do o <- thumb_input (value_registry k) d; Ok [o])))
  | CEnsureKid k d t _ => inl (inl (inl (do o <- ensure_kid (table_H t) (value_registry k) d; Ok [o])))
  | CEpk rk eph g fresh hdr _ =>
      inl (inl (inl (do r <- prepare_ephemeral_key (fun _ => mk_key fresh)
                          {| k_kind := rk; k_raw_private := true; k_dict := [] |}
                          (option_map mk_key eph) g hdr;
                Ok [snd r])))
  | CAsBytes rp enc private pw _ => inl (inl (inr (as_bytes_kind rp enc private pw)))
  | CFlags k _ => inl (inr (reg_flags (value_registry k)))
  | CGen en k private _ => inr (gen_is_private en k private)
  | CHistory _ _ _ _ _ _ _ =>      (* rendered through history_of; here only the final dict *)
      inl (inl (inl (match history_of c with Some (d, _) => Ok [d] | None => Err EAssert end)))
  end.

Definition c12_check (c : c12case) : bool :=
  match c, c12_out c with
  | CAsDict _ _ _ _ _ e, inl (inl (inl r)) =>
      res_eqb (list_eqb kd_eqb) r (do o <- e; Ok [o])
  | CKeySet _ _ _ _ e, inl (inl (inl r)) => res_eqb (list_eqb kd_eqb) r e
  | CThumbIn _ _ e, inl (inl (inl r)) => res_eqb (list_eqb kd_eqb) r (do o <- e; Ok [o])
  | CEnsureKid _ _ _ e, inl (inl (inl r)) => res_eqb (list_eqb kd_eqb) r (do o <- e; Ok [o])
  | CEpk _ _ _ _ _ e, inl (inl (inl r)) => res_eqb (list_eqb kd_eqb) r (do o <- e; Ok [o])
  | CAsBytes _ _ _ _ e, inl (inl (inr r)) => res_eqb export_eqb r e
  | CFlags _ f, inl (inr g) => flags_eqb g f
  | CGen _ _ _ e, inr r => res_eqb (list_eqb Bool.eqb) r e
  | CHistory _ _ _ _ _ e f, _ =>
      match history_of c with
      | Some (d, outs) => kd_eqb d f && list_eqb kout_eqb outs e
      | None => false
      end
  | _, _ => false
  end.

(* compact rendering for failing cases: member names only (values can be large) *)
Definition show_str (s : str) : string := string_of_list_ascii (map ascii_of_N s).
Definition show_kd (d : kd) : list string := map (fun kv => show_str (fst kv)) d.
Definition c12_show (c : c12case) : res (list (list string)) + res export + list (str * bool * bool) + res (list bool) :=
  match c12_out c with
  | inl (inl (inl (Ok l))) => inl (inl (inl (Ok (map show_kd l))))
  | inl (inl (inl (Err e))) => inl (inl (inl (Err e)))
  | inl (inl (inr r)) => inl (inl (inr r))
  | inl (inr f) => inl (inr f)
  | inr g => inr g
  end.
