(* C12Keys.v — Impl model of the exporting paths of joserfc keys (property C12:
   public-facing outputs never contain private key material).

   Transcribed functions (src/joserfc):
     rfc7517/models.py  BaseKey.as_dict, BaseKey.thumbprint (field selection),
                        BaseKey.ensure_kid
     rfc7638/__init__   thumbprint (sorted fields, restriction of the dict)
     _keys.py           KeySet.as_dict
     rfc7516/models.py  JWEKeyAgreement.prepare_ephemeral_key, Recipient.add_header
     rfc7517/pem.py     CryptographyBinding.as_bytes, dump_pem_key (dispatch only)
   The per-kind value registries (names, private / required flags) are the
   generated tables of gen/Tables.v.

   A key's JWK view ([dict_value]) is an association list [kd]; Python dicts
   keep insertion order, and so does the model ([ddel]/[dset]/[dupdate]). *)
From Model Require Import Base PyVal TableTypes.
From Gen Require Import Tables.
Open Scope N_scope.

Definition kd := list (str * pv).

Inductive kind := KOct | KRSA | KEC | KOKP.

Definition value_registry (k : kind) : list kparam :=
  match k with
  | KOct => value_registry_oct
  | KRSA => value_registry_RSA
  | KEC => value_registry_EC
  | KOKP => value_registry_OKP
  end.

(* ---------- registry lookups ---------- *)
Definition pname (p : kparam) : str := asc (kp_name p).

(* registry[k] for k in registry (a Python dict: first = only entry) *)
Fixpoint reg_find (reg : list kparam) (k : str) : option kparam :=
  match reg with
  | [] => None
  | p :: r => if str_eqb (pname p) k then Some p else reg_find r k
  end.

(* truthiness of KeyParameter.private (None / False / True) *)
Definition flag_truth (o : option bool) : bool :=
  match o with Some true => true | _ => false end.

(* `k in self.value_registry and self.value_registry[k].private` *)
Definition member_private (reg : list kparam) (k : str) : bool :=
  match reg_find reg k with
  | Some p => flag_truth (kp_private p)
  | None => false
  end.

Definition private_names (reg : list kparam) : list str :=
  map pname (filter (fun p => flag_truth (kp_private p)) reg).
Definition public_names (reg : list kparam) : list str :=
  map pname (filter (fun p => negb (flag_truth (kp_private p))) reg).
Definition required_names (reg : list kparam) : list str :=
  map pname (filter kp_required reg).
Definition reg_names (reg : list kparam) : list str := map pname reg.

(* ---------- BaseKey.as_dict ---------- *)
(* `private is not False` : identity with the singleton False *)
Definition is_False (v : pv) : bool := match v with PBool false => true | _ => false end.
Definition is_True (v : pv) : bool := match v with PBool true => true | _ => false end.

(*  for k in self.dict_value:
        if k in self.value_registry and self.value_registry[k].private:
            del data[k]                                                     *)
Definition strip_private (reg : list kparam) (d : kd) : kd :=
  fold_left (fun data k => if member_private reg k then ddel data k else data) (dkeys d) d.

(* the public view: what the loop above computes (proved in C12Proofs) *)
Definition pub_view (reg : list kparam) (d : kd) : kd :=
  filter (fun kv => negb (member_private reg (fst kv))) d.

(* as_dict(self, private=None, **params); [is_priv] = self.is_private,
   [d] = self.dict_value, [private] any Python value, [params] the keyword
   arguments (caller's own data: they are added AFTER the filter) *)
Definition as_dict (reg : list kparam) (is_priv : bool) (d : kd) (private : pv) (params : kd)
  : res kd :=
  if py_truth private && negb is_priv then Err EValue
  else if negb (is_False private) then Ok (dupdate d params)
  else Ok (dupdate (strip_private reg d) params).

(* ---------- thumbprint: field selection ---------- *)
(* Python str ordering = lexicographic on code points *)
Fixpoint str_ltb (a b : str) : bool :=
  match a, b with
  | [], [] => false
  | [], _ :: _ => true
  | _ :: _, [] => false
  | x :: a', y :: b' => (x <? y) || ((x =? y) && str_ltb a' b')
  end.
Fixpoint insert_sorted (k : str) (l : list str) : list str :=
  match l with
  | [] => [k]
  | x :: r => if str_ltb k x then k :: l else x :: insert_sorted k r
  end.
(* sorted(fields) — stable insertion sort (stability is irrelevant: equal
   strings are indistinguishable) *)
Definition sort_str (l : list str) : list str := fold_right insert_sorted [] l.

Definition s_kty : str := asc "kty".
Definition s_kid : str := asc "kid".
Definition s_epk : str := asc "epk".

(*  fields = [k for k in self.value_registry if self.value_registry[k].required]
    fields.append("kty")                                                     *)
Definition thumb_fields (reg : list kparam) : list str := required_names reg ++ [s_kty].

(*  data = OrderedDict();  for k in sorted(fields): data[k] = dict_value[k]   *)
Fixpoint restrict_to (d : kd) (fields : list str) (acc : kd) : res kd :=
  match fields with
  | [] => Ok acc
  | k :: r =>
      match dget d k with
      | None => Err EKey
      | Some v => restrict_to d r (dset acc k v)
      end
  end.

(* what is handed to json.dumps / the digest *)
Definition thumb_input (reg : list kparam) (d : kd) : res kd :=
  restrict_to d (sort_str (thumb_fields reg)) [].

Section Digest.
  (* json.dumps(separators) -> hashlib.new(digest) -> urlsafe_b64encode: an
     unspecified function of the selected members (its RFC 7638 value is the
     subject of C13, not of C12) *)
  Variable H : kd -> str.

  Definition thumbprint (reg : list kparam) (d : kd) : res str :=
    do i <- thumb_input reg d; Ok (H i).

  (*  if "kid" not in self.dict_value: self._dict_value["kid"] = self.thumbprint() *)
  Definition ensure_kid (reg : list kparam) (d : kd) : res kd :=
    if dmem d s_kid then Ok d
    else do t <- thumbprint reg d; Ok (dset d s_kid (PStr t)).

  (* ---------- keys and key sets ---------- *)
  Record key := { k_kind : kind; k_raw_private : bool; k_dict : kd }.

  (* SymmetricKey.is_private is always True; asymmetric: isinstance(raw, Private) *)
  Definition is_private (k : key) : bool :=
    match k_kind k with KOct => true | _ => k_raw_private k end.
  Definition kreg (k : key) : list kparam := value_registry (k_kind k).

  Definition key_as_dict (k : key) (private : pv) (params : kd) : res kd :=
    as_dict (kreg k) (is_private k) (k_dict k) private params.

  (*  for key in self.keys:
          key.ensure_kid()
          keys.append(key.as_dict(private=private, **params))                *)
  Fixpoint keyset_as_dict (ks : list key) (private : pv) (params : kd) : res (list kd) :=
    match ks with
    | [] => Ok []
    | k :: r =>
        do d1 <- ensure_kid (kreg k) (k_dict k);
        do o <- as_dict (kreg k) (is_private k) d1 private params;
        do os <- keyset_as_dict r private params;
        Ok (o :: os)
    end.

  (* ---------- JWEKeyAgreement.prepare_ephemeral_key ---------- *)
  (* recipient_key.generate_key(curve_name, private=True): fresh key of the
     recipient key's class *)
  Variable gen : key -> key.

  Definition key_agreement_type (k : kind) : bool :=
    match k with KEC | KOKP => true | _ => false end.

  (* [hdr]: the header dict that Recipient.add_header updates (the protected
     header in compact serialization, the recipient header in JSON).
     [eph] = recipient.ephemeral_key before the call, [generated] = the
     recipient's _ephemeral_key_generated mark (a key made by an earlier
     encryption of the same object is replaced by a fresh one; a caller-provided
     key is kept).  Returns the ephemeral key in use and the updated header.

       if recipient.ephemeral_key is None or recipient._ephemeral_key_generated:
           recipient.ephemeral_key = recipient_key.generate_key(curve_name, private=True)
       recipient.add_header("epk", recipient.ephemeral_key.as_dict(private=False))   *)
  Definition ephemeral_in_use (rk : key) (eph : option key) (generated : bool) : key :=
    match eph with
    | Some e => if generated then gen rk else e
    | None => gen rk
    end.

  Definition prepare_ephemeral_key (rk : key) (eph : option key) (generated : bool) (hdr : kd)
    : res (key * kd) :=
    if negb (key_agreement_type (k_kind rk)) then Err (EJose InvalidKeyTypeError)
    else
      let e := ephemeral_in_use rk eph generated in
      do v <- key_as_dict e (PBool false) [];
      Ok (e, dset hdr s_epk (PDict v)).
End Digest.

(* ---------- CryptographyBinding.as_bytes / dump_pem_key ---------- *)
Inductive encoding := EncDefault | EncPEM | EncDER | EncOther.
Definition encoding_ok (e : encoding) : bool :=
  match e with EncOther => false | _ => true end.

Section Native.
  Variables (sk pk : Type).
  Variable pub_of : sk -> pk.                                  (* private.public_key() *)
  Variable private_bytes : sk -> encoding -> option bytes -> bytes.  (* PKCS8, password *)
  Variable public_bytes : pk -> encoding -> bytes.             (* SubjectPublicKeyInfo *)

  Inductive raw := RawPriv (s : sk) | RawPub (p : pk).
  (* the object handed to dump_pem_key *)
  Inductive nobj := OPriv (s : sk) | OPub (p : pk) | ONone.

  Definition raw_is_private (r : raw) : bool := match r with RawPriv _ => true | _ => false end.
  Definition public_key (r : raw) : pk := match r with RawPriv s => pub_of s | RawPub p => p end.
  Definition private_key (r : raw) : nobj := match r with RawPriv s => OPriv s | RawPub _ => ONone end.
  Definition raw_obj (r : raw) : nobj := match r with RawPriv s => OPriv s | RawPub p => OPub p end.

  (* dump_pem_key(key, encoding, private, password): [priv] = truthiness of
     `private`.  A public / None object has no private_bytes, a private object
     no public_bytes: AttributeError *)
  Definition dump_pem_key (o : nobj) (enc : encoding) (priv : bool) (pw : option bytes)
    : res bytes :=
    if negb (encoding_ok enc) then Err EValue
    else if priv then
      match o with OPriv s => Ok (private_bytes s enc pw) | _ => Err EAttr end
    else
      match o with OPub p => Ok (public_bytes p enc) | _ => Err EAttr end.

  (*  if private is True:   dump_pem_key(key.private_key, encoding, private, password)
      elif private is False: dump_pem_key(key.public_key, encoding, private, password)
      else: dump_pem_key(key.raw_value, encoding, key.is_private, password)  *)
  Definition as_bytes (r : raw) (enc : encoding) (private : pv) (pw : option bytes) : res bytes :=
    if is_True private then dump_pem_key (private_key r) enc true pw
    else if is_False private then dump_pem_key (OPub (public_key r)) enc false pw
    else dump_pem_key (raw_obj r) enc (raw_is_private r) pw.
End Native.

Arguments RawPriv {sk pk} s.
Arguments RawPub {sk pk} p.

(* ---------- histories of operations on one key object ---------- *)
(* The only state of a key that the exporting methods touch is _dict_value, and the
   only writer is ensure_kid (as_dict works on a copy, thumbprint reads). *)
Inductive kop :=
| OAsDict (private : pv) (params : kd)     (* key.as_dict(private, **params) *)
| OEnsureKid                                (* key.ensure_kid() *)
| OThumbprint.                              (* key.thumbprint() *)

Inductive kout := RDict (r : res kd) | RUnit (r : res unit) | RStr (r : res str).

Section History.
  Variable H : kd -> str.
  Variable reg : list kparam.
  Variable is_priv : bool.

  Definition step (d : kd) (o : kop) : kd * kout :=
    match o with
    | OAsDict private params => (d, RDict (as_dict reg is_priv d private params))
    | OEnsureKid =>
        match ensure_kid H reg d with
        | Ok d' => (d', RUnit (Ok tt))
        | Err e => (d, RUnit (Err e))
        end
    | OThumbprint => (d, RStr (thumbprint H reg d))
    end.

  Fixpoint run_history (d : kd) (ops : list kop) : kd * list kout :=
    match ops with
    | [] => (d, [])
    | o :: r =>
        let '(d1, out) := step d o in
        let '(d2, outs) := run_history d1 r in
        (d2, out :: outs)
    end.
End History.

(* ---------- key generation: the plumbing of the `private` flag ---------- *)
(* <KeyClass>.generate_key(size_or_crv, parameters, private, auto_kid):
     raw_key = <native generate>
     if private: key = cls(raw_key, ...)  else: key = cls(raw_key.public_key(), ...)
   OctKey: `if not private: raise ValueError`.
   JWKRegistry.generate_key(key_type, crv_or_size, parameters, private, auto_kid):
     unknown key_type -> InvalidKeyTypeError, else the class method with the SAME flag.
   KeySet.generate_key_set(key_type, crv_or_size, parameters, private, count): count times the
   registry call with the same flag.
   BaseKey.dict_value of such a key: convert_raw_key_to_dict(raw_value, is_private), then
   update(extra_parameters), then ["kty"] = key_type. *)
Section Generate.
  Variables (sk pk : Type).
  Variable pub_of : sk -> pk.
  Variable fresh : kind -> nat -> sk.                 (* the i-th native key generated *)
  Variable export_private : kind -> sk -> kd.         (* binding.export_private_key *)
  Variable export_public : kind -> pk -> kd.          (* binding.export_public_key *)

  Record gkey := { g_kind : kind; g_raw : raw sk pk }.

  Definition class_generate (k : kind) (i : nat) (private : pv) : res gkey :=
    match k with
    | KOct => if py_truth private then Ok {| g_kind := k; g_raw := RawPriv (fresh k i) |} else Err EValue
    | _ => Ok {| g_kind := k;
                 g_raw := if py_truth private then RawPriv (fresh k i) else RawPub (pub_of (fresh k i)) |}
    end.

  (* [known]: key_type in JWKRegistry.key_types *)
  Definition registry_generate (known : bool) (k : kind) (i : nat) (private : pv) : res gkey :=
    if known then class_generate k i private else Err (EJose InvalidKeyTypeError).

  Fixpoint keyset_generate (known : bool) (k : kind) (private : pv) (count : nat) : res (list gkey) :=
    match count with
    | O => Ok []
    | S n =>
        do rest <- keyset_generate known k private n;      (* order of the natives is irrelevant *)
        do g <- registry_generate known k n private;
        Ok (rest ++ [g])
    end.

  Definition g_is_private (g : gkey) : bool :=
    match g_kind g with KOct => true | _ => raw_is_private sk pk (g_raw g) end.

  Definition kty_name (k : kind) : str :=
    match k with KOct => asc "oct" | KRSA => asc "RSA" | KEC => asc "EC" | KOKP => asc "OKP" end.

  Definition g_dict_value (g : gkey) (params : kd) : kd :=
    let conv := match g_raw g with
                | RawPriv s => export_private (g_kind g) s
                | RawPub p => export_public (g_kind g) p
                end in
    dset (dupdate conv params) s_kty (PStr (kty_name (g_kind g))).

  Definition g_key (g : gkey) (params : kd) : key :=
    {| k_kind := g_kind g; k_raw_private := raw_is_private sk pk (g_raw g); k_dict := g_dict_value g params |}.
End Generate.

Arguments g_kind {sk pk} g.
Arguments g_raw {sk pk} g.

(* ---------- Spec (from the property text) ---------- *)
(* the private parameters per key type: d, p, q, dp, dq, qi, oth, k *)
Definition spec_private (k : kind) : list str :=
  match k with
  | KOct => [asc "k"]
  | KRSA => [asc "d"; asc "p"; asc "q"; asc "dp"; asc "dq"; asc "qi"; asc "oth"]
  | KEC => [asc "d"]
  | KOKP => [asc "d"]
  end.
