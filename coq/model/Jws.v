(* Jws.v — the Impl model of the JWS pipeline of joserfc:
     jws.py, rfc7515/{compact,json,model,registry}.py, rfc7518/jws_algs.py,
     rfc8037/jws_eddsa.py, rfc8812, rfc7797/{compact,json,registry}.py,
     jwk.guess_key, registry.{check_crit_header,validate_registry_header,
     check_supported_header}.
   Octet strings are [list N]; headers are [pv] dicts; algorithm data comes
   from Gen.Tables (regenerated from /repo on every run).  External code
   (json, the cryptographic primitives, random.choice) are Section variables.
   Text members of the JSON serialization ("payload", "protected",
   "signature") are given to the model as the UTF-8 octets of the Python str.
   Shared by the properties C01 (soundness), C03 (round trip), C07 (wire). *)
From Model Require Export Base PyVal B64 IntCodec TableTypes.
From Gen Require Import Tables.
Open Scope N_scope.

(* ------------------------------------------------------------------ *)
(* segments                                                             *)
(* ------------------------------------------------------------------ *)
(* bytes.split(b".") : always at least one part *)
Fixpoint split_on (c : N) (l : list N) : list (list N) :=
  match l with
  | [] => [[]]
  | x :: r =>
      if x =? c then [] :: split_on c r
      else match split_on c r with
           | h :: t => (x :: h) :: t
           | [] => [[x]]
           end
  end.
Definition split_dot := split_on 46.
Definition no_dot (l : list N) : bool := forallb (fun c => negb (c =? 46)) l.
Fixpoint join_dot (l : list (list N)) : list N :=
  match l with
  | [] => []
  | [a] => a
  | a :: r => a ++ 46 :: join_dot r
  end.

Definition s_alg := asc "alg".
Definition s_kid := asc "kid".
Definition s_crit := asc "crit".
Definition s_b64 := asc "b64".
Definition s_sig := asc "sig".
Definition s_sign := asc "sign".
Definition s_verify := asc "verify".

Definition ok : res unit := Ok tt.
Definition jerr {A} (c : jcls) : res A := Err (EJose c).

(* ------------------------------------------------------------------ *)
(* keys                                                                 *)
(* ------------------------------------------------------------------ *)
Record key := {
  k_id : N;                      (* identity of the key material (oracle index) *)
  k_kid : option str;
  k_kty : string;
  k_crv : string;                (* EC / OKP curve name, "" otherwise *)
  k_bits : N;                    (* EC: curve_key_size *)
  k_use : option str;
  k_ops : option (list str);
  k_alg : option str;
  k_private : bool
}.

(* KeyFlexible after the callable (if any) has been applied *)
Inductive keysrc := KOne (k : key) | KSet (ks : list key) | KBad.

Definition nonempty {A} (l : list A) : bool := match l with [] => false | _ => true end.

(* OctKey.import_key(raw octets) / OctBinding.import_from_bytes: the key material is
   the octets given, every one of them (no stripping, trimming or decoding) *)
Definition import_oct (given : bytes) : bytes := given.

(* Key.check_use("sig") *)
Definition check_use (k : key) : res unit :=
  match k_use k with
  | Some u => if nonempty u && negb (str_eqb u s_sig) then jerr UnsupportedKeyUseError else ok
  | None => ok
  end.

(* Key.check_alg(alg) *)
Definition check_alg (k : key) (alg : pv) : res unit :=
  match k_alg k with
  | Some a => if nonempty a && negb (py_eq (PStr a) alg) then jerr UnsupportedKeyAlgorithmError else ok
  | None => ok
  end.

Definition op_private (op : string) : bool :=
  match find (fun o => String.eqb (ko_name o) op) jwk_operation_registry with
  | Some o => match ko_private o with Some true => true | _ => false end
  | None => false
  end.

(* Key.get_op_key(op) = check_key_op(op) *)
Definition check_key_op (k : key) (op : string) : res unit :=
  match k_ops k with
  | Some ops => if str_mem (asc op) ops then
                  (if op_private op && negb (k_private k) then jerr UnsupportedKeyOperationError else ok)
                else jerr UnsupportedKeyOperationError
  | None => if op_private op && negb (k_private k) then jerr UnsupportedKeyOperationError else ok
  end.

Definition kid_matches (k : key) (kid : pv) : bool :=
  match kid, k_kid k with
  | PStr s, Some t => str_eqb s t
  | PNone, None => true
  | _, _ => false
  end.

(* KeySet.get_by_kid *)
Definition get_by_kid (ks : list key) (kid : pv) : res key :=
  match kid, ks with
  | PNone, [k] => Ok k
  | _, _ => match find (fun k => kid_matches k kid) ks with
            | Some k => Ok k
            | None => jerr InvalidKeyIdError
            end
  end.

Definition hdr_get (h : pv) (k : str) : res pv := py_get_str h k.

(* ------------------------------------------------------------------ *)
(* header checks (registry.py, rfc7515/registry.py, rfc7797/registry.py) *)
(* ------------------------------------------------------------------ *)
Definition starts_with (p s : str) : bool := is_prefix p s.

Definition vkind_ok (kd : vkind) (v : pv) : bool :=
  match kd with
  | VStr => is_str v
  | VUrl => match v with
            | PStr s => starts_with (asc "http://") s || starts_with (asc "https://") s
            | _ => false
            end
  | VInt => match v with PInt _ => true | _ => false end
  | VBool => match v with PBool _ => true | _ => false end
  | VListStr => match v with PList l => forallb is_str l | _ => false end
  | VJwk => is_dict v
  | _ => false
  end.

(* check_crit_header *)
Fixpoint crit_loop (h : list (str * pv)) (l : list pv) : res unit :=
  match l with
  | [] => ok
  | k :: r => do b <- py_in k (PDict h); if b then crit_loop h r else Err EValue
  end.
Definition check_crit_header (h : list (str * pv)) : res unit :=
  match dget h s_crit with
  | None => ok
  | Some (PList l) => if forallb is_str l then crit_loop h l else Err EValue
  | Some _ => Err EValue
  end.

Definition validate_registry_header (reg : list hparam) (h : list (str * pv)) : res unit :=
  if forallb (fun p => match dget h (asc (hp_name p)) with
                       | None => negb (hp_required p)
                       | Some v => vkind_ok (hp_kind p) v
                       end) reg
  then ok else Err EValue.

Definition check_supported_header (reg : list hparam) (h : list (str * pv)) : res unit :=
  if forallb (fun k => existsb (fun p => str_eqb (asc (hp_name p)) k) reg) (dkeys h)
  then ok else Err EValue.

(* _safe_b64_header *)
Definition safe_b64_header (h : list (str * pv)) : res unit :=
  match dget h s_crit with
  | Some (PList l) => if list_contains l (PStr s_b64) then ok else Err EValue
  | _ => Err EValue
  end.

(* a registry: the RFC 7797 subclass or the plain one, and its [allowed] list *)
Record registry := { rg_7797 : bool; rg_allowed : option (list str) }.

Definition header_registry (rg : registry) : list hparam :=
  if rg_7797 rg then jws7797_default_header_registry else jws_default_header_registry.

(* JWSRegistry.check_header; a header that is not a dict but contains "alg"
   ends in a TypeError (header["alg"] / header["crit"]) *)
Definition check_header (rg : registry) (hv : pv) : res unit :=
  match hv with
  | PDict h =>
      do _ <- (if rg_7797 rg && dmem h s_b64 then safe_b64_header h else ok);
      do _ <- check_crit_header h;
      do _ <- validate_registry_header (header_registry rg) h;
      if jws_default_instance_strict then check_supported_header (header_registry rg) h else ok
  | _ => Err EType
  end.

(* JWSRegistry.get_alg *)
Definition find_alg (s : str) : option jws_alg_row :=
  find (fun r => str_eqb (asc (ja_name r)) s) jws_alg_table.

Definition get_alg (rg : registry) (name : pv) : res jws_alg_row :=
  match name with
  | PStr s =>
      match find_alg s with
      | None => jerr UnsupportedAlgorithmError
      | Some r =>
          let allowed_ok :=
            match rg_allowed rg with
            | Some ((_ :: _) as al) => str_mem s al
            | _ => existsb (fun n => str_eqb (asc n) s) jws_recommended
            end in
          if allowed_ok then Ok r else jerr UnsupportedAlgorithmError
      end
  | _ => jerr UnsupportedAlgorithmError
  end.

Definition check_key_type (r : jws_alg_row) (k : key) : res unit :=
  if String.eqb (k_kty k) (ja_key_type r) then ok else jerr InvalidKeyTypeError.

(* construct_registry(algorithms) / rfc7797 JWSRegistry(algorithms=algorithms) *)
Definition reg15 (algorithms : option (list str)) : registry :=
  {| rg_7797 := false; rg_allowed := algorithms |}.
Definition reg97 (algorithms : option (list str)) : registry :=
  {| rg_7797 := true; rg_allowed := algorithms |}.

(* ------------------------------------------------------------------ *)
(* UTF-8 validity (bytes.decode("utf-8") of to_str)                     *)
(* ------------------------------------------------------------------ *)
Definition cont (c : N) : bool := (128 <=? c) && (c <=? 191).
Fixpoint utf8_ok (l : list N) : bool :=
  match l with
  | [] => true
  | b :: r =>
      if b <? 128 then utf8_ok r
      else if (194 <=? b) && (b <=? 223) then
        match r with c :: r1 => cont c && utf8_ok r1 | _ => false end
      else if (224 <=? b) && (b <=? 239) then
        match r with
        | c :: d :: r2 =>
            (if b =? 224 then (160 <=? c) && (c <=? 191)
             else if b =? 237 then (128 <=? c) && (c <=? 159)
             else cont c) && cont d && utf8_ok r2
        | _ => false
        end
      else if (240 <=? b) && (b <=? 244) then
        match r with
        | c :: d :: e :: r3 =>
            (if b =? 240 then (144 <=? c) && (c <=? 191)
             else if b =? 244 then (128 <=? c) && (c <=? 143)
             else cont c) && cont d && cont e && utf8_ok r3
        | _ => false
        end
      else false
  end.

(* rfc7797: _re_urlsafe = ^[a-zA-Z0-9-_~]+$ with re.match ($ also matches
   before one trailing newline) *)
Definition urlsafe_char (c : N) : bool := in_alphabet c || (c =? 126).
Fixpoint urlsafe_body (l : list N) : bool :=
  match l with
  | [] => true
  | [c] => urlsafe_char c || (c =? 10)
  | c :: r => urlsafe_char c && urlsafe_body r
  end.
(* [lenient]: the variant with fix03 (octets that are not UTF-8 are simply not
   URL-safe); without it to_str raises UnicodeDecodeError *)
Definition is_urlsafe (lenient : bool) (l : list N) : res bool :=
  if utf8_ok l then
    Ok (match l with
        | [] => false
        | c :: _ => urlsafe_char c && urlsafe_body l
        end)
  else if lenient then Ok false else Err EValue.

(* ------------------------------------------------------------------ *)
(* objects                                                              *)
(* ------------------------------------------------------------------ *)
Record compact_obj := {
  co_protected : pv; co_payload : bytes;
  co_hseg : bytes; co_pseg : bytes; co_sseg : bytes
}.

(* one element of "signatures" / the flattened members *)
Record jsig := { js_protected : option bytes; js_header : option (list (str * pv));
                 js_signature : option bytes }.
(* the dict given to deserialize_json: general iff "signatures" is present *)
Inductive jval :=
| JFlat (payload : option bytes) (sg : jsig)
| JGen (payload : option bytes) (sgs : list jsig).

Record member := { m_protected : option pv; m_header : option (list (str * pv)) }.
Record json_obj := { jo_flat : bool; jo_members : list member; jo_payload : bytes;
                     jo_sigs : list jsig; jo_pseg : bytes }.

(* HeaderMember.headers(); a truthy protected header that is not a dict is
   modelled as TypeError (dict.update of a non-mapping) *)
Definition member_headers (m : member) : res (list (str * pv)) :=
  do a <- match m_protected m with
          | None => Ok []
          | Some v => if py_truth v then match v with PDict d => Ok d | _ => Err EType end else Ok []
          end;
  Ok (match m_header m with
      | Some h => match h with [] => a | _ => dupdate a h end
      | None => a
      end).

Definition to_decode_error {A} (r : res A) : res A :=
  match r with
  | Err EValue | Err EType => jerr DecodeError
  | x => x
  end.

Definition of_opt {A} (o : option A) (e : exn) : res A :=
  match o with Some x => Ok x | None => Err e end.

Definition all_ascii (l : list N) : bool := forallb (fun c => c <? 128) l.

(* the outcome of rfc7797 _extract_compact *)
Inductive ext97 := X97None | X97True | X97Obj (o : compact_obj).

Section Pipeline.
  (* ---------------- external code ---------------- *)
  Variable json_loads : bytes -> res pv.
  Variable json_dumps : pv -> bytes.
  (* hmac.new(key, msg, hash).digest() *)
  Variable mac : string -> N -> bytes -> res bytes.
  (* RSASSA-PKCS1-v1_5 / RSASSA-PSS / EdDSA : (row, key id, msg [, sig]) *)
  Variable pk_sign : jws_alg_row -> N -> bytes -> res bytes.
  Variable pk_verify : jws_alg_row -> N -> bytes -> bytes -> res bool.
  (* ECDSA on integers (r, s): decode_dss_signature / encode_dss_signature are bijections *)
  Variable ec_sign : jws_alg_row -> N -> bytes -> res (Z * Z).
  Variable ec_verify : jws_alg_row -> N -> bytes -> Z -> Z -> res bool.
  (* random.choice among the candidate keys *)
  Variable choose : list key -> option key.

  (* ---------------- algorithm models ---------------- *)
  Inductive family := FNone | FHmac | FRsa | FPss | FEc | FEd | FUnknown.
  Definition fam_of (r : jws_alg_row) : family :=
    let f := ja_family r in
    if String.eqb f "none" then FNone else if String.eqb f "HMAC" then FHmac
    else if String.eqb f "RSA" then FRsa else if String.eqb f "PSS" then FPss
    else if String.eqb f "EC" then FEc else if String.eqb f "EdDSA" then FEd else FUnknown.

  (* what happens when the key object is not of the class the algorithm
     expects (only reachable in the rfc7797 paths, which skip check_key_type) *)
  Definition mistyped (f : family) (k : key) : option exn :=
    let kty := k_kty k in
    match f with
    | FNone | FUnknown => None
    | FHmac => if String.eqb kty "oct" then None else Some EType
    | FRsa | FPss => if String.eqb kty "RSA" then None
                     else if String.eqb kty "oct" then Some EAttr else Some EType
    | FEc => if String.eqb kty "EC" then None
             else if String.eqb kty "OKP" then Some EValue else Some EAttr
    | FEd => if String.eqb kty "OKP" then None else Some EValue
    end.

  Definition ec_len (k : key) : nat := N.to_nat ((k_bits k + 7) / 8).
  Definition ed_curve_ok (k : key) : bool :=
    String.eqb (k_crv k) "Ed25519" || String.eqb (k_crv k) "Ed448".

  Definition alg_sign (r : jws_alg_row) (k : key) (msg : bytes) : res bytes :=
    match fam_of r with
    | FNone => Ok []
    | FUnknown => Err ERuntime
    | FHmac =>
        do _ <- check_key_op k "sign";
        match mistyped FHmac k with Some e => Err e | None => mac (ja_hash r) (k_id k) msg end
    | FRsa | FPss =>
        do _ <- check_key_op k "sign";
        match mistyped FRsa k with Some e => Err e | None => pk_sign r (k_id k) msg end
    | FEd =>
        do _ <- check_key_op k "sign";
        match mistyped FEd k with
        | Some e => Err e
        | None => if ed_curve_ok k then pk_sign r (k_id k) msg else Err EValue
        end
    | FEc =>
        match mistyped FEc k with
        | Some e => Err e
        | None =>
            if negb (String.eqb (k_crv k) (ja_curve r)) then Err EValue
            else
              do _ <- check_key_op k "sign";
              do rs <- ec_sign r (k_id k) msg;
              do a <- encode_int (fst rs) (k_bits k);
              do b <- encode_int (snd rs) (k_bits k);
              Ok (a ++ b)
        end
    end.

  Definition alg_verify (r : jws_alg_row) (k : key) (msg sig : bytes) : res bool :=
    match fam_of r with
    | FNone => Ok false
    | FUnknown => Err ERuntime
    | FHmac =>
        do _ <- check_key_op k "verify";
        match mistyped FHmac k with
        | Some e => Err e
        | None => do m <- mac (ja_hash r) (k_id k) msg; Ok (beqb sig m)
        end
    | FRsa | FPss =>
        do _ <- check_key_op k "verify";
        match mistyped FRsa k with Some e => Err e | None => pk_verify r (k_id k) msg sig end
    | FEd =>
        do _ <- check_key_op k "verify";
        match mistyped FEd k with
        | Some e => Err e
        | None => if ed_curve_ok k then pk_verify r (k_id k) msg sig else Err EValue
        end
    | FEc =>
        match mistyped FEc k with
        | Some e => Err e
        | None =>
            if negb (String.eqb (k_crv k) (ja_curve r)) then Err EValue
            else
              let L := ec_len k in
              if negb (Nat.eqb (length sig) (2 * L)) then Ok false
              else
                do rr <- decode_int (firstn L sig);
                do ss <- decode_int (skipn L sig);
                do _ <- check_key_op k "verify";
                ec_verify r (k_id k) msg rr ss
        end
    end.

  (* ---------------- guess_key ---------------- *)
  Definition guess_key (src : keysrc) (headers : pv) : res key :=
    match src with
    | KOne k => Ok k
    | KBad => Err EValue
    | KSet ks => do kid <- hdr_get headers s_kid; get_by_kid ks kid
    end.

  Definition pick_candidates (ks : list key) (alg : pv) : list key :=
    match alg with
    | PStr s =>
        match find (fun e => str_eqb (asc (fst e)) s) keyset_algorithm_keys with
        | Some (_, ((_ :: _) as kts)) => filter (fun k => existsb (String.eqb (k_kty k)) kts) ks
        | _ => ks
        end
    | _ => ks
    end.

  (* guess_key(key, obj, use_random=True): result key and the kid set_kid() stored, if any *)
  Definition guess_key_sign (src : keysrc) (headers : list (str * pv)) : res (key * option str) :=
    match src with
    | KOne k => Ok (k, None)
    | KBad => Err EValue
    | KSet ks =>
        let kid := match dget headers s_kid with Some v => v | None => PNone end in
        if negb (py_truth kid) then
          do alg <- py_getitem_str (PDict headers) s_alg;
          match choose (pick_candidates ks alg) with
          | None => Err EValue
          | Some k => match k_kid k with
                      | Some id => Ok (k, Some id)
                      | None => Err EAssert
                      end
          end
        else do k <- get_by_kid ks kid; Ok (k, None)
    end.

  (* ---------------- rfc7515/compact.py ---------------- *)
  Definition json_b64decode (seg : bytes) : res pv :=
    do raw <- b64d seg; json_loads raw.

  Definition decode_header (hseg : bytes) : res pv :=
    match to_decode_error (json_b64decode hseg) with
    | Err e => Err e
    | Ok (PDict d) => if dmem d s_alg then Ok (PDict d) else jerr MissingAlgorithmError
    | Ok _ => jerr DecodeError
    end.

  Definition extract_compact (tok : bytes) : res compact_obj :=
    match split_dot tok with
    | [h; p; s] =>
        do protected <- decode_header h;
        match b64d p with
        | Ok payload => Ok {| co_protected := protected; co_payload := payload;
                              co_hseg := h; co_pseg := p; co_sseg := s |}
        | Err _ => jerr DecodeError
        end
    | _ => Err EValue
    end.

  Definition verify_compact (o : compact_obj) (r : jws_alg_row) (k : key) : res bool :=
    do sig <- b64d (co_sseg o);
    alg_verify r k (co_hseg o ++ 46 :: co_pseg o) sig.

  Definition validate_compact (o : compact_obj) (src : keysrc) (rg : registry) : res bool :=
    let headers := co_protected o in
    do _ <- check_header rg headers;
    do k <- guess_key src headers;
    do _ <- check_use k;
    do algv <- py_getitem_str headers s_alg;
    do r <- get_alg rg algv;
    do _ <- check_key_type r k;
    verify_compact o r k.

  Definition deserialize_compact_rg (tok : bytes) (src : keysrc) (rg : registry) : res compact_obj :=
    do o <- extract_compact tok;
    do b <- validate_compact o src rg;
    if b then Ok o else jerr BadSignatureError.

  Definition deserialize_compact (tok : bytes) (src : keysrc) (algorithms : option (list str)) :=
    deserialize_compact_rg tok src (reg15 algorithms).

  Definition json_b64encode (h : list (str * pv)) : bytes := b64e (json_dumps (PDict h)).

  Definition sign_compact (protected : list (str * pv)) (payload : bytes)
             (r : jws_alg_row) (k : key) : res bytes :=
    let si := json_b64encode protected ++ 46 :: b64e payload in
    do sig <- alg_sign r k si;
    Ok (si ++ 46 :: b64e sig).

  Definition set_kid (h : list (str * pv)) (kid : option str) : list (str * pv) :=
    match kid with Some id => dset h s_kid (PStr id) | None => h end.

  Definition serialize_compact_rg (protected : list (str * pv)) (payload : bytes)
             (src : keysrc) (rg : registry) : res bytes :=
    do _ <- check_header rg (PDict protected);
    do algv <- py_getitem_str (PDict protected) s_alg;
    do r <- get_alg rg algv;
    do kk <- guess_key_sign src protected;
    let k := fst kk in
    let protected' := set_kid protected (snd kk) in
    do _ <- check_use k;
    do _ <- check_key_type r k;
    do _ <- check_alg k algv;
    sign_compact protected' payload r k.

  Definition serialize_compact protected payload src algorithms :=
    serialize_compact_rg protected payload src (reg15 algorithms).

  (* detach_compact_content on the token text *)
  Definition detach_compact (tok : bytes) : res bytes :=
    match split_dot tok with
    | a :: _ :: r => Ok (join_dot (a :: [] :: r))
    | _ => Err EIndex
    end.

  (* ---------------- rfc7515/json.py ---------------- *)
  Definition signature_to_member (sg : jsig) : res member :=
    do p <- match js_protected sg with
            | None => Ok None
            | Some seg => if all_ascii seg then
                            do v <- json_b64decode seg;
                            if is_dict v then Ok (Some v) else jerr DecodeError
                          else Err EValue
            end;
    Ok {| m_protected := p; m_header := js_header sg |}.

  Definition verify_signature (m : member) (sg : jsig) (pseg : bytes)
             (rg : registry) (src : keysrc) : res bool :=
    do headers <- member_headers m;
    do _ <- check_header rg (PDict headers);
    do algv <- py_getitem_str (PDict headers) s_alg;
    do r <- get_alg rg algv;
    do k <- guess_key src (PDict headers);
    do _ <- check_use k;
    do _ <- check_key_type r k;
    let prot := match js_protected sg with Some p => p | None => [] end in
    do sseg <- of_opt (js_signature sg) EKey;
    do sig <- b64d sseg;
    alg_verify r k (prot ++ 46 :: pseg) sig.

  Definition decode_payload (p : option bytes) : res (bytes * bytes) :=
    do pseg <- of_opt p EKey;
    match b64d pseg with
    | Ok x => Ok (pseg, x)
    | Err _ => jerr DecodeError
    end.

  Fixpoint map_res {A B} (f : A -> res B) (l : list A) : res (list B) :=
    match l with
    | [] => Ok []
    | x :: r => do y <- f x; do t <- map_res f r; Ok (y :: t)
    end.

  Definition extract_general_json (p : option bytes) (sgs : list jsig) : res json_obj :=
    do pp <- decode_payload p;
    do ms <- map_res signature_to_member sgs;
    Ok {| jo_flat := false; jo_members := ms; jo_payload := snd pp; jo_sigs := sgs; jo_pseg := fst pp |}.

  Definition extract_flattened_json (p : option bytes) (sg : jsig) : res json_obj :=
    do pp <- decode_payload p;
    do _ <- of_opt (js_signature sg) EKey;
    do m <- signature_to_member sg;
    Ok {| jo_flat := true; jo_members := [m]; jo_payload := snd pp; jo_sigs := [sg]; jo_pseg := fst pp |}.

  Fixpoint verify_each (ms : list member) (sgs : list jsig) (pseg : bytes)
           (rg : registry) (src : keysrc) : res bool :=
    match ms, sgs with
    | m :: ms', sg :: sgs' =>
        do b <- verify_signature m sg pseg rg src;
        if b then verify_each ms' sgs' pseg rg src else Ok false
    | _, [] => Ok true
    | [], _ :: _ => Err EIndex
    end.

  Definition verify_general_json (o : json_obj) rg src : res bool :=
    match jo_sigs o with
    | [] => Ok false
    | _ => verify_each (jo_members o) (jo_sigs o) (jo_pseg o) rg src
    end.

  Definition verify_flattened_json (o : json_obj) rg src : res bool :=
    match jo_members o, jo_sigs o with
    | [m], [sg] => verify_signature m sg (jo_pseg o) rg src
    | _, _ => Err EAssert
    end.

  Definition deserialize_json_rg (v : jval) (src : keysrc) (rg : registry) : res json_obj :=
    match v with
    | JGen p sgs =>
        do o <- extract_general_json p sgs;
        do b <- verify_general_json o rg src;
        if b then Ok o else jerr BadSignatureError
    | JFlat p sg =>
        do o <- extract_flattened_json p sg;
        do b <- verify_flattened_json o rg src;
        if b then Ok o else jerr BadSignatureError
    end.

  Definition deserialize_json v src (algorithms : option (list str)) :=
    deserialize_json_rg v src (reg15 algorithms).

  (* __sign_member; the sign-side member is {"protected": dict?, "header": dict?} *)
  Record smember := { sm_protected : option (list (str * pv)); sm_header : option (list (str * pv)) }.
  Definition smember_headers (m : smember) : list (str * pv) :=
    let a := match sm_protected m with Some d => d | None => [] end in
    match sm_header m with
    | Some ((_ :: _) as h) => dupdate a h
    | _ => a
    end.

  Definition sign_member (pseg : bytes) (m : smember) (rg : registry) (src : keysrc) : res jsig :=
    let headers := smember_headers m in
    do _ <- check_header rg (PDict headers);
    do algv <- py_getitem_str (PDict headers) s_alg;
    do r <- get_alg rg algv;
    do kk <- guess_key_sign src headers;
    let k := fst kk in
    let header' := match snd kk with
                   | Some id => Some (dset (match sm_header m with Some h => h | None => [] end) s_kid (PStr id))
                   | None => sm_header m
                   end in
    do _ <- check_use k;
    do _ <- check_key_type r k;
    let prot := match sm_protected m with
                | Some ((_ :: _) as d) => Some (json_b64encode d)
                | _ => None
                end in
    let si := (match prot with Some p => p | None => [] end) ++ 46 :: pseg in
    do sig <- alg_sign r k si;
    Ok {| js_protected := prot;
          js_header := match header' with Some ((_ :: _) as h) => Some h | _ => None end;
          js_signature := Some (b64e sig) |}.

  Definition sign_general_json (ms : list smember) (payload : bytes) rg src : res jval :=
    let pseg := b64e payload in
    do sgs <- map_res (fun m => sign_member pseg m rg src) ms;
    Ok (JGen (Some pseg) sgs).

  Definition sign_flattened_json (m : smember) (payload : bytes) rg src : res jval :=
    let pseg := b64e payload in
    do sg <- sign_member pseg m rg src;
    Ok (JFlat (Some pseg) sg).

  (* detach_json_content *)
  Definition detach_json (v : jval) : jval :=
    match v with
    | JFlat _ sg => JFlat None sg
    | JGen _ sgs => JGen None sgs
    end.

  (* ---------------- rfc7797/compact.py ---------------- *)
  Definition extract_compact97 (tok : bytes) (payload : option bytes) : res ext97 :=
    match split_dot tok with
    | [h; p; s] =>
        do protected <- decode_header h;
        do has <- py_in (PStr s_b64) protected;
        if negb has then Ok X97None
        else
          do b <- py_getitem_str protected s_b64;
          match b with
          | PBool true => Ok X97True
          | _ =>
              let pl := match payload with Some ((_ :: _) as x) => x | _ => p end in
              Ok (X97Obj {| co_protected := protected; co_payload := pl;
                            co_hseg := h; co_pseg := p; co_sseg := s |})
          end
    | _ => Err EValue
    end.

  Definition deserialize_compact97 (tok : bytes) (src : keysrc) (payload : option bytes)
             (algorithms : option (list str)) : res compact_obj :=
    do x <- extract_compact97 tok payload;
    match x with
    | X97None => deserialize_compact_rg tok src (reg15 algorithms)
    | X97True => deserialize_compact_rg tok src (reg97 algorithms)
    | X97Obj o =>
        let rg := reg97 algorithms in
        let headers := co_protected o in
        do _ <- check_header rg headers;
        do k <- guess_key src headers;
        do _ <- check_use k;
        do algv <- py_getitem_str headers s_alg;
        do r <- get_alg rg algv;
        do _ <- check_key_type r k;
        do sig <- b64d (co_sseg o);
        do b <- alg_verify r k (co_hseg o ++ 46 :: co_payload o) sig;
        if b then Ok o else jerr BadSignatureError
    end.

  Definition serialize_compact97 (lenient : bool) (protected : list (str * pv)) (payload : bytes)
             (src : keysrc) (algorithms : option (list str)) : res bytes :=
    match dget protected s_b64 with
    | None => serialize_compact_rg protected payload src (reg15 algorithms)
    | Some (PBool true) => serialize_compact_rg protected payload src (reg97 algorithms)
    | Some _ =>
        let rg := reg97 algorithms in
        do _ <- check_header rg (PDict protected);
        do algv <- py_getitem_str (PDict protected) s_alg;
        do r <- get_alg rg algv;
        do kk <- guess_key_sign src protected;
        let k := fst kk in
        let protected' := set_kid protected (snd kk) in
        do _ <- check_use k;
        do _ <- check_key_type r k;
        let hseg := json_b64encode protected' in
        do sig <- alg_sign r k (hseg ++ 46 :: payload);
        do u <- is_urlsafe lenient payload;
        if u then Ok (hseg ++ 46 :: payload ++ 46 :: b64e sig)
        else Ok (hseg ++ 46 :: 46 :: b64e sig)
    end.

  (* ---------------- rfc7797/json.py ---------------- *)
  (* [fixed]: fix01 refuses "b64" in the unprotected header when the value has
     a "protected" member *)
  Definition unprotected_b64 (h : option (list (str * pv))) : bool :=
    match h with Some h => dmem h s_b64 | None => false end.

  Definition extract_json97 (fixed : bool) (v : jval) : res (option json_obj) :=
    match v with
    | JGen _ _ => Ok None
    | JFlat p sg =>
        do m <- signature_to_member sg;
        do _ <- (if fixed && (match js_protected sg with Some _ => true | None => false end)
                          && unprotected_b64 (js_header sg)
                 then Err EValue else ok);
        do headers <- member_headers m;
        if negb (dmem headers s_b64) then Ok None
        else
          do payload <- of_opt p EKey;
          do _ <- of_opt (js_signature sg) EKey;
          Ok (Some {| jo_flat := true; jo_members := [m]; jo_payload := payload;
                      jo_sigs := [sg]; jo_pseg := payload |})
    end.

  Definition deserialize_json97 (fixed : bool) (v : jval) (src : keysrc)
             (algorithms : option (list str)) : res json_obj :=
    do x <- extract_json97 fixed v;
    match x with
    | None => deserialize_json_rg v src (reg15 algorithms)
    | Some o =>
        let rg := reg97 algorithms in
        match jo_members o, jo_sigs o with
        | [m], [sg] =>
            do headers <- member_headers m;
            do b <- py_getitem_str (PDict headers) s_b64;
            match b with
            | PBool true => deserialize_json_rg v src rg
            | _ =>
                do okv <- verify_signature m sg (jo_pseg o) rg src;
                if okv then Ok o else jerr BadSignatureError
            end
        | _, _ => Err EAssert
        end
    end.

  Definition serialize_json97 (fixed : bool) (m : smember) (payload : bytes)
             (src : keysrc) (algorithms : option (list str)) : res jval :=
    do _ <- (if fixed && (match sm_protected m with Some (_ :: _) => true | _ => false end)
                      && (match sm_header m with Some ((_ :: _) as h) => dmem h s_b64 | _ => false end)
             then Err EValue else ok);
    let headers := smember_headers m in
    match dget headers s_b64 with
    | None => sign_flattened_json m payload (reg15 algorithms) src
    | Some (PBool true) => sign_flattened_json m payload (reg97 algorithms) src
    | Some _ =>
        let rg := reg97 algorithms in
        do _ <- check_header rg (PDict headers);
        do kk <- guess_key_sign src headers;
        let k := fst kk in
        let header' := match snd kk with
                       | Some id => Some (dset (match sm_header m with Some h => h | None => [] end) s_kid (PStr id))
                       | None => sm_header m
                       end in
        do _ <- check_use k;
        do algv <- py_getitem_str (PDict headers) s_alg;
        do r <- get_alg rg algv;
        let prot := match sm_protected m with
                    | Some ((_ :: _) as d) => json_b64encode d
                    | _ => []
                    end in
        do sig <- alg_sign r k (prot ++ 46 :: payload);
        if utf8_ok payload then
          Ok (JFlat (Some payload)
                {| js_protected := match prot with [] => None | _ => Some prot end;
                   js_header := match header' with Some ((_ :: _) as h) => Some h | _ => None end;
                   js_signature := Some (b64e sig) |})
        else Err EValue
    end.
End Pipeline.
