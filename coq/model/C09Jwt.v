(* C09Jwt.v — Impl model of joserfc.jwt.encode / decode and
   joserfc.rfc7519.claims.convert_claims, with calendar.timegm(dt.utctimetuple())
   transcribed from CPython (datetime._ymd2ord, calendar.timegm).

   External code is a Section variable: the JWS / JWE transport
   (serialize_compact | encrypt_compact, deserialize_compact | decrypt_compact)
   and json.dumps(+ to_bytes) / json.loads.  Their contracts are Hypotheses of
   the proof Section (proofs/C09Proofs.v), never global assumptions. *)
From Model Require Import Base PyVal.
From Gen Require Import TablesC09.
Open Scope Z_scope.

(* ------------------------------------------------------------------ *)
(* datetime.datetime: fields + utcoffset() in whole seconds (None = naive) *)
Record dtime := mkdt {
  dt_y : Z; dt_mo : Z; dt_d : Z; dt_h : Z; dt_mi : Z; dt_s : Z; dt_us : Z;
  dt_off : option Z }.

(* datetime._is_leap *)
Definition is_leap (y : Z) : bool :=
  (y mod 4 =? 0) && (negb (y mod 100 =? 0) || (y mod 400 =? 0)).
(* datetime._days_before_year *)
Definition days_before_year (y : Z) : Z :=
  let y1 := y - 1 in y1 * 365 + y1 / 4 - y1 / 100 + y1 / 400.
(* datetime._DAYS_BEFORE_MONTH[1..12] *)
Definition dbm_table : list Z := [0; 31; 59; 90; 120; 151; 181; 212; 243; 273; 304; 334].
(* datetime._days_before_month *)
Definition days_before_month (y m : Z) : Z :=
  nth (Z.to_nat (m - 1)) dbm_table 0 + (if (2 <? m) && is_leap y then 1 else 0).
(* datetime._ymd2ord = date(y, m, d).toordinal() *)
Definition ymd2ord (y m d : Z) : Z := days_before_year y + days_before_month y m + d.
(* calendar._EPOCH_ORD = datetime.date(1970, 1, 1).toordinal() *)
Definition epoch_ord : Z := ymd2ord 1970 1 1.
(* days = datetime.date(year, month, 1).toordinal() - _EPOCH_ORD + day - 1 *)
Definition day_number (y m d : Z) : Z := ymd2ord y m 1 - epoch_ord + d - 1.
(* calendar.timegm((y, m, d, h, mi, s, ...)) *)
Definition timegm (y m d h mi s : Z) : Z :=
  let days := day_number y m d in
  let hours := days * 24 + h in
  let minutes := hours * 60 + mi in
  minutes * 60 + s.

Definition local_secs (t : dtime) : Z :=
  timegm (dt_y t) (dt_mo t) (dt_d t) (dt_h t) (dt_mi t) (dt_s t).

(* datetime range MINYEAR..MAXYEAR: utctimetuple() of an aware value computes
   self - offset, which raises OverflowError outside 0001-01-01 .. 9999-12-31 *)
Definition min_secs : Z := timegm 1 1 1 0 0 0.
Definition max_secs : Z := timegm 9999 12 31 23 59 59.

(* calendar.timegm(t.utctimetuple()): naive values are taken as UTC, aware
   ones are shifted by utcoffset(); microseconds are dropped (they are not part
   of a time tuple), which is the floor because 0 <= us *)
Definition numericdate (t : dtime) : res Z :=
  match dt_off t with
  | None => Ok (local_secs t)
  | Some o =>
      let u := local_secs t - o in
      if (u <? min_secs) || (max_secs <? u) then Err EOverflow else Ok u
  end.

(* ------------------------------------------------------------------ *)
(* claims handed to jwt.encode: a dict whose top-level values are JSON-ish
   Python values or datetime objects *)
(* CObj n: any other Python object (uuid.UUID, decimal.Decimal, ...), identified by a
   number; only a JSONEncoder subclass with a default() method can serialize it *)
Inductive cval := CV (v : pv) | CDt (t : dtime) | CObj (n : N).
Definition claims := list (str * cval).
Definition hdr := list (str * pv).

(* for k in [...]: claim = claims.get(k); if isinstance(claim, datetime): claims[k] = timegm(...)
   (in place: the returned claims are the caller's dict after the loop, also
   when a later key raises) *)
Fixpoint convert_keys (ks : list str) (c : claims) : claims * option exn :=
  match ks with
  | [] => (c, None)
  | k :: r =>
      match dget c k with
      | Some (CDt t) =>
          match numericdate t with
          | Ok n => convert_keys r (dset c k (CV (PInt n)))
          | Err e => (c, Some e)
          end
      | _ => convert_keys r c
      end
  end.

(* the claims as a JSON value, when every member is one (no datetime / foreign object left) *)
Fixpoint claims_pv (c : claims) : option (list (str * pv)) :=
  match c with
  | [] => Some []
  | (k, CV v) :: r => match claims_pv r with Some d => Some ((k, v) :: d) | None => None end
  | (_, CDt _) :: _ => None
  | (_, CObj _) :: _ => None
  end.

(* structural equality of values (used by the oracle tables of the Cases file
   and by the well-formedness predicate below) *)
Definition flt_eqb (a b : flt) : bool :=
  match a, b with
  | FFin n d, FFin m e => (n =? m) && (Pos.eqb d e)
  | FInf x, FInf y => Bool.eqb x y
  | FNan, FNan => true
  | _, _ => false
  end.

Fixpoint pv_eqb (a b : pv) {struct a} : bool :=
  match a, b with
  | PNone, PNone => true
  | PBool x, PBool y => Bool.eqb x y
  | PInt x, PInt y => x =? y
  | PFloat x, PFloat y => flt_eqb x y
  | PStr s, PStr t => str_eqb s t
  | PBytes s, PBytes t => beqb s t
  | PList l, PList m =>
      (fix go (l m : list pv) {struct l} : bool :=
         match l, m with
         | [], [] => true
         | x :: l', y :: m' => pv_eqb x y && go l' m'
         | _, _ => false
         end) l m
  | PDict d, PDict e =>
      (fix go (d e : list (str * pv)) {struct d} : bool :=
         match d, e with
         | [], [] => true
         | (k, x) :: d', (k2, y) :: e' => str_eqb k k2 && pv_eqb x y && go d' e'
         | _, _ => false
         end) d e
  | _, _ => false
  end.

Definition hdr_eqb (a b : hdr) : bool := pv_eqb (PDict a) (PDict b).

(* JSON values in the sense of the json contract: is_json and every object
   has pairwise distinct member names (Python dicts always do) *)
Fixpoint json_wf (v : pv) : bool :=
  match v with
  | PNone | PBool _ | PInt _ | PStr _ => true
  | PFloat (FFin _ _) => true
  | PFloat _ => false
  | PBytes _ => false
  | PList l => (fix go (l : list pv) : bool :=
                  match l with [] => true | x :: r => json_wf x && go r end) l
  | PDict d => keys_unique (dkeys d) &&
               (fix go (d : list (str * pv)) : bool :=
                  match d with [] => true | (_, x) :: r => json_wf x && go r end) d
  end.

(* except (TypeError, ValueError, RecursionError): in the json.loads oracle
   ERuntime stands for RecursionError (the only RuntimeError json.loads raises) *)
Definition is_payload_error (e : exn) : bool :=
  match e with EType | EValue | ERuntime => true | _ => false end.

Record enc_out := mkeo {
  eo_result : res bytes;        (* the token, or the exception *)
  eo_header : hdr;              (* the caller's header object after the call *)
  eo_work : hdr;                (* the dict built by encode and handed to the transport, after the call *)
  eo_claims : claims            (* the caller's claims object after the call *)
}.

Section Jwt.
  (* json.dumps(obj, ensure_ascii=False, separators=(",", ":")) followed by to_bytes,
     with the default encoder *)
  Variable json_dumps : pv -> res bytes.
  (* json.loads(payload, cls=decoder_cls) for the decoder_cls in use: ANY function *)
  Variable json_loads : bytes -> res pv.
  (* serialize_compact | encrypt_compact: gets the dict object built by encode
     and may write into it (kid of a key picked from a key set, epk, p2s, ...):
     result and final content of that dict *)
  Variable transport_encode : hdr -> bytes -> res bytes * hdr.
  (* deserialize_compact | decrypt_compact followed by .headers(), .payload | .plaintext *)
  Variable transport_decode : bytes -> res (hdr * bytes).

  (* _header = {"typ": "JWT", **header} : a new dict *)
  Definition typ_default (h : hdr) : hdr := dupdate default_header h.

  Definition convert_claims (c : claims) : claims * res bytes :=
    match convert_keys nd_keys c with
    | (c', Some e) => (c', Err e)
    | (c', None) =>
        (c', match claims_pv c' with
             | None => Err EType         (* datetime / foreign object: not JSON serializable *)
             | Some d => json_dumps (PDict d)
             end)
    end.

  Definition encode (h : hdr) (c : claims) : enc_out :=
    let w := typ_default h in
    match convert_claims c with
    | (c', Err e) => mkeo (Err e) h w c'
    | (c', Ok payload) =>
        let '(r, w') := transport_encode w payload in
        mkeo r h w' c'
    end.

  Definition decode (tok : bytes) : res (hdr * pv) :=
    match transport_decode tok with
    | Err e => Err e
    | Ok (h, payload) =>
        match json_loads payload with
        | Err e => if is_payload_error e then Err (EJose InvalidPayloadError) else Err e
        | Ok v => if is_dict v then Ok (h, v) else Err (EJose InvalidPayloadError)
        end
    end.
End Jwt.

(* ------------------------------------------------------------------ *)
(* The same with a caller-supplied encoder_cls: json.dumps(claims, ..., cls=encoder_cls)
   sees the converted claims dict as it is - a datetime or foreign object left in it is
   a TypeError only if the encoder's default() does not take it - so the codec is a
   function of the claims.  [encode] above is the instance [lift_dumps]. *)
Section JwtG.
  Variable json_dumps_c : claims -> res bytes.
  Variable transport_encode : hdr -> bytes -> res bytes * hdr.

  Definition convert_claims_g (c : claims) : claims * res bytes :=
    match convert_keys nd_keys c with
    | (c', Some e) => (c', Err e)
    | (c', None) => (c', json_dumps_c c')
    end.

  Definition encode_g (h : hdr) (c : claims) : enc_out :=
    let w := typ_default h in
    match convert_claims_g c with
    | (c', Err e) => mkeo (Err e) h w c'
    | (c', Ok payload) =>
        let '(r, w') := transport_encode w payload in
        mkeo r h w' c'
    end.
End JwtG.

Definition lift_dumps (json_dumps : pv -> res bytes) : claims -> res bytes :=
  fun c => match claims_pv c with None => Err EType | Some d => json_dumps (PDict d) end.

(* ------------------------------------------------------------------ *)
(* jwt.encode(header, claims, key, algorithms, registry, encoder_cls) and
   jwt.decode(value, key, algorithms, registry, decoder_cls) with their optional
   arguments.  Keys, registries, encoder and decoder classes are identified by
   numbers (object identity); of a registry the model only looks at
   isinstance(registry, JWERegistry). *)
Record targs := mkta {
  ta_key : N;                          (* the key argument, passed through unchanged *)
  ta_algs : option (list str);         (* algorithms= *)
  ta_reg : option (bool * N)           (* registry=: (isinstance(_, JWERegistry), identity) *)
}.

Definition reg_is_jwe (r : option (bool * N)) : bool :=
  match r with Some (true, _) => true | _ => false end.

Section JwtApi.
  Variable json_dumps : option N -> claims -> res bytes.      (* by encoder_cls *)
  Variable json_loads : option N -> bytes -> res pv.          (* by decoder_cls *)
  Variable jws_encode jwe_encode : hdr -> bytes -> targs -> res bytes * hdr.
  Variable jws_decode jwe_decode : bytes -> targs -> res (hdr * bytes).

  Definition select_encode (a : targs) : hdr -> bytes -> res bytes * hdr :=
    fun w p => if reg_is_jwe (ta_reg a) then jwe_encode w p a else jws_encode w p a.
  Definition select_decode (a : targs) : bytes -> res (hdr * bytes) :=
    fun t => if reg_is_jwe (ta_reg a) then jwe_decode t a else jws_decode t a.

  Definition jwt_encode (h : hdr) (c : claims) (a : targs) (encoder_cls : option N) : enc_out :=
    encode_g (json_dumps encoder_cls) (select_encode a) h c.
  Definition jwt_decode (tok : bytes) (a : targs) (decoder_cls : option N) : res (hdr * pv) :=
    decode (json_loads decoder_cls) (select_decode a) tok.
End JwtApi.
