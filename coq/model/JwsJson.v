(* JwsJson.v — json.loads / json.dumps of model/Jws.v given by the Gallina JSON
   model (model/Json.v): json.dumps(ensure_ascii=True, separators=(",",":")) =
   json_print; json.loads = Json.json_loads on ASCII texts (PErr = ValueError;
   PUnsup = a float / NaN token, outside the Gallina fragment). *)
From Model Require Import Json Jws.
Open Scope N_scope.

Definition g_loads (b : bytes) : res pv :=
  match Json.json_loads b with
  | POk v => Ok v
  | PErr => Err EValue
  | PUnsup => Err EOracleMiss
  end.
Definition g_dumps (v : pv) : bytes := json_print v.
Definition g_hok (h : list (str * pv)) : bool := json_ok (PDict h).
