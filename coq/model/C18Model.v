(* C18Model.v — draw discipline of the encrypt side of joserfc and of key
   generation.  What is modelled is WHICH random draws are made, of which size,
   in which order, and where each drawn value ends up in the produced token;
   not the values themselves (the CSPRNG is external).

   world  = a draw counter.  [do_draw s n] stands for secrets.token_bytes(n)
   at call site [s] (or, for the native sites, for the EC / OKP / RSA key
   generator of the crypto backend): it returns a [draw] record carrying the
   current counter as its index and advances the counter by one.

   Transcribed functions (src/joserfc):
     rfc7516/message.py  perform_encrypt, pre_encrypt_recipients,
                         __prepare_recipient_algorithm,
                         __pre_encrypt_direct_mode, post_encrypt_recipients
     rfc7516/models.py   JWEEncModel.generate_cek / generate_iv,
                         JWEKeyAgreement.prepare_ephemeral_key
     rfc7518/jwe_algs.py DirectAlgModel.compute_cek, RSAAlgModel.encrypt_cek,
                         AESAlgModel.encrypt_cek, AESGCMAlgModel.encrypt_cek,
                         PBES2HSAlgModel.encrypt_cek, ECDHESAlgModel.*
     drafts/jwe_ecdh_1pu.py ECDH1PUAlgModel._check_enc / __encrypt_agreed_upon_key
     rfc7518/oct_key.py  OctKey.generate_key
     rfc7518/rsa_key.py  RSAKey.generate_key
     rfc7518/ec_key.py   ECKey.generate_key / ECBinding.generate_private_key
     rfc8037/okp_key.py  OKPKey.generate_key
   The algorithm tables are arguments (instantiated with coq/gen/Tables.v). *)
From Model Require Import Base TableTypes.
From Gen Require Import Tables.
Open Scope string_scope.
Open Scope list_scope.
Open Scope N_scope.

(* ---------- draws ---------- *)
Inductive site :=
| SCek | SIv | SGcmIv | SP2s | SOct          (* secrets.token_bytes call sites *)
| SEC (crv : string) | SOKP (crv : string) | SRSA (bits : N).   (* native generators *)

Record draw := { d_site : site; d_size : N; d_idx : N }.
Record world := { w_ctr : N }.

Definition site_eqb (a b : site) : bool :=
  match a, b with
  | SCek, SCek | SIv, SIv | SGcmIv, SGcmIv | SP2s, SP2s | SOct, SOct => true
  | SEC x, SEC y | SOKP x, SOKP y => String.eqb x y
  | SRSA x, SRSA y => N.eqb x y
  | _, _ => false
  end.
Definition draw_eqb (a b : draw) : bool :=
  site_eqb (d_site a) (d_site b) && N.eqb (d_size a) (d_size b) && N.eqb (d_idx a) (d_idx b).

Definition is_iv (d : draw) := match d_site d with SIv => true | _ => false end.
Definition is_cek (d : draw) := match d_site d with SCek => true | _ => false end.
Definition is_gcmiv (d : draw) := match d_site d with SGcmIv => true | _ => false end.
Definition is_p2s (d : draw) := match d_site d with SP2s => true | _ => false end.
Definition is_oct (d : draw) := match d_site d with SOct => true | _ => false end.
Definition is_native (d : draw) :=
  match d_site d with SEC _ | SOKP _ | SRSA _ => true | _ => false end.

(* ---------- the monad: result, draws made (in order), new world ---------- *)
Record out (A : Type) := mkout { o_res : res A; o_draws : list draw; o_world : world }.
Arguments mkout {A}. Arguments o_res {A}. Arguments o_draws {A}. Arguments o_world {A}.
Definition M (A : Type) := world -> out A.

Definition ret {A} (a : A) : M A := fun w => mkout (Ok a) [] w.
Definition fail {A} (e : exn) : M A := fun w => mkout (Err e) [] w.
Definition do_draw (s : site) (n : N) : M draw := fun w =>
  let d := {| d_site := s; d_size := n; d_idx := w_ctr w |} in
  mkout (Ok d) [d] {| w_ctr := w_ctr w + 1 |}.
Definition bindM {A B} (m : M A) (f : A -> M B) : M B := fun w =>
  let r := m w in
  match o_res r with
  | Ok a => let r2 := f a (o_world r) in
            mkout (o_res r2) (o_draws r ++ o_draws r2) (o_world r2)
  | Err e => mkout (Err e) (o_draws r) (o_world r)
  end.
Notation "'let!' x ':=' m 'in' f" := (bindM m (fun x => f))
  (at level 200, x name, m at level 100, f at level 200).
Notation "'let!' ' p ':=' m 'in' f" := (bindM m (fun x => let p := x in f))
  (at level 200, p pattern, m at level 100, f at level 200).
Definition guard (b : bool) (e : exn) : M unit := if b then ret tt else fail e.

(* ---------- inputs ---------- *)
Inductive keydesc :=
| KOct (bits : N)            (* len(raw_value) * 8 *)
| KRSA (bits : N)            (* modulus size *)
| KEC (crv : string)
| KOKP (crv : string).

Definition kty (k : keydesc) : string :=
  match k with KOct _ => "oct" | KRSA _ => "RSA" | KEC _ => "EC" | KOKP _ => "OKP" end.

Record recip := {
  r_alg : string;                 (* "alg" of recipient.headers() *)
  r_key : keydesc;                (* recipient.recipient_key *)
  r_has_p2s : bool;               (* "p2s" in recipient.headers() before encryption *)
  r_p2c : option N;               (* "p2c" of recipient.headers() before encryption *)
  r_preset_epk : option keydesc;  (* recipient.ephemeral_key pre-set by the caller *)
  r_sender : option keydesc       (* recipient.sender_key (ECDH-1PU) *)
}.

Record msg := { m_enc : string; m_recips : list recip }.

(* ---------- outputs: where the draws end up in the token ---------- *)
Inductive epk_src := EpkDrawn (d : draw) | EpkPreset.
Inductive cek_src := CekNone | CekDrawn (d : draw) | CekKey | CekAgreed.

Record rview := {
  v_epk : option epk_src;       (* "epk" header member *)
  v_gcm_iv : option draw;       (* "iv" header member of A*GCMKW *)
  v_p2s : option draw;          (* "p2s" header member when generated *)
  v_p2c : option N              (* "p2c" header member of PBES2 *)
}.
Definition rv_none := {| v_epk := None; v_gcm_iv := None; v_p2s := None; v_p2c := None |}.

Record token := { t_iv : draw; t_cek : cek_src; t_recips : list rview }.

(* ---------- table access ---------- *)
Definition find_alg (t : list jwe_alg_row) (n : string) : option jwe_alg_row :=
  find (fun r => String.eqb (ea_name r) n) t.
Definition find_enc (t : list jwe_enc_row) (n : string) : option jwe_enc_row :=
  find (fun r => String.eqb (ee_name r) n) t.

Definition fam (a : jwe_alg_row) (f : string) : bool := String.eqb (ea_family a) f.
Definition is_agreement (a : jwe_alg_row) : bool := fam a "ECDHES" || fam a "ECDH1PU".
Definition check_key_type (a : jwe_alg_row) (k : keydesc) : bool :=
  existsb (String.eqb (kty k)) (ea_key_types a).

(* ---------- key generation ---------- *)
(* ECBinding.generate_private_key: the name must be a registered curve *)
Definition gen_ec (crv : string) : M draw :=
  match find (fun r => String.eqb (cv_name r) crv) ec_curves with
  | Some r => do_draw (SEC crv) (cv_bits r)
  | None => fail EValue
  end.
(* OKPKey.generate_key: crv must be in PRIVATE_KEYS_MAP *)
Definition gen_okp (crv : string) : M draw :=
  if existsb (fun r => String.eqb (fst (fst r)) crv) okp_curves
  then do_draw (SOKP crv) 0 else fail EValue.
(* recipient_key.generate_key(recipient_key.curve_name, private=True) *)
Definition gen_like (k : keydesc) : M draw :=
  match k with
  | KEC c => gen_ec c
  | KOKP c => gen_okp c
  | _ => fail EAttr      (* oct / RSA keys have no curve_name (not reachable: the key type check comes first) *)
  end.

(* OctKey.generate_key(key_size, private=...) *)
Definition gen_oct (bits : Z) (private : bool) : M draw :=
  if negb private then fail EValue
  else if negb (bits mod 8 =? 0)%Z then fail EValue
  else if (bits / 8 <? 0)%Z then fail EValue       (* secrets.token_bytes(negative) raises ValueError *)
  else do_draw SOct (Z.to_N (bits / 8)).

(* RSAKey.generate_key(key_size): joserfc's own checks, then the backend
   generator, which refuses sizes below its own minimum [native_min]
   (1024 for the installed backend; an argument, not part of joserfc) *)
Definition gen_rsa (native_min : N) (bits : Z) : M draw :=
  if (bits <? 512)%Z then fail EValue
  else if negb (bits mod 8 =? 0)%Z then fail EValue
  else let! d := do_draw (SRSA (Z.to_N bits)) (Z.to_N bits) in
       if Z.to_N bits <? native_min then fail EValue else ret d.

(* ---------- encryption ---------- *)
Definition gcmkw_iv_octets : N := 96 / 8.     (* iv_size = 96 in AESGCMAlgModel.encrypt_cek *)
Definition pbes2_salt_octets : N := 16.       (* secrets.token_bytes(16) in PBES2HSAlgModel.encrypt_cek *)

(* key.exchange_derive_key(pub): ECKey needs equal curve names, OKPKey needs
   two X25519 or two X448 keys *)
Definition exch_ok (priv pub : keydesc) : bool :=
  match priv, pub with
  | KEC a, KEC b => String.eqb a b
  | KOKP a, KOKP b => String.eqb a b && (String.eqb a "X25519" || String.eqb a "X448")
  | _, _ => false
  end.

(* the ephemeral key actually used *)
Definition epk_key (r : recip) : keydesc :=
  match r_preset_epk r with Some k => k | None => r_key r end.

(* JWEKeyAgreement.prepare_ephemeral_key *)
Definition prepare_epk (a : jwe_alg_row) (r : recip) : M epk_src :=
  let! _ := guard (check_key_type a (r_key r)) (EJose InvalidKeyTypeError) in
  match r_preset_epk r with
  | Some _ => ret EpkPreset
  | None => let! d := gen_like (r_key r) in ret (EpkDrawn d)
  end.

(* encrypt_agreed_upon_key[_with_tag] of ECDH-ES / ECDH-1PU: only the failure modes *)
Definition agree (a : jwe_alg_row) (e : jwe_enc_row) (r : recip) : M unit :=
  if fam a "ECDH1PU" then
    let! _ := guard (negb (negb (String.eqb (ea_wrap a) "") && negb (String.eqb (ee_family e) "CBCHS")))
                    (EJose InvalidEncryptionAlgorithmError) in
    match r_sender r with
    | None => fail EAssert
    | Some s =>
        let! _ := guard (exch_ok s (r_key r)) (EJose InvalidExchangeKeyError) in
        guard (exch_ok (epk_key r) (r_key r)) (EJose InvalidExchangeKeyError)
    end
  else guard (exch_ok (epk_key r) (r_key r)) (EJose InvalidExchangeKeyError).

(* `if not cek` of pre_encrypt_recipients: b"" or not yet set *)
Definition cek_empty (c : cek_src) : bool :=
  match c with
  | CekNone => true
  | CekDrawn d => d_size d =? 0
  | _ => false
  end.

Definition key_bits (k : keydesc) : N :=
  match k with KOct b => b | KRSA b => b | _ => 0 end.
Definition alg_key_size (a : jwe_alg_row) : N :=
  match ea_key_size a with Some n => n | None => 0 end.

(* alg.encrypt_cek(cek, recipient) for key wrapping / key encryption *)
Definition encrypt_cek (a : jwe_alg_row) (r : recip) : M rview :=
  if fam a "RSA" then
    let! _ := guard (check_key_type a (r_key r)) (EJose InvalidKeyTypeError) in
    let! _ := guard (negb (key_bits (r_key r) <? alg_key_size a)) (EJose InvalidKeyLengthError) in
    ret rv_none
  else if fam a "AESKW" then
    let! _ := guard (check_key_type a (r_key r)) (EJose InvalidKeyTypeError) in
    let! _ := guard (key_bits (r_key r) =? alg_key_size a) (EJose InvalidKeyLengthError) in
    ret rv_none
  else if fam a "AESGCMKW" then
    let! _ := guard (check_key_type a (r_key r)) (EJose InvalidKeyTypeError) in
    let! _ := guard (key_bits (r_key r) =? alg_key_size a) (EJose InvalidKeyLengthError) in
    let! d := do_draw SGcmIv gcmkw_iv_octets in
    ret {| v_epk := None; v_gcm_iv := Some d; v_p2s := None; v_p2c := None |}
  else if fam a "PBES2" then
    let! s := (if r_has_p2s r then ret None
               else let! d := do_draw SP2s pbes2_salt_octets in ret (Some d)) in
    let p2c := match r_p2c r with Some c => c | None => ea_p2c a end in
    let! _ := guard (check_key_type a (r_key r)) (EJose InvalidKeyTypeError) in
    ret {| v_epk := None; v_gcm_iv := None; v_p2s := s; v_p2c := Some p2c |}
  else fail EAssert.

(* __pre_encrypt_direct_mode *)
Definition direct_mode (a : jwe_alg_row) (e : jwe_enc_row) (r : recip) : M cek_src :=
  if is_agreement a then
    let! _ := agree a e r in ret CekAgreed
  else
    let! _ := guard (check_key_type a (r_key r)) (EJose InvalidKeyTypeError) in
    let! _ := guard (key_bits (r_key r) =? ee_cek_size e) (EJose InvalidKeyLengthError) in
    ret CekKey.

(* one delayed key agreement task: (alg, recipient) *)
Definition task := (jwe_alg_row * recip)%type.

(* one iteration of the loop of pre_encrypt_recipients; [many] = (len(recipients) > 1).
   Result: the CEK after the iteration, what the recipient's header/encrypted key
   are made of, and the delayed key agreement task if any. *)
Definition step (algs : list jwe_alg_row) (e : jwe_enc_row) (many : bool)
           (r : recip) (cek : cek_src) : M (cek_src * rview * list task) :=
  match find_alg algs (r_alg r) with
  | None => fail (EJose UnsupportedAlgorithmError)
  | Some a =>
      (* __prepare_recipient_algorithm *)
      let! epk := (if is_agreement a then let! s := prepare_epk a r in ret (Some s) else ret None) in
      let epkview := {| v_epk := epk; v_gcm_iv := None; v_p2s := None; v_p2c := None |} in
      if ea_direct a then
        let! _ := guard (negb many) (EJose ConflictAlgorithmError) in
        let! c := direct_mode a e r in
        ret (c, epkview, [])
      else
        let! c := (if cek_empty cek
                   then let! d := do_draw SCek (ee_cek_size e / 8) in ret (CekDrawn d)
                   else ret cek) in
        if is_agreement a then ret (c, epkview, [(a, r)])
        else let! v := encrypt_cek a r in ret (c, v, [])
  end.

Fixpoint pre_loop (algs : list jwe_alg_row) (e : jwe_enc_row) (many : bool)
         (rs : list recip) (cek : cek_src) : M (cek_src * list rview * list task) :=
  match rs with
  | [] => ret (cek, [], [])
  | r :: rest =>
      let! '(c, v, t) := step algs e many r cek in
      let! '(c', vs, ts) := pre_loop algs e many rest c in
      ret (c', v :: vs, t ++ ts)
  end.

(* post_encrypt_recipients *)
Fixpoint post_loop (e : jwe_enc_row) (ts : list task) : M unit :=
  match ts with
  | [] => ret tt
  | (a, r) :: rest => let! _ := agree a e r in post_loop e rest
  end.

(* perform_encrypt *)
Definition encrypt (algs : list jwe_alg_row) (encs : list jwe_enc_row) (m : msg) : M token :=
  match find_enc encs (m_enc m) with
  | None => fail (EJose UnsupportedAlgorithmError)
  | Some e =>
      let many := (1 <? lenN (m_recips m)) in
      let! '(cek, vs, ts) := pre_loop algs e many (m_recips m) CekNone in
      let! iv := do_draw SIv (ee_iv_size e / 8) in
      (* enc.encrypt(plaintext, cek, iv, aad): an empty CEK (no recipient) is refused by the cipher *)
      let! _ := guard (negb (cek_empty cek)) EValue in
      let! _ := post_loop e ts in
      ret {| t_iv := iv; t_cek := cek; t_recips := vs |}
  end.

(* ---------- histories ---------- *)
Inductive call :=
| CallEncrypt (m : msg)
| CallGenOct (bits : Z) (private : bool)
| CallGenRSA (bits : Z)
| CallGenEC (crv : string)
| CallGenOKP (crv : string).

(* draws that end up in the output of a successful call *)
Definition opt_list {A} (o : option A) : list A := match o with Some a => [a] | None => [] end.
Definition epk_draws (v : rview) : list draw :=
  match v_epk v with Some (EpkDrawn d) => [d] | _ => [] end.
Definition cek_draws (c : cek_src) : list draw := match c with CekDrawn d => [d] | _ => [] end.
Definition emitted_token (t : token) : list draw :=
  [t_iv t] ++ cek_draws (t_cek t)
  ++ flat_map epk_draws (t_recips t)
  ++ flat_map (fun v => opt_list (v_gcm_iv v)) (t_recips t)
  ++ flat_map (fun v => opt_list (v_p2s v)) (t_recips t).

Definition lift_emit {A} (emit : A -> list draw) (r : out A) : list draw * list draw * world :=
  (match o_res r with Ok a => emit a | Err _ => [] end, o_draws r, o_world r).

(* -> (emitted draws, all draws, world) *)
Definition run_call (algs : list jwe_alg_row) (encs : list jwe_enc_row) (native_min : N)
           (c : call) (w : world) : list draw * list draw * world :=
  match c with
  | CallEncrypt m => lift_emit emitted_token (encrypt algs encs m w)
  | CallGenOct b p => lift_emit (fun d => [d]) (gen_oct b p w)
  | CallGenRSA b => lift_emit (fun d => [d]) (gen_rsa native_min b w)
  | CallGenEC c => lift_emit (fun d => [d]) (gen_ec c w)
  | CallGenOKP c => lift_emit (fun d => [d]) (gen_okp c w)
  end.

Fixpoint run_history (algs : list jwe_alg_row) (encs : list jwe_enc_row) (native_min : N)
         (h : list call) (w : world) : list draw * list draw * world :=
  match h with
  | [] => ([], [], w)
  | c :: rest =>
      let '(em, ds, w1) := run_call algs encs native_min c w in
      let '(em2, ds2, w2) := run_history algs encs native_min rest w1 in
      (em ++ em2, ds ++ ds2, w2)
  end.
