(* C15Spec.v — the property "a header is accepted only if ..." written from the
   text of C15, independently of the code: a declarative reading [header_ok_P]
   (quantifiers over registry entries / header members) and an executable one
   [header_ok] that the harness also evaluates against its own Python oracle. *)
From Model Require Import Base PyVal TableTypes C15Registry.
Open Scope N_scope.

(* ---------- JSON types ---------- *)
Inductive jtag := JNull | JBool | JInteger | JReal | JString | JArray | JObject | JNotJson.
Definition jtag_of (v : pv) : jtag :=
  match v with
  | PNone => JNull | PBool _ => JBool | PInt _ => JInteger | PFloat _ => JReal
  | PStr _ => JString | PList _ => JArray | PDict _ => JObject | PBytes _ => JNotJson
  end.
Definition jtag_eqb (a b : jtag) : bool :=
  match a, b with
  | JNull, JNull | JBool, JBool | JInteger, JInteger | JReal, JReal | JString, JString
  | JArray, JArray | JObject, JObject | JNotJson, JNotJson => true
  | _, _ => false
  end.

Definition starts_with (p s : str) : bool := is_prefix p s.
Definition str_is_one_of (c : list string) (v : pv) : bool :=
  match v with PStr s => existsb (fun x => str_eqb s (asc x)) c | _ => false end.

(* the JSON type demanded by a registry entry of kind k:
   str: a string; url: a string starting with http:// or https://; int: an
   integer number (true/false are not numbers); bool: true/false; list[str]:
   an array of strings; jwk: an object; none: nothing is acceptable;
   choices: one of the listed strings, or an array of them (choice-str: only
   the former, choice-list: only the latter) *)
Definition json_type_ok (k : vkind) (v : pv) : bool :=
  match k with
  | VStr => jtag_eqb (jtag_of v) JString
  | VUrl => match v with
            | PStr s => starts_with (asc "http://") s || starts_with (asc "https://") s
            | _ => false
            end
  | VInt => jtag_eqb (jtag_of v) JInteger
  | VBool => jtag_eqb (jtag_of v) JBool
  | VListStr => match v with
                | PList l => forallb (fun x => jtag_eqb (jtag_of x) JString) l
                | _ => false
                end
  | VJwk => jtag_eqb (jtag_of v) JObject
  | VNone => false
  | VChoices c => match v with
                  | PList l => forallb (str_is_one_of c) l
                  | _ => str_is_one_of c v
                  end
  | VChoiceStr c => str_is_one_of c v            (* exactly one of the listed strings *)
  | VChoiceList c => match v with                (* an array of listed strings *)
                     | PList l => forallb (str_is_one_of c) l
                     | _ => false
                     end
  | VUnknown _ => false
  end.

(* ---------- declarative spec ---------- *)
Definition required_present_P (reg : list hparam) (h : hdr) : Prop :=
  forall p, In p reg -> hp_required p = true -> exists v, dget h (pname p) = Some v.

Definition types_ok_P (reg : list hparam) (h : hdr) : Prop :=
  forall p v, In p reg -> dget h (pname p) = Some v -> json_type_ok (hp_kind p) v = true.

(* every name listed in crit is present in the header (crit itself being an array of strings) *)
Definition crit_ok_P (h : hdr) : Prop :=
  forall c, dget h crit_name = Some c ->
    exists l, c = PList l /\
      forall x, In x l -> exists s, x = PStr s /\ exists v, dget h s = Some v.

Definition no_unregistered_P (reg : list hparam) (h : hdr) : Prop :=
  forall k, In k (dkeys h) -> exists p, In p reg /\ pname p = k.

(* b64 is accompanied by a crit that lists it *)
Definition b64_ok_P (h : hdr) : Prop :=
  (exists v, dget h b64_name = Some v) ->
  exists l, dget h crit_name = Some (PList l) /\ In (PStr b64_name) l.

Definition header_ok_P (reg : list hparam) (strict : bool) (h : hdr) : Prop :=
  required_present_P reg h /\ types_ok_P reg h /\ crit_ok_P h /\
  (strict = true -> no_unregistered_P reg h).

(* ---------- executable spec ---------- *)
Definition required_present (reg : list hparam) (h : hdr) : bool :=
  forallb (fun p => implb (hp_required p) (dmem h (pname p))) reg.

Definition types_ok (reg : list hparam) (h : hdr) : bool :=
  forallb (fun p => match dget h (pname p) with
                    | Some v => json_type_ok (hp_kind p) v
                    | None => true
                    end) reg.

Definition crit_ok (h : hdr) : bool :=
  match dget h crit_name with
  | None => true
  | Some (PList l) => forallb (fun x => match x with PStr s => dmem h s | _ => false end) l
  | Some _ => false
  end.

Definition no_unregistered (reg : list hparam) (h : hdr) : bool :=
  forallb (fun k => existsb (fun p => str_eqb (pname p) k) reg) (dkeys h).

Definition b64_ok (h : hdr) : bool :=
  if dmem h b64_name then
    match dget h crit_name with
    | Some (PList l) =>
        existsb (fun x => match x with PStr s => str_eqb s b64_name | _ => false end) l
    | _ => false
    end
  else true.

Definition header_ok (reg : list hparam) (strict : bool) (h : hdr) : bool :=
  required_present reg h && types_ok reg h && crit_ok h && implb strict (no_unregistered reg h).

Definition header_ok7797 (reg : list hparam) (strict : bool) (h : hdr) : bool :=
  header_ok reg strict h && b64_ok h.

(* JWE: in addition the alg value names a registered and permitted key management
   algorithm, whose own parameters are type-checked, required when
   [check_more] (the consuming side) and count as registered for strict mode *)
Definition alg_permitted (recommended : list string) (allowed : option (list string)) (s : str) : bool :=
  match allowed with
  | Some (a :: l) => existsb (fun x => str_eqb s (asc x)) (a :: l)
  | _ => existsb (fun x => str_eqb s (asc x)) recommended
  end.

Definition header_ok_jwe (tbl : list jwe_alg_row) (recommended : list string)
           (allowed : option (list string)) (reg : list hparam) (strict : bool)
           (h : hdr) (check_more : bool) : bool :=
  header_ok reg false h &&
  match dget h alg_name with
  | Some (PStr s) =>
      match find (fun r => str_eqb s (asc (ea_name r))) tbl with
      | Some row =>
          alg_permitted recommended allowed s &&
          implb check_more (required_present (ea_more row) h) &&
          types_ok (ea_more row) h &&
          implb strict (no_unregistered (reg ++ ea_more row) h)
      | None => false
      end
  | _ => false
  end.

(* registries whose validators were all identified by the extractor *)
Definition kind_known (k : vkind) : bool := match k with VUnknown _ => false | _ => true end.
Definition reg_known (reg : list hparam) : bool := forallb (fun p => kind_known (hp_kind p)) reg.
Definition tbl_known (tbl : list jwe_alg_row) : bool := forallb (fun r => reg_known (ea_more r)) tbl.

Definition reg_has (reg : list hparam) (n : str) (k : vkind -> bool) (needs_required : bool) : bool :=
  existsb (fun p => str_eqb (pname p) n && k (hp_kind p) && implb needs_required (hp_required p)) reg.
Definition is_VListStr (k : vkind) : bool := match k with VListStr => true | _ => false end.
Definition is_VStr (k : vkind) : bool := match k with VStr => true | _ => false end.
Definition is_VBool (k : vkind) : bool := match k with VBool => true | _ => false end.
(* alg keeps its required str entry *)
Definition reg_has_alg (reg : list hparam) : bool := reg_has reg alg_name is_VStr true.

(* ---------- merged headers ---------- *)
(* the last binding of k in a part (JSON objects have unique names; update()
   lets the last one win anyway) *)
Fixpoint dget_last {A} (d : list (str * A)) (k : str) : option A :=
  match d with
  | [] => None
  | (k', v) :: r =>
      match dget_last r k with
      | Some w => Some w
      | None => if str_eqb k' k then Some v else None
      end
  end.
Fixpoint last_some {A} (l : list (option A)) : option A :=
  match l with
  | [] => None
  | x :: r => match last_some r with Some w => Some w | None => x end
  end.
