(* C16Model.v — Impl model of the CONSUME front-ends of joserfc over the dynamic
   universe [pv]: every operation the code applies to attacker-controlled values
   (`in`, `[]`, `.get`, iteration, truthiness, `update`, `to_bytes`) is the total
   function of Model.PyVal that raises what CPython raises.

   JSON parsing, crypto, key import and zlib are members of the record [prims]
   (instantiated by Section variables with an exception contract in
   proofs/C16Proofs.v, by recorded oracle tables in model/C16Cases.v).

   The model follows the code of /repo/src/joserfc structurally.  It is
   parameterised by a record [guards]: one boolean per defensive check that the
   property needs.  [guards] = all true is the code with the proposed fixes
   fix01..fix11 applied; a false flag is the code WITHOUT that check (the tree
   at cfb15c3).  harness/tables_c16.py probes /repo and writes the flags of the
   tree under test to gen/TablesC16.v ([repo_guards]). *)
From Coq Require Import String List ZArith NArith Bool Lia DecimalString.
From Model Require Import Base PyVal TableTypes B64.
From Gen Require Import Tables.
Import ListNotations.
Open Scope N_scope.

(* ------------------------------------------------------------------ *)
(* guards (proposed fixes)                                             *)
(* ------------------------------------------------------------------ *)
Record guards := {
  g_dict_jws_compact : bool; (* fix01 rfc7515/compact.py:decode_header  isinstance(protected, dict) *)
  g_dict_jwe_compact : bool; (* fix01 rfc7516/compact.py:extract_compact *)
  g_dict_jws_json : bool;    (* fix01 rfc7515/json.py:__signature_to_member *)
  g_dict_7797_json : bool;   (* fix01 rfc7797/json.py:_extract_json *)
  g_dict_jwe_json : bool;    (* fix01 rfc7516/json.py:__extract_protected *)
  g_crit : bool;             (* fix02 registry.py:check_crit_header  is_list_str(crit) *)
  g_enc_present : bool;      (* fix03 rfc7516/message.py:_perform_decrypt  "enc" in protected *)
  g_algstr_jwe : bool;       (* fix04 rfc7516/registry.py:_check_algorithm  isinstance(name, str) *)
  g_algstr_jws : bool;       (* fix04 rfc7515/registry.py:get_alg *)
  g_crv_ec : bool;           (* fix05 rfc7518/ec_key.py import_*_key: crv in _dss_curves *)
  g_crv_okp : bool;          (* fix05 rfc8037/okp_key.py import_*_key *)
  g_p2c : bool;              (* fix06 rfc7518/jwe_algs.py:compute_derived_key  1 <= p2c <= 2^31-1 *)
  g_zlib : bool;             (* fix07 rfc7518/jwe_zips.py:decompress  except zlib.error *)
  g_eddsa : bool;            (* fix08 rfc8037/jws_eddsa.py:verify  isinstance check raises ValueError *)
  g_kt7797 : bool;           (* fix09 rfc7797/compact.py:deserialize_compact  alg.check_key_type(key) *)
  g_ek_default : bool;       (* fix10 rfc7516/json.py: encrypted_key absent = b"" *)
  g_rec_header : bool;       (* fix11 util.py:json_b64decode  except RecursionError *)
  g_rec_claims : bool;       (* fix11 jwt.py:decode  except RecursionError *)
  g_use_str : bool;          (* fix12 rfc7517/models.py:validate_dict_key_use_operations  isinstance(use, str) *)
  g_1pu_sender : bool;       (* fix13 drafts/jwe_ecdh_1pu.py: sender_key is None -> InvalidExchangeKeyError *)
  g_exchange_type : bool;    (* fix14 rfc7518/ec_key.py:exchange_derive_key  isinstance(key, ECKey) *)
  g_1pu_keytype : bool;      (* fix15 drafts/jwe_ecdh_1pu.py: self.check_key_type(recipient_key) *)
  g_kid_repr : bool          (* fix16 _keys.py:get_by_kid: a kid that is not a str is not formatted into the message *)
}.

Definition all_guards : guards :=
  {| g_dict_jws_compact := true; g_dict_jwe_compact := true; g_dict_jws_json := true;
     g_dict_7797_json := true; g_dict_jwe_json := true; g_crit := true; g_enc_present := true;
     g_algstr_jwe := true; g_algstr_jws := true; g_crv_ec := true; g_crv_okp := true;
     g_p2c := true; g_zlib := true; g_eddsa := true; g_kt7797 := true; g_ek_default := true;
     g_rec_header := true; g_rec_claims := true; g_use_str := true;
     g_1pu_sender := true; g_exchange_type := true; g_1pu_keytype := true; g_kid_repr := true |}.

Definition guards_list (g : guards) : list bool :=
  [g_dict_jws_compact g; g_dict_jwe_compact g; g_dict_jws_json g; g_dict_7797_json g;
   g_dict_jwe_json g; g_crit g; g_enc_present g; g_algstr_jwe g; g_algstr_jws g; g_crv_ec g;
   g_crv_okp g; g_p2c g; g_zlib g; g_eddsa g; g_kt7797 g; g_ek_default g; g_rec_header g;
   g_rec_claims g; g_use_str g; g_1pu_sender g; g_exchange_type g; g_1pu_keytype g;
   g_kid_repr g].


(* guards from a list of 23 booleans in the order of [guards_list] (missing = true) *)
Definition guards_of (l : list bool) : guards :=
  let n i := nth i l true in
  {| g_dict_jws_compact := n 0%nat; g_dict_jwe_compact := n 1%nat; g_dict_jws_json := n 2%nat;
     g_dict_7797_json := n 3%nat; g_dict_jwe_json := n 4%nat; g_crit := n 5%nat; g_enc_present := n 6%nat;
     g_algstr_jwe := n 7%nat; g_algstr_jws := n 8%nat; g_crv_ec := n 9%nat; g_crv_okp := n 10%nat;
     g_p2c := n 11%nat; g_zlib := n 12%nat; g_eddsa := n 13%nat; g_kt7797 := n 14%nat;
     g_ek_default := n 15%nat; g_rec_header := n 16%nat; g_rec_claims := n 17%nat; g_use_str := n 18%nat;
     g_1pu_sender := n 19%nat; g_exchange_type := n 20%nat; g_1pu_keytype := n 21%nat;
     g_kid_repr := n 22%nat |}.
Lemma guards_of_list g : guards_of (guards_list g) = g.
Proof. destruct g; reflexivity. Qed.

(* ------------------------------------------------------------------ *)
(* world: keys and registries                                          *)
(* ------------------------------------------------------------------ *)
(* what the consume paths read from a key before handing it to a primitive *)
Record key := {
  k_kty : string;      (* "oct" "RSA" "EC" "OKP" *)
  k_crv : string;      (* curve name for EC / OKP, "" otherwise *)
  k_kid : pv;          (* key.kid : PNone or PStr *)
  k_use : pv;          (* key.get("use") : PNone or PStr *)
  k_raw : bytes;       (* raw octets of an oct key ([] otherwise) *)
  k_private : bool;    (* key.is_private *)
  k_opfail : list string   (* operations for which key.get_op_key raises UnsupportedKeyOperationError (key_ops, public key) *)
}.
(* the `key` argument of the entry points: a Key, a KeySet, a str / bytes (deprecated: becomes an OctKey),
   any other object, or a callable returning one of these *)
Inductive keyarg := AKey (k : key) | AKeySet (ks : list key) | AText (k : key) | AOther | ACall (r : keyarg).
(* the `sender_key` argument of the JWE entry points *)
Inductive senderarg := SNone | SKey (k : key) | SSet (ks : list key).

Record jws_reg := {
  jr_hreg : list hparam;       (* registry.header_registry *)
  jr_strict : bool;            (* strict_check_header *)
  jr_allowed : list string;    (* registry.allowed ([] / None = recommended only) *)
  jr_7797 : bool               (* rfc7797.registry.JWSRegistry (b64-aware check_header) *)
}.
Record jwe_reg := {
  er_hreg : list hparam;
  er_strict : bool;
  er_allowed : list string;
  er_verify_all : bool;
  er_drafts : bool             (* the application registered ECDH-1PU and C20P / XC20P *)
}.
Definition alg_tbl (r : jwe_reg) := if er_drafts r then jwe_alg_table_drafts else jwe_alg_table.
Definition enc_tbl (r : jwe_reg) := if er_drafts r then jwe_enc_table_drafts else jwe_enc_table.
Definition zip_tbl (r : jwe_reg) := if er_drafts r then jwe_zip_table_drafts else jwe_zip_table.
Definition rec_tbl (r : jwe_reg) := if er_drafts r then jwe_recommended_drafts else jwe_recommended.

(* ------------------------------------------------------------------ *)
(* primitives                                                          *)
(* ------------------------------------------------------------------ *)
Record prims := {
  p_json_loads : bytes -> res pv;                       (* json.loads(bytes) *)
  p_jws_verify : string -> key -> bytes -> bytes -> res bool;      (* alg.verify after the key checks *)
  (* enc.decrypt: enc ct tag cek iv aad.  For the CBC-HS encs this is the tag check and the raw AES-CBC
     decryption WITHOUT the PKCS7 unpadding (modelled below: pkcs7_unpad); for GCM / ChaCha the whole method *)
  p_enc_decrypt : string -> bytes -> bytes -> bytes -> bytes -> bytes -> res bytes;
  p_inflate : bytes -> res bytes;                       (* zlib decompressobj().decompress + size check *)
  p_rsa_decrypt : string -> key -> bytes -> res bytes;  (* op_key.decrypt(ek, padding), ValueError -> DecodeError *)
  p_aes_unwrap : bytes -> bytes -> res bytes;           (* aes_key_unwrap(kek, ek), InvalidUnwrap -> DecodeError *)
  p_gcm_unwrap : key -> bytes -> bytes -> bytes -> res bytes;  (* Cipher(AES(key), GCM(iv, tag)) ... : key iv tag ek *)
  p_pbkdf2 : string -> key -> bytes -> Z -> res bytes;  (* PBKDF2HMAC(...iterations=p2c).derive : alg key salt count *)
  p_import_epk : string -> list (str * pv) -> bool -> res unit; (* binding.import_{private,public}_key of a validated epk whose crv is registered *)
  p_ecdh : key -> key -> res bytes;                     (* private_key.exchange(...) after the type / curve checks *)
  p_concat_kdf : bytes -> bytes -> N -> res bytes       (* ConcatKDFHash(...).derive : shared, fixed_info, bits *)
}.

(* ------------------------------------------------------------------ *)
(* small helpers                                                        *)
(* ------------------------------------------------------------------ *)
Notation SK s := (asc s%string) (only parsing).
Notation PS s := (PStr (asc s%string)) (only parsing).

Definition map_exn {A} (f : exn -> exn) (m : res A) : res A :=
  match m with Ok a => Ok a | Err e => Err (f e) end.

(* `except (TypeError, ValueError): raise <c>` *)
Definition catch_type_value {A} (c : jcls) (m : res A) : res A :=
  map_exn (fun e => match e with EType | EValue => EJose c | _ => e end) m.

Fixpoint split_dot_aux (l cur : bytes) : list bytes :=
  match l with
  | [] => [rev cur]
  | c :: r => if c =? 46 then rev cur :: split_dot_aux r [] else split_dot_aux r (c :: cur)
  end.
Definition split_dot (l : bytes) : list bytes := split_dot_aux l [].

Fixpoint join_dot (l : list bytes) : bytes :=
  match l with [] => [] | [a] => a | a :: r => a ++ 46 :: join_dot r end.

(* str.encode("utf-8") : lone surrogates raise UnicodeEncodeError (a ValueError) *)
Definition utf8_cp (c : N) : option bytes :=
  if c <? 128 then Some [c]
  else if c <? 2048 then Some [192 + c / 64; 128 + c mod 64]
  else if (55296 <=? c) && (c <? 57344) then None
  else if c <? 65536 then Some [224 + c / 4096; 128 + (c / 64) mod 64; 128 + c mod 64]
  else Some [240 + c / 262144; 128 + (c / 4096) mod 64; 128 + (c / 64) mod 64; 128 + c mod 64].
Fixpoint encode_utf8 (s : str) : res bytes :=
  match s with
  | [] => Ok []
  | c :: r => match utf8_cp c with
              | None => Err EValue
              | Some b => match encode_utf8 r with Ok t => Ok (b ++ t) | Err e => Err e end
              end
  end.
Definition encode_ascii (s : str) : res bytes :=
  if forallb (fun c => c <? 128) s then Ok s else Err EValue.

Definition dec_of_Z (z : Z) : bytes := asc (NilZero.string_of_int (Z.to_int z)).

(* bytes(list) : every element an int in range(256) *)
Fixpoint bytes_of_list (l : list pv) : res bytes :=
  match l with
  | [] => Ok []
  | x :: r =>
      match (match x with PInt z => Some z | PBool b => Some (b2z b) | _ => None end) with
      | None => Err EType
      | Some z => if ((0 <=? z) && (z <? 256))%Z
                  then match bytes_of_list r with Ok t => Ok (Z.to_N z :: t) | Err e => Err e end
                  else Err EValue
      end
  end.

(* util.to_bytes(x, charset) ; ascii=false is utf-8 *)
Definition to_bytes (ascii : bool) (v : pv) : res bytes :=
  match v with
  | PBytes b => Ok b
  | PStr s => if ascii then encode_ascii s else encode_utf8 s
  | PBool true => Ok (asc "True")
  | PBool false => Ok (asc "False")
  | PInt z => Ok (dec_of_Z z)
  | PFloat _ => Err EOracleMiss            (* repr(float) is not modelled *)
  | PNone => Err EType                     (* bytes(None) *)
  | PList l => bytes_of_list l
  | PDict [] => Ok []
  | PDict _ => Err EType                   (* bytes(dict) iterates str keys *)
  end.

(* util.urlsafe_b64decode is Model.B64.b64d (proved in C19; raises only ValueError) *)

(* util.json_b64decode(text) = json.loads(urlsafe_b64decode(to_bytes(text, "ascii"))) *)
Definition json_b64decode (g : guards) (P : prims) (text : pv) : res pv :=
  do b <- to_bytes true text;
  do raw <- b64d b;
  match p_json_loads P raw with
  | Err ERuntime => if g_rec_header g then Err EValue else Err ERuntime   (* fix11 *)
  | r => r
  end.

(* ------------------------------------------------------------------ *)
(* registry.py                                                          *)
(* ------------------------------------------------------------------ *)
Definition choice_mem (cs : list string) (x : pv) : bool :=
  existsb (fun c => py_eq (PS c) x) cs.

Definition validate_kind (k : vkind) (v : pv) : res unit :=
  match k with
  | VStr => if is_str v then Ok tt else Err EValue
  | VUrl => match v with
            | PStr s => if is_prefix (SK "http://") s || is_prefix (SK "https://") s then Ok tt else Err EValue
            | _ => Err EValue
            end
  | VInt => match v with PInt _ => Ok tt | _ => Err EValue end
  | VBool => match v with PBool _ => Ok tt | _ => Err EValue end
  | VListStr => match v with
                | PList l => if forallb is_str l then Ok tt else Err EValue
                | _ => Err EValue
                end
  | VJwk => if is_dict v then Ok tt else Err EValue
  | VNone => Err EValue
  | VChoices cs => match v with
                   | PList l => if forallb (choice_mem cs) l then Ok tt else Err EValue
                   | _ => if choice_mem cs v then Ok tt else Err EValue
                   end
  (* in_choices(cs, False): `isinstance(value, list) is not False` -> ValueError *)
  | VChoiceStr cs => match v with
                     | PList _ => Err EValue
                     | _ => if choice_mem cs v then Ok tt else Err EValue
                     end
  (* in_choices(cs, True): the value must be a list of choices *)
  | VChoiceList cs => match v with
                      | PList l => if forallb (choice_mem cs) l then Ok tt else Err EValue
                      | _ => Err EValue
                      end
  | VUnknown _ => Err EOracleMiss
  end.

(* the choice list of the three in_choices validators *)
Definition choices_of (k : vkind) : option (list string) :=
  match k with VChoices cs | VChoiceStr cs | VChoiceList cs => Some cs | _ => None end.

Fixpoint validate_registry_header (reg : list hparam) (h : pv) (check_required : bool) : res unit :=
  match reg with
  | [] => Ok tt
  | p :: r =>
      let key := SK (hp_name p) in
      do b <- py_in (PStr key) h;
      if check_required && hp_required p && negb b then Err EValue else
      do _ <- (if b then do v <- py_getitem_str h key; validate_kind (hp_kind p) v else Ok tt);
      validate_registry_header r h check_required
  end.

Fixpoint crit_loop (l : list pv) (h : pv) : res unit :=
  match l with
  | [] => Ok tt
  | k :: r => do b <- py_in k h; if b then crit_loop r h else Err EValue
  end.

Definition check_crit_header (g : guards) (h : pv) : res unit :=
  do b <- py_in (PS "crit") h;
  if b then
    do c <- py_getitem_str h (SK "crit");
    do _ <- (if g_crit g then validate_kind VListStr c else Ok tt);     (* fix02 *)
    do l <- py_iter c;
    crit_loop l h
  else Ok tt.

(* set(header.keys()) - set(registry.keys()) *)
Definition check_supported_header (reg : list hparam) (h : pv) : res unit :=
  match h with
  | PDict d =>
      if forallb (fun k => existsb (fun p => str_eqb (SK (hp_name p)) k) reg) (dkeys d)
      then Ok tt else Err EValue
  | _ => Err EAttr
  end.

(* ------------------------------------------------------------------ *)
(* rfc7515/registry.py, rfc7797/registry.py                             *)
(* ------------------------------------------------------------------ *)
Definition safe_b64_header (h : pv) : res unit :=
  do crit <- py_get_str h (SK "crit");
  match crit with
  | PList l => if list_contains l (PS "b64") then Ok tt else Err EValue
  | _ => Err EValue
  end.

Definition jws_check_header (g : guards) (reg : jws_reg) (h : pv) : res unit :=
  do _ <- (if jr_7797 reg then do b <- py_in (PS "b64") h; if b then safe_b64_header h else Ok tt
           else Ok tt);
  do _ <- check_crit_header g h;
  do _ <- validate_registry_header (jr_hreg reg) h true;
  if jr_strict reg then check_supported_header (jr_hreg reg) h else Ok tt.

(* `name not in <dict with str keys>` *)
Definition name_in_table (names : list string) (name : pv) : res bool :=
  match name with
  | PList _ | PDict _ => Err EType
  | PStr s => Ok (existsb (fun n => str_eqb (SK n) s) names)
  | _ => Ok false
  end.
(* `name not in <list of str>` : == comparisons only *)
Definition name_in_list (names : list string) (name : pv) : bool :=
  match name with PStr s => existsb (fun n => str_eqb (SK n) s) names | _ => false end.

Definition allowed_name (allowed recommended : list string) (name : pv) : bool :=
  match allowed with
  | [] => name_in_list recommended name
  | _ => name_in_list allowed name
  end.

Definition unsupported {A} : res A := Err (EJose UnsupportedAlgorithmError).

Definition find_jws_alg (name : pv) : option jws_alg_row :=
  match name with
  | PStr s => find (fun r => str_eqb (SK (ja_name r)) s) jws_alg_table
  | _ => None
  end.

Definition jws_get_alg (g : guards) (reg : jws_reg) (name : pv) : res jws_alg_row :=
  if g_algstr_jws g && negb (is_str name) then unsupported else       (* fix04 *)
  do b <- name_in_table (map ja_name jws_alg_table) name;
  if negb b then unsupported else
  if allowed_name (jr_allowed reg) jws_recommended name
  then match find_jws_alg name with Some r => Ok r | None => Err EKey end
  else unsupported.

(* ------------------------------------------------------------------ *)
(* jwk.py:guess_key, _keys.py:KeySet.get_by_kid, rfc7517 check_use      *)
(* ------------------------------------------------------------------ *)
(* RECURSION INTO ATTACKER-CONTROLLED VALUES.  The operations the consume paths apply to header values
   (membership, lookup, dict.update, iteration over one level, isinstance, == against a str) do not recurse
   into the values, and the model functions above do not either.  Anything that does recurse — repr / str /
   f-string formatting, copy.deepcopy, json.dumps of a received header, == between two containers — raises
   RecursionError on a value nested deeply enough (a JSON-serialization object can carry any depth; JSON text
   up to the depth json.loads accepts) and needs a depth or type guard.  The only such place on the consume
   paths of /repo is the error message of KeySet.get_by_kid (guard g_kid_repr).  [repr_limit] is a stand-in for
   the interpreter-dependent depth at which repr gives up: only its existence matters. *)
Fixpoint pv_depth (v : pv) : N :=
  match v with
  | PList l => 1 + (fix go (l : list pv) : N := match l with [] => 0 | x :: r => N.max (pv_depth x) (go r) end) l
  | PDict d => 1 + (fix go (d : list (str * pv)) : N :=
                      match d with [] => 0 | (_, x) :: r => N.max (pv_depth x) (go r) end) d
  | _ => 0
  end.
Definition repr_limit : N := 100.
(* f'...{v}...' *)
Definition py_format (v : pv) : res unit := if pv_depth v <=? repr_limit then Ok tt else Err ERuntime.

Definition get_by_kid (g : guards) (ks : list key) (kid : pv) : res key :=
  let not_found :=
    if g_kid_repr g && negb (match kid with PNone | PStr _ => true | _ => false end)
    then Err (EJose InvalidKeyIdError)                                              (* fix16 *)
    else do _ <- py_format kid; Err (EJose InvalidKeyIdError) in
  match kid, ks with
  | PNone, [k] => Ok k
  | _, _ => match find (fun k => py_eq (k_kid k) kid) ks with
            | Some k => Ok k
            | None => not_found
            end
  end.

(* [hs] is obj.headers(), evaluated only for a KeySet *)
(* `callable(key)`: _normalize_key(key(obj)); a str / bytes becomes an OctKey; what is neither a KeySet
   nor a Key (incl. a callable returned by the callable) is ValueError("Invalid key") *)
Definition norm_key (ka : keyarg) : keyarg :=
  match ka with
  | ACall (ACall _) => AOther
  | ACall r => r
  | x => x
  end.
Definition guess_key (g : guards) (ka : keyarg) (hs : res pv) : res key :=
  match norm_key ka with
  | AKey k | AText k => Ok k
  | AKeySet ks => do h <- hs; do kid <- py_get_str h (SK "kid"); get_by_kid g ks kid
  | AOther | ACall _ => Err EValue
  end.

(* key.get_op_key(operation) *)
Definition get_op_key (k : key) (op : string) : res unit :=
  if existsb (String.eqb op) (k_opfail k) then Err (EJose UnsupportedKeyOperationError) else Ok tt.

Definition check_use (k : key) (use : string) : res unit :=
  if py_truth (k_use k) && negb (py_eq (k_use k) (PS use))
  then Err (EJose UnsupportedKeyUseError) else Ok tt.

Definition jws_check_key_type (row : jws_alg_row) (k : key) : res unit :=
  if String.eqb (k_kty k) (ja_key_type row) then Ok tt else Err (EJose InvalidKeyTypeError).

Definition ed_curve (k : key) : bool :=
  String.eqb (k_crv k) "Ed25519" || String.eqb (k_crv k) "Ed448".

(* alg.verify(msg, sig, key) *)
Definition jws_alg_verify (g : guards) (P : prims) (row : jws_alg_row) (k : key) (msg sig : bytes) : res bool :=
  if String.eqb (ja_family row) "EdDSA" && negb (ed_curve k)
  then (if g_eddsa g then Err EValue else Err EAssert)                  (* fix08 *)
  else p_jws_verify P (ja_name row) k msg sig.

(* ------------------------------------------------------------------ *)
(* rfc7515/compact.py                                                   *)
(* ------------------------------------------------------------------ *)
Definition decode_header (g : guards) (P : prims) (seg : bytes) : res pv :=
  catch_type_value DecodeError
    (do p <- json_b64decode g P (PBytes seg);
     do _ <- (if g_dict_jws_compact g && negb (is_dict p) then Err EValue else Ok tt);   (* fix01 *)
     do b <- py_in (PS "alg") p;
     if b then Ok p else Err (EJose MissingAlgorithmError)).

Record compact_sig := { cs_protected : pv; cs_payload : bytes; cs_hseg : bytes; cs_pseg : bytes; cs_sseg : bytes }.

Definition jws_extract_compact (g : guards) (P : prims) (value : bytes) : res compact_sig :=
  match split_dot value with
  | [hs; ps; ss] =>
      do protected <- decode_header g P hs;
      do payload <- catch_type_value DecodeError (b64d ps);
      Ok {| cs_protected := protected; cs_payload := payload; cs_hseg := hs; cs_pseg := ps; cs_sseg := ss |}
  | _ => Err EValue
  end.

(* jws.validate_compact + verify_compact ; [kt] = alg.check_key_type is called *)
Definition jws_validate (g : guards) (P : prims) (reg : jws_reg) (ka : keyarg) (kt : bool)
           (headers : pv) (signing_input sigseg : bytes) : res bool :=
  do _ <- jws_check_header g reg headers;
  do k <- guess_key g ka (Ok headers);
  do _ <- check_use k "sig";
  do a <- py_getitem_str headers (SK "alg");
  do row <- jws_get_alg g reg a;
  do _ <- (if kt then jws_check_key_type row k else Ok tt);
  do sig <- b64d sigseg;
  jws_alg_verify g P row k signing_input sig.

Definition bad_signature {A} : res A := Err (EJose BadSignatureError).

Definition jws_deserialize_compact_b (g : guards) (P : prims) (reg : jws_reg) (ka : keyarg) (value : bytes)
  : res compact_sig :=
  do obj <- jws_extract_compact g P value;
  do ok <- jws_validate g P reg ka true (cs_protected obj) (cs_hseg obj ++ 46 :: cs_pseg obj) (cs_sseg obj);
  if ok then Ok obj else bad_signature.

(* compact entry points take bytes or str : to_bytes(value) *)
Inductive cinput := CBytes (b : bytes) | CStr (s : str).
Definition cinput_bytes (v : cinput) : res bytes :=
  match v with CBytes b => Ok b | CStr s => encode_utf8 s end.

Definition jws_deserialize_compact g P reg ka (v : cinput) : res compact_sig :=
  do b <- cinput_bytes v; jws_deserialize_compact_b g P reg ka b.

(* ------------------------------------------------------------------ *)
(* jwt.py:decode                                                        *)
(* ------------------------------------------------------------------ *)
Definition decode_claims (g : guards) (P : prims) (payload : bytes) : res pv :=
  match p_json_loads P payload with
  | Err EType | Err EValue => Err (EJose InvalidPayloadError)
  | Err ERuntime => if g_rec_claims g then Err (EJose InvalidPayloadError) else Err ERuntime   (* fix11 *)
  | Err e => Err e
  | Ok c => if is_dict c then Ok c else Err (EJose InvalidPayloadError)
  end.

Definition jwt_decode_jws g P reg ka (v : cinput) : res (pv * pv) :=
  do b <- cinput_bytes v;
  do obj <- jws_deserialize_compact_b g P reg ka b;
  do c <- decode_claims g P (cs_payload obj);
  Ok (cs_protected obj, c).

(* ------------------------------------------------------------------ *)
(* rfc7797/compact.py                                                   *)
(* ------------------------------------------------------------------ *)
Definition is_true (v : pv) : bool := match v with PBool true => true | _ => false end.

(* reg0 : the registry argument (None -> library default) ; reg7 : rfc7797 registry built when needed *)
Definition r7797_deserialize_compact (g : guards) (P : prims) (reg0 reg7 : jws_reg) (ka : keyarg) (v : cinput)
  : res compact_sig :=
  do value <- cinput_bytes v;
  match split_dot value with
  | [hs; ps; ss] =>
      do protected <- decode_header g P hs;
      do has <- py_in (PS "b64") protected;
      if negb has then jws_deserialize_compact_b g P reg0 ka value else
      do b64 <- py_getitem_str protected (SK "b64");
      if is_true b64 then jws_deserialize_compact_b g P reg7 ka value else
      (* unencoded payload: the payload segment is the payload *)
      do ok <- jws_validate g P reg7 ka (g_kt7797 g) protected (hs ++ 46 :: ps) ss;      (* fix09 *)
      if ok then Ok {| cs_protected := protected; cs_payload := ps; cs_hseg := hs; cs_pseg := ps; cs_sseg := ss |}
      else bad_signature
  | _ => Err EValue
  end.

(* ------------------------------------------------------------------ *)
(* rfc7515/model.py:HeaderMember.headers, dict.update                   *)
(* ------------------------------------------------------------------ *)
(* rv.update(v) : dicts only are modelled exactly; int/float/bool/None are not
   iterable; a str yields 1-character elements (ValueError); lists of pairs
   are outside the str-keyed dict universe (EOracleMiss: not compared) *)
Definition py_update (rv : list (str * pv)) (v : pv) : res (list (str * pv)) :=
  match v with
  | PDict d => Ok (dupdate rv d)
  | PNone | PBool _ | PInt _ | PFloat _ => Err EType
  | PStr [] | PBytes [] | PList [] => Ok rv
  | PStr _ => Err EValue
  | PBytes _ => Err EType
  | PList _ => Err EOracleMiss
  end.

Definition update_if_truthy (rv : list (str * pv)) (v : pv) : res (list (str * pv)) :=
  if py_truth v then py_update rv v else Ok rv.

(* HeaderMember(protected, header).headers() ; absent members are PNone *)
Definition member_headers (protected header : pv) : res pv :=
  do a <- update_if_truthy [] protected;
  do b <- update_if_truthy a header;
  Ok (PDict b).

(* ------------------------------------------------------------------ *)
(* rfc7515/json.py                                                      *)
(* ------------------------------------------------------------------ *)
(* value["payload"].encode("utf-8") ... *)
Definition str_utf8 (v : pv) : res bytes :=
  match v with PStr s => encode_utf8 s | _ => Err EAttr end.

Definition opt_member (d : pv) (k : string) : res pv :=
  do b <- py_in (PS k) d; if b then py_getitem_str d (SK k) else Ok PNone.

(* __signature_to_member *)
Definition signature_to_member (g : guards) (P : prims) (sig : pv) : res (pv * pv) :=
  do hasp <- py_in (PS "protected") sig;
  do protected <-
     (if hasp then
        do seg <- py_getitem_str sig (SK "protected");
        do p <- json_b64decode g P seg;
        if g_dict_jws_json g && negb (is_dict p) then Err (EJose DecodeError) else Ok p   (* fix01 *)
      else Ok PNone);
  do header <- opt_member sig "header";
  Ok (protected, header).

(* verify_signature(member, signature, payload_segment, registry, find_key) *)
Definition verify_signature (g : guards) (P : prims) (reg : jws_reg) (ka : keyarg)
           (member : pv * pv) (sig : pv) (pseg : bytes) : res bool :=
  do headers <- member_headers (fst member) (snd member);
  do _ <- jws_check_header g reg headers;
  do a <- py_getitem_str headers (SK "alg");
  do row <- jws_get_alg g reg a;
  do k <- guess_key g ka (member_headers (fst member) (snd member));
  do _ <- check_use k "sig";
  do _ <- jws_check_key_type row k;
  do hasp <- py_in (PS "protected") sig;
  do protseg <- (if hasp then do s <- py_getitem_str sig (SK "protected"); str_utf8 s else Ok []);
  do s <- py_getitem_str sig (SK "signature");
  do sb <- str_utf8 s;
  do sigb <- b64d sb;
  jws_alg_verify g P row k (protseg ++ 46 :: pseg) sigb.

Fixpoint mapM {A B} (f : A -> res B) (l : list A) : res (list B) :=
  match l with
  | [] => Ok []
  | x :: r => do y <- f x; do t <- mapM f r; Ok (y :: t)
  end.

Fixpoint verify_all (g : guards) (P : prims) (reg : jws_reg) (ka : keyarg) (pseg : bytes)
         (l : list ((pv * pv) * pv)) : res bool :=
  match l with
  | [] => Ok true
  | (m, s) :: r =>
      do ok <- verify_signature g P reg ka m s pseg;
      if ok then verify_all g P reg ka pseg r else Ok false
  end.

Definition json_payload (value : pv) : res (bytes * bytes) :=
  do p <- py_getitem_str value (SK "payload");
  do pseg <- str_utf8 p;
  do payload <- catch_type_value DecodeError (b64d pseg);
  Ok (pseg, payload).

Definition flat_sig (value : pv) : res pv :=
  do s <- py_getitem_str value (SK "signature");
  do p <- opt_member value "protected";
  do h <- opt_member value "header";
  do hasp <- py_in (PS "protected") value;
  do hash <- py_in (PS "header") value;
  Ok (PDict ([(SK "signature", s)] ++ (if hasp then [(SK "protected", p)] else [])
             ++ (if hash then [(SK "header", h)] else []))).

(* jws.deserialize_json ; result = decoded payload *)
Definition jws_deserialize_json (g : guards) (P : prims) (reg : jws_reg) (ka : keyarg) (value : pv) : res bytes :=
  do general <- py_in (PS "signatures") value;
  if general then
    do pp <- json_payload value;
    do sigs <- py_getitem_str value (SK "signatures");
    do l <- py_iter sigs;
    do members <- mapM (signature_to_member g P) l;
    match l with
    | [] => bad_signature
    | _ => do ok <- verify_all g P reg ka (fst pp) (combine members l);
           if ok then Ok (snd pp) else bad_signature
    end
  else
    do pp <- json_payload value;
    do sg <- flat_sig value;
    do m <- signature_to_member g P sg;
    do ok <- verify_signature g P reg ka m sg (fst pp);
    if ok then Ok (snd pp) else bad_signature.

(* ------------------------------------------------------------------ *)
(* rfc7797/json.py                                                      *)
(* ------------------------------------------------------------------ *)
(* rfc7797/json.py:_extract_json: `if "protected" in value: _check_unprotected_header(header)`
   (`if header and "b64" in header: raise ValueError`) *)
Definition check_unprotected_header (has_protected : bool) (h : pv) : res unit :=
  if has_protected && py_truth h then
    do b <- py_in (PS "b64") h; if b then Err EValue else Ok tt
  else Ok tt.

Definition r7797_deserialize_json (g : guards) (P : prims) (reg0 reg7 : jws_reg) (ka : keyarg) (value : pv)
  : res bytes :=
  do general <- py_in (PS "signatures") value;
  if general then jws_deserialize_json g P reg0 ka value else
  do hasp <- py_in (PS "protected") value;
  do protected <-
     (if hasp then
        do seg <- py_getitem_str value (SK "protected");
        do segb <- to_bytes false seg;
        do p <- json_b64decode g P (PBytes segb);
        if g_dict_7797_json g && negb (is_dict p) then Err (EJose DecodeError) else Ok p   (* fix01 *)
      else Ok PNone);
  do header <- py_get_str value (SK "header");
  do _ <- check_unprotected_header hasp header;
  do headers <- member_headers protected header;
  do has <- py_in (PS "b64") headers;
  if negb has then jws_deserialize_json g P reg0 ka value else
  do pv_ <- py_getitem_str value (SK "payload");
  do payload <- to_bytes false pv_;
  do sg <- flat_sig value;
  do b64 <- py_getitem_str headers (SK "b64");
  if is_true b64 then jws_deserialize_json g P reg7 ka value else
  do ok <- verify_signature g P reg7 ka (protected, header) sg payload;
  if ok then Ok payload else bad_signature.

(* ------------------------------------------------------------------ *)
(* rfc7516/registry.py                                                  *)
(* ------------------------------------------------------------------ *)
Definition jwe_check_algorithm (g : guards) (reg : jwe_reg) (names : list string) (name : pv) : res unit :=
  if g_algstr_jwe g && negb (is_str name) then unsupported else       (* fix04 *)
  do b <- name_in_table names name;
  if negb b then unsupported else
  if allowed_name (er_allowed reg) (rec_tbl reg) name then Ok tt else unsupported.

Definition find_by_name {A} (nm : A -> string) (tbl : list A) (name : pv) : res A :=
  match name with
  | PStr s => match find (fun r => str_eqb (SK (nm r)) s) tbl with Some r => Ok r | None => Err EKey end
  | _ => Err EKey
  end.

Definition jwe_get_alg g reg name : res jwe_alg_row :=
  do _ <- jwe_check_algorithm g reg (map ea_name (alg_tbl reg)) name; find_by_name ea_name (alg_tbl reg) name.
Definition jwe_get_enc g reg name : res jwe_enc_row :=
  do _ <- jwe_check_algorithm g reg (map ee_name (enc_tbl reg)) name; find_by_name ee_name (enc_tbl reg) name.
Definition jwe_get_zip g reg name : res jwe_zip_row :=
  do _ <- jwe_check_algorithm g reg (map ez_name (zip_tbl reg)) name; find_by_name ez_name (zip_tbl reg) name.

Definition jwe_check_header (g : guards) (reg : jwe_reg) (h : pv) (check_more : bool) : res unit :=
  do _ <- check_crit_header g h;
  do _ <- validate_registry_header (er_hreg reg) h true;
  do a <- py_getitem_str h (SK "alg");
  do alg <- jwe_get_alg g reg a;
  match ea_more alg with
  | [] => if er_strict reg then check_supported_header (er_hreg reg) h else Ok tt
  | more =>
      do _ <- validate_registry_header more h check_more;
      if er_strict reg then check_supported_header (er_hreg reg ++ more) h else Ok tt
  end.

(* ------------------------------------------------------------------ *)
(* key import of "epk" (rfc7517 import_key -> validate_dict_key -> binding) *)
(* ------------------------------------------------------------------ *)
Fixpoint str_to_string (s : str) : string :=
  match s with [] => EmptyString | c :: r => String (ascii_of_N c) (str_to_string r) end.

Definition kp_as_h (p : kparam) : hparam :=
  {| hp_name := kp_name p; hp_kind := kp_kind p; hp_required := kp_required p |}.

(* validate_dict_key_use_operations *)
Fixpoint ops_loop (ops : list pv) (allowed_ops : list string) : res unit :=
  match ops with
  | [] => Ok tt
  | o :: r => if choice_mem allowed_ops o then ops_loop r allowed_ops else Err EValue
  end.
Definition validate_use_ops (g : guards) (d : pv) : res unit :=
  do hu <- py_in (PS "use") d;
  do ho <- py_in (PS "key_ops") d;
  if hu && ho then
    do u <- py_getitem_str d (SK "use");
    if g_use_str g && negb (is_str u) then Err EValue else                 (* fix12 *)
    match u with
    | PStr us =>
        match find (fun p => str_eqb (SK (fst p)) us) use_key_ops_registry with
        | None => Err EKey
        | Some (_, allowed_ops) =>
            do ko <- py_getitem_str d (SK "key_ops");
            do l <- py_iter ko;
            ops_loop l allowed_ops
        end
    | PList _ | PDict _ => Err EType
    | _ => Err EKey
    end
  else Ok tt.

Definition validate_dict_key (g : guards) (value_reg : list kparam) (d : pv) : res unit :=
  do _ <- validate_registry_header (map kp_as_h jwk_parameter_registry) d true;
  do _ <- validate_registry_header (map kp_as_h value_reg) d true;
  validate_use_ops g d.

(* recipient_key.import_key(headers["epk"]) : the class is the recipient key's class *)
Definition import_epk (g : guards) (P : prims) (rk : key) (epk : pv) : res key :=
  match epk with
  | PDict d =>
      let is_ec := String.eqb (k_kty rk) "EC" in
      let vreg := if is_ec then value_registry_EC else value_registry_OKP in
      do _ <- validate_dict_key g vreg epk;
      let priv := dmem d (SK "d") in
      do crv <- py_getitem_str epk (SK "crv");
      let known := if is_ec then name_in_list (map cv_name ec_curves) crv
                   else name_in_list (map (fun t => fst (fst t)) okp_curves) crv in
      if negb known then
        (if (if is_ec then g_crv_ec g else g_crv_okp g) then Err EValue else Err EKey)     (* fix05 *)
      else
        do _ <- p_import_epk P (k_kty rk) d priv;
        (* cls(raw_key, value, parameters) validates {**value, "kty": key_type} again *)
        do _ <- validate_dict_key g vreg (PDict (dset d (SK "kty") (PS (k_kty rk))));
        (* the facts of the imported key: an epk without key_ops supports deriveKey *)
        Ok {| k_kty := k_kty rk; k_crv := match crv with PStr c => str_to_string c | _ => "" end;
              k_kid := PNone; k_use := PNone; k_raw := []; k_private := priv;
              k_opfail := match dget d (SK "key_ops") with
                          | Some (PList ops) => if list_contains ops (PS "deriveKey") then [] else ["deriveKey"%string]
                          | Some _ => ["deriveKey"%string]
                          | None => []
                          end |}
  | _ => Err EOracleMiss      (* unreachable: "epk" is validated as a JWK (dict) by check_header *)
  end.

(* ------------------------------------------------------------------ *)
(* rfc7518/derive_key.py                                                *)
(* ------------------------------------------------------------------ *)
Definition u32be (n : N) : bytes := [n / 16777216 mod 256; n / 65536 mod 256; n / 256 mod 256; n mod 256].

Definition u32be_len_input (s : pv) (use_base64 : bool) : res bytes :=
  if negb (py_truth s) then Ok [0; 0; 0; 0] else
  do sb <- (if use_base64 then do b <- to_bytes false s; b64d b else to_bytes false s);
  Ok (u32be (lenN sb) ++ sb).   (* inputs of 4 GiB and more (struct.error) are outside the model *)

Definition derive_key_for_concat_kdf (P : prims) (shared : bytes) (h : pv) (cek_size : N) (key_size : option N)
           (tag : option bytes) : res bytes :=
  do apu0 <- py_get_str h (SK "apu");
  do apu <- u32be_len_input apu0 true;
  do apv0 <- py_get_str h (SK "apv");
  do apv <- u32be_len_input apv0 true;
  do idv <- py_getitem_str h (SK (match key_size with Some _ => "alg" | None => "enc" end));
  do alg_id <- u32be_len_input idv false;
  let bits := match key_size with Some n => n | None => cek_size end in
  do cctag <- (match tag with
               | Some (x :: y) => u32be_len_input (PBytes (x :: y)) false     (* `if tag:` *)
               | _ => Ok []
               end);
  p_concat_kdf P shared (alg_id ++ apu ++ apv ++ u32be bits ++ cctag) bits.

(* ------------------------------------------------------------------ *)
(* rfc7516/models.py:Recipient.headers ; message.py                     *)
(* ------------------------------------------------------------------ *)
Record recipient := { rc_header : pv; rc_ek : option bytes; rc_key : key; rc_sender : option key }.

(* rv.update(protected); if unprotected: rv.update(unprotected); if header: rv.update(header)
   ([json] = parent is a BaseJSONEncryption) *)
Definition recipient_headers (json : bool) (protected unprotected header : pv) : res pv :=
  do a <- py_update [] protected;
  do b <- (if json then update_if_truthy a unprotected else Ok a);
  do c <- update_if_truthy b header;
  Ok (PDict c).

Definition assert_ (b : bool) : res unit := if b then Ok tt else Err EAssert.

Definition key_type_in (k : key) (types : list string) : res unit :=
  if existsb (String.eqb (k_kty k)) types then Ok tt else Err (EJose InvalidKeyTypeError).

Definition ek_or_assert (r : recipient) : res bytes :=
  match rc_ek r with Some b => Ok b | None => Err EAssert end.

(* JWEKeyWrapping.check_op_key *)
Definition check_op_key (size : option N) (op_key : bytes) : res unit :=
  match size with
  | Some n => if lenN op_key * 8 =? n then Ok tt else Err (EJose InvalidKeyLengthError)
  | None => Ok tt
  end.

(* AESAlgModel.unwrap_cek(ek, key) *)
Definition unwrap_cek (P : prims) (size : option N) (ek kek : bytes) : res bytes :=
  do _ <- check_op_key size kek; p_aes_unwrap P kek ek.

(* ECKey / OKPKey.exchange_derive_key(self, other) *)
Definition exchange_derive_key (g : guards) (P : prims) (self other : key) : res bytes :=
  if String.eqb (k_kty self) "EC" then
    (if g_exchange_type g && negb (String.eqb (k_kty other) "EC") then Err (EJose InvalidExchangeKeyError) else   (* fix14 *)
     do _ <- get_op_key other "deriveKey";
     if negb (k_private self) then Err (EJose InvalidExchangeKeyError) else
     if negb (String.eqb (k_kty other) "EC") then Err EAttr else          (* key.curve_name *)
     if String.eqb (k_crv self) (k_crv other) then p_ecdh P self other else Err (EJose InvalidExchangeKeyError))
  else
    do _ <- get_op_key other "deriveKey";
    let x c := k_private self && String.eqb (k_crv self) c && String.eqb (k_kty other) "OKP" && String.eqb (k_crv other) c in
    if x "X25519"%string || x "X448"%string then p_ecdh P self other else Err (EJose InvalidExchangeKeyError).

(* ECDHESAlgModel.decrypt_agreed_upon_key *)
Definition decrypt_agreed_upon_key (g : guards) (P : prims) (alg : jwe_alg_row) (enc : jwe_enc_row)
           (headers : pv) (r : recipient) : res bytes :=
  do has <- py_in (PS "epk") headers;
  do _ <- assert_ has;
  do _ <- key_type_in (rc_key r) (ea_key_types alg);
  do epk <- py_getitem_str headers (SK "epk");
  do ek <- import_epk g P (rc_key r) epk;
  do shared <- exchange_derive_key g P (rc_key r) ek;
  derive_key_for_concat_kdf P shared headers (ee_cek_size enc) (ea_key_size alg) None.

(* ECDH1PUAlgModel.__decrypt_agreed_upon_key(enc, recipient, tag) *)
Definition decrypt_agreed_upon_key_1pu (g : guards) (P : prims) (alg : jwe_alg_row) (enc : jwe_enc_row)
           (headers : pv) (r : recipient) (tag : option bytes) : res bytes :=
  (* _check_enc: with key wrapping only the CBC-HS encs *)
  if negb (ea_direct alg) && negb (String.eqb (ee_family enc) "CBCHS") then Err (EJose InvalidEncryptionAlgorithmError) else
  do has <- py_in (PS "epk") headers;
  do _ <- assert_ has;
  match rc_sender r with
  | None => if g_1pu_sender g then Err (EJose InvalidExchangeKeyError) else Err EAssert      (* fix13 *)
  | Some sk =>
      do _ <- (if g_1pu_keytype g then key_type_in (rc_key r) (ea_key_types alg) else Ok tt);   (* fix15 *)
      if negb (String.eqb (k_kty (rc_key r)) "EC") && negb (String.eqb (k_kty (rc_key r)) "OKP")
      then Err EOracleMiss      (* RSAKey / OctKey.import_key of the epk: not modelled (only reachable without fix15) *)
      else
      do epk <- py_getitem_str headers (SK "epk");
      do ek <- import_epk g P (rc_key r) epk;
      do s1 <- exchange_derive_key g P (rc_key r) sk;
      do s2 <- exchange_derive_key g P (rc_key r) ek;
      derive_key_for_concat_kdf P (s2 ++ s1) headers (ee_cek_size enc) (ea_key_size alg) tag
  end.

(* PBES2HSAlgModel.decrypt_cek *)
Definition pbes2_decrypt_cek (g : guards) (P : prims) (alg : jwe_alg_row) (headers : pv) (r : recipient)
  : res bytes :=
  do h1 <- py_in (PS "p2s") headers; do _ <- assert_ h1;
  do h2 <- py_in (PS "p2c") headers; do _ <- assert_ h2;
  do p2s0 <- py_getitem_str headers (SK "p2s");
  do p2sb <- to_bytes false p2s0;
  do p2s <- b64d p2sb;
  do p2c <- py_getitem_str headers (SK "p2c");
  do _ <- key_type_in (rc_key r) (ea_key_types alg);
  do _ <- get_op_key (rc_key r) "deriveKey";
  do kek <-
     match p2c with
     | PInt z =>
         if g_p2c g && negb ((1 <=? z) && (z <=? 2147483647))%Z then Err EValue      (* fix06 *)
         else p_pbkdf2 P (ea_name alg) (rc_key r) p2s z
     | PBool b => if g_p2c g then Err EValue else p_pbkdf2 P (ea_name alg) (rc_key r) p2s (b2z b)
     | _ => if g_p2c g then Err EValue else Err EType
     end;
  do ek <- ek_or_assert r;
  unwrap_cek P (ea_key_size alg) ek kek.

(* AESGCMAlgModel.decrypt_cek *)
Definition gcmkw_decrypt_cek (P : prims) (alg : jwe_alg_row) (headers : pv) (r : recipient) : res bytes :=
  do _ <- key_type_in (rc_key r) (ea_key_types alg);
  do _ <- get_op_key (rc_key r) "unwrapKey";
  do _ <- check_op_key (ea_key_size alg) (k_raw (rc_key r));
  do h1 <- py_in (PS "iv") headers; do _ <- assert_ h1;
  do h2 <- py_in (PS "tag") headers; do _ <- assert_ h2;
  do iv0 <- py_getitem_str headers (SK "iv");
  do ivb <- to_bytes false iv0;
  do iv <- b64d ivb;
  do tag0 <- py_getitem_str headers (SK "tag");
  do tagb <- to_bytes false tag0;
  do tag <- b64d tagb;
  do ek <- ek_or_assert r;
  p_gcm_unwrap P (rc_key r) iv tag ek.

Definition known_family (f : string) : bool :=
  existsb (String.eqb f) ["dir"; "ECDHES"; "ECDH1PU"; "RSA"; "AESKW"; "AESGCMKW"; "PBES2"]%string.

(* message.py:decrypt_recipient(alg, enc, recipient, tag) *)
Definition decrypt_recipient (g : guards) (P : prims) (alg : jwe_alg_row) (enc : jwe_enc_row)
           (headers : pv) (r : recipient) (tag : bytes) : res bytes :=
  let fam := ea_family alg in
  if negb (known_family fam) then Err EOracleMiss else
  let agreement := String.eqb fam "ECDHES" || String.eqb fam "ECDH1PU" in
  if ea_direct alg then
    (if match rc_ek r with Some (_ :: _) => true | _ => false end
     then Err (EJose InvalidEncryptedKeyError) else
     if String.eqb fam "ECDHES" then decrypt_agreed_upon_key g P alg enc headers r
     else if String.eqb fam "ECDH1PU" then decrypt_agreed_upon_key_1pu g P alg enc headers r None
     else
       (* DirectAlgModel.compute_cek *)
       do _ <- key_type_in (rc_key r) (ea_key_types alg);
       if lenN (k_raw (rc_key r)) * 8 =? ee_cek_size enc then Ok (k_raw (rc_key r)) else Err (EJose InvalidKeyLengthError))
  else if agreement then
    do auk <- (if ea_tag_aware alg then
                 (if String.eqb fam "ECDH1PU" then decrypt_agreed_upon_key_1pu g P alg enc headers r (Some tag)
                  else Err ERuntime (* NotImplementedError *))
               else decrypt_agreed_upon_key g P alg enc headers r);
    do ek <- ek_or_assert r;
    unwrap_cek P (ea_key_size alg) ek auk
  else if String.eqb fam "PBES2" then pbes2_decrypt_cek g P alg headers r
  else if String.eqb fam "AESGCMKW" then gcmkw_decrypt_cek P alg headers r
  else if String.eqb fam "AESKW" then
    do _ <- key_type_in (rc_key r) (ea_key_types alg);
    do _ <- get_op_key (rc_key r) "unwrapKey";
    do ek <- ek_or_assert r;
    unwrap_cek P (ea_key_size alg) ek (k_raw (rc_key r))
  else
    (* RSAAlgModel.decrypt_cek *)
    do _ <- key_type_in (rc_key r) (ea_key_types alg);
    do _ <- get_op_key (rc_key r) "decrypt";
    do ek <- ek_or_assert r;
    p_rsa_decrypt P (ea_name alg) (rc_key r) ek.

Record jwe_obj := {
  jo_json : bool; jo_protected : pv; jo_unprotected : pv; jo_aad : option bytes;
  jo_pseg : bytes; jo_iv : bytes; jo_ct : bytes; jo_tag : bytes; jo_recipients : list recipient
}.

(* the loop over recipients: `except (AssertionError, JoseError): if verify_all: raise` *)
Fixpoint recipients_loop (g : guards) (P : prims) (reg : jwe_reg) (o : jwe_obj) (enc : jwe_enc_row)
         (l : list recipient) (ceks : list bytes) : res (list bytes) :=
  match l with
  | [] => Ok ceks
  | r :: rest =>
      do headers <- recipient_headers (jo_json o) (jo_protected o) (jo_unprotected o) (rc_header r);
      do _ <- jwe_check_header g reg headers true;
      do a <- py_getitem_str headers (SK "alg");
      do alg <- jwe_get_alg g reg a;
      match decrypt_recipient g P alg enc headers r (jo_tag o) with
      | Ok cek => recipients_loop g P reg o enc rest (if existsb (beqb cek) ceks then ceks else cek :: ceks)
      | Err e =>
          match e with
          | EAssert | EJose _ => if er_verify_all reg then Err e else recipients_loop g P reg o enc rest ceks
          | _ => Err e
          end
      end
  end.

Definition decode_error {A} : res A := Err (EJose DecodeError).

(* PKCS7(128).unpadder(): update(data) + finalize().  ValueError ("Invalid padding bytes.") for the empty
   string, a length that is not a multiple of the block size, a last octet outside 1..16, or padding octets
   that differ from the last octet *)
Definition pkcs7_unpad (data : bytes) : res bytes :=
  let n := lenN data in
  if (n =? 0) || negb (n mod 16 =? 0) then Err EValue else
  let v := last data 0 in
  if (v =? 0) || (16 <? v) then Err EValue else
  if forallb (N.eqb v) (skipn (N.to_nat (n - v)) data) then Ok (firstn (N.to_nat (n - v)) data) else Err EValue.

(* CBCHS2EncModel.decrypt / GCMEncModel.decrypt / ChaCha20EncModel.decrypt *)
Definition enc_decrypt (P : prims) (enc : jwe_enc_row) (ct tag cek iv aad : bytes) : res bytes :=
  do raw <- p_enc_decrypt P (ee_name enc) ct tag cek iv aad;
  if String.eqb (ee_family enc) "CBCHS" then pkcs7_unpad raw else Ok raw.

(* jwe._guess_sender_key(recipient, sender_key) behind `if sender_key:` ; [hs] = recipient.headers() *)
Definition guess_sender_key (g : guards) (sa : senderarg) (hs : res pv) : res (option key) :=
  match sa with
  | SNone | SSet [] => Ok None                        (* falsy: no sender key attached *)
  | SKey k => do _ <- check_use k "enc"; Ok (Some k)
  | SSet ks =>
      do h <- hs;
      do skid <- py_get_str h (SK "skid");
      if py_truth skid then
        do k <- get_by_kid g ks skid; do _ <- check_use k "enc"; Ok (Some k)
      else Err EValue
  end.

Definition b64e_bytes (b : bytes) : bytes := b64e b.

(* message.py:_perform_decrypt ; result = plaintext *)
Definition perform_decrypt_inner (g : guards) (P : prims) (reg : jwe_reg) (o : jwe_obj) : res bytes :=
  do has_enc <- (if g_enc_present g then py_in (PS "enc") (jo_protected o) else Ok true);   (* fix03 *)
  if negb has_enc then Err (EJose MissingEncryptionError) else
  do e <- py_getitem_str (jo_protected o) (SK "enc");
  do enc <- jwe_get_enc g reg e;
  do _ <- (if lenN (jo_iv o) * 8 =? ee_iv_size enc then Ok tt else Err EValue);
  do ceks <- recipients_loop g P reg o enc (jo_recipients o) [];
  match ceks with
  | [] => decode_error
  | [cek] =>
      if negb (lenN cek * 8 =? ee_cek_size enc) then Err (EJose InvalidCEKLengthError) else
      let aad := match jo_aad o with
                 | Some (x :: y) => jo_pseg o ++ 46 :: b64e_bytes (x :: y)
                 | _ => jo_pseg o
                 end in
      do msg <- enc_decrypt P enc (jo_ct o) (jo_tag o) cek (jo_iv o) aad;
      do hz <- py_in (PS "zip") (jo_protected o);
      if hz then
        do z <- py_getitem_str (jo_protected o) (SK "zip");
        do _ <- jwe_get_zip g reg z;
        match p_inflate P msg with
        | Err EZlib => if g_zlib g then decode_error else Err EZlib       (* fix07 *)
        | r => r
        end
      else Ok msg
  | _ => decode_error
  end.

(* perform_decrypt: except InvalidExchangeKeyError -> DecodeError *)
Definition perform_decrypt g P reg o : res bytes :=
  map_exn (fun e => match e with EJose InvalidExchangeKeyError => EJose DecodeError | _ => e end)
          (perform_decrypt_inner g P reg o).

(* ------------------------------------------------------------------ *)
(* rfc7516/compact.py + jwe.decrypt_compact                             *)
(* ------------------------------------------------------------------ *)
Definition jwe_decrypt_compact_b (g : guards) (P : prims) (reg : jwe_reg) (ka : keyarg) (sa : senderarg) (value : bytes)
  : res (pv * bytes) :=
  match split_dot value with
  | [hs; eks; ivs; cts; tgs] =>
      do protected <-
         catch_type_value DecodeError
           (do p <- json_b64decode g P (PBytes hs);
            do _ <- (if g_dict_jwe_compact g && negb (is_dict p) then Err EValue else Ok tt);   (* fix01 *)
            do a <- py_in (PS "alg") p;
            if negb a then Err (EJose MissingAlgorithmError) else
            do e <- py_in (PS "enc") p;
            if negb e then Err (EJose MissingEncryptionError) else Ok p);
      do iv <- b64d ivs;
      do ct <- b64d cts;
      do tag <- b64d tgs;
      do ek <- b64d eks;
      do k <- guess_key g ka (recipient_headers false protected PNone PNone);
      do _ <- check_use k "enc";
      do sk <- guess_sender_key g sa (recipient_headers false protected PNone PNone);
      let o := {| jo_json := false; jo_protected := protected; jo_unprotected := PNone; jo_aad := None;
                  jo_pseg := hs; jo_iv := iv; jo_ct := ct; jo_tag := tag;
                  jo_recipients := [{| rc_header := PNone; rc_ek := Some ek; rc_key := k; rc_sender := sk |}] |} in
      do pt <- perform_decrypt g P reg o;
      Ok (protected, pt)
  | _ => Err EValue
  end.

Definition jwe_decrypt_compact g P reg ka sa (v : cinput) : res (pv * bytes) :=
  do b <- cinput_bytes v; jwe_decrypt_compact_b g P reg ka sa b.

Definition jwt_decode_jwe g P reg ka (v : cinput) : res (pv * pv) :=
  do b <- cinput_bytes v;
  do r <- jwe_decrypt_compact_b g P reg ka SNone b;       (* jwt.decode has no sender_key *)
  do c <- decode_claims g P (snd r);
  Ok (fst r, c).

(* ------------------------------------------------------------------ *)
(* rfc7516/json.py + jwe.decrypt_json                                   *)
(* ------------------------------------------------------------------ *)
Definition seg_of (data : pv) (k : string) : res (bytes * bytes) :=
  do v <- py_getitem_str data (SK k);
  do b <- to_bytes false v;
  do d <- b64d b;
  Ok (b, d).

(* one recipient item (general) or the top-level object (flattened) *)
Definition extract_recipient (g : guards) (item : pv) : res (pv * option bytes) :=
  do h <- py_get_str item (SK "header");
  do has <- py_in (PS "encrypted_key") item;
  if has then
    do v <- py_getitem_str item (SK "encrypted_key");
    do b <- to_bytes false v;
    do ek <- b64d b;
    Ok (h, Some ek)
  else Ok (h, if g_ek_default g then Some [] else None).        (* fix10 *)

Fixpoint attach_keys (g : guards) (json : bool) (ka : keyarg) (sa : senderarg) (protected unprotected : pv) (l : list (pv * option bytes))
  : res (list recipient) :=
  match l with
  | [] => Ok []
  | (h, ek) :: r =>
      do k <- guess_key g ka (recipient_headers json protected unprotected h);
      do _ <- check_use k "enc";
      do sk <- guess_sender_key g sa (recipient_headers json protected unprotected h);
      do t <- attach_keys g json ka sa protected unprotected r;
      Ok ({| rc_header := h; rc_ek := ek; rc_key := k; rc_sender := sk |} :: t)
  end.

Definition jwe_decrypt_json (g : guards) (P : prims) (reg : jwe_reg) (ka : keyarg) (sa : senderarg) (data : pv) : res bytes :=
  do general <- py_in (PS "recipients") data;
  do pseg0 <- py_getitem_str data (SK "protected");
  do p <- json_b64decode g P pseg0;
  do protected <- (if g_dict_jwe_json g && negb (is_dict p) then Err (EJose DecodeError) else Ok p);   (* fix01 *)
  do unprotected <- py_get_str data (SK "unprotected");
  do pseg <- to_bytes false pseg0;
  do iv <- seg_of data "iv";
  do ct <- seg_of data "ciphertext";
  do tag <- seg_of data "tag";
  do hasaad <- py_in (PS "aad") data;
  do aad <- (if hasaad then do a <- seg_of data "aad"; Ok (Some (snd a)) else Ok None);
  do items <- (if general then do rs <- py_getitem_str data (SK "recipients"); py_iter rs else Ok [data]);
  do rl <- mapM (extract_recipient g) items;
  do recs <- attach_keys g true ka sa protected unprotected rl;
  perform_decrypt g P reg
    {| jo_json := true; jo_protected := protected; jo_unprotected := unprotected; jo_aad := aad;
       jo_pseg := pseg; jo_iv := snd iv; jo_ct := snd ct; jo_tag := snd tag; jo_recipients := recs |}.

(* ------------------------------------------------------------------ *)
(* documented_shape : the JSON serializations of the property text      *)
(* ------------------------------------------------------------------ *)
Definition opt_is (d : list (str * pv)) (k : string) (p : pv -> bool) : bool :=
  match dget d (SK k) with Some v => p v | None => true end.
Definition req_is (d : list (str * pv)) (k : string) (p : pv -> bool) : bool :=
  match dget d (SK k) with Some v => p v | None => false end.

Definition jws_sig_shape (v : pv) : bool :=
  match v with
  | PDict d => req_is d "signature" is_str && opt_is d "protected" is_str && opt_is d "header" is_dict
  | _ => false
  end.

Definition list_of (p : pv -> bool) (v : pv) : bool :=
  match v with PList l => forallb p l | _ => false end.

(* general: payload + signatures ; flattened: payload + signature [+ protected] [+ header] *)
Definition jws_documented_shape (v : pv) : bool :=
  match v with
  | PDict d =>
      req_is d "payload" is_str &&
      (if dmem d (SK "signatures") then req_is d "signatures" (list_of jws_sig_shape)
       else jws_sig_shape v)
  | _ => false
  end.

Definition jwe_recipient_shape (v : pv) : bool :=
  match v with
  | PDict d => opt_is d "header" is_dict && opt_is d "encrypted_key" is_str
  | _ => false
  end.

Definition jwe_documented_shape (v : pv) : bool :=
  match v with
  | PDict d =>
      req_is d "protected" is_str && req_is d "iv" is_str && req_is d "ciphertext" is_str &&
      req_is d "tag" is_str && opt_is d "aad" is_str && opt_is d "unprotected" is_dict &&
      (if dmem d (SK "recipients") then req_is d "recipients" (list_of jwe_recipient_shape)
       else jwe_recipient_shape v)
  | _ => false
  end.

(* ------------------------------------------------------------------ *)
(* well-formed worlds                                                   *)
(* ------------------------------------------------------------------ *)
Definition kind_known (k : vkind) : bool := match k with VUnknown _ => false | _ => true end.
Definition hreg_wf (r : list hparam) : bool := forallb (fun p => kind_known (hp_kind p)) r.
(* the header registry validates "alg" (and "enc") as required strings, as every JWS/JWE registry of
   joserfc does (JWS_HEADER_REGISTRY / JWE_HEADER_REGISTRY are always merged in) *)
Definition hreg_requires_str (r : list hparam) (name : string) : bool :=
  existsb (fun p => String.eqb (hp_name p) name && hp_required p &&
                    match hp_kind p with VStr => true | _ => false end) r.
Definition jws_reg_wf (r : jws_reg) : bool := hreg_wf (jr_hreg r) && hreg_requires_str (jr_hreg r) "alg".
Definition jwe_reg_wf (r : jwe_reg) : bool :=
  hreg_wf (er_hreg r) && hreg_requires_str (er_hreg r) "alg".
Definition key_wf (k : key) : bool :=
  match k_kid k with PNone | PStr _ => true | _ => false end &&
  match k_use k with PNone | PStr _ => true | _ => false end.
(* registries of the library (from the generated tables) *)
Definition default_jws_reg : jws_reg :=
  {| jr_hreg := jws_default_instance_header_registry; jr_strict := jws_default_instance_strict;
     jr_allowed := []; jr_7797 := false |}.
Definition default_7797_reg : jws_reg :=
  {| jr_hreg := jws7797_default_header_registry; jr_strict := true; jr_allowed := []; jr_7797 := true |}.
Definition default_jwe_reg : jwe_reg :=
  {| er_hreg := jwe_default_instance_header_registry; er_strict := jwe_default_instance_strict;
     er_allowed := []; er_verify_all := jwe_default_verify_all; er_drafts := false |}.
