(* C15Cases.v — executable comparison of the registry model (and of the spec)
   with recorded behaviour of joserfc: function level (registry.check_header)
   and API level (serialize / deserialize / encrypt / decrypt entry points). *)
From Model Require Import Base PyVal TableTypes C15Registry C15Spec.
From Gen Require Import Tables.
Open Scope N_scope.

Inductive regkind := RJws | RJws7797 | RJwe (drafts : bool).

(* HeaderParameter(desc, "<name>") : the validator is looked up in
   registry._value_validators, whose kinds the extractor identified *)
Definition vk (name : string) : vkind :=
  match find (fun kv => String.eqb (fst kv) name) validator_kinds with
  | Some kv => snd kv
  | None => VUnknown 0
  end.
(* HeaderParameter(desc, in_choices([...][, is_list])): in_choices is identified
   by the extractor through the JWK "use" (is_list=False) and "key_ops"
   (is_list=True) entries; the is_list=None form has no table entry and is tied
   to both of them being identified *)
Definition kp_kind_of (n : string) : option vkind :=
  match find (fun p => String.eqb (kp_name p) n) jwk_parameter_registry with
  | Some p => Some (kp_kind p)
  | None => None
  end.
Definition use_identified : bool :=
  match kp_kind_of "use" with Some (VChoiceStr _) => true | _ => false end.
Definition key_ops_identified : bool :=
  match kp_kind_of "key_ops" with Some (VChoiceList _) => true | _ => false end.
Definition vchoices (l : list string) : vkind :=
  if use_identified && key_ops_identified then VChoices l else VUnknown 1.
Definition vchoice_str (l : list string) : vkind :=
  if use_identified then VChoiceStr l else VUnknown 2.
Definition vchoice_list (l : list string) : vkind :=
  if key_ops_identified then VChoiceList l else VUnknown 3.
Definition hp (n : string) (k : vkind) (r : bool) : hparam :=
  {| hp_name := n; hp_kind := k; hp_required := r |}.

Definition default_reg (rk : regkind) : list hparam :=
  match rk with
  | RJws => jws_default_header_registry
  | RJws7797 => jws7797_default_header_registry
  | RJwe _ => jwe_header_registry
  end.

Definition alg_tbl (d : bool) := if d then jwe_alg_table_drafts else jwe_alg_table.
Definition alg_rec (d : bool) := if d then jwe_recommended_drafts else jwe_recommended.

(* registry configuration: None = the library default instance *)
Record cfg := { c_extra : list hparam; c_strict : bool; c_allowed : option (list string) }.
Definition default_cfg (rk : regkind) : cfg :=
  {| c_extra := [];
     c_strict := match rk with RJwe _ => jwe_default_instance_strict | _ => jws_default_instance_strict end;
     c_allowed := None |}.
Definition the_cfg (rk : regkind) (c : option cfg) : cfg :=
  match c with Some x => x | None => default_cfg rk end.

Definition run_check (rk : regkind) (c : cfg) (cm : bool) (h : hdr) : res unit :=
  let reg := mk_registry (default_reg rk) (c_extra c) in
  match rk with
  | RJws => jws_check_header reg (c_strict c) h
  | RJws7797 => jws7797_check_header reg (c_strict c) h
  | RJwe d => jwe_check_header (alg_tbl d) (alg_rec d) (c_allowed c) reg (c_strict c) h cm
  end.

Definition run_spec (rk : regkind) (c : cfg) (cm : bool) (h : hdr) : bool :=
  let reg := mk_registry (default_reg rk) (c_extra c) in
  match rk with
  | RJws => header_ok reg (c_strict c) h
  | RJws7797 => header_ok7797 reg (c_strict c) h
  | RJwe d => header_ok_jwe (alg_tbl d) (alg_rec d) (c_allowed c) reg (c_strict c) h cm
  end.

Definition is_ok {A} (r : res A) : bool := match r with Ok _ => true | Err _ => false end.

(* ---------- entry points: where check_header sits in each public function ----------
   Every public producing / consuming function of joserfc.jws, joserfc.rfc7797,
   joserfc.jwe and joserfc.jwt, as a guard sequence.  What is not header
   validation is abstract: [pre] (parsing, extract_compact, get_enc: before the
   header check), [step] (per signature / recipient, after its header check:
   key lookup, check_use, get_alg, signing / key wrapping / unwrapping),
   [verify] (the verdict of verify_compact) and [post] (content decryption,
   claims parsing).  The JSON flattened / general forms differ only in the
   number of members. *)
Inductive entry :=
| JwsSerializeCompact | JwsSerializeJson | JwsValidateCompact | JwsDeserializeCompact | JwsDeserializeJson
| R7797SerializeCompact | R7797SerializeJson | R7797DeserializeCompact | R7797DeserializeJson
| JwtEncodeJws | JwtDecodeJws | JwtEncodeJwe (drafts : bool) | JwtDecodeJwe (drafts : bool)
| JweEncryptCompact (drafts : bool) | JweEncryptJson (drafts : bool)
| JweDecryptCompact (drafts : bool) | JweDecryptJson (drafts : bool).

Definition entry_rk (e : entry) : regkind :=
  match e with
  | JwsSerializeCompact | JwsSerializeJson | JwsValidateCompact | JwsDeserializeCompact
  | JwsDeserializeJson | JwtEncodeJws | JwtDecodeJws => RJws
  | R7797SerializeCompact | R7797SerializeJson | R7797DeserializeCompact | R7797DeserializeJson => RJws7797
  | JwtEncodeJwe d | JwtDecodeJwe d | JweEncryptCompact d | JweEncryptJson d
  | JweDecryptCompact d | JweDecryptJson d => RJwe d
  end.

Definition entry_consuming (e : entry) : bool :=
  match e with
  | JwsValidateCompact | JwsDeserializeCompact | JwsDeserializeJson | R7797DeserializeCompact
  | R7797DeserializeJson | JwtDecodeJws | JwtDecodeJwe _ | JweDecryptCompact _ | JweDecryptJson _ => true
  | _ => false
  end.

(* check_more: _perform_decrypt passes True, __prepare_recipient_algorithm nothing *)
Definition entry_cm (e : entry) : bool :=
  match e with JwtDecodeJwe _ | JweDecryptCompact _ | JweDecryptJson _ => true | _ => false end.

(* jwt.encode: _header = {"typ": "JWT", **header} *)
Definition jwt_typ : hdr := [(asc "typ", PStr (asc "JWT"))].
Definition entry_parts (e : entry) (parts : list hdr) : list hdr :=
  match e with JwtEncodeJws | JwtEncodeJwe _ => jwt_typ :: parts | _ => parts end.
Definition entry_header (e : entry) (parts : list hdr) : hdr := merge_parts (entry_parts e parts).

Section EntryRun.
  Variable pre : res unit.
  Variable step : hdr -> res unit.
  Variable verify : res bool.
  Variable post : res unit.

  (* registry.check_header(headers) and then the rest for this signature / recipient *)
  Definition checked_member (e : entry) (c : cfg) (parts : list hdr) : res unit :=
    let h := entry_header e parts in
    do _ <- run_check (entry_rk e) c (entry_cm e) h; step h.

  Fixpoint members_loop (e : entry) (c : cfg) (ms : list (list hdr)) : res unit :=
    match ms with
    | [] => Ok tt
    | m :: r => do _ <- checked_member e c m; members_loop e c r
    end.

  Definition generic_run (e : entry) (c : cfg) (ms : list (list hdr)) : res unit :=
    do _ <- pre; do _ <- members_loop e c ms; post.

  (* jws.validate_compact(obj, key): check_header, key, get_alg, verify_compact *)
  Definition validate_compact_run (c : cfg) (parts : list hdr) : res bool :=
    do _ <- checked_member JwsValidateCompact c parts; verify.
  (* jws.deserialize_compact: extract_compact, then validate_compact, BadSignatureError on False *)
  Definition deserialize_compact_run (c : cfg) (parts : list hdr) : res unit :=
    do _ <- pre;
    do b <- validate_compact_run c parts;
    if (b : bool) then Ok tt else Err (EJose BadSignatureError).
  (* jwt.decode (JWS): deserialize_compact, then the claims *)
  Definition jwt_decode_jws_run (c : cfg) (parts : list hdr) : res unit :=
    do _ <- deserialize_compact_run c parts; post.

  Definition entry_run (e : entry) (c : cfg) (ms : list (list hdr)) : res unit :=
    match e, ms with
    | JwsValidateCompact, [p] =>
        do b <- validate_compact_run c p; if (b : bool) then Ok tt else Err (EJose BadSignatureError)
    | JwsDeserializeCompact, [p] => deserialize_compact_run c p
    | JwtDecodeJws, [p] => jwt_decode_jws_run c p
    | (JwsValidateCompact | JwsDeserializeCompact | JwtDecodeJws), _ => Err EAssert   (* one header only *)
    | _, _ => generic_run e c ms
    end.
End EntryRun.

(* the run of an entry point on an otherwise valid object: everything that is not
   header validation succeeds *)
Definition entry_run_valid (e : entry) (c : cfg) (ms : list (list hdr)) : res unit :=
  entry_run (Ok tt) (fun _ => Ok tt) (Ok true) (Ok tt) e c ms.

(* ---------- object-level histories (JWE JSON objects are re-usable) ----------
   GeneralJSONEncryption / FlattenedJSONEncryption carry the header in three
   public places: obj.protected, obj.unprotected, recipient.header.  The caller
   may edit them between operations (in place, by rebinding the attribute, with
   Recipient.add_header, with add_recipient).  encrypt_json reads the fields AT
   CALL TIME: Recipient.headers() merges the current dicts. *)
Record jwe_obj := { o_protected : hdr; o_unprotected : option hdr; o_recipients : list (option hdr) }.

Inductive edit :=
| ESetP (k : str) (v : pv) | EDelP (k : str) | ERebindP (h : hdr)
| ESetU (k : str) (v : pv) | EDelU (k : str) | ERebindU (h : option hdr)
| ESetR (i : nat) (k : str) (v : pv) | EDelR (i : nat) (k : str) | ERebindR (i : nat) (h : option hdr)
| EAddHeader (i : nat) (k : str) (v : pv)          (* recipient.add_header(k, v) *)
| EAddRecipient (flattened : bool) (h : option hdr). (* obj.add_recipient(h, key) *)

Fixpoint upd_nth {A} (l : list A) (i : nat) (f : A -> A) : list A :=
  match l, i with
  | [], _ => []
  | x :: r, O => f x :: r
  | x :: r, S j => x :: upd_nth r j f
  end.

Definition apply_edit (o : jwe_obj) (e : edit) : jwe_obj :=
  let P := o_protected o in let U := o_unprotected o in let R := o_recipients o in
  match e with
  | ESetP k v => {| o_protected := dset P k v; o_unprotected := U; o_recipients := R |}
  | EDelP k => {| o_protected := ddel P k; o_unprotected := U; o_recipients := R |}
  | ERebindP h => {| o_protected := h; o_unprotected := U; o_recipients := R |}
  | ESetU k v => {| o_protected := P; o_unprotected := option_map (fun u => dset u k v) U; o_recipients := R |}
  | EDelU k => {| o_protected := P; o_unprotected := option_map (fun u => ddel u k) U; o_recipients := R |}
  | ERebindU h => {| o_protected := P; o_unprotected := h; o_recipients := R |}
  | ESetR i k v => {| o_protected := P; o_unprotected := U;
                      o_recipients := upd_nth R i (option_map (fun h => dset h k v)) |}
  | EDelR i k => {| o_protected := P; o_unprotected := U;
                    o_recipients := upd_nth R i (option_map (fun h => ddel h k)) |}
  | ERebindR i h => {| o_protected := P; o_unprotected := U; o_recipients := upd_nth R i (fun _ => h) |}
  | EAddHeader i k v =>
      (* elif self.header: self.header.update({k: v}) else: self.header = {k: v} *)
      {| o_protected := P; o_unprotected := U;
         o_recipients := upd_nth R i (fun h => match h with Some h' => Some (dset h' k v) | None => Some [(k, v)] end) |}
  | EAddRecipient fl h =>
      {| o_protected := P; o_unprotected := U; o_recipients := if fl then [h] else R ++ [h] |}
  end.

Definition final_state (o : jwe_obj) (es : list edit) : jwe_obj := fold_left apply_edit es o.

Definition opt_part (h : option hdr) : list hdr := match h with Some x => [x] | None => [] end.
(* Recipient.headers() of every recipient, from the CURRENT fields *)
Definition obj_members (o : jwe_obj) : list (list hdr) :=
  map (fun r => o_protected o :: opt_part (o_unprotected o) ++ opt_part r) (o_recipients o).

Section ObjRun.
  Variable pre : res unit.
  Variable step : hdr -> res unit.
  Variable verify : res bool.
  Variable post : res unit.
  (* jwe.encrypt_json(obj, ...) *)
  Definition encrypt_json_obj (d : bool) (c : cfg) (o : jwe_obj) : res unit :=
    entry_run pre step verify post (JweEncryptJson d) c (obj_members o).
  (* ... after a history of edits of the object (whatever was done with it before) *)
  Definition encrypt_json_history (d : bool) (c : cfg) (o : jwe_obj) (es : list edit) : res unit :=
    encrypt_json_obj d c (final_state o es).
End ObjRun.

Inductive c15case :=
(* registry.check_header(h[, check_more]) gave [expect]; the harness' own
   reading of the property gave [spec] *)
| CCheck (rk : regkind) (c : option cfg) (cm : bool) (h : hdr) (expect : res unit) (spec : bool)
(* an entry point was run on an otherwise valid object whose signatures /
   recipients have the given header parts (protected, unprotected,
   per-recipient); it returned normally iff [accepted] *)
| CApi (e : entry) (c : option cfg) (members : list (list hdr)) (accepted : bool)
       (* the class it raised, recorded when nothing else can fail before the header check *)
       (raised : option exn)
(* a JWE JSON object in state [init] (as observed after a first operation) was
   edited by [edits] and handed to jwe.encrypt_json again *)
| CHist (d : bool) (c : option cfg) (init : jwe_obj) (edits : list edit) (accepted : bool)
        (raised : option exn).

Definition unit_eqb (a b : unit) : bool := true.

Fixpoint first_err (l : list (res unit)) : option exn :=
  match l with
  | [] => None
  | Ok _ :: r => first_err r
  | Err e :: _ => Some e
  end.

Definition c15_check (x : c15case) : bool :=
  match x with
  | CCheck rk c cm h e s =>
      res_eqb unit_eqb (run_check rk (the_cfg rk c) cm h) e &&
      Bool.eqb (run_spec rk (the_cfg rk c) cm h) s
  | CApi e c ms acc raised =>
      let r := entry_run_valid e (the_cfg (entry_rk e) c) ms in
      Bool.eqb (is_ok r) acc &&
      match raised with
      | None => true
      | Some x => match r with Err x' => exn_eqb x x' | Ok _ => false end
      end
  | CHist d c init es acc raised =>
      let r := encrypt_json_history (Ok tt) (fun _ => Ok tt) (Ok true) (Ok tt) d (the_cfg (RJwe d) c) init es in
      Bool.eqb (is_ok r) acc &&
      match raised with
      | None => true
      | Some x => match r with Err x' => exn_eqb x x' | Ok _ => false end
      end
  end.

Definition c15_show_placeholder := tt.
Definition c15_show (x : c15case) : list (res unit) * list bool :=
  match x with
  | CCheck rk c cm h _ _ => ([run_check rk (the_cfg rk c) cm h], [run_spec rk (the_cfg rk c) cm h])
  | CApi e c ms _ _ =>
      (entry_run_valid e (the_cfg (entry_rk e) c) ms ::
       map (fun parts => run_check (entry_rk e) (the_cfg (entry_rk e) c) (entry_cm e) (entry_header e parts)) ms,
       map (fun parts => run_spec (entry_rk e) (the_cfg (entry_rk e) c) (entry_cm e) (entry_header e parts)) ms)
  | CHist d c init es _ _ =>
      let ms := obj_members (final_state init es) in
      (entry_run_valid (JweEncryptJson d) (the_cfg (RJwe d) c) ms ::
       map (fun parts => run_check (RJwe d) (the_cfg (RJwe d) c) false (merge_parts parts)) ms,
       map (fun parts => run_spec (RJwe d) (the_cfg (RJwe d) c) false (merge_parts parts)) ms)
  end.
