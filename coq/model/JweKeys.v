(* JweKeys.v — key resolution of joserfc.jwe: jwk.guess_key (Key / KeySet / callable), the "kid" member of
   the MERGED header (protected < unprotected < per-recipient), KeySet.get_by_kid, Key.check_use("enc")
   incl. the pre-attached recipient key and the ECDH-1PU sender key, _guess_sender_key / "skid".
   The random choice of a key (use_random with no kid) and ensure_kid (thumbprint, C13) are outside. *)
From Model Require Export JweBase JweCrypto JweMsg.
From Gen Require Import Tables.
Open Scope N_scope.

(* a Key object as far as resolution is concerned: the primitive-level key, its "kid" and "use" members *)
Record kkey := { kk_key : key; kk_kid : pv; kk_use : pv }.

(* what the caller hands in as private_key / public_key / sender_key *)
Inductive ksrc0 := KOne (k : kkey) | KSet (ks : list kkey).
Inductive ksrc := KPlain (s : ksrc0) | KFun (l : list ksrc0).   (* callable: the i-th call returns l[i] *)

(* KeySet.get_by_kid *)
Fixpoint find_kid (ks : list kkey) (kid : pv) : res kkey :=
  match ks with
  | [] => Err (EJose InvalidKeyIdError)
  | k :: r => if py_eq (kk_kid k) kid then Ok k else find_kid r kid
  end.
Definition get_by_kid (ks : list kkey) (kid : pv) : res kkey :=
  match kid, ks with
  | PNone, [k] => Ok k
  | _, _ => find_kid ks kid
  end.

(* Key.check_use("enc") *)
Definition check_use_enc (k : kkey) : res unit :=
  if py_truth (kk_use k) && negb (py_eq (kk_use k) (PStr (s_ "enc")))
  then Err (EJose UnsupportedKeyUseError) else Ok tt.

Definition src_at (s : ksrc) (idx : nat) : res ksrc0 :=
  match s with
  | KPlain x => Ok x
  | KFun l => match nth_error l idx with Some x => Ok x | None => Err EIndex end
  end.

(* jwk.guess_key(key, recipient) with use_random = False *)
Definition guess_key (s : ksrc) (idx : nat) (hs : res dict) : res kkey :=
  do x <- src_at s idx;
  match x with
  | KOne k => Ok k
  | KSet ks => do h <- hs; get_by_kid ks (hget h "kid")
  end.

(* _guess_sender_key(recipient, key) with use_random = False *)
Definition guess_sender (s : ksrc0) (hs : res dict) : res kkey :=
  do k <- (match s with
           | KOne k => Ok k
           | KSet ks => do h <- hs;
                        let skid := hget h "skid" in
                        if py_truth skid then get_by_kid ks skid else Err EValue
           end);
  do _ <- check_use_enc k;
  Ok k.

(* `if sender_key:` : an empty KeySet is falsy *)
Definition sender_given (s : option ksrc0) : option ksrc0 :=
  match s with Some (KSet []) => None | x => x end.

Definition with_keys (r : recip) (k : key) (s : option key) : recip :=
  {| r_header := r_header r; r_ek := r_ek r; r_key := k; r_sender := s; r_eph := r_eph r |}.

(* jwe._attach_recipient_keys / the key part of decrypt_compact: per recipient, in order *)
Fixpoint attach_keys (o : jobj) (rs : list recip) (idx : nat) (src : ksrc) (ssrc : option ksrc0)
  : res (list recip) :=
  match rs with
  | [] => Ok []
  | r :: rest =>
      let hs := headers (j_ser o) (j_prot o) (j_unprot o) (r_header r) in
      do k <- guess_key src idx hs;
      do _ <- check_use_enc k;
      do sk <- (match sender_given ssrc with
                | Some s => do x <- guess_sender s hs; Ok (Some (kk_key x))
                | None => Ok None
                end);
      do rs' <- attach_keys o rest (S idx) src ssrc;
      Ok (with_keys r (kk_key k) sk :: rs')
  end.

Definition set_recips (o : jobj) (rs : list recip) : jobj :=
  {| j_ser := j_ser o; j_prot := j_prot o; j_unprot := j_unprot o; j_aad := j_aad o;
     j_b64prot := j_b64prot o; j_iv := j_iv o; j_ct := j_ct o; j_tag := j_tag o; j_recips := rs |}.

(* ---------- which registry an entry point of jwe.py uses ----------
   if algorithms: registry = JWERegistry(algorithms=algorithms)   (constructor defaults otherwise)
   elif registry is None: registry = default_registry
   The constructor default of verify_all_recipients and the allow-list of default_registry come from
   gen/Tables.v (jwe_default_verify_all, jwe_default_registry_allowed_drafts). *)
Definition default_registry : registry :=
  {| g_allowed := option_map (map asc) jwe_default_registry_allowed_drafts; g_verify_all := jwe_default_verify_all |}.
Definition jwe_sel (algorithms : option (list str)) (reg : option registry) : registry :=
  match algorithms with
  | Some ((_ :: _) as l) => {| g_allowed := Some l; g_verify_all := jwe_default_verify_all |}
  | _ => match reg with Some r => r | None => default_registry end
  end.

Section Keys.
Variable O : oracles.

Definition decrypt_compact_k (g : registry) (value : bytes) (src : ksrc) (ssrc : option ksrc0)
  : res (bytes * jobj) :=
  do o0 <- extract_compact O value {| k_kty := []; k_crv := []; k_priv := false; k_id := [] |} None;
  do rs <- attach_keys o0 (j_recips o0) 0 src ssrc;
  let o := set_recips o0 rs in
  do m <- perform_decrypt O g o;
  Ok (m, o).

Definition decrypt_json_k (g : registry) (data : pv) (src : ksrc) (ssrc : option ksrc0)
  : res (bytes * jobj) :=
  do o0 <- extract_json O data [] {| k_kty := []; k_crv := []; k_priv := false; k_id := [] |} None;
  do rs <- attach_keys o0 (j_recips o0) 0 src ssrc;
  let o := set_recips o0 rs in
  do m <- perform_decrypt O g o;
  Ok (m, o).

(* encrypt_json with pre-attached recipient keys (1618a0f) and a sender Key (85ae009):
   per recipient, first the sender key, then the recipient key *)
Fixpoint encrypt_json_checks (rs : list (kkey * option kkey)) : res unit :=
  match rs with
  | [] => Ok tt
  | (k, sk) :: rest =>
      do _ <- (match sk with Some s => check_use_enc s | None => Ok tt end);
      do _ <- check_use_enc k;
      encrypt_json_checks rest
  end.
(* encrypt_compact: the recipient key first, then the sender key *)
Definition encrypt_compact_checks (k : kkey) (sk : option kkey) : res unit :=
  do _ <- check_use_enc k;
  match sk with Some s => check_use_enc s | None => Ok tt end.

Definition encrypt_compact_k (g : registry) (o : eobj) (d : edraw) (k : kkey) (sk : option kkey) : res bytes :=
  do _ <- encrypt_compact_checks k sk; encrypt_compact O g o d.
Definition encrypt_json_k (g : registry) (o : eobj) (d : edraw) (ks : list (kkey * option kkey)) : res pv :=
  do _ <- encrypt_json_checks ks; encrypt_json O g o d.

End Keys.
