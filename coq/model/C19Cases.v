(* C19Cases.v — executable comparison of the codec model with recorded
   behaviour of joserfc.util / joserfc.rfc7518.util (correspondence check). *)
From Model Require Import Base B64 IntCodec.
Open Scope N_scope.

Inductive c19case :=
| CEnc (x : bytes) (expect : list N)
| CDec (s : list N) (expect : res bytes)
| CI2B (z : Z) (expect : res (list N))
| CB2I (s : list N) (expect : res Z)
| CEncInt (z : Z) (bits : N) (expect : res bytes)
| CDecInt (s : bytes) (expect : res Z).

Definition c19_check (c : c19case) : bool :=
  match c with
  | CEnc x e => beqb (b64e x) e
  | CDec s e => res_eqb beqb (b64d s) e
  | CI2B z e => res_eqb beqb (int_to_base64 z) e
  | CB2I s e => res_eqb Z.eqb (base64_to_int s) e
  | CEncInt z b e => res_eqb beqb (encode_int z b) e
  | CDecInt s e => res_eqb Z.eqb (decode_int s) e
  end.

(* integers are shown as (sign, big-endian octets): printing huge decimal
   numbers is slow *)
Inductive c19out := OB (r : res bytes) | OZ (r : res (bool * bytes)).
Definition zshow (r : res Z) : res (bool * bytes) :=
  match r with Ok z => Ok ((z <? 0)%Z, N_to_be_min (Z.abs_N z)) | Err e => Err e end.
Definition c19_show (c : c19case) : c19out :=
  match c with
  | CEnc x _ => OB (Ok (b64e x))
  | CDec s _ => OB (b64d s)
  | CI2B z _ => OB (int_to_base64 z)
  | CB2I s _ => OZ (zshow (base64_to_int s))
  | CEncInt z b _ => OB (encode_int z b)
  | CDecInt s _ => OZ (zshow (decode_int s))
  end.
