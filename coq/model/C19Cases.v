(* C19Cases.v — executable comparison of the codec model with recorded
   behaviour of joserfc.util / joserfc.rfc7518.util (correspondence check). *)
From Model Require Import Base B64 IntCodec PyVal Json.
Open Scope N_scope.

Inductive c19case :=
| CEnc (x : bytes) (expect : list N)
| CDec (s : list N) (expect : res bytes)
| CI2B (z : Z) (expect : res (list N))
| CB2I (s : list N) (expect : res Z)
| CEncInt (z : Z) (bits : N) (expect : res bytes)
| CDecInt (s : bytes) (expect : res Z)
| CJDump (v : pv) (expect : list N)            (* json.dumps(v, ensure_ascii=True, separators=(",",":")) *)
| CJLoad (s : list N) (expect : option pv)     (* json.loads(text): Some v / None = ValueError *)
| CJB64 (h : pv) (expect : list N)             (* util.json_b64encode(h) *)
| CJB64D (seg : list N) (expect : option pv).  (* util.json_b64decode(seg): Some v / None = ValueError *)

(* structural equality of float-free values (order-sensitive for dicts: the
   harness passes dicts in Python's insertion order) *)
Fixpoint pv_same (a b : pv) {struct a} : bool :=
  match a, b with
  | PNone, PNone => true
  | PBool x, PBool y => Bool.eqb x y
  | PInt x, PInt y => (x =? y)%Z
  | PStr s, PStr t => str_eqb s t
  | PList l, PList m =>
      (fix go (l m : list pv) {struct l} : bool :=
         match l, m with
         | [], [] => true
         | x :: l', y :: m' => pv_same x y && go l' m'
         | _, _ => false
         end) l m
  | PDict d, PDict e =>
      (fix go (d : list (str * pv)) (e : list (str * pv)) {struct d} : bool :=
         match d, e with
         | [], [] => true
         | (k, x) :: d', (k2, y) :: e' => str_eqb k k2 && pv_same x y && go d' e'
         | _, _ => false
         end) d e
  | _, _ => false
  end.

Definition c19_check (c : c19case) : bool :=
  match c with
  | CEnc x e => beqb (b64e x) e
  | CDec s e => res_eqb beqb (b64d s) e
  | CI2B z e => res_eqb beqb (int_to_base64 z) e
  | CB2I s e => res_eqb Z.eqb (base64_to_int s) e
  | CEncInt z b e => res_eqb beqb (encode_int z b) e
  | CDecInt s e => res_eqb Z.eqb (decode_int s) e
  | CJDump v e => beqb (json_print v) e
  | CJLoad s e =>
      match json_loads s, e with
      | POk v, Some w => pv_same v w
      | PErr, None => true
      | PUnsup, _ => true      (* float syntax met: outside the modelled fragment, the model gives no verdict *)
      | _, _ => false
      end
  | CJB64 h e => beqb (json_b64encode h) e
  | CJB64D seg e =>
      match json_b64decode seg, e with
      | Ok (POk v), Some w => pv_same v w
      | Ok PErr, None => true
      | Err EValue, None => true
      | _, _ => false
      end
  end.

(* integers are shown as (sign, big-endian octets): printing huge decimal
   numbers is slow *)
Inductive c19out := OB (r : res bytes) | OZ (r : res (bool * bytes)) | OJ (r : pres pv).
Definition zshow (r : res Z) : res (bool * bytes) :=
  match r with Ok z => Ok ((z <? 0)%Z, N_to_be_min (Z.abs_N z)) | Err e => Err e end.
Definition c19_show (c : c19case) : c19out :=
  match c with
  | CEnc x _ => OB (Ok (b64e x))
  | CDec s _ => OB (b64d s)
  | CI2B z _ => OB (int_to_base64 z)
  | CB2I s _ => OZ (zshow (base64_to_int s))
  | CEncInt z b _ => OB (encode_int z b)
  | CDecInt s _ => OZ (zshow (decode_int s))
  | CJDump v _ => OB (Ok (json_print v))
  | CJLoad s _ => OJ (json_loads s)
  | CJB64 h _ => OB (Ok (json_b64encode h))
  | CJB64D seg _ => match json_b64decode seg with Ok r => OJ r | Err _ => OJ PErr end
  end.
