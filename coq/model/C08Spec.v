(* C08Spec.v — the octets RFC 7516 / RFC 7518 (and the ECDH-1PU draft) prescribe,
   transcribed from the specification text, independently of model/JweCrypto.v.
   Literal tables are those printed in the RFCs. *)
From Model Require Import Base PyVal B64 IntCodec.
Open Scope N_scope.

(* RFC 7516 5.1 step 14: "Let the Additional Authenticated Data encryption parameter be
   ASCII(Encoded Protected Header).  However, if a JWE AAD value is present (which can only
   be the case when using the JWE JSON Serialization), instead let [it] be
   ASCII(Encoded Protected Header || '.' || BASE64URL(JWE AAD))." *)
Definition spec_aad (encoded_protected : bytes) (jwe_aad : option bytes) : bytes :=
  match jwe_aad with
  | Some (x :: l) => encoded_protected ++ [46] ++ b64e (x :: l)
  | _ => encoded_protected
  end.

(* RFC 7518 5.2.2.1 step 4: "The octet string AL is equal to the number of bits in the
   Additional Authenticated Data A expressed as a 64-bit unsigned big-endian integer." *)
Definition spec_al (a : bytes) : bytes := I2OSP (8 * lenN a) 8.

(* RFC 7518 5.2.3, 5.2.4, 5.2.5 *)
Record cbc_params := { p_mac_key_len : nat; p_enc_key_len : nat; p_t_len : nat; p_hash : string }.
Definition spec_cbc_params : list (string * cbc_params) :=
  [("A128CBC-HS256"%string, {| p_mac_key_len := 16; p_enc_key_len := 16; p_t_len := 16; p_hash := "sha256" |});
   ("A192CBC-HS384"%string, {| p_mac_key_len := 24; p_enc_key_len := 24; p_t_len := 24; p_hash := "sha384" |});
   ("A256CBC-HS512"%string, {| p_mac_key_len := 32; p_enc_key_len := 32; p_t_len := 32; p_hash := "sha512" |})].

(* 5.2.2.1 step 1: "MAC_KEY consists of the initial MAC_KEY_LEN octets of K, in order.
   ENC_KEY consists of the final ENC_KEY_LEN octets of K, in order." *)
Definition spec_mac_key (p : cbc_params) (k : bytes) : bytes := firstn (p_mac_key_len p) k.
Definition spec_enc_key (p : cbc_params) (k : bytes) : bytes := skipn (length k - p_enc_key_len p) k.

(* step 5: "A message Authentication Tag T is computed by applying HMAC to
   A || IV || E || AL.  The string MAC_KEY is used as the MAC key.  We denote the output
   of the MAC computed in this step as M.  The first T_LEN octets of M are used as T." *)
Definition spec_mac_input (a iv e : bytes) : bytes := a ++ iv ++ e ++ spec_al a.
Definition spec_tag (p : cbc_params) (m : bytes) : bytes := firstn (p_t_len p) m.

(* RFC 7518 4.6.2: AlgorithmID, PartyUInfo, PartyVInfo "of the form Datalen || Data, where Data
   is a variable-length string of zero or more octets, and Datalen is a fixed-length, big-endian
   32-bit counter"; SuppPubInfo "is set to the keydatalen represented as a 32-bit big-endian
   integer"; SuppPrivInfo empty.  ECDH-1PU draft 2.3: in Key Agreement with Key Wrapping mode the
   JWE Authentication Tag is appended to SuppPubInfo as "cctag", length-prefixed. *)
Definition len32 (b : bytes) : bytes := I2OSP (lenN b) 4 ++ b.
Definition spec_otherinfo (algorithm_id party_u party_v : bytes) (keydatalen : N) (cctag : option bytes) : bytes :=
  len32 algorithm_id ++ len32 party_u ++ len32 party_v ++ I2OSP keydatalen 4 ++
  match cctag with Some t => len32 t | None => [] end.

(* ECDH-1PU draft 2.2: "Z = Ze || Zs" *)
Definition spec_1pu_z (ze zs : bytes) : bytes := ze ++ zs.

(* RFC 7518 4.8.1.1: "The salt value used is (UTF8(Alg) || 0x00 || Salt Input)" *)
Definition spec_pbes2_salt (utf8_alg salt_input : bytes) : bytes := utf8_alg ++ [0] ++ salt_input.
(* 4.8: PBES2-HS256+A128KW: HMAC SHA-256, A128KW (16-octet derived key); HS384: A192KW (24); HS512: A256KW (32) *)
Definition spec_pbes2_table : list (string * (string * N)) :=
  [("PBES2-HS256+A128KW"%string, ("sha256"%string, 16)); ("PBES2-HS384+A192KW"%string, ("sha384"%string, 24));
   ("PBES2-HS512+A256KW"%string, ("sha512"%string, 32))].

(* RFC 7518 4.2, 4.3: RSA1_5 = RSAES-PKCS1-v1_5; RSA-OAEP = RSAES OAEP using default parameters
   (SHA-1 and MGF1 with SHA-1); RSA-OAEP-256 = RSAES OAEP using SHA-256 and MGF1 with SHA-256 *)
Definition spec_rsa_paddings : list (string * string) :=
  [("RSA1_5"%string, "PKCS1v15"%string);
   ("RSA-OAEP"%string, "OAEP:mgf=sha1:hash=sha1:label=none"%string);
   ("RSA-OAEP-256"%string, "OAEP:mgf=sha256:hash=sha256:label=none"%string)].

(* content encryption: (name, IV bits, CEK bits): RFC 7518 5.2.3-5 (128-bit IV; K = 32/48/64 octets),
   5.3 (96-bit IV; 128/192/256-bit keys), draft-amringer-jose-chacha-02 (C20P 96-bit, XC20P 192-bit nonce; 256-bit key) *)
Definition spec_enc_sizes : list (string * N * N) :=
  [("A128CBC-HS256"%string, 128, 256); ("A192CBC-HS384"%string, 128, 384); ("A256CBC-HS512"%string, 128, 512);
   ("A128GCM"%string, 96, 128); ("A192GCM"%string, 96, 192); ("A256GCM"%string, 96, 256);
   ("C20P"%string, 96, 256); ("XC20P"%string, 192, 256)].

(* RFC 7518 4.7.1.1 / 4.7.1.2: "iv" = base64url of the 96-bit IV; "tag" = base64url of the 128-bit tag *)
Definition spec_gcmkw_iv_octets : N := 12.
Definition spec_gcmkw_tag_octets : N := 16.

(* RFC 7516 4.1.3 / RFC 7518 7.3: "zip": "DEF" = "Compression with the DEFLATE [RFC1951] algorithm".
   A conforming DEFLATE stream is a sequence of blocks the last of which has BFINAL = 1 (RFC 1951 3.2.3):
   an inflater reaches end-of-stream exactly at the end of the data.  [spec_complete_raw inflate c m] says
   that for a strict raw inflater (zlib.decompressobj(-15): output, eof flag, unused trailing data). *)
Definition spec_complete_raw (raw_inflate : bytes -> res (bytes * bool * bytes)) (c m : bytes) : Prop :=
  raw_inflate c = Ok (m, true, []).
(* RFC 1950 2.2: zlib format = CMF FLG (2 octets; 0x78 0x9C for deflate, 32K window, default level; FLG varies
   with the compression level) ++ compressed data (raw DEFLATE) ++ ADLER32 (4 octets) *)
Definition spec_zlib_header : bytes := [120; 156].
Definition spec_zlib_format (z hdr raw adler : bytes) : Prop :=
  z = hdr ++ raw ++ adler /\ length hdr = 2%nat /\ length adler = 4%nat.
