(* C14KeySet.v — Impl model of key-set handling in joserfc:
     _keys.py      KeySet.__init__ / get_by_kid / pick_random_key / as_dict / import_key_set
     jwk.py        guess_key (+ _normalize_key)
     rfc7515/model.py   CompactSignature.set_kid, HeaderMember.headers/set_kid
     rfc7516/models.py  Recipient.headers / add_header / set_kid
     jwe.py        _guess_sender_key
     jws.py / jwe.py / jwt.py   the key-selection prefix of every entry point.
   A key is abstracted to what key selection looks at: its (lazily assigned)
   kid, its key type, the identity of its material and its RFC 7638 thumbprint.
   random.choice is the chooser [ch] (first element, rest) -> element. *)
From Model Require Import Base PyVal TableTypes.
From Gen Require Import Tables.
Open Scope N_scope.

Definition hdr := list (str * pv).
Definition s_kid : str := asc "kid".
Definition s_skid : str := asc "skid".
Definition s_alg : str := asc "alg".
Definition s_typ : str := asc "typ".

(* dict.get(k) *)
Definition hget (h : hdr) (k : str) : pv :=
  match dget h k with Some v => v | None => PNone end.

(* ---------- keys and key sets ---------- *)
Record key := mkKey { k_kid : option str; k_kty : string; k_id : N; k_thumb : str }.

(* BaseKey.ensure_kid: "kid" not in dict_value -> kid := thumbprint() *)
Definition ensure_kid (k : key) : key :=
  match k_kid k with
  | Some _ => k
  | None => mkKey (Some (k_thumb k)) (k_kty k) (k_id k) (k_thumb k)
  end.

(* KeySet.__init__ *)
Definition keyset_init (ks : list key) : list key := map ensure_kid ks.

(* key.kid as a Python value *)
Definition kid_pv (k : key) : pv :=
  match k_kid k with Some s => PStr s | None => PNone end.

Definition has_kid (k : key) : Prop := k_kid k <> None.
Definition has_kidb (k : key) : bool := match k_kid k with Some _ => true | None => false end.

(* KeySet.get_by_kid; [kid] is whatever headers.get("kid") gave: any JSON value *)
Definition get_by_kid (ks : list key) (kid : pv) : res key :=
  match kid, ks with
  | PNone, [k] => Ok k
  | _, _ =>
      match find (fun k => py_eq (kid_pv k) kid) ks with
      | Some k => Ok k
      | None => Err (EJose InvalidKeyIdError)
      end
  end.

(* KeySet.algorithm_keys.get(algorithm): the argument is headers["alg"] *)
Definition algkeys_get (tbl : list (string * list string)) (alg : pv) : res (option (list string)) :=
  match alg with
  | PStr s =>
      Ok (match find (fun e => str_eqb (asc (fst e)) s) tbl with
          | Some e => Some (snd e)
          | None => None
          end)
  | PList _ | PDict _ => Err EType         (* unhashable *)
  | _ => Ok None
  end.

Definition kty_in (k : key) (kts : list string) : bool := existsb (String.eqb (k_kty k)) kts.

Definition pick_candidates (tbl : list (string * list string)) (ks : list key) (alg : pv) : res (list key) :=
  do o <- algkeys_get tbl alg;
  Ok (match o with
      | Some (t :: ts) => filter (fun k => kty_in k (t :: ts)) ks
      | _ => ks                                (* no entry, or an empty list: all keys *)
      end).

Definition chooser := key -> list key -> key.

Definition pick_random_key (tbl : list (string * list string)) (ch : chooser)
           (ks : list key) (alg : pv) : res (option key) :=
  do c <- pick_candidates tbl ks alg;
  Ok (match c with [] => None | x :: r => Some (ch x r) end).

(* chooser used by the correspondence cases: the recorded index *)
Definition ch_idx (i : nat) : chooser := fun x r => nth i (x :: r) x.

(* ---------- the objects that carry headers ("GuestProtocol") ---------- *)
Inductive gkind := GJwsCompact | GJwsMember | GJweCompact | GJweJson.

(* g_prot: protected header (None only for a JWS HeaderMember);
   g_unprot: shared unprotected header of a JWE JSON object;
   g_hdr: unprotected header of a JWS member / per-recipient header of a JWE *)
Record guest := mkGuest { g_kind : gkind; g_prot : option hdr; g_unprot : option hdr; g_hdr : option hdr }.

(* `if d:` on an optional dict, then rv.update(d) *)
Definition tr (o : option hdr) : hdr := match o with Some d => d | None => [] end.

Definition headers (g : guest) : hdr :=
  match g_kind g with
  | GJwsCompact | GJweCompact => tr (g_prot g)
  | GJwsMember => dupdate (dupdate [] (tr (g_prot g))) (tr (g_hdr g))
  | GJweJson => dupdate (dupdate (dupdate [] (tr (g_prot g))) (tr (g_unprot g))) (tr (g_hdr g))
  end.

(* CompactSignature.set_kid / HeaderMember.set_kid / Recipient.add_header *)
Definition add_header (g : guest) (k : str) (v : pv) : guest :=
  match g_kind g with
  | GJwsCompact | GJweCompact =>
      mkGuest (g_kind g) (Some (dset (tr (g_prot g)) k v)) (g_unprot g) (g_hdr g)
  | GJwsMember | GJweJson =>
      mkGuest (g_kind g) (g_prot g) (g_unprot g) (Some (dset (tr (g_hdr g)) k v))
  end.

Definition set_kid (g : guest) (v : pv) : guest := add_header g s_kid v.

(* ---------- guess_key ---------- *)
Inductive ksrc := KSKey (k : key) | KSSet (ks : list key) | KSOther.
Inductive kflex := KFDirect (s : ksrc) | KFCall (f : guest -> ksrc).

Definition resolve (kf : kflex) (g : guest) : ksrc :=
  match kf with KFDirect s => s | KFCall f => f g end.

Definition guess_key (tbl : list (string * list string)) (ch : chooser)
           (kf : kflex) (g : guest) (use_random : bool) : res (key * guest) :=
  match resolve kf g with
  | KSSet ks =>
      let h := headers g in
      let kid := hget h s_kid in
      if negb (py_truth kid) && use_random then
        do alg <- match dget h s_alg with Some a => Ok a | None => Err EKey end;
        do o <- pick_random_key tbl ch ks alg;
        match o with
        | None => Err EValue
        | Some k0 => let k := ensure_kid k0 in Ok (k, set_kid g (kid_pv k))
        end
      else
        do k <- get_by_kid ks kid; Ok (k, g)
  | KSKey k => Ok (k, g)
  | KSOther => Err EValue
  end.

(* ---------- jwe._guess_sender_key ---------- *)
Inductive sksrc := SKKey (k : key) | SKSet (ks : list key).

Definition guess_sender_key (tbl : list (string * list string)) (ch : chooser)
           (sk : sksrc) (g : guest) (use_random : bool) : res (key * guest) :=
  match sk with
  | SKKey k => Ok (k, g)
  | SKSet ks =>
      let h := headers g in
      let skid := hget h s_skid in
      if py_truth skid then do k <- get_by_kid ks skid; Ok (k, g)
      else if use_random then
        do alg <- match dget h s_alg with Some a => Ok a | None => Err EKey end;
        do o <- pick_random_key tbl ch ks alg;
        match o with
        | Some k => Ok (k, add_header g s_skid (kid_pv k))
        | None => Err EValue
        end
      else Err EValue
  end.

(* `if sender_key:` — None, or a KeySet without keys, is falsy *)
Definition sender_given (o : option sksrc) : option sksrc :=
  match o with
  | Some (SKSet []) => None
  | x => x
  end.

(* ---------- entry points: the key-selection part ---------- *)
(* JWSRegistry.check_header as far as alg/kid are concerned, then get_alg:
   the key type the algorithm requires *)
Definition jws_precheck (h : hdr) : res string :=
  match dget h s_alg with
  | Some (PStr a) =>
      match dget h s_kid with
      | Some (PStr _) | None =>
          match find (fun r => str_eqb (asc (ja_name r)) a) jws_alg_table with
          | Some r => Ok (ja_key_type r)
          | None => Err (EJose UnsupportedAlgorithmError)
          end
      | Some _ => Err EValue
      end
  | _ => Err EValue
  end.

(* serialize_compact / __sign_member (use_random = true) and
   validate_compact / verify_signature (use_random = false): the key that is
   handed to alg.sign / alg.verify, and the header object afterwards *)
Definition jws_step (tbl : list (string * list string)) (ch : chooser) (use_random : bool)
           (kf : kflex) (g : guest) : res (key * guest) :=
  do kty <- jws_precheck (headers g);
  do kg <- guess_key tbl ch kf g use_random;
  if String.eqb (k_kty (fst kg)) kty then Ok kg else Err (EJose InvalidKeyTypeError).

(* rfc7797.serialize_json with b64 = false: check_header, guess_key, sign —
   there is NO alg.check_key_type on this path (the compact path and every
   consuming path have it) *)
Definition jws7797_json_step (tbl : list (string * list string)) (ch : chooser)
           (kf : kflex) (g : guest) : res (key * guest) :=
  do _ <- jws_precheck (headers g);
  guess_key tbl ch kf g true.

(* What a consumer parses from the emitted JWS.
   compact (jws.serialize_compact, jwt.encode, rfc7797.serialize_compact with
   b64 true / false / absent): the header segment is the encoding of the
   protected header object that received set_kid — on the rfc7797 b64=false
   path the code encodes the caller's dict, which is the very object stored in
   CompactSignature.protected and written in place by set_kid;
   JSON (__sign_member, rfc7797.serialize_json): "protected" / "header" are
   emitted only when non-empty. *)
Definition nonempty (o : option hdr) : option hdr :=
  match tr o with [] => None | d => Some d end.
Definition jws_emit (g : guest) : guest :=
  match g_kind g with
  | GJwsCompact | GJweCompact => mkGuest (g_kind g) (Some (tr (g_prot g))) None None
  | GJwsMember | GJweJson => mkGuest (g_kind g) (nonempty (g_prot g)) (g_unprot g) (nonempty (g_hdr g))
  end.

(* JWERegistry.check_header as far as kid is concerned (runs after selection) *)
Definition jwe_postcheck (h : hdr) : res unit :=
  match dget h s_kid with
  | Some (PStr _) | None => Ok tt
  | Some _ => Err EValue
  end.

(* one recipient of encrypt_compact / encrypt_json (use_random = true) or
   decrypt_compact / _attach_recipient_keys (false): recipient key, sender key *)
Definition jwe_select (tbl : list (string * list string)) (ch sch : chooser) (use_random : bool)
           (kf : kflex) (sk : option sksrc) (g : guest) : res (key * option key * guest) :=
  let sender (g0 : guest) : res (option key * guest) :=
    match sender_given sk with
    | None => Ok (None, g0)
    | Some s => do r <- guess_sender_key tbl sch s g0 use_random; Ok (Some (fst r), snd r)
    end in
  if use_random && match g_kind g with GJweJson => true | _ => false end then
    (* encrypt_json: sender first *)
    do sg <- sender g;
    do kg <- guess_key tbl ch kf (snd sg) use_random;
    Ok (fst kg, fst sg, snd kg)
  else
    do kg <- guess_key tbl ch kf g use_random;
    do sg <- sender (snd kg);
    Ok (fst kg, fst sg, snd sg).

Definition jwe_step tbl ch sch use_random kf sk g : res (key * option key * guest) :=
  do r <- jwe_select tbl ch sch use_random kf sk g;
  do _ <- jwe_postcheck (headers (snd r));
  Ok r.

(* jwt.encode: {"typ": "JWT", **header} *)
Definition jwt_header (h : hdr) : hdr := dupdate [(s_typ, PStr (asc "JWT"))] h.

(* several members / recipients: the first failure is raised *)
Fixpoint map_res {A B} (f : A -> res B) (l : list A) : res (list B) :=
  match l with
  | [] => Ok []
  | a :: r => do b <- f a; do bs <- map_res f r; Ok (b :: bs)
  end.

(* jwe._attach_recipient_keys (decrypt_json, general and flattened; the single
   recipient of decrypt_compact is the one-element case): the key of EVERY
   recipient is looked up, in order, before anything is decrypted; the first
   failing lookup is raised.  JWERegistry.verify_all_recipients is not an
   input of this phase (it only governs perform_decrypt afterwards). *)
Definition jwe_attach (tbl : list (string * list string)) (ch sch : chooser)
           (kf : kflex) (sk : option sksrc) (gs : list guest) : res (list (key * option key * guest)) :=
  map_res (jwe_select tbl ch sch false kf sk) gs.

(* ---------- KeySet.as_dict / KeySet.import_key_set at the level of kid / kty / material ---------- *)
Record jwk_entry := mkEntry { e_kty : option string; e_kid : option str; e_id : N; e_thumb : str }.

Definition key_as_dict (k : key) : jwk_entry :=
  let k' := ensure_kid k in mkEntry (Some (k_kty k')) (k_kid k') (k_id k') (k_thumb k').

Definition keyset_as_dict (ks : list key) : list jwk_entry := map key_as_dict ks.

(* JWKRegistry.import_key on a dict *)
Definition import_key (e : jwk_entry) : res key :=
  match e_kty e with
  | None => Err (EJose MissingKeyTypeError)
  | Some t =>
      if existsb (String.eqb t) key_types then Ok (mkKey (e_kid e) t (e_id e) (e_thumb e))
      else Err (EJose InvalidKeyTypeError)
  end.

Definition import_key_set (es : list jwk_entry) : res (list key) :=
  do ks <- map_res import_key es; Ok (keyset_init ks).

(* ---------- strict structural equality of recorded values ---------- *)
Fixpoint pv_same (a b : pv) {struct a} : bool :=
  match a, b with
  | PNone, PNone => true
  | PBool x, PBool y => Bool.eqb x y
  | PInt x, PInt y => Z.eqb x y
  | PFloat (FFin n d), PFloat (FFin m e) => Z.eqb n m && Pos.eqb d e
  | PFloat (FInf x), PFloat (FInf y) => Bool.eqb x y
  | PFloat FNan, PFloat FNan => true
  | PStr s, PStr t => str_eqb s t
  | PBytes s, PBytes t => beqb s t
  | PList l, PList m =>
      (fix go (l : list pv) (m : list pv) {struct l} : bool :=
         match l, m with
         | [], [] => true
         | x :: l', y :: m' => pv_same x y && go l' m'
         | _, _ => false
         end) l m
  | PDict d, PDict e =>
      (fix go (d : list (str * pv)) (e : list (str * pv)) {struct d} : bool :=
         match d, e with
         | [], [] => true
         | (k, v) :: d', (k2, w) :: e' => str_eqb k k2 && pv_same v w && go d' e'
         | _, _ => false
         end) d e
  | _, _ => false
  end.

Definition hdr_same (a b : hdr) : bool := pv_same (PDict a) (PDict b).
Definition ohdr_same (a b : option hdr) : bool :=
  match a, b with
  | None, None => true
  | Some x, Some y => hdr_same x y
  | _, _ => false
  end.
Definition gkind_eqb (a b : gkind) : bool :=
  match a, b with
  | GJwsCompact, GJwsCompact | GJwsMember, GJwsMember
  | GJweCompact, GJweCompact | GJweJson, GJweJson => true
  | _, _ => false
  end.
Definition guest_same (a b : guest) : bool :=
  gkind_eqb (g_kind a) (g_kind b) && ohdr_same (g_prot a) (g_prot b)
  && ohdr_same (g_unprot a) (g_unprot b) && ohdr_same (g_hdr a) (g_hdr b).
