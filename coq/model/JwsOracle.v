(* JwsOracle.v — the external code of model/Jws.v instantiated by FINITE LOOKUP
   TABLES recorded from the real run, and the executable comparison of the
   model with recorded behaviour (shared by C01Cases / C03Cases / C07Cases).
   A query the real run never made gives [Err EOracleMiss] (or a marker
   value), which shows up as a disagreement: this is how "the primitive was
   fed exactly these octets" is checked. *)
From Model Require Import Json Jws JwsJson.
From Gen Require Import Tables.
Open Scope N_scope.

(* structural equality of values (dict order matters: json.dumps depends on it) *)
Definition flt_eqb (a b : flt) : bool :=
  match a, b with
  | FFin n d, FFin m e => (n =? m)%Z && (Pos.eqb d e)
  | FInf x, FInf y => Bool.eqb x y
  | FNan, FNan => true
  | _, _ => false
  end.

Fixpoint pv_eqb (a b : pv) {struct a} : bool :=
  match a, b with
  | PNone, PNone => true
  | PBool x, PBool y => Bool.eqb x y
  | PInt x, PInt y => (x =? y)%Z
  | PFloat x, PFloat y => flt_eqb x y
  | PStr s, PStr t => str_eqb s t
  | PBytes s, PBytes t => beqb s t
  | PList l, PList m =>
      (fix go (l m : list pv) {struct l} : bool :=
         match l, m with
         | [], [] => true
         | x :: l', y :: m' => pv_eqb x y && go l' m'
         | _, _ => false
         end) l m
  | PDict d, PDict e =>
      (fix go (d e : list (str * pv)) {struct d} : bool :=
         match d, e with
         | [], [] => true
         | (k, x) :: d', (k2, y) :: e' => str_eqb k k2 && pv_eqb x y && go d' e'
         | _, _ => false
         end) d e
  | _, _ => false
  end.

Definition dict_eqb (a b : list (str * pv)) : bool := pv_eqb (PDict a) (PDict b).
Definition opt_eqb {A} (f : A -> A -> bool) (a b : option A) : bool :=
  match a, b with Some x, Some y => f x y | None, None => true | _, _ => false end.

(* identification of an algorithm's primitive: name and all parameters of the row *)
Definition row_key (r : jws_alg_row) : string :=
  (ja_name r ++ "|" ++ ja_family r ++ "|" ++ ja_hash r ++ "|" ++ ja_curve r ++ "|" ++ ja_pad r)%string.

Inductive orow :=
| OLoads (raw : bytes) (r : res pv)
| ODumps (v : pv) (out : bytes)
| OMac (hash : string) (kid : N) (msg out : bytes)
| OSign (rk : string) (kid : N) (msg : bytes) (out : res bytes)
| OVerify (rk : string) (kid : N) (msg sig : bytes) (out : res bool)
| OEcSign (rk : string) (kid : N) (msg : bytes) (r s : Z)
| OEcVerify (rk : string) (kid : N) (msg : bytes) (r s : Z) (out : res bool)
| OChoose (kid : N).

Section Tables.
  Variable t : list orow.

  Fixpoint lookup {A} (f : orow -> option A) (l : list orow) : option A :=
    match l with
    | [] => None
    | x :: r => match f x with Some y => Some y | None => lookup f r end
    end.
  Definition miss {A} (o : option (res A)) : res A :=
    match o with Some r => r | None => Err EOracleMiss end.

  (* json: the recorded table where the run recorded a row (texts that are not
     ASCII, values with floats, parse errors); otherwise the Gallina JSON model *)
  Definition T_loads (raw : bytes) : res pv :=
    match lookup (fun o => match o with OLoads x r => if beqb x raw then Some r else None | _ => None end) t with
    | Some r => r
    | None => g_loads raw
    end.
  Definition T_dumps (v : pv) : bytes :=
    match lookup (fun o => match o with ODumps x r => if pv_eqb x v then Some r else None | _ => None end) t with
    | Some r => r
    | None => g_dumps v
    end.
  Definition T_mac (h : string) (kid : N) (msg : bytes) : res bytes :=
    miss (lookup (fun o => match o with
                           | OMac h' k' m' out => if String.eqb h h' && (kid =? k') && beqb msg m' then Some (Ok out) else None
                           | _ => None end) t).
  Definition T_sign (r : jws_alg_row) (kid : N) (msg : bytes) : res bytes :=
    miss (lookup (fun o => match o with
                           | OSign rk k' m' out => if String.eqb (row_key r) rk && (kid =? k') && beqb msg m' then Some out else None
                           | _ => None end) t).
  Definition T_verify (r : jws_alg_row) (kid : N) (msg sig : bytes) : res bool :=
    miss (lookup (fun o => match o with
                           | OVerify rk k' m' s' out =>
                               if String.eqb (row_key r) rk && (kid =? k') && beqb msg m' && beqb sig s' then Some out else None
                           | _ => None end) t).
  Definition T_ecsign (r : jws_alg_row) (kid : N) (msg : bytes) : res (Z * Z) :=
    miss (lookup (fun o => match o with
                           | OEcSign rk k' m' a b => if String.eqb (row_key r) rk && (kid =? k') && beqb msg m' then Some (Ok (a, b)) else None
                           | _ => None end) t).
  Definition T_ecverify (r : jws_alg_row) (kid : N) (msg : bytes) (a b : Z) : res bool :=
    miss (lookup (fun o => match o with
                           | OEcVerify rk k' m' a' b' out =>
                               if String.eqb (row_key r) rk && (kid =? k') && beqb msg m' && (a =? a')%Z && (b =? b')%Z then Some out else None
                           | _ => None end) t).
  Definition T_choose (l : list key) : option key :=
    match lookup (fun o => match o with OChoose k => Some k | _ => None end) t with
    | Some kid => find (fun k => k_id k =? kid) l
    | None => None
    end.

  Definition M_deser_compact := deserialize_compact T_loads T_mac T_verify T_ecverify.
  Definition M_extract_compact := extract_compact T_loads.
  Definition M_validate_compact := validate_compact T_mac T_verify T_ecverify.
  Definition M_deser_json := deserialize_json T_loads T_mac T_verify T_ecverify.
  Definition M_deser_compact97 := deserialize_compact97 T_loads T_mac T_verify T_ecverify.
  Definition M_deser_json97 := deserialize_json97 T_loads T_mac T_verify T_ecverify.
  Definition M_ser_compact := serialize_compact T_dumps T_mac T_sign T_ecsign T_choose.
  Definition M_ser_compact97 := serialize_compact97 T_dumps T_mac T_sign T_ecsign T_choose.
  Definition M_sign_general := sign_general_json T_dumps T_mac T_sign T_ecsign T_choose.
  Definition M_sign_flat := sign_flattened_json T_dumps T_mac T_sign T_ecsign T_choose.
  Definition M_ser_json97 := serialize_json97 T_dumps T_mac T_sign T_ecsign T_choose.
End Tables.

(* ---------- observable results ---------- *)
(* compact: (headers(), payload) ; JSON: per member (protected, header), payload *)
Definition cres := res (pv * bytes).
Definition jres := res (list (option pv * option (list (str * pv))) * bytes).

Definition show_compact (r : res compact_obj) : cres :=
  match r with Ok o => Ok (co_protected o, co_payload o) | Err e => Err e end.
Definition show_json (r : res json_obj) : jres :=
  match r with
  | Ok o => Ok (map (fun m => (m_protected m, m_header m)) (jo_members o), jo_payload o)
  | Err e => Err e
  end.

Definition cres_eqb (a b : cres) : bool :=
  res_eqb (fun x y => pv_eqb (fst x) (fst y) && beqb (snd x) (snd y)) a b.
Definition mem_eqb (x y : option pv * option (list (str * pv))) : bool :=
  opt_eqb pv_eqb (fst x) (fst y) && opt_eqb dict_eqb (snd x) (snd y).
Definition jres_eqb (a b : jres) : bool :=
  res_eqb (fun x y => list_eqb mem_eqb (fst x) (fst y) && beqb (snd x) (snd y)) a b.

Definition jsig_eqb (a b : jsig) : bool :=
  opt_eqb beqb (js_protected a) (js_protected b) && opt_eqb dict_eqb (js_header a) (js_header b)
  && opt_eqb beqb (js_signature a) (js_signature b).
Definition jval_eqb (a b : jval) : bool :=
  match a, b with
  | JFlat p s, JFlat q u => opt_eqb beqb p q && jsig_eqb s u
  | JGen p l, JGen q m => opt_eqb beqb p q && list_eqb jsig_eqb l m
  | _, _ => false
  end.

(* ---------- cases ---------- *)
Inductive jcase :=
| JDesCompact (t : list orow) (tok : bytes) (src : keysrc) (algs : option (list str)) (expect : cres)
(* history on shared objects: extract_compact(A); extract_compact(B); validate_compact(objA) *)
| JValidate (t : list orow) (tokA : bytes) (src : keysrc) (algs : option (list str)) (expect : res bool)
| JDesJson (t : list orow) (v : jval) (src : keysrc) (algs : option (list str)) (expect : jres)
| JDesCompact97 (t : list orow) (tok : bytes) (src : keysrc) (payload : option bytes)
                (algs : option (list str)) (expect : cres)
| JDesJson97 (t : list orow) (fixed : bool) (v : jval) (src : keysrc) (algs : option (list str)) (expect : jres)
| JSerCompact (t : list orow) (h : list (str * pv)) (payload : bytes) (src : keysrc)
              (algs : option (list str)) (expect : res bytes)
| JSerCompact97 (t : list orow) (lenient : bool) (h : list (str * pv)) (payload : bytes) (src : keysrc)
                (algs : option (list str)) (expect : res bytes)
| JSerFlat (t : list orow) (m : smember) (payload : bytes) (src : keysrc) (algs : option (list str)) (expect : res jval)
| JSerGen (t : list orow) (ms : list smember) (payload : bytes) (src : keysrc) (algs : option (list str)) (expect : res jval)
| JSerJson97 (t : list orow) (fixed : bool) (m : smember) (payload : bytes) (src : keysrc)
             (algs : option (list str)) (expect : res jval)
| JDetachCompact (tok : bytes) (expect : res bytes)
(* raw octets given to OctKey.import_key -> key material used by the MAC (key.raw_value / get_op_key) *)
| JOctImport (given used : bytes)
(* the algorithm wrappers alone, with a recording primitive: *)
| JAlgVerify (t : list orow) (alg : str) (k : key) (msg sig : bytes) (expect : res bool)
| JAlgSign (t : list orow) (alg : str) (k : key) (msg : bytes) (expect : res bytes).

Definition with_alg {A} (alg : str) (f : jws_alg_row -> res A) : res A :=
  match find_alg alg with Some r => f r | None => Err ERuntime end.

Definition jcase_run (c : jcase) : (cres + jres) + (res bytes + (res jval + res bool)) :=
  match c with
  | JDesCompact t tok src algs _ => inl (inl (show_compact (M_deser_compact t tok src algs)))
  | JValidate t tok src algs _ =>
      inr (inr (inr (do o <- M_extract_compact t tok; M_validate_compact t o src (reg15 algs))))
  | JDesJson t v src algs _ => inl (inr (show_json (M_deser_json t v src algs)))
  | JDesCompact97 t tok src payload algs _ => inl (inl (show_compact (M_deser_compact97 t tok src payload algs)))
  | JDesJson97 t fixed v src algs _ => inl (inr (show_json (M_deser_json97 t fixed v src algs)))
  | JSerCompact t h payload src algs _ => inr (inl (M_ser_compact t h payload src algs))
  | JSerCompact97 t lenient h payload src algs _ => inr (inl (M_ser_compact97 t lenient h payload src algs))
  | JSerFlat t m payload src algs _ => inr (inr (inl (M_sign_flat t m payload (reg15 algs) src)))
  | JSerGen t ms payload src algs _ => inr (inr (inl (M_sign_general t ms payload (reg15 algs) src)))
  | JSerJson97 t fixed m payload src algs _ => inr (inr (inl (M_ser_json97 t fixed m payload src algs)))
  | JDetachCompact tok _ => inr (inl (detach_compact tok))
  | JOctImport given _ => inr (inl (Ok (import_oct given)))
  | JAlgVerify t alg k msg sig _ =>
      inr (inr (inr (with_alg alg (fun r => alg_verify (T_mac t) (T_verify t) (T_ecverify t) r k msg sig))))
  | JAlgSign t alg k msg _ =>
      inr (inl (with_alg alg (fun r => alg_sign (T_mac t) (T_sign t) (T_ecsign t) r k msg)))
  end.

Definition jcase_check (c : jcase) : bool :=
  match c, jcase_run c with
  | JDesCompact _ _ _ _ e, inl (inl r) => cres_eqb r e
  | JDesCompact97 _ _ _ _ _ e, inl (inl r) => cres_eqb r e
  | JDesJson _ _ _ _ e, inl (inr r) => jres_eqb r e
  | JDesJson97 _ _ _ _ _ e, inl (inr r) => jres_eqb r e
  | JValidate _ _ _ _ e, inr (inr (inr r)) => res_eqb Bool.eqb r e
  | JAlgVerify _ _ _ _ _ e, inr (inr (inr r)) => res_eqb Bool.eqb r e
  | JSerCompact _ _ _ _ _ e, inr (inl r) => res_eqb beqb r e
  | JSerCompact97 _ _ _ _ _ _ e, inr (inl r) => res_eqb beqb r e
  | JDetachCompact _ e, inr (inl r) => res_eqb beqb r e
  | JOctImport _ used, inr (inl r) => res_eqb beqb r (Ok used)
  | JAlgSign _ _ _ _ e, inr (inl r) => res_eqb beqb r e
  | JSerFlat _ _ _ _ _ e, inr (inr (inl r)) => res_eqb jval_eqb r e
  | JSerGen _ _ _ _ _ e, inr (inr (inl r)) => res_eqb jval_eqb r e
  | JSerJson97 _ _ _ _ _ _ e, inr (inr (inl r)) => res_eqb jval_eqb r e
  | _, _ => false
  end.

Definition jcase_show := jcase_run.
