(* C01Cases.v — correspondence cases of C01: the JWS verification entry points
   of the Impl model (model/Jws.v) evaluated with the oracles instantiated by
   the finite tables recorded from the real run (model/JwsOracle.v). *)
From Model Require Export Jws JwsOracle.
Definition c01case := jcase.
Definition c01_check : c01case -> bool := jcase_check.
Definition c01_show := jcase_show.
