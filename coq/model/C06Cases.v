(* C06Cases.v — executable comparison of the gate model with the recorded
   behaviour of the real entry points of joserfc (correspondence check).
   Primitives are instantiated with [prim_std] (a primitive handed a native of
   the wrong kind raises; TypeError and AttributeError are not told apart). *)
From Coq Require Import String List NArith Bool.
From Model Require Import Base PyVal TableTypes C06Model.
Import ListNotations.
Open Scope string_scope.
Open Scope N_scope.

Inductive c06case :=
| CJws (e : jws_entry) (src : keysrc) (alg : string) (k : key) (mat : bool) (siglen : N)
       (expect : res unit)
| CJwe (e : jwe_entry) (src : keysrc) (alg enc : string) (k : key) (sender : option key)
       (ek : epk) (mat : bool) (expect : res unit)
| CJweMulti (encrypt verify_all : bool) (src : keysrc) (enc : string) (rs : list mrec)
            (sender : option key) (expect : res unit)
| CUse (u : string) (k : key) (expect : res unit)        (* key.check_use(u) *)
| CAlg (a : string) (k : key) (expect : res unit)        (* key.check_alg(a) *)
| COp (op : string) (k : key) (expect : res unit)        (* key.check_key_op(op) *)
| CHist (k : key) (obs : list (string * res unit))
    (* key.get_op_key(op) called for each op, in this order, on ONE key object *)
| CWarn (text : bytes) (warned : bool)                   (* OctKey.import_key(text) warns *)
| CWarnRoutes (text : bytes) (bits : N) (obs : list (text_route * bool)).
    (* the text given through each route: (route, warned); bits = size of the resulting key *)

(* a primitive's TypeError (model) stands for TypeError or AttributeError *)
Definition exn_sim (model impl : exn) : bool :=
  exn_eqb model impl ||
  match model, impl with EType, EAttr => true | _, _ => false end.

Definition res_sim (model impl : res unit) : bool :=
  match model, impl with
  | Ok _, Ok _ => true
  | Err a, Err b => exn_sim a b
  | _, _ => false
  end.

(* wrong material: key unwrapping / content decryption fails; which JoseError
   it is depends on the algorithm (RSA1_5 implicit rejection gives a CEK of the
   wrong length) *)
Definition mat_failure (impl : res unit) : bool :=
  match impl with
  | Err (EJose DecodeError) | Err (EJose InvalidCEKLengthError) => true
  | _ => false
  end.

Definition is_ok (r : res unit) : bool := match r with Ok _ => true | _ => false end.

Definition c06_model (c : c06case) : res unit :=
  match c with
  | CJws e src alg k mat siglen _ => jws_run prim_std e src alg k mat siglen
  | CJwe e src alg enc k s ek mat _ => jwe_run prim_std e src alg enc k s ek mat
  | CJweMulti encrypt va src enc rs s _ =>
      if encrypt then jwe_multi_enc prim_std src enc rs s else jwe_multi_dec prim_std va src enc rs s
  | CUse u k _ => check_use u k
  | CAlg a k _ => check_alg a k
  | COp op k _ => check_key_op op k
  | CHist k obs => match rev (run_history k (map fst obs)) with r :: _ => r | [] => Ok tt end
  | CWarn t _ => if oct_import_warns t then Ok tt else Err EOracleMiss
  | CWarnRoutes t _ _ => if oct_import_warns t then Ok tt else Err EOracleMiss
  end.

Definition c06_check (c : c06case) : bool :=
  match c with
  | CJws _ _ _ _ _ _ x => res_sim (c06_model c) x
  | CJwe e src alg enc k s ek mat x =>
      if negb mat && is_ok (jwe_run prim_std e src alg enc k s ek true)
      then mat_failure x
      else res_sim (c06_model c) x
  | CJweMulti _ _ _ _ _ _ x =>
      match c06_model c with
      | Err (EJose DecodeError) => mat_failure x
      | m => res_sim m x
      end
  | CUse _ _ x | CAlg _ _ x | COp _ _ x => res_sim (c06_model c) x
  | CHist k obs =>
      (fix go (ms : list (res unit)) (xs : list (string * res unit)) : bool :=
         match ms, xs with
         | [], [] => true
         | m :: ms', x :: xs' => res_sim m (snd x) && go ms' xs'
         | _, _ => false
         end) (run_history k (map fst obs)) obs
  | CWarn t w => Bool.eqb (oct_import_warns t) w
  | CWarnRoutes t bits obs =>
      forallb (fun rw => Bool.eqb (snd (import_text (fst rw) t)) (snd rw) &&
                         (k_bits (fst (import_text (fst rw) t)) =? bits)) obs
  end.

Definition c06_show (c : c06case) : res unit := c06_model c.
