(* C10 — claims validation accepts exactly the claim sets that satisfy the request.
   Only statements here; proofs live in proofs/C10Proofs.v.
   Impl model: model/C10Claims.v ([validate now leeway opts claims] =
   JWTClaimsRegistry(now=, leeway=, **opts).validate(claims), over the dynamic
   pv universe, including non-JoseError exceptions on malformed requests).
   Spec: model/C10Spec.v ([accepts], written clause by clause from the
   statement; readings R1-R6 documented there).
   Domain of the characterisation: [wf_opts] (essential / allow_blank booleans,
   value a JSON scalar, values a list of JSON scalars; null = absent) and
   [json_claims] (every claim value is JSON: no NaN / Infinity / bytes).
   Purity ("the claims are not modified"): the model is a function from the
   claims to a verdict, there is nothing to state; it is checked on the
   implementation (deep comparison before / after) by harness/props/c10.py. *)
From Model Require Import Base PyVal C10Claims C10Spec.
From Gen Require Import TablesC10.
From Proofs Require Import C10Proofs.
Open Scope Z_scope.

(* ---- the dispatch table of /repo is the one the model was written for ---- *)
Theorem c10_builtin_rules : c10_validate_methods = [asc "aud"; asc "exp"; asc "iat"; asc "nbf"].
Proof. exact methods_table. Qed.
Theorem c10_default_leeway_is_zero : c10_default_leeway = 0.
Proof. exact default_leeway_zero. Qed.

(* ---- acceptance = the statement, away from the point it leaves open ---- *)
Theorem c10_accept_iff : forall now lw opts claims,
  wf_opts opts = true -> json_claims claims = true ->
  exp_on_boundary now lw claims = false ->
  (validate now lw opts claims = Ok tt <-> accepts now lw opts claims = true).
Proof. exact validate_iff. Qed.
Example c10_accept_iff_nonvacuous :
  wf_opts ex_opts = true /\ json_claims (ex_claims (PInt 1000)) = true /\
  exp_on_boundary 1060 60 (ex_claims (PInt 1001)) = false.
Proof. exact ex_domain. Qed.
Example c10_accept_iff_instance :
  validate 1060 60 ex_opts (ex_claims (PInt 1001)) = Ok tt /\
  accepts 1060 60 ex_opts (ex_claims (PInt 1001)) = true.
Proof. exact ex_accepted. Qed.

(* ---- what the code does on the open point: exp = now-leeway is still valid
   (for all inputs of the domain, boundary or not, the verdict is the Spec with
   "exp not before now-leeway") ---- *)
Theorem c10_boundary : forall now lw opts claims,
  wf_opts opts = true -> json_claims claims = true ->
  (validate now lw opts claims = Ok tt <-> accepts_gen false now lw opts claims = true).
Proof. exact validate_iff_lenient. Qed.
Theorem c10_strict_implies_accepted : forall now lw opts claims,
  accepts now lw opts claims = true -> accepts_gen false now lw opts claims = true.
Proof. exact accepts_strict_implies_lenient. Qed.
Example c10_boundary_instance :
  exp_on_boundary 1060 60 (ex_claims (PInt 1000)) = true /\
  validate 1060 60 ex_opts (ex_claims (PInt 1000)) = Ok tt /\
  accepts 1060 60 ex_opts (ex_claims (PInt 1000)) = false /\
  accepts_gen false 1060 60 ex_opts (ex_claims (PInt 1000)) = true.
Proof. exact ex_boundary. Qed.

(* ---- otherwise: the error of the matching class, Missing first; never a
   foreign exception on the domain ([err_matches] is False for any other e) ---- *)
Theorem c10_error_class : forall now lw opts claims e,
  wf_opts opts = true -> json_claims claims = true ->
  validate now lw opts claims = Err e -> err_matches now lw opts claims e.
Proof. exact validate_error_class. Qed.
Example c10_error_class_instance :
  validate 1060 60 ex_opts [(asc "iss", PNone); (asc "exp", PInt 0)] = Err (EJose MissingClaimError) /\
  err_matches 1060 60 ex_opts [(asc "iss", PNone); (asc "exp", PInt 0)] (EJose MissingClaimError).
Proof. exact ex_missing. Qed.

(* precedence: when no essential claim is missing, the error is the one called for by the
   FIRST claim, in the order of the claims set, that violates a clause (all claims
   before it satisfy every clause) *)
Theorem c10_error_first : forall now lw opts claims e,
  wf_opts opts = true -> json_claims claims = true ->
  validate now lw opts claims = Err e -> e <> EJose MissingClaimError ->
  cl_essential opts claims = true /\
  exists l1 k v l2, claims = l1 ++ (k, v) :: l2 /\
    on_claims (claim_satisfied now lw opts) l1 = true /\
    claim_err_matches now lw opts k v e.
Proof. exact validate_first_error. Qed.
Example c10_error_first_instance :
  validate 1000 0 ex_opts (ex_claims (PInt 5000)) = Err (EJose InvalidTokenError) /\
  time_gt (PFloat (FFin 2001 2%positive)) (1000 + 0) /\
  In (asc "nbf", PFloat (FFin 2001 2%positive)) (ex_claims (PInt 5000)).
Proof. exact ex_early. Qed.

(* leeway omitted = the default of the constructor (0, from the generated table) *)
Theorem c10_default_leeway : forall now opts claims,
  validate_default now opts claims = validate now 0 opts claims.
Proof. exact validate_default_eq. Qed.

(* an essential claim that is absent or null: MissingClaimError, for EVERY
   request and claims set (no domain restriction; essential read by truthiness) *)
Theorem c10_essential_missing : forall now lw opts claims k o,
  In (k, o) opts -> py_truth (oget (o_essential o)) = true -> claim_is_none claims k = true ->
  validate now lw opts claims = Err (EJose MissingClaimError).
Proof. exact essential_missing. Qed.

(* ---- never accepted: exp before now-leeway, nbf / iat after now+leeway, for
   every numeric representation (int, finite float as exact rational, -inf/+inf),
   every request (well-formed or not) and whatever else the token holds ---- *)
Theorem c10_never_expired : forall now lw opts claims v,
  In (asc "exp", v) claims -> time_lt v (now - lw) -> validate now lw opts claims <> Ok tt.
Proof. exact never_expired. Qed.
Example c10_never_expired_instance :
  validate 1060 60 ex_opts (ex_claims (PFloat (FFin 1999 2%positive))) = Err (EJose ExpiredTokenError) /\
  time_lt (PFloat (FFin 1999 2%positive)) (1060 - 60) /\
  In (asc "exp", PFloat (FFin 1999 2%positive)) (ex_claims (PFloat (FFin 1999 2%positive))).
Proof. exact ex_expired_float. Qed.

Theorem c10_never_early : forall now lw opts claims k v,
  k = asc "nbf" \/ k = asc "iat" ->
  In (k, v) claims -> time_gt v (now + lw) -> validate now lw opts claims <> Ok tt.
Proof. exact never_early. Qed.
Example c10_never_early_instance :
  validate 1000 0 ex_opts (ex_claims (PInt 5000)) = Err (EJose InvalidTokenError) /\
  time_gt (PFloat (FFin 2001 2%positive)) (1000 + 0) /\
  In (asc "nbf", PFloat (FFin 2001 2%positive)) (ex_claims (PInt 5000)).
Proof. exact ex_early. Qed.

(* ---- claims without a request or built-in rule are ignored: inserting one
   anywhere changes neither the verdict nor the error (any request, any value) ---- *)
Theorem c10_ignored : forall now lw opts l1 l2 k v,
  kind_of k = KOther -> dget opts k = None ->
  validate now lw opts (l1 ++ (k, v) :: l2) = validate now lw opts (l1 ++ l2).
Proof. exact ignored. Qed.
Theorem c10_ignored_spec : forall strict now lw opts l1 l2 k v,
  kind_of k = KOther -> dget opts k = None ->
  accepts_gen strict now lw opts (l1 ++ (k, v) :: l2) = accepts_gen strict now lw opts (l1 ++ l2).
Proof. exact ignored_spec. Qed.
Example c10_ignored_nonvacuous : kind_of (asc "priv") = KOther /\ dget ex_opts (asc "priv") = None.
Proof. exact ex_ignored. Qed.

(* ---- whatever its name: a claim other than aud / exp / nbf / iat without a request is
   ignored, be its name "timestamp", "validate", "check_value", "now", "__class__", "" ... ---- *)
Theorem c10_unrequested_ignored_any_name : forall now lw opts l1 l2 k v,
  k <> asc "aud" -> k <> asc "exp" -> k <> asc "nbf" -> k <> asc "iat" -> dget opts k = None ->
  validate now lw opts (l1 ++ (k, v) :: l2) = validate now lw opts (l1 ++ l2).
Proof. exact ignored_any_name. Qed.
Theorem c10_plain_name_iff : forall k,
  kind_of k = KOther <-> (k <> asc "aud" /\ k <> asc "exp" /\ k <> asc "nbf" /\ k <> asc "iat").
Proof. exact kind_other_iff. Qed.
Example c10_plain_names_instance :
  kind_of (asc "timestamp") = KOther /\ kind_of (asc "validate") = KOther /\ kind_of [] = KOther /\
  kind_of (asc "check_value") = KOther /\ kind_of (asc "__class__") = KOther /\ kind_of (asc "now") = KOther /\
  kind_of (asc "aud ") = KOther /\ kind_of (asc "options") = KOther.
Proof. exact ex_plain_names. Qed.
(* ... and a requested one is judged by its request only (no dependence on now / leeway, no
   method of the registry object involved): exactly what the registry without built-in rules does *)
Theorem c10_other_name_by_request_only : forall now lw opts k v,
  kind_of k = KOther -> check_claim now lw opts k v = check_claim_base opts k v.
Proof. exact other_name_by_request_only. Qed.

(* ---- ClaimsRegistry used directly (no built-in rule: table c10_base_validate_methods = []):
   every claim, aud / exp included, is judged by its request only ---- *)
Theorem c10_base_no_builtin_rules : c10_base_validate_methods = [].
Proof. exact base_methods_table. Qed.
Theorem c10_base_iff : forall opts claims,
  wf_opts opts = true -> json_claims claims = true ->
  (validate_base opts claims = Ok tt <-> accepts_base opts claims = true).
Proof. exact validate_base_iff. Qed.
Theorem c10_base_verdict : forall opts claims,
  wf_opts opts = true -> json_claims claims = true ->
  validate_base opts claims =
  if cl_essential opts claims
  then (if on_claims (plain_ok opts) claims then Ok tt else Err (EJose InvalidClaimError))
  else Err (EJose MissingClaimError).
Proof. exact validate_base_spec. Qed.
Example c10_base_instance : wf_opts ex_opts = true /\
  validate_base ex_opts [(s_exp, PStr (asc "never")); (asc "iss", PStr (asc "https://as")); (s_aud, PStr (asc "web"))] = Ok tt /\
  validate 0 0 ex_opts [(s_exp, PStr (asc "never")); (asc "iss", PStr (asc "https://as")); (s_aud, PStr (asc "web"))] = Err (EJose InvalidClaimError).
Proof. exact ex_base. Qed.

(* ---- histories: the registry object (now, leeway, options, essential_keys fixed by
   __init__) validating any sequence of claims sets gives, for each, the verdict of a
   fresh registry, and is left unchanged ---- *)
Theorem c10_validate_stateless : forall now lw opts h,
  run_history (registry_init now lw opts) h = (map (validate now lw opts) h, registry_init now lw opts).
Proof. exact history_stateless. Qed.
Theorem c10_history_independent : forall now lw opts h1 h2 c,
  nth_error (fst (run_history (registry_init now lw opts) (h1 ++ c :: h2))) (length h1) =
  Some (validate now lw opts c).
Proof. exact history_independent. Qed.

(* ---- recorded readings and limits (see C10Spec.v) ---- *)
(* R1: with strict JSON booleans (true <> 1) the characterisation fails: the code
   accepts {"admin": true} for the request value 1 (Python: True == 1) *)
Theorem c10_strict_bool_eq_refuted :
  exists now lw opts claims,
    wf_opts opts = true /\ json_claims claims = true /\ exp_on_boundary now lw claims = false /\
    validate now lw opts claims = Ok tt /\ accepts_strict_bool now lw opts claims = false.
Proof. exact strict_bool_refuted. Qed.
(* R4: aud — `values` wins over `value`; an empty / blank request requests no audience *)
Example c10_aud_values_over_value :
  validate 0 0 [(s_aud, Build_copt None None (Some (PStr (asc "a"))) (Some (PList [PStr (asc "b")])))]
           [(s_aud, PStr (asc "a"))] = Err (EJose InvalidClaimError).
Proof. exact aud_values_over_value. Qed.
Example c10_aud_empty_request_accepts :
  validate 0 0 [(s_aud, Build_copt None None (Some (PStr (asc "a"))) (Some (PList [])))] [(s_aud, PStr (asc "zzz"))] = Ok tt /\
  validate 0 0 [(s_aud, Build_copt None None (Some (PStr [])) None)] [(s_aud, PStr (asc "zzz"))] = Ok tt.
Proof. exact aud_empty_request_accepts. Qed.
Example c10_other_empty_values_rejects :
  validate 0 0 [(asc "sub", Build_copt None None None (Some (PList [])))] [(asc "sub", PStr (asc "zzz"))] = Err (EJose InvalidClaimError).
Proof. exact other_empty_values_rejects. Qed.
(* R2: {} requests nothing; any member makes it a request *)
Example c10_empty_option_requests_nothing :
  validate 0 0 [(asc "sub", Build_copt None None None None)] [(asc "sub", PStr [])] = Ok tt /\
  validate 0 0 [(asc "sub", Build_copt (Some (PBool false)) None None None)] [(asc "sub", PStr [])] = Err (EJose InvalidClaimError).
Proof. exact empty_option_requests_nothing. Qed.
(* outside the domain (values = 5) the code leaks a TypeError: the domain hypothesis is needed *)
Example c10_malformed_request_typeerror :
  validate 0 0 [(asc "sub", Build_copt None None None (Some (PInt 5)))] [(asc "sub", PStr (asc "a"))] = Err EType.
Proof. exact ex_malformed_typeerror. Qed.

Print Assumptions c10_builtin_rules.
Print Assumptions c10_default_leeway_is_zero.
Print Assumptions c10_accept_iff.
Print Assumptions c10_boundary.
Print Assumptions c10_strict_implies_accepted.
Print Assumptions c10_error_class.
Print Assumptions c10_error_first.
Print Assumptions c10_default_leeway.
Print Assumptions c10_essential_missing.
Print Assumptions c10_never_expired.
Print Assumptions c10_never_early.
Print Assumptions c10_ignored.
Print Assumptions c10_ignored_spec.
Print Assumptions c10_unrequested_ignored_any_name.
Print Assumptions c10_plain_name_iff.
Print Assumptions c10_other_name_by_request_only.
Print Assumptions c10_base_no_builtin_rules.
Print Assumptions c10_base_iff.
Print Assumptions c10_base_verdict.
Print Assumptions c10_validate_stateless.
Print Assumptions c10_history_independent.
Print Assumptions c10_strict_bool_eq_refuted.
