(* C14 — key sets resolve exactly the key named by kid.
   Only statements here; proofs are in proofs/C14Proofs.v.  Impl model:
   model/C14KeySet.v (transcribes _keys.py KeySet, jwk.guess_key, the set_kid /
   add_header methods, jwe._guess_sender_key and the selection prefix of the
   jws / jwe / jwt entry points); Spec vocabulary: model/C14Spec.v.
   [tbl] is KeySet.algorithm_keys (gen/Tables.v: keyset_algorithm_keys),
   [ch] is random.choice with the contract chooser_ok. *)
From Model Require Import Base PyVal TableTypes C14KeySet C14Spec.
From Gen Require Import Tables.
From Proofs Require Import C14Proofs.
Open Scope N_scope.

(* ---------------- lookup ---------------- *)
(* get_by_kid returns k exactly when the header has no kid and k is the only
   key, or k is the first key whose kid is the header value *)
Theorem c14_lookup : forall ks kid k,
  get_by_kid ks kid = Ok k <-> (kid = PNone /\ ks = [k]) \/ first_with ks kid k.
Proof. exact lookup_iff. Qed.

(* ... and otherwise fails with InvalidKeyIdError, never with anything else *)
Theorem c14_lookup_err : forall ks kid e,
  get_by_kid ks kid = Err e <->
  e = EJose InvalidKeyIdError /\ (kid = PNone -> forall k, ks <> [k]) /\
  Forall (fun k => kid_pv k <> kid) ks.
Proof. exact lookup_err. Qed.

(* a token without kid is accepted only against a set holding a single key *)
Theorem c14_no_kid_single : forall ks k,
  Forall has_kid ks -> (get_by_kid ks PNone = Ok k <-> ks = [k]).
Proof. exact no_kid_single. Qed.

Theorem c14_no_kid_many : forall ks,
  Forall has_kid ks -> length ks <> 1%nat -> get_by_kid ks PNone = Err (EJose InvalidKeyIdError).
Proof. exact no_kid_not_single. Qed.

(* a kid that is neither absent nor a string (number, bool, list, object) names no key *)
Theorem c14_lookup_not_string : forall ks kid,
  kid <> PNone -> (forall s, kid <> PStr s) -> get_by_kid ks kid = Err (EJose InvalidKeyIdError).
Proof. exact lookup_not_string. Qed.

(* duplicate-free sets: the key returned is THE key with that kid *)
Theorem c14_lookup_unique : forall ks s k,
  NoDup (map k_kid ks) ->
  (get_by_kid ks (PStr s) = Ok k <-> In k ks /\ k_kid k = Some s).
Proof. exact lookup_unique. Qed.

Theorem c14_lookup_unique_the : forall ks s k,
  NoDup (map k_kid ks) -> get_by_kid ks (PStr s) = Ok k ->
  forall k', In k' ks -> k_kid k' = Some s -> k' = k.
Proof. exact lookup_unique_the. Qed.

(* ---------------- every key in a set has a kid ---------------- *)
Theorem c14_every_key_has_kid : forall ks, Forall has_kid (keyset_init ks).
Proof. exact init_has_kid. Qed.

(* explicit kids are kept, missing ones become the thumbprint; nothing else changes *)
Theorem c14_init_kids : forall ks,
  map k_kid (keyset_init ks) =
  map (fun k => Some (match k_kid k with Some s => s | None => k_thumb k end)) ks.
Proof. exact init_kids. Qed.

Theorem c14_init_preserves : forall ks,
  map k_kty (keyset_init ks) = map k_kty ks /\ map k_id (keyset_init ks) = map k_id ks /\
  length (keyset_init ks) = length ks.
Proof. exact init_rest. Qed.

Theorem c14_init_idempotent : forall ks, keyset_init (keyset_init ks) = keyset_init ks.
Proof. exact init_idem. Qed.

(* import: every imported key has a kid, same number / order / material /
   key types, explicit kids kept *)
Theorem c14_import_invariant : forall es ks,
  import_key_set es = Ok ks ->
  Forall has_kid ks /\ length ks = length es /\ map k_id ks = map e_id es /\
  map (fun k => Some (k_kty k)) ks = map e_kty es /\
  (forall i e k, nth_error es i = Some e -> nth_error ks i = Some k ->
                 forall s, e_kid e = Some s -> k_kid k = Some s).
Proof. exact import_invariant. Qed.

(* ---------------- export then import ---------------- *)
Theorem c14_set_rt : forall ks,
  Forall (fun k => In (k_kty k) key_types) ks ->
  import_key_set (keyset_as_dict ks) = Ok (keyset_init ks).
Proof. exact set_rt. Qed.

Theorem c14_set_rt_inv : forall ks pub,
  import_key_set (keyset_as_dict ks) = Ok pub -> pub = keyset_init ks.
Proof. exact set_rt_inv. Qed.

(* ---------------- merged header: kid in protected or unprotected position ---------------- *)
Theorem c14_merged_header : forall g k, guest_wf g -> dget (headers g) k = merged_get g k.
Proof. exact headers_dget. Qed.

(* ---------------- consuming side ---------------- *)
(* a callable is equivalent to what it returns *)
Theorem c14_callable : forall tbl ch f g ur,
  guess_key tbl ch (KFCall f) g ur = guess_key tbl ch (KFDirect (f g)) g ur.
Proof. exact guess_callable. Qed.

(* verification / decryption resolve the key by get_by_kid on the merged kid *)
Theorem c14_consume_uses_named : forall tbl ch kf g ks,
  resolve kf g = KSSet ks ->
  guess_key tbl ch kf g false =
  match get_by_kid ks (hget (headers g) s_kid) with Ok k => Ok (k, g) | Err e => Err e end.
Proof. exact guess_consume. Qed.

Theorem c14_consume_no_kid : forall tbl ch kf g ks k g',
  resolve kf g = KSSet ks -> Forall has_kid ks -> dget (headers g) s_kid = None ->
  (guess_key tbl ch kf g false = Ok (k, g') <-> ks = [k] /\ g' = g).
Proof. exact consume_no_kid. Qed.

Theorem c14_jws_consume_uses_named : forall tbl ch kf g ks k g',
  resolve kf g = KSSet ks -> jws_step tbl ch false kf g = Ok (k, g') ->
  get_by_kid ks (hget (headers g) s_kid) = Ok k /\ g' = g.
Proof. exact jws_consume_uses_named. Qed.

Theorem c14_jws_consume_unknown_kid : forall tbl ch kf g ks kty,
  resolve kf g = KSSet ks -> jws_precheck (headers g) = Ok kty ->
  Forall (fun k => kid_pv k <> hget (headers g) s_kid) ks ->
  (hget (headers g) s_kid = PNone -> length ks <> 1%nat) ->
  jws_step tbl ch false kf g = Err (EJose InvalidKeyIdError).
Proof. exact jws_consume_unknown_kid. Qed.

Theorem c14_jwe_consume_uses_named : forall tbl ch sch kf g ks k so g',
  resolve kf g = KSSet ks -> jwe_step tbl ch sch false kf None g = Ok (k, so, g') ->
  get_by_kid ks (hget (headers g) s_kid) = Ok k /\ g' = g /\ so = None.
Proof. exact jwe_consume_uses_named. Qed.

Theorem c14_jwe_consume_unknown_kid : forall tbl ch sch kf sk g ks,
  resolve kf g = KSSet ks ->
  Forall (fun k => kid_pv k <> hget (headers g) s_kid) ks ->
  (hget (headers g) s_kid = PNone -> length ks <> 1%nat) ->
  jwe_step tbl ch sch false kf sk g = Err (EJose InvalidKeyIdError).
Proof. exact jwe_consume_unknown_kid. Qed.


(* decrypt_json (general / flattened; decrypt_compact is the one-recipient case):
   the key of every recipient is looked up before anything is decrypted, and
   JWERegistry.verify_all_recipients is not an input of that phase (jwe_attach
   has no such argument): ONE recipient whose kid names no key of the set —
   first, last or only — makes the call fail with InvalidKeyIdError in every
   registry configuration *)
Theorem c14_jwe_attach_unknown_kid : forall tbl ch sch kf ks gs,
  (forall g, In g gs -> resolve kf g = KSSet ks) ->
  (exists g, In g gs /\ forall k, get_by_kid ks (hget (headers g) s_kid) <> Ok k) ->
  jwe_attach tbl ch sch kf None gs = Err (EJose InvalidKeyIdError).
Proof. exact jwe_attach_unknown_kid. Qed.

Theorem c14_jwe_attach_ok : forall tbl ch sch kf ks gs l,
  (forall g, In g gs -> resolve kf g = KSSet ks) ->
  jwe_attach tbl ch sch kf None gs = Ok l ->
  Forall2 (fun g r => r = (fst (fst r), None, g) /\
                      get_by_kid ks (hget (headers g) s_kid) = Ok (fst (fst r))) gs l.
Proof. exact jwe_attach_ok. Qed.


(* ---------------- producing side ---------------- *)
(* with a (truthy) kid: exactly the named key, header untouched *)
Theorem c14_produce_named : forall tbl ch kf g ks ur,
  resolve kf g = KSSet ks -> py_truth (hget (headers g) s_kid) = true ->
  guess_key tbl ch kf g ur =
  match get_by_kid ks (hget (headers g) s_kid) with Ok k => Ok (k, g) | Err e => Err e end.
Proof. exact guess_named. Qed.

(* without kid: some key of the set whose key type the algorithm's entry of
   KeySet.algorithm_keys lists; its kid is recorded at the position of the
   serialization (protected header for compact, unprotected / per-recipient
   header for JSON) *)
Theorem c14_pick : forall tbl ch kf g ks k g',
  chooser_ok ch -> resolve kf g = KSSet ks ->
  py_truth (hget (headers g) s_kid) = false ->
  guess_key tbl ch kf g true = Ok (k, g') ->
  exists k0 a, dget (headers g) s_alg = Some a /\ In k0 ks /\ k = ensure_kid k0 /\
    (forall kts, algkeys_get tbl a = Ok (Some kts) -> kts <> [] -> In (k_kty k) kts) /\
    has_kid k /\ g' = set_kid g (kid_pv k) /\ written_at g' s_kid (kid_pv k).
Proof. exact guess_pick. Qed.

(* the recorded kid is the effective kid of the produced header; nothing else changes *)
Theorem c14_pick_merged : forall tbl ch kf g ks k g',
  chooser_ok ch -> guest_wf g -> resolve kf g = KSSet ks ->
  py_truth (hget (headers g) s_kid) = false ->
  guess_key tbl ch kf g true = Ok (k, g') ->
  guest_wf g' /\ hget (headers g') s_kid = kid_pv k /\
  (forall k2, k2 <> s_kid -> dget (headers g') k2 = dget (headers g) k2).
Proof. exact guess_pick_merged. Qed.

Theorem c14_json_protected_untouched : forall g k v,
  (g_kind g = GJwsMember \/ g_kind g = GJweJson) ->
  g_prot (add_header g k v) = g_prot g /\ g_unprot (add_header g k v) = g_unprot g.
Proof. exact add_header_protected_untouched. Qed.

Theorem c14_pick_spec : forall tbl ch ks alg k,
  chooser_ok ch -> pick_random_key tbl ch ks alg = Ok (Some k) ->
  In k ks /\ forall kts, algkeys_get tbl alg = Ok (Some kts) -> kts <> [] -> In (k_kty k) kts.
Proof. exact pick_spec. Qed.

Theorem c14_pick_none : forall tbl ch ks alg,
  pick_random_key tbl ch ks alg = Ok None ->
  ks = [] \/ exists kts, algkeys_get tbl alg = Ok (Some kts) /\ kts <> [] /\
                         Forall (fun k => ~ In (k_kty k) kts) ks.
Proof. exact pick_none. Qed.


(* pick_random_key filters by key type ONLY: the candidate list commutes with
   any change of the keys that keeps their key types (e.g. replacing private
   keys by their public-only counterparts: the recipient key of a JWE
   encryption is picked from a PUBLIC set), every key of a listed type is a
   candidate, and a key is returned whenever the set has one of a listed type *)
Theorem c14_pick_ignores_privateness : forall tbl (f : key -> key) ks alg,
  (forall k, k_kty (f k) = k_kty k) ->
  pick_candidates tbl (map f ks) alg =
  match pick_candidates tbl ks alg with Ok c => Ok (map f c) | Err e => Err e end.
Proof. exact pick_candidates_kty_only. Qed.

Theorem c14_pick_complete : forall tbl ks alg c kts,
  pick_candidates tbl ks alg = Ok c -> algkeys_get tbl alg = Ok (Some kts) -> kts <> [] ->
  forall k, In k c <-> In k ks /\ In (k_kty k) kts.
Proof. exact pick_candidates_complete. Qed.

Theorem c14_pick_some : forall tbl ch ks alg kts k0,
  algkeys_get tbl alg = Ok (Some kts) -> kts <> [] -> In k0 ks -> In (k_kty k0) kts ->
  exists k, pick_random_key tbl ch ks alg = Ok (Some k).
Proof. exact pick_some. Qed.

(* key selection fails only with InvalidKeyIdError, ValueError ("Invalid key"),
   or — producing side, caller's own header without / with an unhashable alg — KeyError / TypeError *)
Theorem c14_guess_errors : forall tbl ch kf g ur e,
  guess_key tbl ch kf g ur = Err e ->
  e = EJose InvalidKeyIdError \/ e = EValue \/ e = EKey \/ e = EType.
Proof. exact guess_errors. Qed.

(* the chooser of the correspondence cases meets the contract *)
Theorem c14_ch_idx_ok : forall i, chooser_ok (ch_idx i).
Proof. exact ch_idx_ok. Qed.

(* ---------------- produce, then consume with the exported-and-imported set ---------------- *)
Theorem c14_produce_consume : forall tbl ch ch' kf kf' g ks k g' pub,
  chooser_ok ch -> guest_wf g ->
  Forall has_kid ks -> NoDup (map k_kid ks) ->
  resolve kf g = KSSet ks -> py_truth (hget (headers g) s_kid) = false ->
  guess_key tbl ch kf g true = Ok (k, g') ->
  import_key_set (keyset_as_dict ks) = Ok pub -> resolve kf' g' = KSSet pub ->
  exists k', guess_key tbl ch' kf' g' false = Ok (k', g') /\
             k_id k' = k_id k /\ k_kid k' = k_kid k /\ k_kty k' = k_kty k.
Proof. exact produce_consume. Qed.

Theorem c14_jws_produce_consume : forall tbl ch ch' kf kf' g ks k g' pub,
  chooser_ok ch -> guest_wf g ->
  Forall has_kid ks -> NoDup (map k_kid ks) ->
  resolve kf g = KSSet ks -> py_truth (hget (headers g) s_kid) = false ->
  jws_step tbl ch true kf g = Ok (k, g') ->
  import_key_set (keyset_as_dict ks) = Ok pub -> resolve kf' g' = KSSet pub ->
  exists k', jws_step tbl ch' false kf' g' = Ok (k', g') /\
             k_id k' = k_id k /\ k_kid k' = k_kid k /\ k_kty k' = k_kty k.
Proof. exact jws_produce_consume. Qed.

Theorem c14_jwe_produce_consume : forall tbl ch sch ch' sch' kf kf' g ks k so g' pub,
  chooser_ok ch -> guest_wf g ->
  Forall has_kid ks -> NoDup (map k_kid ks) ->
  resolve kf g = KSSet ks -> py_truth (hget (headers g) s_kid) = false ->
  jwe_step tbl ch sch true kf None g = Ok (k, so, g') ->
  import_key_set (keyset_as_dict ks) = Ok pub -> resolve kf' g' = KSSet pub ->
  exists k', jwe_step tbl ch' sch' false kf' None g' = Ok (k', None, g') /\
             k_id k' = k_id k /\ k_kid k' = k_kid k /\ k_kty k' = k_kty k.
Proof. exact jwe_produce_consume. Qed.


(* ---------------- the EMITTED token (all JWS paths incl. rfc7797) ---------------- *)
(* jws_emit g is what a consumer parses from the token emitted for the header
   object g: compact paths (jws.serialize_compact, jwt.encode,
   rfc7797.serialize_compact with b64 true / false / absent) encode the
   protected header object that received set_kid; JSON paths emit "protected" /
   "header" when non-empty.  The merged header is unchanged by emission ... *)
Theorem c14_emit_headers : forall g, headers (jws_emit g) = headers g.
Proof. exact emit_headers. Qed.

(* ... the recorded kid is in the emitted header at the same position ... *)
Theorem c14_emit_written : forall g k v, written_at g k v -> written_at (jws_emit g) k v.
Proof. exact emit_written. Qed.

(* ... for compact serializations inside the SIGNED (protected) header ... *)
Theorem c14_emit_protected_carries : forall g k v,
  (g_kind g = GJwsCompact \/ g_kind g = GJweCompact) -> written_at g k v ->
  exists p, g_prot (jws_emit g) = Some p /\ dget p k = Some v.
Proof. exact emit_protected_carries. Qed.

(* ... and the consumer, given the emitted token and the imported export of
   the set, finds the producing key *)
Theorem c14_jws_produce_emit_consume : forall tbl ch ch' kf kf' g ks k g' pub,
  chooser_ok ch -> guest_wf g ->
  Forall has_kid ks -> NoDup (map k_kid ks) ->
  resolve kf g = KSSet ks -> py_truth (hget (headers g) s_kid) = false ->
  jws_step tbl ch true kf g = Ok (k, g') ->
  import_key_set (keyset_as_dict ks) = Ok pub -> resolve kf' (jws_emit g') = KSSet pub ->
  written_at (jws_emit g') s_kid (kid_pv k) /\
  exists k', jws_step tbl ch' false kf' (jws_emit g') = Ok (k', jws_emit g') /\
             k_id k' = k_id k /\ k_kid k' = k_kid k /\ k_kty k' = k_kty k.
Proof. exact jws_produce_emit_consume. Qed.

(* rfc7797.serialize_json with b64 = false has no key type check; when the
   key has the type of the algorithm it is the ordinary step *)
Theorem c14_7797_json_step : forall tbl ch kf g k g',
  jws7797_json_step tbl ch kf g = Ok (k, g') ->
  (exists kty, jws_precheck (headers g) = Ok kty) /\ guess_key tbl ch kf g true = Ok (k, g').
Proof. exact jws7797_json_step_spec. Qed.

Theorem c14_7797_json_agrees : forall tbl ch kf g k g' kty,
  jws7797_json_step tbl ch kf g = Ok (k, g') -> jws_precheck (headers g) = Ok kty ->
  k_kty k = kty -> jws_step tbl ch true kf g = Ok (k, g').
Proof. exact jws7797_json_agrees. Qed.

(* ---------------- sender key (ECDH-1PU) by skid ---------------- *)
Theorem c14_skid_named : forall tbl ch ks g ur,
  py_truth (hget (headers g) s_skid) = true ->
  guess_sender_key tbl ch (SKSet ks) g ur =
  match get_by_kid ks (hget (headers g) s_skid) with Ok k => Ok (k, g) | Err e => Err e end.
Proof. exact sender_named. Qed.

Theorem c14_skid_required_on_decrypt : forall tbl ch ks g,
  py_truth (hget (headers g) s_skid) = false ->
  guess_sender_key tbl ch (SKSet ks) g false = Err EValue.
Proof. exact sender_consume_needs_skid. Qed.

Theorem c14_skid_pick : forall tbl ch ks g k g',
  chooser_ok ch -> guest_wf g -> py_truth (hget (headers g) s_skid) = false ->
  guess_sender_key tbl ch (SKSet ks) g true = Ok (k, g') ->
  In k ks /\ (exists a, dget (headers g) s_alg = Some a /\
     forall kts, algkeys_get tbl a = Ok (Some kts) -> kts <> [] -> In (k_kty k) kts) /\
  written_at g' s_skid (kid_pv k) /\ hget (headers g') s_skid = kid_pv k.
Proof. exact sender_pick. Qed.

(* ---------------- the algorithm -> key type table ---------------- *)
(* every entry of KeySet.algorithm_keys (as extracted from /repo) is what the
   property text / RFCs require: expected_key_types is written from the text *)
Theorem c14_table : forall a kts,
  In (a, kts) keyset_algorithm_keys -> expected_key_types a = Some kts.
Proof. exact algorithm_keys_expected. Qed.

Theorem c14_table_drafts : forall a kts,
  In (a, kts) keyset_algorithm_keys_drafts -> expected_key_types a = Some kts.
Proof. exact algorithm_keys_drafts_expected. Qed.

(* and every registered JWS / JWE algorithm has a (non-empty) entry, so the
   random pick is always filtered by key type *)
Theorem c14_table_covers_jws : forall r,
  In r jws_alg_table -> In (ja_name r, [ja_key_type r]) keyset_algorithm_keys.
Proof. exact algorithm_keys_cover_jws. Qed.

Theorem c14_table_covers_jwe : forall r,
  In r jwe_alg_table -> In (ea_name r, ea_key_types r) keyset_algorithm_keys /\ ea_key_types r <> [].
Proof. exact algorithm_keys_cover_jwe. Qed.

Theorem c14_table_covers_jwe_drafts : forall r,
  In r jwe_alg_table_drafts ->
  In (ea_name r, ea_key_types r) keyset_algorithm_keys_drafts /\ ea_key_types r <> [].
Proof. exact algorithm_keys_cover_jwe_drafts. Qed.

(* ---------------- non-vacuity: concrete instances ---------------- *)
Definition xk1 := mkKey (Some (asc "a")) "oct" 1 (asc "T1").
Definition xk2 := mkKey None "EC" 2 (asc "T2").
Definition xk3 := mkKey (Some (asc "c")) "oct" 3 (asc "T3").
Definition xk4 := mkKey (Some []) "RSA" 4 (asc "T4").
Definition xks := keyset_init [xk1; xk2; xk3; xk4].
Definition xtbl := keyset_algorithm_keys.

Example c14_x_set : map k_kid xks = [Some (asc "a"); Some (asc "T2"); Some (asc "c"); Some []]
  /\ NoDup (map k_kid xks) /\ Forall has_kid xks
  /\ Forall (fun k => In (k_kty k) key_types) xks.
Proof.
  split; [vm_compute; reflexivity|]. split.
  - vm_compute. repeat (constructor; [simpl; intuition discriminate|]). constructor.
  - split; [apply init_has_kid|]. unfold xks, keyset_init. simpl.
    repeat (constructor; [simpl; auto 10|]). constructor.
Qed.

Example c14_x_lookup :
  get_by_kid xks (PStr (asc "c")) = Ok xk3 /\ first_with xks (PStr (asc "c")) xk3 /\
  get_by_kid xks (PStr (asc "T2")) = Ok (ensure_kid xk2) /\
  get_by_kid xks (PStr []) = Ok xk4 /\
  get_by_kid xks (PStr (asc "zz")) = Err (EJose InvalidKeyIdError) /\
  get_by_kid xks PNone = Err (EJose InvalidKeyIdError) /\
  get_by_kid xks (PInt 0) = Err (EJose InvalidKeyIdError) /\
  get_by_kid [xk1] PNone = Ok xk1.
Proof.
  repeat split; try (vm_compute; reflexivity).
  exists [xk1; ensure_kid xk2], [xk4]. repeat split; try reflexivity.
  repeat constructor; vm_compute; discriminate.
Qed.

(* first match wins in a set with duplicate kids (recorded; the property is
   about duplicate-free sets) *)
Example c14_x_duplicates :
  get_by_kid [xk1; mkKey (Some (asc "a")) "EC" 9 (asc "T9")] (PStr (asc "a")) = Ok xk1.
Proof. reflexivity. Qed.

Example c14_x_attach :
  let r1 := mkGuest GJweJson (Some [(asc "enc", PStr (asc "A128GCM"))]) (Some [(s_alg, PStr (asc "A128KW"))])
                    (Some [(s_kid, PStr (asc "a"))]) in
  let r2 := mkGuest GJweJson (Some [(asc "enc", PStr (asc "A128GCM"))]) (Some [(s_alg, PStr (asc "A128KW"))])
                    (Some [(s_kid, PStr (asc "nope"))]) in
  jwe_attach xtbl (ch_idx 0) (ch_idx 0) (KFDirect (KSSet xks)) None [r1; r2] = Err (EJose InvalidKeyIdError) /\
  jwe_attach xtbl (ch_idx 0) (ch_idx 0) (KFDirect (KSSet xks)) None [r2; r1] = Err (EJose InvalidKeyIdError) /\
  jwe_attach xtbl (ch_idx 0) (ch_idx 0) (KFDirect (KSSet xks)) None [r1] = Ok [(xk1, None, r1)].
Proof. repeat split; vm_compute; reflexivity. Qed.

Definition xg_compact := mkGuest GJwsCompact (Some [(s_alg, PStr (asc "HS256"))]) None None.
Definition xg_member := mkGuest GJwsMember (Some [(s_alg, PStr (asc "ES256"))]) None None.
Definition xg_jwe_json :=
  mkGuest GJweJson (Some [(asc "enc", PStr (asc "A128GCM"))]) (Some [(s_alg, PStr (asc "A128KW"))]) None.

Example c14_x_pick_compact :
  guess_key xtbl (ch_idx 1) (KFDirect (KSSet xks)) xg_compact true =
  Ok (xk3, mkGuest GJwsCompact (Some [(s_alg, PStr (asc "HS256")); (s_kid, PStr (asc "c"))]) None None)
  /\ guest_wf xg_compact /\ py_truth (hget (headers xg_compact) s_kid) = false.
Proof. repeat split; vm_compute; reflexivity. Qed.

Example c14_x_pick_member :
  guess_key xtbl (ch_idx 5) (KFCall (fun _ => KSSet xks)) xg_member true =
  Ok (ensure_kid xk2, mkGuest GJwsMember (Some [(s_alg, PStr (asc "ES256"))]) None
                              (Some [(s_kid, PStr (asc "T2"))])).
Proof. vm_compute. reflexivity. Qed.

Example c14_x_pick_jwe_json :
  jwe_step xtbl (ch_idx 0) (ch_idx 0) true (KFDirect (KSSet xks)) None xg_jwe_json =
  Ok (xk1, None, mkGuest GJweJson (Some [(asc "enc", PStr (asc "A128GCM"))])
                         (Some [(s_alg, PStr (asc "A128KW"))]) (Some [(s_kid, PStr (asc "a"))])).
Proof. vm_compute. reflexivity. Qed.

Example c14_x_produce_consume :
  exists pub g' k, import_key_set (keyset_as_dict xks) = Ok pub /\
    jws_step xtbl (ch_idx 1) true (KFDirect (KSSet xks)) xg_compact = Ok (k, g') /\
    jws_step xtbl (ch_idx 0) false (KFCall (fun _ => KSSet pub)) g' = Ok (k, g') /\ k_id k = 3.
Proof. eexists; eexists; eexists. repeat split; vm_compute; reflexivity. Qed.

(* kid in the unprotected header is honoured; it overrides the protected one *)
Example c14_x_unprotected_kid :
  guess_key xtbl (ch_idx 0) (KFDirect (KSSet xks))
    (mkGuest GJwsMember (Some [(s_alg, PStr (asc "HS256")); (s_kid, PStr (asc "a"))]) None
             (Some [(s_kid, PStr (asc "c"))])) false
  = Ok (xk3, mkGuest GJwsMember (Some [(s_alg, PStr (asc "HS256")); (s_kid, PStr (asc "a"))]) None
                     (Some [(s_kid, PStr (asc "c"))])).
Proof. vm_compute. reflexivity. Qed.

(* recorded, not demanded by the property: an EMPTY kid (or 0, false, [], {})
   in the caller's header counts as "no kid" on the producing side — a key is
   picked at random and the kid member overwritten — although a key with kid ""
   exists; on the consuming side "" is looked up like any other kid *)
Example c14_x_empty_kid :
  guess_key xtbl (ch_idx 0) (KFDirect (KSSet xks))
    (mkGuest GJwsCompact (Some [(s_alg, PStr (asc "RS256")); (s_kid, PStr [])]) None None) false
  = Ok (xk4, mkGuest GJwsCompact (Some [(s_alg, PStr (asc "RS256")); (s_kid, PStr [])]) None None)
  /\
  guess_key xtbl (ch_idx 0) (KFDirect (KSSet xks))
    (mkGuest GJwsCompact (Some [(s_alg, PStr (asc "HS256")); (s_kid, PStr [])]) None None) true
  = Ok (xk1, mkGuest GJwsCompact (Some [(s_alg, PStr (asc "HS256")); (s_kid, PStr (asc "a"))]) None None).
Proof. split; vm_compute; reflexivity. Qed.

Example c14_x_skid :
  guess_sender_key keyset_algorithm_keys_drafts (ch_idx 0) (SKSet xks)
    (mkGuest GJweCompact (Some [(s_alg, PStr (asc "ECDH-1PU")); (s_skid, PStr (asc "T2"))]) None None) false
  = Ok (ensure_kid xk2,
        mkGuest GJweCompact (Some [(s_alg, PStr (asc "ECDH-1PU")); (s_skid, PStr (asc "T2"))]) None None)
  /\
  guess_sender_key keyset_algorithm_keys_drafts (ch_idx 0) (SKSet xks)
    (mkGuest GJweCompact (Some [(s_alg, PStr (asc "ECDH-1PU"))]) None None) true
  = Ok (ensure_kid xk2,
        mkGuest GJweCompact (Some [(s_alg, PStr (asc "ECDH-1PU")); (s_skid, PStr (asc "T2"))]) None None).
Proof. split; vm_compute; reflexivity. Qed.

Example c14_x_table :
  expected_key_types "HS256" = Some ["oct"%string] /\ expected_key_types "A128GCMKW" = Some ["oct"%string] /\
  expected_key_types "PS384" = Some ["RSA"%string] /\ expected_key_types "RSA-OAEP-256" = Some ["RSA"%string] /\
  expected_key_types "ES256K" = Some ["EC"%string] /\ expected_key_types "EdDSA" = Some ["OKP"%string] /\
  expected_key_types "ECDH-ES+A128KW" = Some ["EC"%string; "OKP"%string] /\
  expected_key_types "A128CBC-HS256" = None /\
  algkeys_get keyset_algorithm_keys (PStr (asc "ECDH-ES")) = Ok (Some ["EC"%string; "OKP"%string]).
Proof. repeat split; vm_compute; reflexivity. Qed.

(* rfc7797 compact, b64 = false: the kid picked is in the emitted (signed) header *)
Definition xg_7797 := mkGuest GJwsCompact
  (Some [(s_alg, PStr (asc "HS256")); (asc "b64", PBool false); (asc "crit", PList [PStr (asc "b64")])]) None None.
Example c14_x_7797 :
  exists k g', jws_step xtbl (ch_idx 1) true (KFDirect (KSSet xks)) xg_7797 = Ok (k, g') /\
    g_prot (jws_emit g') = Some [(s_alg, PStr (asc "HS256")); (asc "b64", PBool false);
                                 (asc "crit", PList [PStr (asc "b64")]); (s_kid, PStr (asc "c"))] /\
    jws_step xtbl (ch_idx 0) false (KFDirect (KSSet xks)) (jws_emit g') = Ok (k, jws_emit g') /\ k_id k = 3.
Proof. eexists; eexists. repeat split; vm_compute; reflexivity. Qed.

Print Assumptions c14_lookup.
Print Assumptions c14_lookup_err.
Print Assumptions c14_no_kid_single.
Print Assumptions c14_no_kid_many.
Print Assumptions c14_lookup_not_string.
Print Assumptions c14_lookup_unique.
Print Assumptions c14_lookup_unique_the.
Print Assumptions c14_every_key_has_kid.
Print Assumptions c14_init_kids.
Print Assumptions c14_init_preserves.
Print Assumptions c14_init_idempotent.
Print Assumptions c14_import_invariant.
Print Assumptions c14_set_rt.
Print Assumptions c14_set_rt_inv.
Print Assumptions c14_merged_header.
Print Assumptions c14_callable.
Print Assumptions c14_consume_uses_named.
Print Assumptions c14_consume_no_kid.
Print Assumptions c14_jws_consume_uses_named.
Print Assumptions c14_jws_consume_unknown_kid.
Print Assumptions c14_jwe_consume_uses_named.
Print Assumptions c14_jwe_consume_unknown_kid.
Print Assumptions c14_jwe_attach_unknown_kid.
Print Assumptions c14_jwe_attach_ok.
Print Assumptions c14_produce_named.
Print Assumptions c14_pick.
Print Assumptions c14_pick_merged.
Print Assumptions c14_json_protected_untouched.
Print Assumptions c14_pick_spec.
Print Assumptions c14_pick_none.
Print Assumptions c14_pick_ignores_privateness.
Print Assumptions c14_pick_complete.
Print Assumptions c14_pick_some.
Print Assumptions c14_guess_errors.
Print Assumptions c14_ch_idx_ok.
Print Assumptions c14_produce_consume.
Print Assumptions c14_jws_produce_consume.
Print Assumptions c14_jwe_produce_consume.
Print Assumptions c14_emit_headers.
Print Assumptions c14_emit_written.
Print Assumptions c14_emit_protected_carries.
Print Assumptions c14_jws_produce_emit_consume.
Print Assumptions c14_7797_json_step.
Print Assumptions c14_7797_json_agrees.
Print Assumptions c14_skid_named.
Print Assumptions c14_skid_required_on_decrypt.
Print Assumptions c14_skid_pick.
Print Assumptions c14_table.
Print Assumptions c14_table_drafts.
Print Assumptions c14_table_covers_jws.
Print Assumptions c14_table_covers_jwe.
Print Assumptions c14_table_covers_jwe_drafts.
