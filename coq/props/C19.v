(* C19 — base64url and integer codecs are strict and lossless.
   Only statements here; proofs live in proofs/B64Proofs.v, proofs/IntCodecProofs.v.
   The JSON header round trip (json_b64encode / json_b64decode) is stated in
   props/C19 only through the Gallina JSON model of proofs/JsonProofs.v when
   that file is part of the build (see C19_json below). *)
From Model Require Import Base B64 IntCodec PyVal Json.
From Proofs Require Import B64Proofs IntCodecProofs JsonProofs.
Open Scope N_scope.

(* decoding an encoding returns the original octets, for every octet string *)
Theorem c19_rt : forall x, bytes_ok x = true -> b64d (b64e x) = Ok x.
Proof. exact b64_roundtrip. Qed.

(* hence encoding is injective: together with c19_rt, a bijection between octet
   strings and the canonical (encoder-produced) strings *)
Theorem c19_enc_injective :
  forall x y, bytes_ok x = true -> bytes_ok y = true -> b64e x = b64e y -> x = y.
Proof. exact b64e_injective. Qed.

Theorem c19_canonical_inj : forall s x, b64d s = Ok x -> canonical s = true -> s = b64e x.
Proof. exact b64d_canonical. Qed.

(* encodings only use A-Z a-z 0-9 '-' '_' : never '=', '+', '/', whitespace or '.' *)
Theorem c19_alphabet : forall x, bytes_ok x = true -> forallb in_alphabet (b64e x) = true.
Proof. exact b64e_alphabet. Qed.

Theorem c19_alphabet_is :
  forall c, in_alphabet c = true <->
            (65 <= c <= 90 \/ 97 <= c <= 122 \/ 48 <= c <= 57 \/ c = 45 \/ c = 95).
Proof. exact in_alphabet_spec. Qed.

(* strictness: a character outside the alphabet, other than trailing '=' ... *)
Theorem c19_strict_char :
  forall pre c post, in_alphabet c = false ->
    (c <> 61 \/ exists d, In d post /\ d <> 61) ->
    b64d (pre ++ c :: post) = Err EValue.
Proof. exact b64d_strict_char. Qed.

(* ... or an impossible length (4k+1 data characters) is a ValueError *)
Theorem c19_strict_length :
  forall s, forallb in_alphabet s = true -> (length s mod 4 = 1)%nat -> b64d s = Err EValue.
Proof. exact b64d_strict_length. Qed.

Theorem c19_only_valueerror : forall s e, b64d s = Err e -> e = EValue.
Proof. exact b64d_err_class. Qed.

Theorem c19_decoded_are_octets : forall s x, b64d s = Ok x -> bytes_ok x = true.
Proof. exact b64d_bytes_ok. Qed.

(* recorded, not demanded by the property: non-canonical trailing bits decode *)
Example c19_noncanonical_witness : b64d (asc "QR") = b64d (asc "QQ") /\ asc "QR" <> asc "QQ".
Proof. exact b64d_noncanonical_witness. Qed.

(* positive integers: minimal unsigned big-endian, exact round trip, negatives refused *)
Theorem c19_int_rt : forall z, (0 < z)%Z ->
  exists s, int_to_base64 z = Ok s /\ base64_to_int s = Ok z.
Proof. exact int_b64_roundtrip. Qed.

Theorem c19_int_minimal : forall n, 0 < n ->
  (exists b r, N_to_be_min n = b :: r /\ b <> 0) /\
  be_to_N (N_to_be_min n) = n /\ bytes_ok (N_to_be_min n) = true /\
  256 ^ (N.of_nat (length (N_to_be_min n)) - 1) <= n < 256 ^ N.of_nat (length (N_to_be_min n)).
Proof.
  intros n H. repeat split.
  - exact (be_min_no_leading_zero n H).
  - exact (be_min_value n).
  - exact (be_min_bytes_ok n).
  - exact (proj1 (be_min_length n H)).
  - exact (proj2 (be_min_length n H)).
Qed.

Theorem c19_int_neg : forall z, (z < 0)%Z -> int_to_base64 z = Err EValue.
Proof. exact int_b64_negative. Qed.

(* fixed-width codec used for ECDSA R||S and the AL field *)
Theorem c19_fixed_is_I2OSP : forall z bits,
  let L := N.to_nat ((bits + 7) / 8) in
  (0 < L)%nat -> (0 <= z)%Z -> Z.to_N z < 256 ^ N.of_nat L ->
  encode_int z bits = Ok (I2OSP (Z.to_N z) L).
Proof. exact encode_int_is_I2OSP_pos. Qed.

Theorem c19_fixed_rt : forall z bits,
  let L := N.to_nat ((bits + 7) / 8) in
  (0 < L)%nat -> (0 <= z)%Z -> Z.to_N z < 256 ^ N.of_nat L ->
  exists s, encode_int z bits = Ok s /\ length s = L /\ decode_int s = Ok z.
Proof. exact fixed_roundtrip. Qed.

Theorem c19_rs_rt : forall r s bits,
  let L := N.to_nat ((bits + 7) / 8) in
  (0 < L)%nat -> (0 <= r)%Z -> (0 <= s)%Z ->
  Z.to_N r < 256 ^ N.of_nat L -> Z.to_N s < 256 ^ N.of_nat L ->
  exists a b, encode_int r bits = Ok a /\ encode_int s bits = Ok b /\
    length (a ++ b) = (2 * L)%nat /\
    decode_int (firstn L (a ++ b)) = Ok r /\ decode_int (skipn L (a ++ b)) = Ok s.
Proof. exact rs_roundtrip. Qed.

(* non-vacuity: concrete instances meeting the hypotheses *)
Example c19_rt_instance : b64d (b64e [0; 255; 46; 61; 43]) = Ok [0; 255; 46; 61; 43].
Proof. vm_compute. reflexivity. Qed.
Example c19_fixed_instance :
  encode_int 1 521 = Ok (I2OSP 1 66) /\ length (I2OSP 1 66) = 66%nat.
Proof. vm_compute. split; reflexivity. Qed.

(* JSON header encoding followed by decoding returns an equal object: for every
   float-free JSON value [h] (strings of Unicode scalar values, unique dict
   keys, arbitrary nesting, all escape classes, unbounded integers) the Gallina
   model of json.dumps(ensure_ascii=True, separators=(",",":")) / json.loads
   satisfies the round trip, through base64url.  Floats stay with CPython's
   repr/float contract (checked on the implementation only). *)
Theorem c19_json_loads_dumps : forall v, json_ok v = true -> json_loads (json_print v) = POk v.
Proof. exact json_loads_print. Qed.

Theorem c19_json_rt : forall h, json_ok h = true -> json_b64decode (json_b64encode h) = Ok (POk h).
Proof. exact json_b64_roundtrip. Qed.

Theorem c19_json_segment_alphabet : forall h, forallb in_alphabet (json_b64encode h) = true.
Proof. exact json_b64encode_alphabet. Qed.

Example c19_json_instance :
  json_ok (PDict [(asc "alg", PStr (asc "HS256")); (asc "crit", PList [PStr [233; 128512; 34; 10]]);
                  (asc "n", PInt (-12)%Z); (asc "o", PDict [(asc "", PNone); (asc "b", PBool true)])]) = true.
Proof. exact json_ok_nontrivial. Qed.

(* recorded: a high surrogate followed by a low surrogate as two separate code
   points does not survive (CPython's json behaves the same); such strings are
   not Unicode text and are excluded by json_ok *)
Example c19_json_surrogates_recorded :
  json_loads (json_print (PStr [55357; 56832])) = POk (PStr [128512]).
Proof. exact json_surrogate_pair_not_roundtrip. Qed.

Print Assumptions c19_rt.
Print Assumptions c19_json_loads_dumps.
Print Assumptions c19_json_rt.
Print Assumptions c19_json_segment_alphabet.
Print Assumptions c19_enc_injective.
Print Assumptions c19_canonical_inj.
Print Assumptions c19_alphabet.
Print Assumptions c19_strict_char.
Print Assumptions c19_strict_length.
Print Assumptions c19_only_valueerror.
Print Assumptions c19_decoded_are_octets.
Print Assumptions c19_int_rt.
Print Assumptions c19_int_minimal.
Print Assumptions c19_int_neg.
Print Assumptions c19_fixed_is_I2OSP.
Print Assumptions c19_fixed_rt.
Print Assumptions c19_rs_rt.
