(* C20 — calls sharing keys, key sets and registries are independent and thread-safe.
   Only statements; proofs in proofs/C20Proofs.v.  The model (model/C20Model.v) makes the
   shared state explicit (per key: the dict objects bound to _dict_value, the cached
   public_key slot; KeySet.keys; the draw counter; the class tables / singletons) and
   compiles every API call to atomic steps at source-line granularity.
   "Every interleaving" is expressed by [holds]: between any two steps of the thread
   under consideration (and before its first and after its last step) ANY number of
   steps of other threads may happen ([rsteps]: any enabled step of the repaired step
   lists, by any number of threads running anything).  [holds im p w Q] = in every such
   interleaving started in w, every step of p is itself enabled and p's result satisfies Q. *)
From Model Require Import Base PyVal TableTypes C20Model.
From Gen Require Import Tables.
From Proofs Require Import C20Proofs.
Open Scope N_scope.

(* ---- a call changes the world only by: filling _dict_value with the view of the
   immutable raw key (new object: original code; in place: repaired code), setting
   "kid", filling the public_key slot, advancing the draw counter ---- *)
Theorem c20_footprint : forall im a w, fp im w (fst (sem im a w)).
Proof. exact sem_footprint. Qed.

(* ---- no step of any call writes an algorithm singleton, a registry or a class table,
   nor reorders / modifies a shared key set; hence along every interleaving of any
   threads they stay what they were (at import: the tables of gen/Tables.v) ---- *)
Theorem c20_no_singleton_write : forall im a w,
  w_static (fst (sem im a w)) = w_static w /\ w_sets (fst (sem im a w)) = w_sets w.
Proof. intros; split; [apply sem_static | apply sem_sets]. Qed.

Theorem c20_no_singleton_write_run : forall A im (c c' : world * list (prog A)),
  greach im c c' -> w_static (fst c') = w_static (fst c) /\ w_sets (fst c') = w_sets (fst c).
Proof. exact @greach_static. Qed.

Example c20_static_is_tables :
  st_jws_reco (w_static (init_world 2 [])) = ["HS256"; "RS256"; "ES256"]%string /\
  st_ksalg (w_static (init_world 2 [])) = keyset_algorithm_keys.
Proof. vm_compute. split; reflexivity. Qed.

(* ---- invariant of the lazy slots, both variants of the code: every dict object a key
   ever binds is empty, or the view of the immutable raw key, or that view plus the
   thumbprint kid; preserved by every enabled step of every thread ---- *)
Theorem c20_slot_invariant : forall im a w,
  wf_imm im -> inv im w -> enabled im a w -> inv im (fst (sem im a w)).
Proof. exact sem_inv. Qed.

(* ---- repaired code, every interleaving (any number of threads, any schedule): the
   invariant holds, a filled slot never becomes empty and a kid is never lost ---- *)
Theorem c20_interleave_monotone : forall im w w',
  wf_imm im -> inv im w -> rsteps im w w' ->
  inv im w' /\ (forall k, Fk k w -> Fk k w') /\ (forall k, Kk k w -> Kk k w').
Proof. exact rsteps_mono. Qed.

(* ---- repaired code, every interleaving: `rv_key.ensure_kid(); assert rv_key.kid is not
   None; obj.set_kid(rv_key.kid)` of guess_key — each step is enabled (the write of
   "kid" happens on a non-empty dict and with the thumbprint), both reads return the kid
   (never None), and the key has its kid afterwards ---- *)
Theorem c20_interleave : forall im k w,
  wf_imm im -> ki_valid (kim im k) = true -> view im k <> [] ->
  forallb (dmem (view im k)) (tpfields (ki_kty (kim im k))) = true ->
  inv im w -> (k < length (w_keys w))%nat ->
  holds im (guess_core im k) w (fun r w' => r = Ok (the_kid im k, the_kid im k) /\ inv im w' /\ Kk k w').
Proof. intros im k w W V NE TP I L. exact (guess_core_spec im W k V NE TP w I L). Qed.

Theorem c20_interleave_ensure_kid : forall im k w,
  wf_imm im -> ki_valid (kim im k) = true -> view im k <> [] ->
  forallb (dmem (view im k)) (tpfields (ki_kty (kim im k))) = true ->
  inv im w -> (k < length (w_keys w))%nat ->
  holds im (ensure_kid true im k) w (ek_post im k w).
Proof. intros im k w W V NE TP I L. exact (ensure_kid_spec im W k V NE TP w I L). Qed.

(* key.kid under interference: None only if no kid had been assigned when the call
   started (the documented lazy kid), otherwise the kid *)
Theorem c20_interleave_kid : forall im k w,
  wf_imm im -> ki_valid (kim im k) = true -> view im k <> [] ->
  inv im w -> (k < length (w_keys w))%nat ->
  holds im (kidp true im k) w (kid_post im k w).
Proof. intros im k w W V NE I L. exact (kidp_spec im W k V NE w I L). Qed.

(* as_dict under interference: ValueError exactly for private=True on a public key, else
   the export of the immutable view, with or without the thumbprint kid *)
Theorem c20_interleave_as_dict : forall im k private w,
  wf_imm im -> ki_valid (kim im k) = true -> view im k <> [] ->
  inv im w -> (k < length (w_keys w))%nat ->
  holds im (as_dict true im k private) w (fun r _ => as_dict_ok im k private r).
Proof. intros im k p w W V NE I L. exact (as_dict_spec im W k V NE p w I L). Qed.

(* ---- sequential independence: whichever lazy slots earlier calls have filled, the call
   made alone returns the same thing (as_dict: up to the lazy kid) ---- *)
Theorem c20_seq_independent : forall im k fuel w r w',
  wf_imm im -> ki_valid (kim im k) = true -> view im k <> [] ->
  forallb (dmem (view im k)) (tpfields (ki_kty (kim im k))) = true ->
  inv im w -> (k < length (w_keys w))%nat ->
  run_seq im fuel w (guess_core im k) = Some (r, w') ->
  r = Ok (the_kid im k, the_kid im k) /\ inv im w' /\ Kk k w'.
Proof. exact seq_guess_core. Qed.

Theorem c20_seq_independent_as_dict : forall im k private fuel w1 w2 r1 r2 w1' w2',
  wf_imm im -> ki_valid (kim im k) = true -> view im k <> [] ->
  inv im w1 -> inv im w2 -> (k < length (w_keys w1))%nat -> (k < length (w_keys w2))%nat ->
  run_seq im fuel w1 (as_dict true im k private) = Some (r1, w1') ->
  run_seq im fuel w2 (as_dict true im k private) = Some (r2, w2') ->
  as_dict_ok im k private r1 /\ as_dict_ok im k private r2.
Proof. exact seq_as_dict. Qed.

(* PARTIAL (named so): the per-call result theorems above cover dict_value, get, kid,
   thumbprint-inside-ensure_kid, ensure_kid, as_dict and the ensure_kid/kid/kid core of
   guess_key.  For get_by_kid, pick_random_key, KeySet(...), check_key_op/get_op_key and
   the whole jws_op composition only c20_footprint, c20_no_singleton_write,
   c20_slot_invariant and c20_interleave_monotone are proved; their results are compared
   with the implementation schedule by schedule (C20Cases). *)

(* ---- the ORIGINAL step lists (`self._dict_value = data`) violate it: thread B's
   assignment of a freshly computed dict without kid lands between thread A's ensure_kid()
   and A's `assert rv_key.kid is not None`; A, which alone returns the kid, raises
   AssertionError, and the key is left without kid ---- *)
Theorem c20_interleave_orig_refuted :
  exists sched,
    outcome false sched = ([Some (Err EAssert); Some (Ok (PDict (ki_view (kim ex_im 0))))], [false]) /\
    option_map fst (run_seq ex_im 200 (init_world 1 [[0%nat]]) (nth 0 (ex_progs false) (Ret (Err EOracleMiss))))
      = Some (Ok (PStr (asc "THUMBPRINT"))).
Proof. exists lost_kid_schedule. split; [exact lost_kid_orig | exact lost_kid_isolated]. Qed.

(* non-vacuity: the example world meets the hypotheses of the positive theorems, and the
   same schedule on the repaired step lists ends well *)
Example c20_hyps_instance :
  wf_imm ex_im /\ ki_valid (kim ex_im 0) = true /\ view ex_im 0 <> [] /\
  forallb (dmem (view ex_im 0)) (tpfields (ki_kty (kim ex_im 0))) = true /\
  inv ex_im (init_world 1 [[0%nat]]) /\ (0 < length (w_keys (init_world 1 [[0%nat]])))%nat.
Proof.
  split; [exact ex_im_wf|]. split; [reflexivity|]. split; [discriminate|]. split; [vm_compute; reflexivity|].
  split; [|simpl; auto]. intro k. destruct k as [|k]; [|destruct k]; apply kinv_kst0.
Qed.
Example c20_same_schedule_fixed :
  exists rest, outcome true (lost_kid_schedule ++ rest) =
  ([Some (Ok (PStr (asc "THUMBPRINT"))); Some (Ok (PDict (withkid ex_im 0)))], [true]).
Proof. exact lost_kid_fixed. Qed.

Print Assumptions c20_footprint.
Print Assumptions c20_no_singleton_write.
Print Assumptions c20_no_singleton_write_run.
Print Assumptions c20_slot_invariant.
Print Assumptions c20_interleave_monotone.
Print Assumptions c20_interleave.
Print Assumptions c20_interleave_ensure_kid.
Print Assumptions c20_interleave_kid.
Print Assumptions c20_interleave_as_dict.
Print Assumptions c20_seq_independent.
Print Assumptions c20_seq_independent_as_dict.
Print Assumptions c20_interleave_orig_refuted.
