(* C20 — calls sharing keys, key sets and registries are independent and thread-safe.
   Only statements; proofs in proofs/C20Proofs.v.  The model (model/C20Model.v) makes the
   shared state explicit (per key: the dict objects bound to _dict_value, the cached
   public_key slot; KeySet.keys; the draw counter; the class tables / singletons) and
   compiles every API call to atomic steps at source-line granularity.
   "Every interleaving" is expressed by [holds]: between any two steps of the thread
   under consideration (and before its first and after its last step) ANY number of
   steps of other threads may happen ([rsteps]: any enabled step of the repaired step
   lists, by any number of threads running anything).  [holds im p w Q] = in every such
   interleaving started in w, every step of p is itself enabled and p's result satisfies Q. *)
From Model Require Import Base PyVal TableTypes C20Model.
From Gen Require Import Tables.
From Proofs Require Import C20Proofs C20Calls.
Open Scope N_scope.

(* ---- a call changes the world only by: filling _dict_value with the view of the
   immutable raw key (new object: original code; in place: repaired code), setting
   "kid", filling the public_key slot, advancing the draw counter ---- *)
Theorem c20_footprint : forall im a w, fp im w (fst (sem im a w)).
Proof. exact sem_footprint. Qed.

(* ---- no step of any call writes an algorithm singleton, a registry or a class table,
   nor reorders / modifies a shared key set; hence along every interleaving of any
   threads they stay what they were (at import: the tables of gen/Tables.v) ---- *)
Theorem c20_no_singleton_write : forall im a w,
  w_static (fst (sem im a w)) = w_static w /\ w_sets (fst (sem im a w)) = w_sets w.
Proof. intros; split; [apply sem_static | apply sem_sets]. Qed.

(* the registry instances a caller creates and shares (allow-list, flags) are part of that
   static state: no step of any compiled call writes them, along no interleaving *)
Theorem c20_no_registry_write : forall A im (c c' : world * list (prog A)),
  greach im c c' -> st_regs (w_static (fst c')) = st_regs (w_static (fst c)).
Proof. intros A im c c' R. destruct (greach_static im c c' R) as [E _]. rewrite E. reflexivity. Qed.

(* ... and they ARE read: a verify through a shared registry whose allow-list is ["HS384"]
   refuses an HS256 token that the same call accepts with its own default registry *)
Example c20_shared_registry_is_read :
  let w := {| w_keys := repeat kst0 1; w_sets := []; w_rng := 0;
              w_static := with_regs static0 [{| cr_allowed := Some ["HS384"%string]; cr_strict := true; cr_verify_all := true |}] |} in
  option_map fst (run_seq ex_im 300 w (compile true ex_im (fun _ _ => 0%nat) (CJws false (KKey 0) None "HS256" (RShared 0) None)))
    = Some (Err (EJose UnsupportedAlgorithmError)) /\
  option_map fst (run_seq ex_im 300 w (compile true ex_im (fun _ _ => 0%nat) (CJws false (KKey 0) None "HS256" (ROwn None) None)))
    = Some (Ok PNone).
Proof. vm_compute. split; reflexivity. Qed.

Theorem c20_no_singleton_write_run : forall A im (c c' : world * list (prog A)),
  greach im c c' -> w_static (fst c') = w_static (fst c) /\ w_sets (fst c') = w_sets (fst c).
Proof. exact @greach_static. Qed.

Example c20_static_is_tables :
  st_jws_reco (w_static (init_world 2 [])) = ["HS256"; "RS256"; "ES256"]%string /\
  st_ksalg (w_static (init_world 2 [])) = keyset_algorithm_keys.
Proof. vm_compute. split; reflexivity. Qed.

(* ---- invariant of the lazy slots, both variants of the code: every dict object a key
   ever binds is empty, or the view of the immutable raw key, or that view plus the
   thumbprint kid; preserved by every enabled step of every thread ---- *)
Theorem c20_slot_invariant : forall im a w,
  wf_imm im -> inv im w -> enabled im a w -> inv im (fst (sem im a w)).
Proof. exact sem_inv. Qed.

(* ---- repaired code, every interleaving (any number of threads, any schedule): the
   invariant holds, a filled slot never becomes empty and a kid is never lost ---- *)
Theorem c20_interleave_monotone : forall im w w',
  wf_imm im -> inv im w -> rsteps im w w' ->
  inv im w' /\ (forall k, Fk k w -> Fk k w') /\ (forall k, Kk k w -> Kk k w').
Proof. exact rsteps_mono. Qed.

(* ---- repaired code, every interleaving: `rv_key.ensure_kid(); assert rv_key.kid is not
   None; obj.set_kid(rv_key.kid)` of guess_key — each step is enabled (the write of
   "kid" happens on a non-empty dict and with the thumbprint), both reads return the kid
   (never None), and the key has its kid afterwards ---- *)
Theorem c20_interleave : forall im k w,
  wf_imm im -> ki_valid (kim im k) = true -> view im k <> [] ->
  forallb (dmem (view im k)) (tpfields (ki_kty (kim im k))) = true ->
  inv im w -> (k < length (w_keys w))%nat ->
  holds im (guess_core im k) w (fun r w' => r = Ok (the_kid im k, the_kid im k) /\ inv im w' /\ Kk k w').
Proof. intros im k w W V NE TP I L. exact (guess_core_spec im W k V NE TP w I L). Qed.

Theorem c20_interleave_ensure_kid : forall im k w,
  wf_imm im -> ki_valid (kim im k) = true -> view im k <> [] ->
  forallb (dmem (view im k)) (tpfields (ki_kty (kim im k))) = true ->
  inv im w -> (k < length (w_keys w))%nat ->
  holds im (ensure_kid true im k) w (ek_post im k w).
Proof. intros im k w W V NE TP I L. exact (ensure_kid_spec im W k V NE TP w I L). Qed.

(* key.kid under interference: None only if no kid had been assigned when the call
   started (the documented lazy kid), otherwise the kid *)
Theorem c20_interleave_kid : forall im k w,
  wf_imm im -> ki_valid (kim im k) = true -> view im k <> [] ->
  inv im w -> (k < length (w_keys w))%nat ->
  holds im (kidp true im k) w (kid_post im k w).
Proof. intros im k w W V NE I L. exact (kidp_spec im W k V NE w I L). Qed.

(* as_dict under interference: ValueError exactly for private=True on a public key, else
   the export of the immutable view, with or without the thumbprint kid *)
Theorem c20_interleave_as_dict : forall im k private w,
  wf_imm im -> ki_valid (kim im k) = true -> view im k <> [] ->
  inv im w -> (k < length (w_keys w))%nat ->
  holds im (as_dict true im k private) w (fun r _ => as_dict_ok im k private r).
Proof. intros im k p w W V NE I L. exact (as_dict_spec im W k V NE p w I L). Qed.

(* ---- sequential independence: whichever lazy slots earlier calls have filled, the call
   made alone returns the same thing (as_dict: up to the lazy kid) ---- *)
Theorem c20_seq_independent : forall im k fuel w r w',
  wf_imm im -> ki_valid (kim im k) = true -> view im k <> [] ->
  forallb (dmem (view im k)) (tpfields (ki_kty (kim im k))) = true ->
  inv im w -> (k < length (w_keys w))%nat ->
  run_seq im fuel w (guess_core im k) = Some (r, w') ->
  r = Ok (the_kid im k, the_kid im k) /\ inv im w' /\ Kk k w'.
Proof. exact seq_guess_core. Qed.

Theorem c20_seq_independent_as_dict : forall im k private fuel w1 w2 r1 r2 w1' w2',
  wf_imm im -> ki_valid (kim im k) = true -> view im k <> [] ->
  inv im w1 -> inv im w2 -> (k < length (w_keys w1))%nat -> (k < length (w_keys w2))%nat ->
  run_seq im fuel w1 (as_dict true im k private) = Some (r1, w1') ->
  run_seq im fuel w2 (as_dict true im k private) = Some (r2, w2') ->
  as_dict_ok im k private r1 /\ as_dict_ok im k private r2.
Proof. exact seq_as_dict. Qed.

(* (round 2) the per-call result theorems for the remaining calls and the whole JWS
   operations are below: c20_interleave_call and its components. *)

(* ---- the ORIGINAL step lists (`self._dict_value = data`) violate it: thread B's
   assignment of a freshly computed dict without kid lands between thread A's ensure_kid()
   and A's `assert rv_key.kid is not None`; A, which alone returns the kid, raises
   AssertionError, and the key is left without kid ---- *)
Example c20_interleave_orig_refuted :
  exists sched,
    outcome false sched = ([Some (Err EAssert); Some (Ok (PDict (ki_view (kim ex_im 0))))], [false]) /\
    option_map fst (run_seq ex_im 200 (init_world 1 [[0%nat]]) (nth 0 (ex_progs false) (Ret (Err EOracleMiss))))
      = Some (Ok (PStr (asc "THUMBPRINT"))).
Proof. exists lost_kid_schedule. split; [exact lost_kid_orig | exact lost_kid_isolated]. Qed.

(* non-vacuity: the example world meets the hypotheses of the positive theorems, and the
   same schedule on the repaired step lists ends well *)
Example c20_hyps_instance :
  wf_imm ex_im /\ ki_valid (kim ex_im 0) = true /\ view ex_im 0 <> [] /\
  forallb (dmem (view ex_im 0)) (tpfields (ki_kty (kim ex_im 0))) = true /\
  inv ex_im (init_world 1 [[0%nat]]) /\ (0 < length (w_keys (init_world 1 [[0%nat]])))%nat.
Proof.
  split; [exact ex_im_wf|]. split; [reflexivity|]. split; [discriminate|]. split; [vm_compute; reflexivity|].
  split; [|simpl; auto]. intro k. destruct k as [|k]; [|destruct k]; apply kinv_kst0.
Qed.
Example c20_same_schedule_fixed :
  exists rest, outcome true (lost_kid_schedule ++ rest) =
  ([Some (Ok (PStr (asc "THUMBPRINT"))); Some (Ok (PDict (withkid ex_im 0)))], [true]).
Proof. exact lost_kid_fixed. Qed.

(* ======================= round 2: every modelled call, whole operations =======================
   World hypotheses [ww]: the invariant, n keys, class tables / registries / singletons = st,
   shared KeySet.keys = sets (both proved never written).  [vkey]: a key whose view passed
   validate_dict_key and carries the RFC 7638 fields.  [post w R]: on return the world is still
   well-formed, it extends w by steps of anybody, and R holds.  In all of these, between any
   two steps of the call ANY enabled steps of ANY other threads may occur ([holds]). *)

(* key.get(f), f other than "kid" — check_use / check_alg / key_ops read through it *)
Theorem c20_interleave_get : forall im n st sets, wf_imm im -> forall k f w,
  ww im n st sets w -> vkey im n k -> f <> kidK ->
  holds im (getf true im k f) w (post im n st sets w (fun r _ => r = Ok (field_of im k f))).
Proof. exact getf_spec. Qed.

Theorem c20_interleave_thumbprint : forall im n st sets, wf_imm im -> forall k w,
  ww im n st sets w -> vkey im n k ->
  holds im (thumb true im k false) w (post im n st sets w (fun r _ => r = Ok (ki_tp (kim im k)))).
Proof. exact thumb_spec. Qed.

(* KeySet(keys), then every key's kid: all the kids, and the keys keep them *)
Theorem c20_interleave_keyset_init : forall im n st sets, wf_imm im -> forall ks w,
  ww im n st sets w -> Forall (vkey im n) ks ->
  holds im (new_set true im ks) w
    (post im n st sets w (fun r w' => r = Ok (PList (map (the_kid im) ks)) /\ kidded ks w')).
Proof. exact new_set_spec. Qed.

Theorem c20_interleave_get_by_kid : forall im n st sets, wf_imm im -> forall s kid w,
  ww im n st sets w -> Forall (vkey im n) (members sets s) -> kidded (members sets s) w ->
  holds im (get_by_kid true im s kid) w
    (post im n st sets w (fun r _ => r = gbk_fn im (members sets s) kid)).
Proof. exact get_by_kid_spec. Qed.

(* pick_random_key, the chooser [pickf] a parameter: the chooser's pick for ONE draw index
   that lies between the counter at the start and at the end of the call *)
Theorem c20_interleave_pick_random : forall im pickf n st sets, wf_imm im -> forall s alg w,
  ww im n st sets w ->
  holds im (pick_random im pickf s alg) w
    (post im n st sets w (fun r w' => pick_ok im pickf st sets s alg (w_rng w) (w_rng w') r)).
Proof. exact pick_random_spec. Qed.

(* guess_key in full: Key / KeySet x kid present / absent x use_random *)
Theorem c20_interleave_guess_key : forall im pickf n st sets, wf_imm im ->
  (forall idx m, (0 < m)%nat -> (pickf idx m < m)%nat) ->
  forall kr kid ur alg w, ww im n st sets w -> guess_pre im n sets kr kid ur w ->
  holds im (guess_key true im pickf kr kid ur alg) w
    (post im n st sets w (fun r w' =>
       guess_ok im pickf st sets kr kid ur alg (w_rng w) (w_rng w') r /\
       (forall k v, r = Ok (k, v) -> vkey im n k))).
Proof. exact guess_key_spec. Qed.

Theorem c20_interleave_check_key_op : forall im n st sets, wf_imm im -> forall k op w,
  ww im n st sets w -> vkey im n k ->
  holds im (check_key_op true im k op) w (post im n st sets w (fun r _ => r = cko_fn im st k op)).
Proof. exact check_key_op_spec. Qed.

(* get_op_key with the cached public_key slot: whoever fills the cached_property (two threads
   may both compute and store it), the call's verdict is the pure one, and after a successful
   public operation on a caching key class the slot is filled and stays filled *)
Theorem c20_interleave_get_op_key : forall im n st sets, wf_imm im -> forall k op w,
  ww im n st sets w -> vkey im n k ->
  holds im (get_op_key true im k op) w
    (post im n st sets w (fun r w' =>
       r = cko_fn im st k op /\
       (r = Ok tt -> op_priv st op = Some false -> cached_pub (ki_kty (kim im k)) = true -> Pk k w'))).
Proof. exact get_op_key_spec. Qed.

Theorem c20_interleave_keyset_as_dict : forall im n st sets, wf_imm im -> forall s private w,
  ww im n st sets w -> Forall (vkey im n) (members sets s) -> Forall (no_conflict im private) (members sets s) ->
  holds im (set_as_dict true im s private) w
    (post im n st sets w (fun (r : res pv) w' =>
       r = Ok (PDict [(asc "keys", PList (map (fun k => export im k private (full_view im k)) (members sets s)))]) /\
       kidded (members sets s) w')).
Proof. exact set_as_dict_spec. Qed.

(* a whole JWS sign / verify call (registry reads, singleton reads, guess_key, check_use,
   check_key_type, check_alg, get_op_key; the primitive's verdict an oracle on thread-local
   data): its verdict / content is jws_ok, a relation over the immutable key data, the class
   tables, the call's own arguments and the chooser only *)
Theorem c20_interleave_jws : forall im pickf n st sets, wf_imm im ->
  (forall idx m, (0 < m)%nat -> (pickf idx m < m)%nat) ->
  forall sign kr kid alg allowed crypto w, ww im n st sets w -> guess_pre im n sets kr kid sign w ->
  holds im (jws_op true im pickf sign kr kid alg allowed crypto) w
    (post im n st sets w (fun r w' =>
       jws_ok im pickf st sets sign kr kid alg allowed crypto (w_rng w) (w_rng w') r)).
Proof. exact jws_op_spec. Qed.

(* a whole JWE encrypt / decrypt call for direct encryption and AES key wrapping (guess_key,
   check_use("enc"), registry / singleton reads, the CEK and IV draws of a producer,
   check_key_type, get_op_key; unwrap / tag verdict an oracle): jwe_ok.  The draws are steps
   on the shared counter: c20_draws_own says no index is handed out twice *)
Theorem c20_interleave_jwe : forall im pickf n st sets, wf_imm im ->
  (forall idx m, (0 < m)%nat -> (pickf idx m < m)%nat) ->
  forall encrypt kr kid alg enc allowed crypto w, ww im n st sets w -> guess_pre im n sets kr kid encrypt w ->
  holds im (jwe_op true im pickf encrypt kr kid alg enc allowed crypto) w
    (post im n st sets w (fun r w' =>
       jwe_ok im pickf st sets encrypt kr kid alg enc allowed crypto (w_rng w) (w_rng w') r)).
Proof. exact jwe_op_spec. Qed.

(* EVERY modelled call (as_dict, thumbprint, ensure_kid, kid, KeySet(...), get_by_kid,
   pick_random_key, KeySet.as_dict, JWS sign / verify, JWE encrypt / decrypt) under every interleaving *)
Theorem c20_interleave_call : forall im pickf n st sets, wf_imm im ->
  (forall idx m, (0 < m)%nat -> (pickf idx m < m)%nat) ->
  forall c w, ww im n st sets w -> call_pre im n sets c w ->
  holds im (compile true im pickf c) w
    (post im n st sets w (fun r w' => call_ok im pickf st sets c (w_rng w) (w_rng w') r)).
Proof. exact call_spec. Qed.

(* ANY sequence of modelled calls, one after the other on the same shared objects: every
   call's result satisfies the same world-independent relation call_ok — whatever the earlier
   calls left in the lazy slots (kid / as_dict: with or without the lazy kid, as documented) *)
Theorem c20_seq_independent_any : forall im pickf n st sets, wf_imm im ->
  (forall idx m, (0 < m)%nat -> (pickf idx m < m)%nat) ->
  forall cs w rs w', ww im n st sets w -> Forall (fun c => call_pre im n sets c w) cs ->
  seq_run im pickf w cs rs w' ->
  ww im n st sets w' /\ rsteps im w w' /\
  Forall2 (fun c r => exists lo hi, call_ok im pickf st sets c lo hi r) cs rs.
Proof. exact seq_spec. Qed.

(* ... and for the calls that involve neither the lazy kid nor a draw (thumbprint, ensure_kid,
   KeySet(...), get_by_kid, KeySet.as_dict, sign / verify with a Key or with a kid), call_ok
   is a function: the result is THE SAME in every position of every sequence / interleaving *)
Theorem c20_seq_independent_det : forall im pickf st sets c lo hi lo' hi' r r',
  det c -> call_ok im pickf st sets c lo hi r -> call_ok im pickf st sets c lo' hi' r' -> r = r'.
Proof. exact call_ok_det. Qed.

(* each call's draws are its own: along any schedule of any threads the indices handed out
   by the shared random source strictly increase, so no index is handed out twice; together
   with pick_ok / guess_ok / jws_ok (the index a call used lies in its own [lo, hi)) *)
Theorem c20_draws_own : forall A im sched w (ts : list (prog A)) w' ts' tr,
  run_sched im sched w ts = (w', ts', tr) ->
  incr_from (w_rng w) (draws_of tr) /\ NoDup (draws_of tr).
Proof.
  intros A im sched w ts w' ts' tr E. destruct (run_sched_draws im sched w ts w' ts' tr E) as [H _].
  split; [exact H | exact (incr_from_nodup _ _ H)].
Qed.

(* the draws of call (thread) i are disjoint from the draws of call j: an index of the shared
   random source that one call received is never received by another call, along any schedule
   (CEK, IV, key-wrap iv, salt, ephemeral key and random pick are all draws of this counter) *)
Theorem c20_calls_draw_fresh : forall A im sched w (ts : list (prog A)) w' ts' tr i j x,
  run_sched im sched w ts = (w', ts', tr) ->
  In x (draws_tid i tr) -> In x (draws_tid j tr) -> i = j.
Proof.
  intros A im sched w ts w' ts' tr i j x E. destruct (run_sched_draws im sched w ts w' ts' tr E) as [H _].
  exact (draws_tid_disjoint tr i j x (incr_from_nodup _ _ H)).
Qed.

(* non-vacuity of the round-2 hypotheses *)
Example c20_round2_instance :
  ww ex_im 1 static0 [[0%nat]] (init_world 1 [[0%nat]]) /\ vkey ex_im 1 0 /\
  call_pre ex_im 1 [[0%nat]] (CJws true (KSet 0) None "HS256" (ROwn None) None) (init_world 1 [[0%nat]]) /\
  (forall idx m, (0 < m)%nat -> ((fun (_ : N) (_ : nat) => 0%nat) idx m < m)%nat).
Proof.
  assert (vkey ex_im 1 0) as V.
  { split; [reflexivity|]. split; [discriminate|]. split; [vm_compute; reflexivity|]. split; [discriminate | auto]. }
  split.
  { split; [intro k; destruct k as [|k]; [|destruct k]; apply kinv_kst0|].
    split; [reflexivity|]. split; reflexivity. }
  split; [exact V|]. split; [|intros; assumption].
  simpl. split; [apply Forall_cons; [exact V | apply Forall_nil] | intro F; discriminate F].
Qed.

Print Assumptions c20_interleave_call.
Print Assumptions c20_interleave_jws.
Print Assumptions c20_interleave_jwe.
Print Assumptions c20_interleave_guess_key.
Print Assumptions c20_interleave_get_op_key.
Print Assumptions c20_interleave_keyset_as_dict.
Print Assumptions c20_seq_independent_any.
Print Assumptions c20_seq_independent_det.
Print Assumptions c20_draws_own.
Print Assumptions c20_calls_draw_fresh.

Print Assumptions c20_footprint.
Print Assumptions c20_no_singleton_write.
Print Assumptions c20_no_singleton_write_run.
Print Assumptions c20_no_registry_write.
Print Assumptions c20_slot_invariant.
Print Assumptions c20_interleave_monotone.
Print Assumptions c20_interleave.
Print Assumptions c20_interleave_ensure_kid.
Print Assumptions c20_interleave_kid.
Print Assumptions c20_interleave_as_dict.
Print Assumptions c20_seq_independent.
Print Assumptions c20_seq_independent_as_dict.
Print Assumptions c20_interleave_orig_refuted.
