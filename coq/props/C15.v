(* C15 — header parameters are validated when producing and when consuming.
   Only statements; proofs live in proofs/C15Proofs.v (generic, any registry)
   and proofs/C15Tables.v (instances for the registries of /repo, Gen.Tables).

   Impl model: model/C15Registry.v (joserfc/registry.py in full + the three
   check_header methods + get_alg).  Spec: model/C15Spec.v (header_ok_P /
   header_ok written from the property text).  The registries, the validator
   kinds, the algorithm-specific parameter tables and the default strictness
   come from Gen.Tables (regenerated from /repo on every run).

   [cfg] = what the caller configures: extra header_registry=, strict_check_header=,
   algorithms=.  [mk_registry default extra] is the instance's merged registry.

   Entry points: model/C15Cases.v models each public function as a guard
   sequence (section 8); that these sequences are those of /repo is checked on
   the implementation (API-level differential + direct oracle). *)
From Model Require Import Base PyVal TableTypes C15Registry C15Spec C15Cases.
From Gen Require Import Tables.
From Proofs Require Import C15Proofs C15Tables.
Open Scope N_scope.

(* ---------- 1. meaning of the executable spec ---------- *)
(* header_ok reg strict h  <->  required present /\ registered params well-typed
   /\ every name in crit present /\ (strict -> no unregistered name) *)
Theorem c15_spec_meaning : forall reg strict h,
  header_ok reg strict h = true <-> header_ok_P reg strict h.
Proof. exact header_ok_iff_P. Qed.

Theorem c15_spec_b64_meaning : forall h, b64_ok h = true <-> b64_ok_P h.
Proof. exact b64_ok_iff. Qed.

(* registry validators accept exactly the JSON type of their kind *)
Theorem c15_validators : forall k v, validate k v = Ok tt <-> json_type_ok k v = true.
Proof. exact validate_ok_iff. Qed.

(* ---------- 2. accepted <-> spec, for ANY registry (any caller registration) ---------- *)
Theorem c15_jws_any_registry : forall reg strict h,
  jws_check_header reg strict h = Ok tt <-> header_ok reg strict h = true.
Proof. exact jws_iff. Qed.

Theorem c15_jws7797_any_registry : forall reg strict h,
  jws7797_check_header reg strict h = Ok tt <-> header_ok7797 reg strict h = true.
Proof. exact jws7797_iff. Qed.

Theorem c15_jwe_any_registry : forall tbl rec allowed reg strict h check_more,
  jwe_check_header tbl rec allowed reg strict h check_more = Ok tt <->
  header_ok_jwe tbl rec allowed reg strict h check_more = true.
Proof. exact jwe_iff. Qed.

(* ---------- 3. the three registries of /repo, strict on/off, arbitrary caller registry ----------
   for all dict headers h with values of every Python/JSON type *)
Theorem c15_check_iff_jws : forall extra strict h,
  jws_check_header (mk_registry jws_default_header_registry extra) strict h = Ok tt <->
  header_ok (mk_registry jws_default_header_registry extra) strict h = true.
Proof. exact (fun extra strict h => run_check_iff RJws (Build_cfg extra strict None) false h). Qed.

Theorem c15_check_iff_jws7797 : forall extra strict h,
  jws7797_check_header (mk_registry jws7797_default_header_registry extra) strict h = Ok tt <->
  header_ok7797 (mk_registry jws7797_default_header_registry extra) strict h = true.
Proof. exact (fun extra strict h => run_check_iff RJws7797 (Build_cfg extra strict None) false h). Qed.

Theorem c15_check_iff_jwe : forall drafts extra strict allowed check_more h,
  jwe_check_header (alg_tbl drafts) (alg_rec drafts) allowed
                   (mk_registry jwe_header_registry extra) strict h check_more = Ok tt <->
  header_ok_jwe (alg_tbl drafts) (alg_rec drafts) allowed
                (mk_registry jwe_header_registry extra) strict h check_more = true.
Proof.
  exact (fun drafts extra strict allowed cm h =>
           run_check_iff (RJwe drafts) (Build_cfg extra strict allowed) cm h).
Qed.

(* non-vacuity: concrete accepted and rejected headers, default strict registries *)
Example c15_ex_accept_jws :
  jws_check_header (mk_registry jws_default_header_registry []) true
    [(asc "alg", PStr (asc "HS256")); (asc "kid", PStr (asc "k1"));
     (asc "crit", PList [PStr (asc "kid")])] = Ok tt.
Proof. vm_compute. reflexivity. Qed.

Example c15_ex_reject_jws :
  (* kid of the wrong type; crit naming an absent parameter; unknown name; alg missing *)
  jws_check_header (mk_registry jws_default_header_registry []) true
    [(asc "alg", PStr (asc "HS256")); (asc "kid", PInt 1)] = Err EValue /\
  jws_check_header (mk_registry jws_default_header_registry []) true
    [(asc "alg", PStr (asc "HS256")); (asc "crit", PList [PStr (asc "exp")])] = Err EValue /\
  jws_check_header (mk_registry jws_default_header_registry []) true
    [(asc "alg", PStr (asc "HS256")); (asc "foo", PStr (asc "x"))] = Err EValue /\
  jws_check_header (mk_registry jws_default_header_registry []) false
    [(asc "alg", PStr (asc "HS256")); (asc "foo", PStr (asc "x"))] = Ok tt /\
  jws_check_header (mk_registry jws_default_header_registry []) false
    [(asc "kid", PStr (asc "x"))] = Err EValue.
Proof. vm_compute. repeat split; reflexivity. Qed.

Example c15_ex_b64 :
  jws7797_check_header (mk_registry jws7797_default_header_registry []) true
    [(asc "alg", PStr (asc "HS256")); (asc "b64", PBool false)] = Err EValue /\
  jws7797_check_header (mk_registry jws7797_default_header_registry []) true
    [(asc "alg", PStr (asc "HS256")); (asc "b64", PBool false);
     (asc "crit", PList [PStr (asc "b64")])] = Ok tt /\
  jws7797_check_header (mk_registry jws7797_default_header_registry []) true
    [(asc "alg", PStr (asc "HS256")); (asc "b64", PStr (asc "false"));
     (asc "crit", PList [PStr (asc "b64")])] = Err EValue.
Proof. vm_compute. repeat split; reflexivity. Qed.

Example c15_ex_jwe :
  (* producing side: p2s/p2c may be absent; consuming side: required; p2c true is not an int *)
  let h := [(asc "alg", PStr (asc "PBES2-HS256+A128KW")); (asc "enc", PStr (asc "A128GCM"))] in
  let allowed := Some ["PBES2-HS256+A128KW"%string] in
  jwe_check_header jwe_alg_table jwe_recommended allowed (mk_registry jwe_header_registry []) true h false = Ok tt /\
  jwe_check_header jwe_alg_table jwe_recommended allowed (mk_registry jwe_header_registry []) true h true = Err EValue /\
  jwe_check_header jwe_alg_table jwe_recommended allowed (mk_registry jwe_header_registry []) true
    (h ++ [(asc "p2s", PStr (asc "c2FsdA")); (asc "p2c", PInt 8)])%list true = Ok tt /\
  jwe_check_header jwe_alg_table jwe_recommended allowed (mk_registry jwe_header_registry []) true
    (h ++ [(asc "p2s", PStr (asc "c2FsdA")); (asc "p2c", PBool true)])%list true = Err EValue /\
  jwe_check_header jwe_alg_table jwe_recommended None (mk_registry jwe_header_registry []) true h false
    = Err (EJose UnsupportedAlgorithmError) /\
  jwe_check_header jwe_alg_table jwe_recommended None (mk_registry jwe_header_registry []) true
    [(asc "alg", PStr (asc "dir"))] false = Err EValue.
Proof. vm_compute. repeat split; reflexivity. Qed.

(* ---------- 4. what "required" and "registered" are in /repo ---------- *)
Theorem c15_registries_are :
  sig jws_header_registry = jws_expected /\
  sig jws_default_header_registry = jws_expected /\
  sig jwe_header_registry = ("enc"%string, VStr, true) :: ("zip"%string, VStr, false) :: jws_expected /\
  sig jws7797_default_header_registry = ("b64"%string, VBool, false) :: jws_expected.
Proof.
  exact (conj (proj1 jws_registry_is) (conj (proj2 jws_registry_is)
        (conj jwe_registry_is jws7797_registry_is))).
Qed.

(* algorithm-specific parameters: epk (+apu, apv[, skid]); p2s and p2c; iv and tag *)
Theorem c15_alg_specific_are :
  more_ok jwe_alg_table = true /\ more_ok jwe_alg_table_drafts = true.
Proof. exact more_tables_ok. Qed.

Theorem c15_alg_families_are :
  families jwe_alg_table "ECDHES" = ["ECDH-ES"; "ECDH-ES+A128KW"; "ECDH-ES+A192KW"; "ECDH-ES+A256KW"]%string /\
  families jwe_alg_table "PBES2" = ["PBES2-HS256+A128KW"; "PBES2-HS384+A192KW"; "PBES2-HS512+A256KW"]%string /\
  families jwe_alg_table "AESGCMKW" = ["A128GCMKW"; "A192GCMKW"; "A256GCMKW"]%string /\
  families jwe_alg_table_drafts "ECDH1PU" = ["ECDH-1PU"; "ECDH-1PU+A128KW"; "ECDH-1PU+A192KW"; "ECDH-1PU+A256KW"]%string.
Proof. exact families_are. Qed.

Theorem c15_validator_names_are :
  validator_kinds = [("str", VStr); ("list[str]", VListStr); ("int", VInt); ("bool", VBool);
                     ("url", VUrl); ("jwk", VJwk); ("none", VNone)]%string.
Proof. exact validator_kinds_is. Qed.

Theorem c15_defaults_strict :
  jws_default_instance_strict = true /\ jwe_default_instance_strict = true.
Proof. exact defaults_strict. Qed.

(* alg (and enc for JWE) stay required str entries unless the caller re-registers them;
   b64 is a bool entry of the rfc7797 registry *)
Theorem c15_alg_required : forall rk extra,
  ~ In alg_name (reg_names extra) -> reg_has_alg (mk_registry (default_reg rk) extra) = true.
Proof. exact mk_has_alg. Qed.

Theorem c15_enc_required : forall extra,
  ~ In enc_name (reg_names extra) ->
  reg_has (mk_registry jwe_header_registry extra) enc_name is_VStr true = true.
Proof. exact (fun extra => mk_registry_has jwe_header_registry extra enc_name is_VStr true jwe_default_has_enc). Qed.

Theorem c15_b64_registered : forall extra,
  ~ In b64_name (reg_names extra) ->
  reg_has (mk_registry jws7797_default_header_registry extra) b64_name is_VBool false = true.
Proof.
  exact (fun extra => mk_registry_has jws7797_default_header_registry extra b64_name is_VBool false
                        jws7797_default_has_b64).
Qed.

(* hence an accepted header has alg (and enc for JWE) as strings, and b64 only as
   a boolean accompanied by a crit listing it *)
Theorem c15_alg_present : forall rk extra strict h,
  ~ In alg_name (reg_names extra) ->
  header_ok (mk_registry (default_reg rk) extra) strict h = true ->
  exists s, dget h alg_name = Some (PStr s).
Proof. exact alg_present. Qed.

Theorem c15_enc_present : forall extra strict h,
  ~ In enc_name (reg_names extra) ->
  header_ok (mk_registry jwe_header_registry extra) strict h = true ->
  exists s, dget h enc_name = Some (PStr s).
Proof. exact enc_present. Qed.

Theorem c15_b64_is_bool_with_crit : forall extra strict h v,
  ~ In b64_name (reg_names extra) ->
  header_ok7797 (mk_registry jws7797_default_header_registry extra) strict h = true ->
  dget h b64_name = Some v ->
  (exists b, v = PBool b) /\ exists l, dget h crit_name = Some (PList l) /\ In (PStr b64_name) l.
Proof. exact b64_is_bool. Qed.

(* JWE: an accepted header names a registered, permitted algorithm whose own
   parameters are well-typed, present when required on the consuming side
   (check_more = true), and are the only extra names strict mode lets through *)
Theorem c15_jwe_alg_specific : forall tbl rec allowed reg strict h check_more,
  jwe_check_header tbl rec allowed reg strict h check_more = Ok tt ->
  exists s row,
    dget h alg_name = Some (PStr s) /\ find_alg tbl s = Some row /\
    alg_permitted rec allowed s = true /\
    (check_more = true -> required_present_P (ea_more row) h) /\
    types_ok_P (ea_more row) h /\
    (strict = true -> forall k, In k (dkeys h) -> In k (reg_names reg) \/ In k (reg_names (ea_more row))).
Proof. exact jwe_accept_more. Qed.

(* reading of reg_has: such an entry is really in the registry *)
Theorem c15_reg_has_meaning : forall reg n k rq,
  reg_has reg n k rq = true <->
  exists p, In p reg /\ pname p = n /\ k (hp_kind p) = true /\ (rq = true -> hp_required p = true).
Proof. exact reg_has_In. Qed.

(* ---------- 5. caller-registered parameters ---------- *)
(* the entry the caller registered is the one in force (it also replaces a default of that name) ... *)
Theorem c15_caller_registered_in_force : forall default extra p,
  NoDup (reg_names extra) -> In p extra -> In p (mk_registry default extra).
Proof. exact (fun default extra p => reg_update_extra extra (reg_update [] default) p). Qed.

(* ... its name counts as registered in strict mode ... *)
Theorem c15_caller_registered_name : forall default extra k,
  In k (reg_names (mk_registry default extra)) <->
  In k (reg_names (reg_update [] default)) \/ In k (reg_names extra).
Proof. exact (fun default extra k => reg_update_names extra (reg_update [] default) k). Qed.

(* ... and (through c15_spec_meaning: header_ok_P quantifies over all entries In reg)
   it is type-checked and enforced when required.  Spelled out for the JWS registry: *)
Theorem c15_caller_registered_enforced : forall extra strict h p,
  NoDup (reg_names extra) -> In p extra ->
  jws_check_header (mk_registry jws_default_header_registry extra) strict h = Ok tt ->
  (hp_required p = true -> exists v, dget h (pname p) = Some v) /\
  (forall v, dget h (pname p) = Some v -> json_type_ok (hp_kind p) v = true).
Proof. exact caller_enforced_jws. Qed.

(* ... and it is accepted: added well-typed to an accepted header, the header stays accepted *)
Theorem c15_caller_registered_accepted : forall default extra strict h p v,
  In p extra -> NoDup (reg_names extra) -> pname p <> crit_name ->
  header_ok (mk_registry default extra) strict h = true ->
  dmem h (pname p) = false -> json_type_ok (hp_kind p) v = true ->
  header_ok (mk_registry default extra) strict (h ++ [(pname p, v)])%list = true.
Proof. exact caller_accepted. Qed.

Example c15_ex_caller :
  let extra := [hp "x-int" VInt true; hp "x-ch" (VChoices ["a"; "b"]%string) false] in
  let reg := mk_registry jws_default_header_registry extra in
  NoDup (reg_names extra) /\
  jws_check_header reg true [(asc "alg", PStr (asc "HS256")); (asc "x-int", PInt 3)] = Ok tt /\
  jws_check_header reg true [(asc "alg", PStr (asc "HS256")); (asc "x-int", PInt 3);
                             (asc "x-ch", PList [PStr (asc "b"); PStr (asc "a")])] = Ok tt /\
  jws_check_header reg true [(asc "alg", PStr (asc "HS256"))] = Err EValue /\
  jws_check_header reg false [(asc "alg", PStr (asc "HS256")); (asc "x-int", PBool true)] = Err EValue /\
  jws_check_header reg false [(asc "alg", PStr (asc "HS256")); (asc "x-int", PInt 3);
                              (asc "x-ch", PStr (asc "c"))] = Err EValue.
Proof. exact ex_caller. Qed.

(* the three forms of in_choices: either / a single member only / a list of members only *)
Example c15_ex_choice_forms :
  let extra := [hp "c-any" (VChoices ["a"; "b"]%string) false; hp "c-one" (VChoiceStr ["a"; "b"]%string) false;
                hp "c-list" (VChoiceList ["a"; "b"]%string) false] in
  let reg := mk_registry jws_default_header_registry extra in
  let h v := [(asc "alg", PStr (asc "HS256")); v] in
  jws_check_header reg true (h (asc "c-any", PStr (asc "a"))) = Ok tt /\
  jws_check_header reg true (h (asc "c-any", PList [PStr (asc "a"); PStr (asc "b")])) = Ok tt /\
  jws_check_header reg true (h (asc "c-one", PStr (asc "b"))) = Ok tt /\
  jws_check_header reg true (h (asc "c-one", PList [PStr (asc "b")])) = Err EValue /\
  jws_check_header reg true (h (asc "c-one", PList [])) = Err EValue /\
  jws_check_header reg true (h (asc "c-list", PList [PStr (asc "b")])) = Ok tt /\
  jws_check_header reg true (h (asc "c-list", PList [])) = Ok tt /\
  jws_check_header reg true (h (asc "c-list", PStr (asc "b"))) = Err EValue /\
  jws_check_header reg true (h (asc "c-list", PList [PStr (asc "b"); PStr (asc "c")])) = Err EValue.
Proof. exact ex_choice_forms. Qed.

(* ---------- 6. failure classes ---------- *)
(* for EVERY header (whatever the type of crit, alg, ...): with identified
   validators and alg not re-registered by the caller, a failing check raises
   ValueError, or (JWE only) UnsupportedAlgorithmError; nothing else escapes *)
Theorem c15_error_classes : forall rk c check_more h e,
  reg_known (c_extra c) = true -> ~ In alg_name (reg_names (c_extra c)) ->
  run_check rk c check_more h = Err e ->
  e = EValue \/ (e = EJose UnsupportedAlgorithmError /\ exists d, rk = RJwe d).
Proof. exact run_check_err. Qed.

Example c15_ex_error_classes_hyp :
  let c := {| c_extra := [hp "x-int" VInt true; hp "kid" VInt false]; c_strict := true;
              c_allowed := Some ["A128KW"%string] |} in
  reg_known (c_extra c) = true /\ ~ In alg_name (reg_names (c_extra c)) /\
  run_check RJws c false [(asc "alg", PStr (asc "HS256"))] = Err EValue /\
  run_check (RJwe false) c true [(asc "alg", PStr (asc "dir")); (asc "enc", PStr (asc "A128GCM"));
                                 (asc "x-int", PInt 1)] = Err (EJose UnsupportedAlgorithmError) /\
  run_check (RJwe false) c true [(asc "alg", PStr (asc "A128KW")); (asc "enc", PStr (asc "A128GCM"));
                                 (asc "x-int", PInt 1); (asc "kid", PInt 7)] = Ok tt.
Proof. exact ex_error_classes_hyp. Qed.

(* exactly which inputs let another class escape (C16's business, only stated):
   a JWE registry whose caller re-registered alg as optional, on a header
   without alg -> KeyError from header["alg"] *)
Theorem c15_error_classes_any_registry : forall rk c check_more h e,
  reg_known (c_extra c) = true ->
  run_check rk c check_more h = Err e ->
  e = EValue \/ (exists d, rk = RJwe d /\
                 (e = EJose UnsupportedAlgorithmError \/ (e = EKey /\ dget h alg_name = None))).
Proof. exact run_check_err_any. Qed.

Example c15_ex_alg_optional_escape :
  let c := {| c_extra := [hp "alg" VStr false]; c_strict := true; c_allowed := None |} in
  run_check (RJwe false) c false [(enc_name, PStr (asc "A128GCM"))] = Err EKey.
Proof. exact ex_alg_optional_escape. Qed.

(* crit of any non-list[str] shape is a ValueError (no iteration of a str / dict / number) *)
Example c15_ex_crit_shapes :
  let reg := mk_registry jws_default_header_registry [] in
  jws_check_header reg true [(asc "alg", PStr (asc "HS256")); (asc "crit", PInt 5)] = Err EValue /\
  jws_check_header reg true [(asc "alg", PStr (asc "HS256")); (asc "crit", PStr (asc "alg"))] = Err EValue /\
  jws_check_header reg true [(asc "alg", PStr (asc "HS256")); (asc "crit", PDict [(asc "alg", PInt 1)])] = Err EValue /\
  jws_check_header reg true [(asc "alg", PStr (asc "HS256")); (asc "crit", PList [PStr (asc "alg"); PList []])] = Err EValue /\
  jws_check_header reg true [(asc "alg", PStr (asc "HS256")); (asc "crit", PList [PStr (asc "alg")])] = Ok tt.
Proof. vm_compute. repeat split; reflexivity. Qed.

(* ---------- 7. merged headers (HeaderMember.headers / Recipient.headers) ---------- *)
(* a parameter is looked up in the last part that carries it: per-recipient
   over shared unprotected over protected *)
Theorem c15_merge_lookup : forall parts k,
  dget (merge_parts parts) k = last_some (map (fun p => dget_last p k) parts).
Proof. exact merge_parts_lookup. Qed.

(* ---------- 8. entry points (model/C15Cases.v: entry, entry_run) ----------
   For every public producing / consuming function (jws.serialize_compact,
   serialize_json, validate_compact, deserialize_compact, deserialize_json; the
   four rfc7797 functions; jwt.encode / jwt.decode over JWS and JWE;
   jwe.encrypt_compact / encrypt_json / decrypt_compact / decrypt_json), whatever
   parsing, key lookup, verification and crypto do ([pre], [step], [verify], [post]
   arbitrary): a normal return means the merged header of EVERY signature /
   recipient satisfied the spec.  That the guard sequences are those of /repo is
   validated by the API-level differential (each entry point is run on
   otherwise valid objects and compared with entry_run_valid). *)
Theorem c15_entry_checks_header : forall pre step verify post e c members,
  entry_run pre step verify post e c members = Ok tt ->
  forall parts, In parts members ->
    run_spec (entry_rk e) c (entry_cm e) (entry_header e parts) = true.
Proof. exact entry_run_checks. Qed.

(* the consuming side, spelled out: validate_compact, deserialize, decode, decrypt functions *)
Theorem c15_consume_checks_header : forall pre step verify post e c members,
  entry_consuming e = true ->
  entry_run pre step verify post e c members = Ok tt ->
  forall parts, In parts members ->
    run_spec (entry_rk e) c (entry_cm e) (merge_parts parts) = true.
Proof. exact consume_checks. Qed.

(* jws.validate_compact (the second half of extract_compact + validate_compact)
   explicitly: it returns a verdict only for a header that satisfies the spec *)
Theorem c15_validate_compact_checks_header : forall step verify c parts verdict,
  validate_compact_run step verify c parts = Ok verdict ->
  run_spec RJws c false (merge_parts parts) = true.
Proof. exact validate_compact_spec. Qed.

(* conversely a header violating the spec makes the entry point fail *)
Theorem c15_entry_rejects : forall pre step verify post e c members parts,
  In parts members -> run_spec (entry_rk e) c (entry_cm e) (entry_header e parts) = false ->
  exists x, entry_run pre step verify post e c members = Err x.
Proof. exact entry_run_rejects. Qed.

Example c15_ex_validate_compact :
  let c := default_cfg RJws in
  validate_compact_run (fun _ => Ok tt) (Ok true) c
    [[(asc "alg", PStr (asc "HS256")); (asc "kid", PStr (asc "k"))]] = Ok true /\
  validate_compact_run (fun _ => Ok tt) (Ok true) c
    [[(asc "alg", PStr (asc "HS256")); (asc "kid", PInt 123)]] = Err EValue /\
  entry_run_valid JwsValidateCompact c [[[(asc "alg", PStr (asc "HS256")); (asc "foo", PInt 1)]]] = Err EValue /\
  entry_run_valid JwtEncodeJws c [[[(asc "alg", PStr (asc "HS256")); (asc "typ", PInt 1)]]] = Err EValue /\
  entry_run_valid JwtEncodeJws c [[[(asc "alg", PStr (asc "HS256"))]]] = Ok tt.
Proof. exact ex_validate_compact. Qed.

(* ---------- 9. re-used objects: the check is on the CURRENT header ----------
   A JWE JSON object (model/C15Cases.v: jwe_obj) may be edited between
   operations: obj.protected / obj.unprotected / recipient.header in place, by
   rebinding, with add_header, with add_recipient ([edit], [apply_edit]); a
   history is a fold of edits.  encrypt_json merges the fields at call time, so
   after any history: a normal return means the CURRENT merged header of every
   recipient satisfies the spec, a violating current header makes it fail, the
   verdict is the one a fresh object in the final state gets, and it depends
   on the final state only.  That /repo reads the current fields (no stale
   merged header) is validated by the history scenarios of the differential. *)
Theorem c15_check_is_on_current_header : forall pre step verify post d c o edits,
  (encrypt_json_history pre step verify post d c o edits = Ok tt ->
   forall parts, In parts (obj_members (final_state o edits)) ->
     run_spec (RJwe d) c false (merge_parts parts) = true) /\
  (forall parts, In parts (obj_members (final_state o edits)) ->
     run_spec (RJwe d) c false (merge_parts parts) = false ->
     exists x, encrypt_json_history pre step verify post d c o edits = Err x) /\
  encrypt_json_history pre step verify post d c o edits =
    encrypt_json_obj pre step verify post d c (final_state o edits).
Proof.
  exact (fun pre step verify post d c o es =>
           conj (history_checks pre step verify post d c o es)
                (conj (fun parts => history_rejects pre step verify post d c o es parts)
                      (history_is_fresh pre step verify post d c o es))).
Qed.

Theorem c15_history_final_state_only : forall pre step verify post d c o1 edits1 o2 edits2,
  final_state o1 edits1 = final_state o2 edits2 ->
  encrypt_json_history pre step verify post d c o1 edits1 =
  encrypt_json_history pre step verify post d c o2 edits2.
Proof. exact history_final_only. Qed.

Example c15_ex_history :
  let c := default_cfg (RJwe false) in
  let o := {| o_protected := [(asc "enc", PStr (asc "A128GCM"))]; o_unprotected := None;
              o_recipients := [Some [(asc "alg", PStr (asc "A128KW"))]] |} in
  let run := encrypt_json_history (Ok tt) (fun _ => Ok tt) (Ok true) (Ok tt) false c o in
  run [] = Ok tt /\
  run [ESetP (asc "bogus") (PInt 1)] = Err EValue /\
  run [ESetR 0 (asc "kid") (PInt 123)] = Err EValue /\
  run [ERebindU (Some [(asc "crit", PList [PStr (asc "kid")])])] = Err EValue /\
  run [ERebindU (Some [(asc "crit", PList [PStr (asc "kid")])]); EAddHeader 0 (asc "kid") (PStr (asc "k"))] = Ok tt /\
  run [ESetP (asc "bogus") (PInt 1); EDelP (asc "bogus")] = Ok tt /\
  run [EAddRecipient false (Some [(asc "alg", PInt 1)])] = Err EValue.
Proof. exact ex_history. Qed.

Print Assumptions c15_spec_meaning.
Print Assumptions c15_spec_b64_meaning.
Print Assumptions c15_validators.
Print Assumptions c15_jws_any_registry.
Print Assumptions c15_jws7797_any_registry.
Print Assumptions c15_jwe_any_registry.
Print Assumptions c15_check_iff_jws.
Print Assumptions c15_check_iff_jws7797.
Print Assumptions c15_check_iff_jwe.
Print Assumptions c15_registries_are.
Print Assumptions c15_alg_specific_are.
Print Assumptions c15_alg_families_are.
Print Assumptions c15_validator_names_are.
Print Assumptions c15_defaults_strict.
Print Assumptions c15_alg_required.
Print Assumptions c15_enc_required.
Print Assumptions c15_b64_registered.
Print Assumptions c15_reg_has_meaning.
Print Assumptions c15_alg_present.
Print Assumptions c15_enc_present.
Print Assumptions c15_b64_is_bool_with_crit.
Print Assumptions c15_jwe_alg_specific.
Print Assumptions c15_caller_registered_accepted.
Print Assumptions c15_caller_registered_in_force.
Print Assumptions c15_caller_registered_name.
Print Assumptions c15_caller_registered_enforced.
Print Assumptions c15_error_classes.
Print Assumptions c15_error_classes_any_registry.
Print Assumptions c15_merge_lookup.
Print Assumptions c15_entry_checks_header.
Print Assumptions c15_consume_checks_header.
Print Assumptions c15_validate_compact_checks_header.
Print Assumptions c15_entry_rejects.
Print Assumptions c15_check_is_on_current_header.
Print Assumptions c15_history_final_state_only.
