(* C08 — JWE octets on the wire are those of RFC 7516/7518 and the implemented drafts.
   Statements only; proofs in proofs/C08Proofs.v.  Spec = model/C08Spec.v (transcribed from the
   RFC text, literal tables of the RFCs); Impl = model/JweCrypto.v, JweMsg.v with the data tables
   of gen/Tables.v (regenerated from /repo on every run).  Tie to /repo: differential run of
   harness/props/c08.py (model replays joserfc runs with recorded primitive calls: a primitive fed
   other octets than the model feeds = oracle miss) and an independent Python reference
   implementation exchanging tokens with joserfc in both directions. *)
From Coq Require Import Lia.
From Model Require Import JweBase JweCrypto JweMsg JweCases C08Spec C02Examples.
From Gen Require Import Tables.
From Proofs Require Import C02Proofs C04Proofs C08Proofs.
Open Scope N_scope.

(* ---- AAD (RFC 7516 5.1 step 14 / 5.2 step 15) ---- *)
Theorem c08_aad : forall s b64p aad,
  (s <> Compact -> aad_of s b64p aad = spec_aad b64p aad) /\
  aad_of Compact b64p aad = spec_aad b64p None.
Proof. exact aad_both. Qed.

(* encryption side: the encoded protected header is BASE64URL(ASCII(json.dumps(final protected header))) *)
Theorem c08_aad_encrypt : forall O g o d x,
  perform_encrypt O g o d = Ok x ->
  exists t a, o_dumps O (PDict (x_prot x)) = Ok t /\ ascii_enc t = Ok a /\
    x_aadseg x = match e_ser o with Compact => b64e a | _ => spec_aad (b64e a) (e_aad o) end.
Proof. exact aad_encrypt_side. Qed.

(* ... stated about the object AFTER perform_encrypt, whatever its base64_segments held before ([prior]): the AAD
   fed to the content encryption is the spec AAD over the "protected" member that represent_*_json EMITS
   (compact: the first segment of the emitted string) *)
Theorem c08_aad_is_emitted_json : forall O g prior o d x data,
  e_ser o <> Compact ->
  perform_encrypt_obj O prior g o d = Ok x -> represent_json O o x = Ok data ->
  exists p, py_getitem_str data (s_ "protected") = Ok (PStr p) /\
            x_aadseg x = spec_aad p (e_aad o).
Proof. exact aad_is_emitted_json. Qed.

Theorem c08_aad_is_emitted_compact : forall O g prior o d x tok,
  e_ser o = Compact ->
  perform_encrypt_obj O prior g o d = Ok x -> represent_compact x = Ok tok ->
  exists rest, tok = x_aadseg x ++ 46 :: rest /\ x_aadseg x = x_b64prot x.
Proof. exact aad_is_emitted_compact. Qed.

Theorem c08_prior_segments_irrelevant : forall O g prior1 prior2 o d,
  perform_encrypt_obj O prior1 g o d = perform_encrypt_obj O prior2 g o d /\
  encrypt_json_obj O prior1 g o d = encrypt_json_obj O prior2 g o d.
Proof. exact prior_segments_irrelevant. Qed.

(* ---- AL (RFC 7518 5.2.2.1) ---- *)
Theorem c08_al : forall a, lenN a * 8 < 2 ^ 64 ->
  encode_int (Z.of_N (lenN a * 8)) 64 = Ok (spec_al a).
Proof. exact al_is_spec. Qed.

Example c08_al_example : spec_al (repeat 65 42) = [0; 0; 0; 0; 0; 0; 1; 80].   (* RFC 7518 B.1: 42 octets -> 336 bits *)
Proof. vm_compute. reflexivity. Qed.

(* ---- key split: MAC_KEY = initial half, ENC_KEY = final half ---- *)
Theorem c08_key_split : forall e p cek,
  params_of e = Some p ->
  N.to_nat (ee_key_len e) = p_mac_key_len p -> p_enc_key_len p = p_mac_key_len p ->
  length cek = (2 * p_mac_key_len p)%nat ->
  cbchs_hkey e cek = spec_mac_key p cek /\ cbchs_ekey e cek = spec_enc_key p cek.
Proof. exact key_split. Qed.

(* the premises hold for every CBC-HS row of the implementation's table, with the RFC's literals *)
Example c08_cbc_params_table :
  map (fun e => (ee_name e, N.to_nat (ee_key_len e), ee_hash e, ee_cek_size e))
      (filter (fun e => fam_is (ee_family e) "CBCHS") jwe_enc_table_drafts)
  = map (fun p => (fst p, p_mac_key_len (snd p), p_hash (snd p),
                   N.of_nat (8 * (p_mac_key_len (snd p) + p_enc_key_len (snd p))))) spec_cbc_params
  /\ forallb (fun p => Nat.eqb (p_mac_key_len (snd p)) (p_enc_key_len (snd p))
                       && Nat.eqb (p_mac_key_len (snd p)) (p_t_len (snd p))) spec_cbc_params = true.
Proof. vm_compute. split; reflexivity. Qed.

(* ---- tag: T = first T_LEN octets of HMAC(MAC_KEY, A || IV || E || AL) ---- *)
Theorem c08_tag_trunc : forall O e ct aad iv hkey p,
  N.to_nat (ee_key_len e) = p_t_len p -> asc (ee_hash e) = asc (p_hash p) ->
  lenN aad * 8 < 2 ^ 64 ->
  cbchs_hmac O e ct aad iv hkey =
  (do m <- o_mac O (asc (p_hash p)) hkey (spec_mac_input aad iv ct); Ok (spec_tag p m)).
Proof. exact tag_trunc. Qed.

(* ---- Concat KDF other-info (RFC 7518 4.6.2; cctag of the 1PU draft) ---- *)
Theorem c08_otherinfo : forall hs cek_size key_size tag algid pu pv,
  u32be_len_input (hget hs "apu") true = Ok (len32 pu) ->
  u32be_len_input (hget hs "apv") true = Ok (len32 pv) ->
  (match key_size with
   | Some ks => ks <> 0 /\ exists a, hitem hs "alg" = Ok a /\ u32be_len_input a false = Ok (len32 algid)
   | None => exists a, hitem hs "enc" = Ok a /\ u32be_len_input a false = Ok (len32 algid)
   end) ->
  kdf_fixed_info hs cek_size key_size tag =
  Ok (spec_otherinfo algid pu pv (match key_size with Some ks => ks | None => cek_size end)
        (match tag with Some (x :: l) => Some (x :: l) | _ => None end),
      match key_size with Some ks => ks | None => cek_size end).
Proof. exact otherinfo_layout. Qed.

(* the field encodings: absent member = zero-length Data; apu/apv are base64url-decoded; alg/enc as UTF-8 *)
Theorem c08_otherinfo_fields :
  u32be_len_input PNone true = Ok (len32 []) /\
  (forall s sb u, s <> [] -> utf8 s = Ok u -> b64d u = Ok sb -> u32be_len_input (PStr s) true = Ok (len32 sb)) /\
  (forall s u, s <> [] -> utf8 s = Ok u -> u32be_len_input (PStr s) false = Ok (len32 u)) /\
  (forall t, t <> [] -> u32be_len_input (PBytes t) false = Ok (len32 t)).
Proof. exact otherinfo_fields. Qed.

(* RFC 7518 appendix C: the other-info of the worked example, computed by the model *)
Example c08_otherinfo_rfc7518_C :
  kdf_fixed_info [(asc "alg", PStr (asc "ECDH-ES")); (asc "enc", PStr (asc "A128GCM"));
                  (asc "apu", PStr (asc "QWxpY2U")); (asc "apv", PStr (asc "Qm9i"))] 128 None None
  = Ok ([0; 0; 0; 7; 65; 49; 50; 56; 71; 67; 77; 0; 0; 0; 5; 65; 108; 105; 99; 101; 0; 0; 0; 3; 66; 111; 98; 0; 0; 0; 128], 128).
Proof. vm_compute. reflexivity. Qed.

(* ---- ECDH-1PU: Z = Ze || Zs; the tag enters the KDF exactly in key wrapping mode ---- *)
Theorem c08_1pu_z_and_tag : forall O a e hs r tag,
  (fam_is (ea_family a) "ECDH1PU" = true -> forall t k, dec_auk O a e hs r t = Ok k ->
     exists ze zs, derive_key_for_concat_kdf O (spec_1pu_z ze zs) hs (ee_cek_size e) (ea_key_size a) t = Ok k) /\
  (ea_direct a = false -> is_agreement a = true -> ea_tag_aware a = true ->
     decrypt_recipient O a e hs r tag =
     (do auk <- dec_auk O a e hs r (Some tag); do ek <- need_ek r; kw_unwrap_cek O (key_size_of a) ek auk)) /\
  (ea_direct a = true -> is_agreement a = true -> r_ek r = Some [] ->
     decrypt_recipient O a e hs r tag = dec_auk O a e hs r None).
Proof. exact onepu_all. Qed.

Example c08_tag_aware_rows :
  map ea_name (filter ea_tag_aware jwe_alg_table_drafts)
  = ["ECDH-1PU"; "ECDH-1PU+A128KW"; "ECDH-1PU+A192KW"; "ECDH-1PU+A256KW"]%string.
Proof. vm_compute. reflexivity. Qed.

(* ---- PBES2: salt = UTF8(alg) || 0x00 || p2s, count = p2c, PRF and dkLen per RFC 7518 4.8 ---- *)
Theorem c08_pbes2_salt_count : forall O a k p2s c,
  (1 <= c <= 2147483647)%Z ->
  pbes2_kek O a k p2s (PInt c) =
  o_pbkdf2 O (asc (ea_hash a)) (k_id k) (spec_pbes2_salt (asc (ea_name a)) p2s) (PInt c) (key_size_of a / 8).
Proof. exact pbes2_salt_count. Qed.

Example c08_pbes2_table :
  map (fun a => (ea_name a, (ea_hash a, key_size_of a / 8)))
      (filter (fun a => fam_is (ea_family a) "PBES2") jwe_alg_table_drafts) = spec_pbes2_table.
Proof. vm_compute. reflexivity. Qed.

(* ---- AES-GCM key wrap: ek = ciphertext, no AAD, "iv"/"tag" members = base64url of IV / tag ---- *)
Theorem c08_gcmkw_fields : forall O a s prot unprot r d cek p' r' ek,
  fam_is (ea_family a) "RSA" = false -> fam_is (ea_family a) "AESKW" = false ->
  fam_is (ea_family a) "AESGCMKW" = true ->
  encrypt_cek O a s prot unprot r d cek = Ok (p', r', ek) ->
  exists tg pr,
    o_gcm_enc O (k_id (r_key r)) (d_kwiv d) None cek = Ok (ek, tg) /\
    add_header s prot r (s_ "iv") (PStr (b64e (d_kwiv d))) = Ok pr /\
    add_header s (fst pr) (snd pr) (s_ "tag") (PStr (b64e tg)) = Ok (p', r').
Proof. exact gcmkw_fields. Qed.

(* ---- DEFLATE framing: under the zlib contract (RFC 1950: zlib.compress = 2-octet header ++ COMPLETE raw RFC 1951
   stream ++ 4-octet Adler-32; validated against real zlib on every recorded call by harness/props/c08.py), what
   DeflateZipModel.compress returns - and what is encrypted when "zip" is in the protected header - is a complete
   raw DEFLATE stream of the plaintext: a strict inflater reaches end-of-stream with no trailing data ---- *)
Theorem c08_deflate_raw : forall O (raw_inflate : bytes -> res (bytes * bool * bytes)),
  (forall s z, o_deflate O s = Ok z ->
     exists hdr raw adler, spec_zlib_format z hdr raw adler /\ spec_complete_raw raw_inflate raw s) ->
  forall s c, zip_compress O s = Ok c -> spec_complete_raw raw_inflate c s.
Proof. exact deflate_raw. Qed.

Theorem c08_deflate_raw_message : forall O (raw_inflate : bytes -> res (bytes * bool * bytes)),
  (forall s z, o_deflate O s = Ok z ->
     exists hdr raw adler, spec_zlib_format z hdr raw adler /\ spec_complete_raw raw_inflate raw s) ->
  forall g prot m c,
  dmem prot (s_ "zip") = true -> zip_plain O g prot m = Ok c -> spec_complete_raw raw_inflate c m.
Proof. exact deflate_raw_message. Qed.

(* the zlib header the model strips is the one the implementation compares with (GZIP_HEAD in jwe_zips.py) *)
Example c08_zlib_header : zip_gzip_head = spec_zlib_header.
Proof. vm_compute. reflexivity. Qed.

(* stripping: zlib.compress(b"") = 78 9c 03 00 00 00 00 01  ->  raw stream 03 00 (one final empty fixed block) *)
Example c08_strip_example : strip_zlib [120; 156; 3; 0; 0; 0; 0; 1] = [3; 0].
Proof. vm_compute. reflexivity. Qed.

(* ---- RSA paddings and content-encryption sizes: the implementation's tables are the RFC's ---- *)
Example c08_paddings :
  map (fun a => (ea_name a, ea_pad a)) (filter (fun a => fam_is (ea_family a) "RSA") jwe_alg_table_drafts)
  = spec_rsa_paddings.
Proof. vm_compute. reflexivity. Qed.

Example c08_enc_sizes :
  map (fun e => (ee_name e, ee_iv_size e, ee_cek_size e)) jwe_enc_table_drafts = spec_enc_sizes.
Proof. vm_compute. reflexivity. Qed.

Example c08_kw_sizes :
  map (fun a => (ea_name a, ea_key_size a)) (filter (fun a => fam_is (ea_family a) "AESKW" || fam_is (ea_family a) "AESGCMKW") jwe_alg_table_drafts)
  = [("A128KW", Some 128); ("A192KW", Some 192); ("A256KW", Some 256);
     ("A128GCMKW", Some 128); ("A192GCMKW", Some 192); ("A256GCMKW", Some 256)]%string.
Proof. vm_compute. reflexivity. Qed.

(* ---- any spelling of the protected header decrypts: the serializer is never consulted ---- *)
Theorem c08_foreign_spelling : forall O f value k sender o,
  extract_compact O value k sender = Ok o ->
  exists hseg rest, split_dot value = hseg :: rest /\ dec_aad (with_dumps O f) o = Ok hseg.
Proof. exact foreign_spelling_compact. Qed.

Theorem c08_foreign_spelling_json : forall O f data keys dflt sender o,
  extract_json O data keys dflt sender = Ok o ->
  exists b64p, seg_bytes data "protected" = Ok b64p /\
    dec_aad (with_dumps O f) o = Ok (spec_aad b64p (j_aad o)).
Proof. exact foreign_spelling_json. Qed.

Print Assumptions c08_aad.
Print Assumptions c08_aad_encrypt.
Print Assumptions c08_aad_is_emitted_json.
Print Assumptions c08_aad_is_emitted_compact.
Print Assumptions c08_prior_segments_irrelevant.
Print Assumptions c08_al.
Print Assumptions c08_key_split.
Print Assumptions c08_tag_trunc.
Print Assumptions c08_otherinfo.
Print Assumptions c08_otherinfo_fields.
Print Assumptions c08_1pu_z_and_tag.
Print Assumptions c08_pbes2_salt_count.
Print Assumptions c08_gcmkw_fields.
Print Assumptions c08_deflate_raw.
Print Assumptions c08_deflate_raw_message.
Print Assumptions c08_foreign_spelling.
Print Assumptions c08_foreign_spelling_json.
