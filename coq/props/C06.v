(* C06 — operations succeed only with a key suited to the algorithm and operation.
   Only statements here; proofs live in proofs/C06Proofs.v.
   Impl model: model/C06Model.v (gates of joserfc and their order / presence on every
   entry point, driven by the tables of gen/Tables.v).  Spec: model/C06Spec.v (the
   table of the property text, literals only).
   [prim] is the external cryptographic code; nothing is assumed about it except,
   in the theorems named *_by_contract, the type contract [prim_contract]. *)
From Coq Require Import String List NArith Bool.
From Model Require Import Base PyVal TableTypes C06Model C06Spec.
From Gen Require Import Tables.
From Proofs Require Import C06Proofs.
Import ListNotations.
Open Scope string_scope.
Open Scope N_scope.

(* ---------- JWS: every entry point that calls alg.check_key_type ---------- *)
(* jws.serialize_compact / deserialize_compact / extract_compact + validate_compact /
   serialize_json / deserialize_json (flattened and general), rfc7797 compact with b64
   true and false (both directions), rfc7797 json with b64 true (both directions) and
   deserialize_json b64=false, jwt.encode / jwt.decode; key given as a Key, in a KeySet
   (algorithm- or kid-selected), through a callable, or as raw str / bytes; for EVERY
   primitive behaviour.  The one entry without the type gate is rfc7797.serialize_json
   with b64=false (jws_has_type_gate = false), see the _by_contract theorem *)
Theorem c06_jws :
  forall prim e src alg k mat siglen,
    key_wf k -> jws_has_type_gate e = true ->
    jws_run prim e src alg k mat siglen = Ok tt ->
    jws_suitable alg (jws_is_sign e) k.
Proof. exact p_c06_jws. Qed.

(* rfc7797.serialize_json with b64=false never calls check_key_type: there the key
   type is only enforced by the primitive refusing a native of the wrong kind *)
Theorem c06_jws_7797_json_by_contract :
  forall prim, prim_contract prim ->
  forall e src alg k mat siglen,
    key_wf k ->
    jws_run prim e src alg k mat siglen = Ok tt ->
    jws_suitable alg (jws_is_sign e) k.
Proof. exact p_c06_jws_by_contract. Qed.

(* a verifier holding an asymmetric Key never accepts an HS* MAC, whatever octets
   keyed it (mat = true: even a MAC that is right for the attacker's octet string) *)
Theorem c06_no_mac_with_public_encoding :
  forall prim e src alg k mat siglen,
    key_wf k -> jws_has_type_gate e = true ->
    In alg ["HS256"; "HS384"; "HS512"] -> k_kty k <> KOct ->
    jws_run prim e src alg k mat siglen <> Ok tt.
Proof. exact p_c06_no_mac. Qed.

Theorem c06_no_mac_with_public_encoding_by_contract :
  forall prim, prim_contract prim ->
  forall e src alg k mat siglen,
    key_wf k -> In alg ["HS256"; "HS384"; "HS512"] -> k_kty k <> KOct ->
    jws_run prim e src alg k mat siglen <> Ok tt.
Proof. exact p_c06_no_mac_by_contract. Qed.

(* error classes of the explicit gates *)
Theorem c06_jws_use_class :
  forall prim e alg r k mat siglen s,
    find_jws alg = Some r -> k_use k = Some (PStr s) -> s <> [] -> s <> asc "sig" ->
    jws_run prim e SrcKey alg k mat siglen = Err (EJose UnsupportedKeyUseError).
Proof. exact jws_use_class. Qed.

Theorem c06_jws_type_class :
  forall prim e alg r k mat siglen,
    find_jws alg = Some r -> jws_has_type_gate e = true -> declared_use_ok "sig" k ->
    kty_str (k_kty k) <> ja_key_type r ->
    jws_run prim e SrcKey alg k mat siglen = Err (EJose InvalidKeyTypeError).
Proof. exact jws_type_class. Qed.

Theorem c06_jws_key_ops_class :
  forall prim r k l,
    In r jws_alg_table -> ja_family r <> "none" ->
    (ja_family r = "EC" -> ec_check_key r k = Ok tt) ->
    k_ops k = Some (PList l) -> ~ In (PStr (asc "sign")) l ->
    jws_sign prim r k = Err (EJose UnsupportedKeyOperationError).
Proof. exact jws_sign_ops_class. Qed.

Theorem c06_jws_public_cannot_sign :
  forall prim r k,
    In r jws_alg_table -> ja_family r <> "none" ->
    (ja_family r = "EC" -> ec_check_key r k = Ok tt) ->
    ops_include "sign" k -> k_priv k = false ->
    jws_sign prim r k = Err (EJose UnsupportedKeyOperationError).
Proof. exact jws_sign_public_class. Qed.

(* same bit size, different curve: ES256 with secp256k1, ES256K with P-256, ... *)
Theorem c06_jws_curve_class :
  forall prim r k mat siglen,
    ja_family r = "EC" -> k_kty k = KEc -> k_crv k <> ja_curve r ->
    jws_sign prim r k = Err EValue /\ jws_verify prim r k mat siglen = Err EValue.
Proof. exact jws_curve_class. Qed.

(* conversely a suitable key is accepted (primitives behaving as [prim_std]; the key's
   declared alg, when the entry point checks it, is this algorithm; matching material
   and a signature of the curve's length): the Spec is not stricter than the code *)
Theorem c06_jws_complete :
  forall e alg r k siglen,
    key_wf k -> find_jws alg = Some r -> alg <> "none" ->
    jws_suitable alg (jws_is_sign e) k -> check_alg alg k = Ok tt -> siglen_ok k siglen ->
    jws_run prim_std e SrcKey alg k true siglen = Ok tt.
Proof. exact jws_complete. Qed.

(* ---------- one key object, many calls ---------- *)
(* the verdict of get_op_key is a function of (key parameters, operation) only: after
   ANY history of operations on the same key object, an operation gets the verdict it
   gets on a fresh key (the differential run observes second and later calls on one
   object and compares them with this stateless model) *)
Theorem c06_gate_stateless :
  forall k history op,
    last (run_history k (history ++ [op])) (Ok tt) = op_verdict k op /\
    (forall op', nth_error (run_history k (history ++ [op])) (length history) = Some (op_verdict k op) /\
                 run_history k (op' :: history ++ [op]) = op_verdict k op' :: run_history k (history ++ [op])).
Proof. exact gate_stateless. Qed.

(* a permitted warm-up never opens a gate *)
Theorem c06_gate_after_history :
  forall k history op l r,
    k_ops k = Some (PList l) -> ~ In (PStr (asc op)) l -> find_op op = Some r ->
    last (run_history k (history ++ [op])) (Ok tt) = Err (EJose UnsupportedKeyOperationError).
Proof. exact gate_after_history. Qed.

Example c06_history_instance :
  run_history (ex_key KOct "" 128 true None (Some ["verify"])) ["verify"; "wrapKey"; "verify"; "deriveKey"; "sign"]
  = [Ok tt; Err (EJose UnsupportedKeyOperationError); Ok tt;
     Err (EJose UnsupportedKeyOperationError); Err (EJose UnsupportedKeyOperationError)].
Proof. vm_compute. reflexivity. Qed.

(* ---------- JWE ---------- *)
(* jwe.encrypt_compact / decrypt_compact / encrypt_json / decrypt_json (flattened,
   general, one recipient), jwt.encode / decode with a JWERegistry; recipient key
   given directly or in a KeySet; sender key for ECDH-1PU; every primitive behaviour.
   cek_of enc = the CEK size of "enc"; ek = kind and curve of the received "epk" *)
Theorem c06_jwe :
  forall prim e src alg enc k sender ek mat,
    key_wf k -> (forall s, sender = Some s -> key_wf s) ->
    jwe_run prim e src alg enc k sender ek mat = Ok tt ->
    jwe_suitable alg (jwe_is_enc e) (cek_of enc) k (eff_sender e sender)
                 (if jwe_is_enc e then {| epk_kty := KEc; epk_crv := "" |} else ek).
Proof. exact p_c06_jwe. Qed.

(* in particular encrypt_json with the key handed to add_recipient(header, key): the
   declared use of that key, and of the sender key, is enforced as well *)
Theorem c06_jwe_preattached :
  forall prim e src alg enc k sender ek mat,
    key_wf k -> (forall s, sender = Some s -> key_wf s) -> jwe_preattached e = true ->
    jwe_run prim e src alg enc k sender ek mat = Ok tt ->
    declared_use_ok "enc" k /\ (forall s, sender = Some s -> declared_use_ok "enc" s).
Proof. exact p_c06_jwe_preattached. Qed.

(* general JSON with ANY number of recipients, each with its own "alg" and key (given
   per "kid" through a KeySet or a callable, or attached with add_recipient):
   encrypt_json = Ok -> EVERY recipient key (and the sender key) is suitable *)
Theorem c06_jwe_multi_encrypt :
  forall prim src enc rs sender,
    Forall (fun m => key_wf (m_key m)) rs -> (forall s, sender = Some s -> key_wf s) ->
    jwe_multi_enc prim src enc rs sender = Ok tt ->
    Forall (fun m => jwe_suitable (m_alg m) true (cek_of enc) (m_key m) sender nek) rs.
Proof. exact jwe_multi_enc_suitable. Qed.

(* decrypt_json = Ok -> every recipient key is use-checked whatever
   verify_all_recipients (va); the plaintext comes from a recipient whose key is
   suitable (and is the right material); with va every recipient key is suitable *)
Theorem c06_jwe_multi_decrypt :
  forall prim va src enc rs sender,
    Forall (fun m => key_wf (m_key m)) rs -> (forall s, sender = Some s -> key_wf s) ->
    jwe_multi_dec prim va src enc rs sender = Ok tt ->
    Forall (fun m => declared_use_ok "enc" (m_key m)) rs /\
    Exists (fun m => m_mat m = true /\
                     jwe_suitable (m_alg m) false (cek_of enc) (m_key m) sender (m_epk m)) rs /\
    (va = true ->
     Forall (fun m => m_mat m = true /\
                      jwe_suitable (m_alg m) false (cek_of enc) (m_key m) sender (m_epk m)) rs).
Proof. exact jwe_multi_dec_suitable. Qed.

Theorem c06_jwe_use_class :
  forall prim e alg enc r en k ek mat s,
    find_jwe alg = Some r -> find_enc enc = Some en ->
    k_use k = Some (PStr s) -> s <> [] -> s <> asc "enc" ->
    jwe_run prim e SrcKey alg enc k None ek mat = Err (EJose UnsupportedKeyUseError).
Proof. exact jwe_use_class. Qed.

(* the sender key of ECDH-1PU declared for another use *)
Theorem c06_jwe_sender_use_class :
  forall prim e alg enc r en k sk ek mat s,
    find_jwe alg = Some r -> find_enc enc = Some en -> jwe_is_jwt e = false ->
    declared_use_ok "enc" k ->
    k_use sk = Some (PStr s) -> s <> [] -> s <> asc "enc" ->
    jwe_run prim e SrcKey alg enc k (Some sk) ek mat = Err (EJose UnsupportedKeyUseError).
Proof. exact jwe_sender_use_class. Qed.

Theorem c06_jwe_type_class :
  forall prim r en k sender e,
    In r jwe_alg_table_drafts -> mem_str (kty_str (k_kty k)) (ea_key_types r) = false ->
    jwe_encrypt_alg prim r en k sender = Err (EJose InvalidKeyTypeError) /\
    (ea_family r <> "ECDH1PU" ->
     jwe_decrypt_alg prim r en k sender e = Err (EJose InvalidKeyTypeError)).
Proof. exact jwe_type_class. Qed.

(* ECDH-1PU decryption: the key-type gate is an explicit joserfc check too (after the enc
   restriction, with a sender key); a missing sender key is a DecodeError *)
Theorem c06_jwe_1pu_decrypt_classes :
  forall prim r en k s e,
    ea_family r = "ECDH1PU" -> check_enc_1pu r en = Ok tt ->
    (mem_str (kty_str (k_kty k)) (ea_key_types r) = false ->
     jwe_decrypt_alg prim r en k (Some s) e = Err (EJose InvalidKeyTypeError)) /\
    map_exchange_err (jwe_decrypt_alg prim r en k None e) = Err (EJose DecodeError).
Proof. exact jwe_1pu_decrypt_classes. Qed.

Theorem c06_jwe_wrap_size_class :
  forall prim r en k sender e sz,
    In r jwe_alg_table_drafts -> (ea_family r = "AESKW" \/ ea_family r = "AESGCMKW") ->
    ea_key_size r = Some sz -> k_kty k = KOct -> k_priv k = true -> k_ops k = None ->
    k_bits k <> sz ->
    jwe_encrypt_alg prim r en k sender = Err (EJose InvalidKeyLengthError) /\
    jwe_decrypt_alg prim r en k sender e = Err (EJose InvalidKeyLengthError).
Proof. exact jwe_wrap_size_class. Qed.

Theorem c06_jwe_rsa_size_class :
  forall prim r en k sender sz,
    ea_family r = "RSA" -> ea_key_types r = ["RSA"] -> ea_key_size r = Some sz ->
    k_kty k = KRsa -> k_ops k = None -> k_bits k < sz ->
    jwe_encrypt_alg prim r en k sender = Err (EJose InvalidKeyLengthError).
Proof. exact jwe_rsa_size_class. Qed.

(* ---------- the tables of /repo are the table of the property text ---------- *)
Theorem c06_table_jws :
  map (fun r => (ja_name r, ja_key_type r, ja_curve r)) jws_alg_table =
  [("none", "oct", ""); ("HS256", "oct", ""); ("HS384", "oct", ""); ("HS512", "oct", "");
   ("RS256", "RSA", ""); ("RS384", "RSA", ""); ("RS512", "RSA", "");
   ("ES256", "EC", "P-256"); ("ES384", "EC", "P-384"); ("ES512", "EC", "P-521");
   ("PS256", "RSA", ""); ("PS384", "RSA", ""); ("PS512", "RSA", "");
   ("EdDSA", "OKP", ""); ("ES256K", "EC", "secp256k1")].
Proof. vm_compute. reflexivity. Qed.

Theorem c06_table_jwe :
  map (fun r => (ea_name r, ea_key_types r, ea_key_size r)) jwe_alg_table_drafts =
  [("RSA1_5", ["RSA"], Some 2048); ("RSA-OAEP", ["RSA"], Some 2048); ("RSA-OAEP-256", ["RSA"], Some 2048);
   ("A128KW", ["oct"], Some 128); ("A192KW", ["oct"], Some 192); ("A256KW", ["oct"], Some 256);
   ("dir", ["oct"], None);
   ("ECDH-ES", ["EC"; "OKP"], None); ("ECDH-ES+A128KW", ["EC"; "OKP"], Some 128);
   ("ECDH-ES+A192KW", ["EC"; "OKP"], Some 192); ("ECDH-ES+A256KW", ["EC"; "OKP"], Some 256);
   ("A128GCMKW", ["oct"], Some 128); ("A192GCMKW", ["oct"], Some 192); ("A256GCMKW", ["oct"], Some 256);
   ("PBES2-HS256+A128KW", ["oct"], Some 128); ("PBES2-HS384+A192KW", ["oct"], Some 192);
   ("PBES2-HS512+A256KW", ["oct"], Some 256);
   ("ECDH-1PU", ["EC"; "OKP"], None); ("ECDH-1PU+A128KW", ["EC"; "OKP"], Some 128);
   ("ECDH-1PU+A192KW", ["EC"; "OKP"], Some 192); ("ECDH-1PU+A256KW", ["EC"; "OKP"], Some 256)].
Proof. vm_compute. reflexivity. Qed.

(* the table without the drafts module registered is the prefix of 17 RFC 7518 algorithms *)
Theorem c06_table_jwe_rfc7518 :
  map ea_name jwe_alg_table = firstn 17 (map ea_name jwe_alg_table_drafts) /\
  map (fun r => (ea_key_types r, ea_key_size r)) jwe_alg_table =
  firstn 17 (map (fun r => (ea_key_types r, ea_key_size r)) jwe_alg_table_drafts).
Proof. vm_compute. split; reflexivity. Qed.

Theorem c06_table_enc_cek :
  map (fun r => (ee_name r, ee_cek_size r)) jwe_enc_table =
  [("A128CBC-HS256", 256); ("A192CBC-HS384", 384); ("A256CBC-HS512", 512);
   ("A128GCM", 128); ("A192GCM", 192); ("A256GCM", 256)].
Proof. vm_compute. reflexivity. Qed.

(* sign / decrypt / unwrapKey need private material; use of every operation *)
Theorem c06_table_operations :
  map (fun r => (ko_name r, ko_use r, op_needs_private r)) jwk_operation_registry =
  [("sign", "sig", true); ("verify", "sig", false); ("encrypt", "enc", false);
   ("decrypt", "enc", true); ("wrapKey", "enc", false); ("unwrapKey", "enc", true);
   ("deriveKey", "enc", false); ("deriveBits", "enc", false)].
Proof. vm_compute. reflexivity. Qed.

Theorem c06_table_curves :
  map cv_name ec_curves = ec_curve_names /\
  map (fun r => fst (fst r)) okp_curves = okp_curve_names.
Proof. vm_compute. split; reflexivity. Qed.

(* ---------- importing key text as a symmetric secret ---------- *)
Theorem c06_unsafe_import :
  forall text, oct_import_warns text = true <-> starts_with_unsafe text.
Proof. exact unsafe_import_iff. Qed.

(* every route by which key text becomes an oct key - OctKey.import_key,
   JWKRegistry.import_key(text, "oct"), the raw str / bytes key argument of an entry point,
   a callable returning str / bytes - gives the key made of these octets and raises the
   warning exactly for PEM / SSH-formatted text *)
Theorem c06_unsafe_import_all_routes :
  forall r text,
    fst (import_text r text) = oct_of_text text /\
    (snd (import_text r text) = true <-> starts_with_unsafe text).
Proof. exact unsafe_import_all_routes. Qed.

(* leading whitespace is looked behind; recorded gaps: a byte-order mark and DER are
   not "PEM/SSH-formatted key text" and stay silent *)
Theorem c06_unsafe_prefix_gap :
  oct_import_warns (asc " -----BEGIN PUBLIC KEY-----") = true /\
  oct_import_warns (13 :: 10 :: 9 :: 11 :: 12 :: asc "ssh-rsa AAAA") = true /\
  oct_import_warns (239 :: 187 :: 191 :: asc "-----BEGIN PUBLIC KEY-----") = false /\
  oct_import_warns [48; 130; 1; 34; 48; 13; 6; 9] = false.
Proof. exact unsafe_prefix_gap. Qed.

(* what key_wf assumes about declared use / key_ops is what the registry of /repo
   validates at import: "use" a single member of [sig; enc] (not a list), "key_ops" a
   list of operation names (not a string, which `in` would match by substring) *)
Theorem c06_table_key_params :
  kparam_kind "use" = Some (VChoiceStr ["sig"; "enc"]) /\
  kparam_kind "key_ops" =
    Some (VChoiceList ["sign"; "verify"; "encrypt"; "decrypt"; "wrapKey"; "unwrapKey";
                       "deriveKey"; "deriveBits"]).
Proof. exact key_params_table. Qed.

(* hence for every importable key the key_ops gate is list membership *)
Theorem c06_key_ops_membership :
  forall op k, key_wf k -> check_key_op op k = Ok tt -> ops_include op k.
Proof. exact key_ops_membership. Qed.

(* ---------- non-vacuity: instances that meet the hypotheses ---------- *)
Example c06_jws_instances :
  jws_run prim_std JSerCompact SrcKey "ES256" (ex_key KEc "P-256" 0 true (Some "sig") (Some ["sign"])) true 64 = Ok tt /\
  jws_run prim_std JDesGen SrcSet "EdDSA" (ex_key KOkp "Ed448" 0 false None (Some ["verify"])) true 114 = Ok tt /\
  jws_run prim_std J97SerJson SrcKey "HS256" (ex_key KOct "" 256 true None None) true 32 = Ok tt /\
  jws_run prim_std J97DesCompact SrcKey "PS384" (ex_key KRsa "" 2048 false (Some "sig") None) true 256 = Ok tt /\
  (* same size, different curve *)
  jws_run prim_std JSerCompact SrcKey "ES256" (ex_key KEc "secp256k1" 0 true None None) true 64 = Err EValue /\
  jws_run prim_std JDesCompact SrcKey "ES256K" (ex_key KEc "P-256" 0 false None None) true 64 = Err EValue /\
  (* key_ops: [] forbids everything *)
  jws_run prim_std JSerFlat SrcKey "HS256" (ex_key KOct "" 256 true None (Some [])) true 32
    = Err (EJose UnsupportedKeyOperationError) /\
  (* HS256 verification with an RSA key object *)
  jws_run prim_std JDesCompact SrcKey "HS256" (ex_key KRsa "" 2048 false None None) true 32
    = Err (EJose InvalidKeyTypeError) /\
  jws_run prim_std J97SerJson SrcKey "HS256" (ex_key KRsa "" 2048 true None None) true 32 = Err EType /\
  jws_run prim_std JDesFlat SrcKey "EdDSA" (ex_key KOkp "X25519" 0 false None None) true 64 = Err EValue.
Proof. vm_compute. repeat split; reflexivity. Qed.

Example c06_jwe_instances :
  let nek := {| epk_kty := KEc; epk_crv := "" |} in
  jwe_run prim_std EEncCompact SrcKey "RSA-OAEP" "A128GCM" (ex_key KRsa "" 2048 false (Some "enc") (Some ["encrypt"])) None nek true = Ok tt /\
  jwe_run prim_std EEncGen SrcSet "RSA1_5" "A128GCM" (ex_key KRsa "" 1024 false None None) None nek true
    = Err (EJose InvalidKeyLengthError) /\
  jwe_run prim_std EDecCompact SrcKey "RSA1_5" "A128GCM" (ex_key KRsa "" 1024 true None None) None nek true = Ok tt /\
  jwe_run prim_std EDecFlat SrcKey "A192KW" "A128GCM" (ex_key KOct "" 192 true None (Some ["unwrapKey"])) None nek true = Ok tt /\
  jwe_run prim_std EDecFlat SrcKey "A192KW" "A128GCM" (ex_key KOct "" 256 true None None) None nek true
    = Err (EJose InvalidKeyLengthError) /\
  jwe_run prim_std EEncCompact SrcKey "dir" "A256CBC-HS512" (ex_key KOct "" 512 true None None) None nek true = Ok tt /\
  jwe_run prim_std EEncCompact SrcKey "dir" "A256CBC-HS512" (ex_key KOct "" 256 true None None) None nek true
    = Err (EJose InvalidKeyLengthError) /\
  jwe_run prim_std EDecGen SrcKey "ECDH-ES+A128KW" "A128GCM" (ex_key KOkp "X448" 0 true None None) None
          {| epk_kty := KOkp; epk_crv := "X448" |} true = Ok tt /\
  jwe_run prim_std EDecGen SrcKey "ECDH-ES" "A128GCM" (ex_key KEc "P-256" 0 true None None) None
          {| epk_kty := KEc; epk_crv := "P-384" |} true = Err (EJose DecodeError) /\
  jwe_run prim_std EEncCompact SrcKey "ECDH-1PU" "A128GCM" (ex_key KEc "P-256" 0 false None None)
          (Some (ex_key KEc "P-256" 0 true None None)) nek true = Ok tt /\
  jwe_run prim_std EEncCompact SrcKey "ECDH-1PU" "A128GCM" (ex_key KEc "P-256" 0 false None None)
          (Some (ex_key KEc "secp256k1" 0 true None None)) nek true = Err (EJose InvalidExchangeKeyError) /\
  jwe_run prim_std EJwtEncode SrcKey "A128KW" "A128GCM" (ex_key KOct "" 128 true (Some "sig") None) None nek true
    = Err (EJose UnsupportedKeyUseError) /\
  jwe_run prim_std EDecFlat SrcKey "ECDH-1PU" "A128GCM" (ex_key KOct "" 256 true None None)
          (Some (ex_key KEc "P-256" 0 false None None)) {| epk_kty := KEc; epk_crv := "P-256" |} true
    = Err (EJose InvalidKeyTypeError) /\
  jwe_run prim_std EDecCompact SrcKey "ECDH-1PU" "A128GCM" (ex_key KEc "P-256" 0 true None None)
          None {| epk_kty := KEc; epk_crv := "P-256" |} true = Err (EJose DecodeError) /\
  jwe_run prim_std EDecCompact SrcKey "ECDH-1PU" "A128GCM" (ex_key KEc "P-256" 0 true None None)
          (Some (ex_key KRsa "" 2048 false None None)) {| epk_kty := KEc; epk_crv := "P-256" |} true
    = Err (EJose DecodeError) /\
  jwe_run prim_std EDecCompact SrcKey "ECDH-1PU" "A128GCM" (ex_key KEc "P-256" 0 true None None)
          (Some (ex_key KEc "P-256" 0 false None None)) {| epk_kty := KEc; epk_crv := "P-256" |} true = Ok tt /\
  jwe_run prim_std EEncFlatPre SrcKey "A128KW" "A128GCM" (ex_key KOct "" 128 true (Some "sig") None) None nek true
    = Err (EJose UnsupportedKeyUseError) /\
  jwe_run prim_std EEncGenPre SrcKey "A128KW" "A128GCM" (ex_key KOct "" 128 true (Some "enc") None) None nek true = Ok tt /\
  jwe_run prim_std EEncCompact SrcKey "ECDH-1PU" "A128GCM" (ex_key KEc "P-256" 0 false None None)
          (Some (ex_key KEc "P-256" 0 true (Some "sig") None)) nek true = Err (EJose UnsupportedKeyUseError).
Proof. vm_compute. repeat split; reflexivity. Qed.

Example c06_jwe_multi_instances :
  let r alg k mat := {| m_alg := alg; m_key := k; m_pre := false; m_epk := nek; m_mat := mat |} in
  let good := ex_key KOct "" 128 true None None in
  let sigk := ex_key KOct "" 128 true (Some "sig") None in
  let rsa := ex_key KRsa "" 2048 true (Some "enc") None in
  jwe_multi_dec prim_std true SrcKid "A128GCM" [r "A128KW" good true; r "RSA-OAEP" rsa true; r "A128GCMKW" good true] None = Ok tt /\
  (* a key declared for "sig" on the FIRST recipient: refused, whatever verify_all_recipients *)
  jwe_multi_dec prim_std true SrcKid "A128GCM" [r "A128KW" sigk true; r "RSA-OAEP" rsa true] None
    = Err (EJose UnsupportedKeyUseError) /\
  jwe_multi_dec prim_std false SrcCall "A128GCM" [r "A128KW" sigk true; r "RSA-OAEP" rsa true] None
    = Err (EJose UnsupportedKeyUseError) /\
  (* verify_all_recipients = False: a recipient that cannot be decrypted is skipped ... *)
  jwe_multi_dec prim_std false SrcKid "A128GCM" [r "A192KW" good true; r "RSA-OAEP" rsa true] None = Ok tt /\
  jwe_multi_dec prim_std true SrcKid "A128GCM" [r "A192KW" good true; r "RSA-OAEP" rsa true] None
    = Err (EJose InvalidKeyLengthError) /\
  (* ... but when no suitable key recovers the CEK the call fails *)
  jwe_multi_dec prim_std false SrcKid "A128GCM" [r "A192KW" good true; r "RSA-OAEP" rsa false] None
    = Err (EJose DecodeError) /\
  jwe_multi_enc prim_std SrcKid "A128GCM" [r "A128KW" good true; r "RSA-OAEP" rsa true] None = Ok tt /\
  jwe_multi_enc prim_std SrcKid "A128GCM" [r "A128KW" good true; r "RSA-OAEP" (ex_key KRsa "" 2047 false None None) true] None
    = Err (EJose InvalidKeyLengthError) /\
  jwe_multi_enc prim_std SrcKid "A128GCM" [r "A128KW" good true; r "dir" good true] None
    = Err (EJose ConflictAlgorithmError).
Proof. vm_compute. repeat split; reflexivity. Qed.

(* the hypotheses of the theorems are met by these keys *)
Example c06_wf_instance :
  key_wf (ex_key KEc "P-256" 0 true (Some "sig") (Some ["sign"])) /\
  key_wf (ex_key KOct "" 256 true None None) /\
  prim_contract prim_std /\
  starts_with_unsafe (asc "-----BEGIN PUBLIC KEY-----") /\
  oct_import_warns (asc "ssh-ed25519 AAAAC3Nz") = true /\
  oct_import_warns (asc "a long random secret") = false.
Proof. exact p_c06_wf_instance. Qed.

Print Assumptions c06_jws.
Print Assumptions c06_jws_7797_json_by_contract.
Print Assumptions c06_no_mac_with_public_encoding.
Print Assumptions c06_no_mac_with_public_encoding_by_contract.
Print Assumptions c06_jws_use_class.
Print Assumptions c06_jws_type_class.
Print Assumptions c06_jws_key_ops_class.
Print Assumptions c06_jws_public_cannot_sign.
Print Assumptions c06_jws_curve_class.
Print Assumptions c06_jws_complete.
Print Assumptions c06_gate_stateless.
Print Assumptions c06_gate_after_history.
Print Assumptions c06_jwe.
Print Assumptions c06_jwe_preattached.
Print Assumptions c06_jwe_multi_encrypt.
Print Assumptions c06_jwe_multi_decrypt.
Print Assumptions c06_jwe_use_class.
Print Assumptions c06_jwe_sender_use_class.
Print Assumptions c06_jwe_type_class.
Print Assumptions c06_jwe_1pu_decrypt_classes.
Print Assumptions c06_jwe_wrap_size_class.
Print Assumptions c06_jwe_rsa_size_class.
Print Assumptions c06_table_jws.
Print Assumptions c06_table_jwe.
Print Assumptions c06_table_jwe_rfc7518.
Print Assumptions c06_table_enc_cek.
Print Assumptions c06_table_operations.
Print Assumptions c06_table_curves.
Print Assumptions c06_unsafe_import.
Print Assumptions c06_unsafe_import_all_routes.
Print Assumptions c06_unsafe_prefix_gap.
Print Assumptions c06_table_key_params.
Print Assumptions c06_key_ops_membership.
