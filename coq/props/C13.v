(* C13 — thumbprints are the RFC 7638 value and depend only on the public key;
   an automatically assigned kid equals the thumbprint, is never overwritten
   and is stable.
   Only statements here; proofs live in proofs/C13Proofs.v.
   Impl model: model/C13Json.v (json.dumps, str.encode), model/C13Thumb.v
   (rfc7638.thumbprint, BaseKey.thumbprint / ensure_kid / kid / as_dict /
   dict construction, KeySet.__init__ / as_dict, JWK member encodings) over
   the registries of gen/Tables.v.  Spec: rfc7638_required / rfc7638_canonical
   in model/C13Thumb.v, written from RFC 7638 section 3 and RFC 8037 section 2.
   hashlib.new(name, data).digest() is the Section variable [hashnew] with the
   assumed contract [hashnew_octets] (a digest is an octet string). *)
From Coq Require Import Permutation.
From Model Require Import Base PyVal B64 IntCodec TableTypes C13Json C13Thumb C13Sha256 C13Heap.
From Gen Require Import Tables.
From Proofs Require Import C13Proofs C13Sort C13Ascii C13HeapProofs.
Open Scope N_scope.

Section C13.
  Variable hashnew : str -> bytes -> res bytes.
  Hypothesis hashnew_octets : forall n x h, hashnew n x = Ok h -> bytes_ok h = true.

  (* (table) the members each key class feeds to the digest, after sorting, are
     exactly the RFC lists: RFC 7638 3.2 "e kty n" / "crv kty x y" / "k kty",
     RFC 8037 2 "crv kty x" *)
  Theorem c13_required_members :
    map (fun c => (kc_kty c, sort_fields (key_fields c))) key_classes =
    [("oct"%string, [asc "k"; asc "kty"]);
     ("RSA"%string, [asc "e"; asc "kty"; asc "n"]);
     ("EC"%string, [asc "crv"; asc "kty"; asc "x"; asc "y"]);
     ("OKP"%string, [asc "crv"; asc "kty"; asc "x"])].
  Proof. exact sorted_fields_table. Qed.

  (* ... they are duplicate-free, consist of plain characters and are in strict
     code-point order; the default digest of every class is SHA-256 *)
  Theorem c13_required_members_sorted : forall c,
    In c key_classes ->
    rfc7638_required (kc_kty c) = Some (sort_fields (key_fields c)) /\
    strictly_sorted (sort_fields (key_fields c)) = true /\
    asc (kc_digest c) = asc "sha256".
  Proof.
    intros c H. split; [exact (required_is_rfc c H)|].
    split; [exact (proj2 (proj2 (names_wellformed c H))) | exact (digest_is_sha256 c H)].
  Qed.

  (* json.dumps prints a string of printable ASCII characters other than the
     quotation mark and the reverse solidus verbatim between quotation marks
     (base64url text, curve names, key type names) *)
  Theorem c13_plain_verbatim : forall s, plain s = true -> jdumps (PStr s) = Ok ([34] ++ s ++ [34]).
  Proof. intros s H. simpl. rewrite (jstr_plain s H). reflexivity. Qed.

  (* Key.thumbprint() is the RFC 7638 value: base64url of the SHA-256 digest of
     the canonical JSON object of the required members of the key type *)
  Theorem c13_is_rfc7638 : forall c names K,
    In c key_classes -> rfc7638_required (kc_kty c) = Some names ->
    (forall k, In k names -> exists s, dget K k = Some (PStr s) /\ plain s = true) ->
    key_thumbprint hashnew c K =
    do h <- hashnew (asc "sha256") (rfc7638_canonical (restrict K names)); Ok (b64e h).
  Proof. exact (is_rfc7638 hashnew). Qed.

  (* every key object's dictionary carries kty = the key type of its class
     (whatever the imported dict or the parameters say), so the kty member of
     the hashed object is the class's key type *)
  Theorem c13_kty_is_class : forall c orig params,
    dget (mk_dict c orig params) s_kty = Some (PStr (asc (kc_kty c))).
  Proof. exact mk_dict_kty. Qed.

  (* the same for rfc7638.thumbprint with any field list and any digest name:
     the value is the digest of the canonical object of the sorted fields *)
  Theorem c13_digest_choice : forall d fields dg names,
    sort_fields fields = names -> keys_unique names = true -> forallb plain names = true ->
    (forall k, In k names -> exists s, dget d k = Some (PStr s) /\ plain s = true) ->
    thumbprint hashnew d fields dg =
    do h <- hashnew dg (rfc7638_canonical (restrict d names)); Ok (b64e h).
  Proof. exact (thumbprint_rfc hashnew). Qed.

  (* the registry's declaration order is irrelevant: any reordering of the
     field list gives the same thumbprint (sorted() is canonical) *)
  Theorem c13_field_order_irrelevant : forall d fields fields' dg,
    Permutation fields fields' ->
    thumbprint hashnew d fields dg = thumbprint hashnew d fields' dg.
  Proof. exact (thumbprint_fields_order hashnew). Qed.

  (* for every dictionary whatsoever the hashed octets are the JSON text
     itself: ensure_ascii output is pure ASCII, so the UTF-8 step is the
     identity and cannot fail *)
  Theorem c13_hashes_json_text : forall d fields dg,
    thumbprint hashnew d fields dg =
    do data <- build_data d (sort_fields fields) [];
    do js <- jdumps (PDict data);
    do h <- hashnew dg js;
    Ok (b64e h).
  Proof. exact (thumbprint_hashes_json_text hashnew). Qed.

  (* unpadded base64url: only A-Z a-z 0-9 - _ *)
  Theorem c13_unpadded_base64url : forall d fields dg t,
    thumbprint hashnew d fields dg = Ok t -> forallb in_alphabet t = true.
  Proof. exact (thumbprint_alphabet hashnew hashnew_octets). Qed.

  (* the thumbprint reads the key dictionary only at the required members ... *)
  Theorem c13_depends_on_required_only : forall d d' fields dg,
    (forall k, In k fields -> dget d k = dget d' k) ->
    thumbprint hashnew d fields dg = thumbprint hashnew d' fields dg.
  Proof. exact (thumbprint_ext hashnew). Qed.

  (* ... so adding, changing or removing any other member (kid, use, alg,
     key_ops, d, p, q, ...) does not change it *)
  Theorem c13_optional_irrelevant : forall c K k v,
    ~ In k (key_fields c) ->
    key_thumbprint hashnew c (dset K k v) = key_thumbprint hashnew c K /\
    key_thumbprint hashnew c (ddel K k) = key_thumbprint hashnew c K.
  Proof.
    intros c K k v H. split; [exact (optional_set hashnew c K k v H) | exact (optional_del hashnew c K k H)].
  Qed.

  Theorem c13_optional_parameters_irrelevant : forall c K params,
    (forall k, In k (dkeys params) -> ~ In k (key_fields c)) ->
    key_thumbprint hashnew c (dupdate K params) = key_thumbprint hashnew c K.
  Proof. exact (optional_update hashnew). Qed.

  (* any member order *)
  Theorem c13_order_irrelevant : forall K K' fields dg,
    Permutation K K' -> keys_unique (dkeys K) = true ->
    thumbprint hashnew K' fields dg = thumbprint hashnew K fields dg.
  Proof. exact (order_irrelevant hashnew). Qed.

  (* private and public form: the public export of any RSA / EC / OKP key,
     imported again, has the thumbprint of the key it was exported from *)
  Theorem c13_priv_pub_same : forall c orig params priv pub,
    In c asym_classes ->
    as_dict {| ko_cls := c; ko_priv := priv; ko_dict := mk_dict c orig params |} (Some false) [] = Ok pub ->
    key_thumbprint hashnew c (mk_dict c pub None) =
    key_thumbprint hashnew c (mk_dict c orig params).
  Proof. exact (priv_pub_export hashnew). Qed.

  (* a native private key and its public key (generated, or loaded from PEM /
     DER by the crypto library), each with arbitrary optional parameters *)
  Theorem c13_priv_pub_same_native : forall nk params params' k,
    In (native_cls nk) asym_classes ->
    params_optional (native_cls nk) params -> params_optional (native_cls nk) params' ->
    key_of_native nk params = Ok k ->
    exists k', key_of_native (native_public nk) params' = Ok k' /\
               ko_cls k' = ko_cls k /\
               key_thumbprint hashnew (ko_cls k') (ko_dict k') =
               key_thumbprint hashnew (ko_cls k) (ko_dict k).
  Proof. exact (native_priv_pub hashnew). Qed.

  (* representation independence: any two native keys with the same public
     key (generated private key; the key the crypto library loads from its
     private or public PEM / DER; ...), each with arbitrary optional
     parameters, have the same thumbprint — for all four key types *)
  Theorem c13_repr_independent : forall nk nk' params params' k k',
    native_public nk = native_public nk' ->
    params_optional (native_cls nk) params -> params_optional (native_cls nk') params' ->
    key_of_native nk params = Ok k -> key_of_native nk' params' = Ok k' ->
    ko_cls k = ko_cls k' /\
    key_thumbprint hashnew (ko_cls k) (ko_dict k) = key_thumbprint hashnew (ko_cls k') (ko_dict k').
  Proof. exact (repr_independent hashnew). Qed.

  (* EC members x, y, d are the full-length RFC 7518 coordinates, so the
     member text (hence the thumbprint) of a key loaded from PEM/DER equals
     that of its RFC-conformant JWK *)
  Theorem c13_ec_members_full_length : forall z bits s,
    fixed_b64 z bits = Ok s ->
    exists octs, s = b64e octs /\ bytes_ok octs = true /\
                 length octs = N.to_nat ((bits + 7) / 8) /\ Z.of_N (be_to_N octs) = z.
  Proof. exact fixed_b64_full. Qed.

  (* kid: ensure_kid writes kid := thumbprint iff no kid is present ... *)
  Theorem c13_kid : forall k k',
    ensure_kid hashnew k = Ok k' <->
    (dmem (ko_dict k) s_kid = true /\ k' = k) \/
    (dmem (ko_dict k) s_kid = false /\
     exists t, key_thumbprint hashnew (ko_cls k) (ko_dict k) = Ok t /\
               k' = {| ko_cls := ko_cls k; ko_priv := ko_priv k;
                       ko_dict := dset (ko_dict k) s_kid (PStr t) |}).
  Proof. exact (kid_characterised hashnew). Qed.

  (* ... never overwrites an existing kid (whatever its value) ... *)
  Theorem c13_kid_never_overwritten : forall k v,
    kid_of k = Some v -> ensure_kid hashnew k = Ok k.
  Proof. exact (kid_never_overwritten hashnew). Qed.

  (* ... the assigned kid is the thumbprint of the key, also of the key that
     now carries the kid, and no other member changes ... *)
  Theorem c13_kid_is_thumbprint : forall k k',
    In (ko_cls k) key_classes -> dmem (ko_dict k) s_kid = false ->
    ensure_kid hashnew k = Ok k' ->
    exists t, key_thumbprint hashnew (ko_cls k) (ko_dict k) = Ok t /\
              kid_of k' = Some (PStr t) /\ ko_cls k' = ko_cls k /\
              key_thumbprint hashnew (ko_cls k') (ko_dict k') = Ok t /\
              (forall m, m <> s_kid -> dget (ko_dict k') m = dget (ko_dict k) m).
  Proof. exact (kid_is_thumbprint hashnew). Qed.

  (* ... is idempotent and stable under any number of repeated calls ... *)
  Theorem c13_kid_stable : forall n k k',
    ensure_kid hashnew k = Ok k' -> iter_ensure hashnew n k' = Ok k'.
  Proof. exact (kid_stable hashnew). Qed.

  (* ... and every export (private, public, default; with extra parameters
     other than kid) carries the same kid *)
  Theorem c13_kid_exported : forall k private params e,
    In (ko_cls k) key_classes -> ~ In s_kid (dkeys params) ->
    as_dict k private params = Ok e -> dget e s_kid = kid_of k.
  Proof. exact kid_exported. Qed.

  (* exports do not alias the key (model/C13Heap.v: dictionaries are objects on
     a heap, as_dict returns a NEW object).  For a key that has its kid: after
     ANY history of exports (any private flag, any params), arbitrary rewrites
     by the application of any object it received, ensure_kid and thumbprint
     calls, the key's own dictionary is the one it had — hence the same kid,
     thumbprint and exports; and no object handed out is the key's own.
     (Not implied by the theorems above: in the purely functional model of
     C13Thumb.v an export cannot be written to at all.) *)
  Theorem c13_export_no_alias : forall c priv a d steps s s',
    dmem d s_kid = true ->
    hget (s_heap s) a = Some d -> Forall (fun b => b <> a) (s_outs s) ->
    run hashnew c priv a s steps = Ok s' ->
    hget (s_heap s') a = Some d /\ Forall (fun b => b <> a) (s_outs s').
  Proof. exact (export_no_alias hashnew). Qed.

  (* every export is a function of the key's dictionary alone, delivered in a
     fresh object *)
  Theorem c13_export_function_of_state : forall c priv a s x s' d,
    hget (s_heap s) a = Some d ->
    run_step hashnew c priv a s (SAsDict (fst x) (snd x)) = Ok s' ->
    exists e, as_dict {| ko_cls := c; ko_priv := priv; ko_dict := d |} (fst x) (snd x) = Ok e /\
              hget (s_heap s') (fresh (s_heap s)) = Some e /\
              s_outs s' = s_outs s ++ [fresh (s_heap s)].
  Proof. exact (export_function_of_state hashnew). Qed.

  (* key sets: construction is ensure_kid on every key; constructing again or
     exporting leaves every key (and kid) as it is; every exported member
     dict carries its key's kid *)
  Theorem c13_keyset : forall ks ks',
    keyset_init hashnew ks = Ok ks' ->
    Forall2 (fun k k' => ensure_kid hashnew k = Ok k') ks ks' /\
    keyset_init hashnew ks' = Ok ks' /\
    (forall private params es ks2,
        keyset_as_dict hashnew ks' private params = Ok (es, ks2) -> ks2 = ks').
  Proof.
    intros ks ks' H. split; [apply keyset_init_spec; exact H|].
    split; [exact (keyset_init_stable hashnew ks ks' H)|].
    intros private params es ks2 H2. exact (keyset_export_stable hashnew ks ks' private params es ks2 H H2).
  Qed.

  (* every key of a set built by KeySet(keys) — hence import_key_set and
     generate_key_set, which end in that constructor — has a kid: the one it
     came with (whatever its value, also ""), kept with the whole key
     unchanged; else its thumbprint, with no other member changed *)
  Theorem c13_keyset_every_key_has_kid : forall ks ks',
    keyset_init hashnew ks = Ok ks' ->
    Forall2 (fun k k' =>
               ko_cls k' = ko_cls k /\
               match kid_of k with
               | Some v => k' = k /\ kid_of k' = Some v
               | None => exists t, key_thumbprint hashnew (ko_cls k) (ko_dict k) = Ok t /\
                                   kid_of k' = Some (PStr t) /\
                                   (forall m, m <> s_kid -> dget (ko_dict k') m = dget (ko_dict k) m)
               end) ks ks'.
  Proof. exact (keyset_every_key_has_kid hashnew). Qed.

  Theorem c13_keyset_export_kids : forall ks private params es ks2,
    Forall (fun k => In (ko_cls k) key_classes) ks -> ~ In s_kid (dkeys params) ->
    keyset_as_dict hashnew ks private params = Ok (es, ks2) ->
    Forall2 (fun e k => dget e s_kid = kid_of k /\ exists v, kid_of k = Some v) es ks2 /\
    Forall2 (fun k k2 => ensure_kid hashnew k = Ok k2) ks ks2.
  Proof. exact (keyset_export_kids hashnew). Qed.

  (* a key dictionary accepted by the value-registry validation has every
     required member as a string (no KeyError in thumbprint) *)
  Theorem c13_validated_has_members : forall reg d,
    validate_reg reg d = Ok tt ->
    forall p, In p reg -> kp_required p = true ->
      exists s, dget d (asc (kp_name p)) = Some (PStr s).
  Proof. exact validate_reg_required. Qed.
End C13.

(* ---------- non-vacuity: concrete instances meeting the hypotheses ---------- *)
(* RFC 7638 section 3.1: the example key, with its optional members, gives the
   JSON text printed in the RFC *)
Definition rfc7638_example : dict :=
  [(asc "kty", PStr (asc "RSA"));
   (asc "n", PStr (asc "0vx7agoebGcQSuuPiLJXZptN9nndrQmbXEps2aiAFbWhM78LhWx4cbbfAAtVT86zwu1RK7aPFFxuhDR1L6tSoc_BJECPebWKRXjBZCiFV4n3oknjhMstn64tZ_2W-5JsGY4Hc5n9yBXArwl93lqt7_RN5w6Cf0h4QyQ5v-65YGjQR0_FDW2QvzqY368QQMicAtaSqzs8KJZgnYb9c7d0zgdAZHzu6qMQvRL5hajrn1n91CbOpbISD08qNLyrdkt-bFTWhAI4vMQFh6WeZu0fM4lFd2NcRwr3XPksINHaQ-G_xBniIqbw0Ls1jF44-csFCur-kEgU8awapJzKnqDKgw"));
   (asc "e", PStr (asc "AQAB"));
   (asc "alg", PStr (asc "RS256"));
   (asc "kid", PStr (asc "2011-04-29"))].

Example c13_rfc7638_example_text :
  rfc7638_required "RSA" = Some [asc "e"; asc "kty"; asc "n"] /\
  (forall k, In k [asc "e"; asc "kty"; asc "n"] ->
     exists s, dget rfc7638_example k = Some (PStr s) /\ plain s = true) /\
  rfc7638_canonical (restrict rfc7638_example [asc "e"; asc "kty"; asc "n"]) =
  asc "{""e"":""AQAB"",""kty"":""RSA"",""n"":""0vx7agoebGcQSuuPiLJXZptN9nndrQmbXEps2aiAFbWhM78LhWx4cbbfAAtVT86zwu1RK7aPFFxuhDR1L6tSoc_BJECPebWKRXjBZCiFV4n3oknjhMstn64tZ_2W-5JsGY4Hc5n9yBXArwl93lqt7_RN5w6Cf0h4QyQ5v-65YGjQR0_FDW2QvzqY368QQMicAtaSqzs8KJZgnYb9c7d0zgdAZHzu6qMQvRL5hajrn1n91CbOpbISD08qNLyrdkt-bFTWhAI4vMQFh6WeZu0fM4lFd2NcRwr3XPksINHaQ-G_xBniIqbw0Ls1jF44-csFCur-kEgU8awapJzKnqDKgw""}".
Proof.
  split; [reflexivity|]. split.
  - intros k [E|[E|[E|[]]]]; subst k; eexists; (split; [vm_compute; reflexivity | vm_compute; reflexivity]).
  - vm_compute. reflexivity.
Qed.

(* with hashlib instantiated by the SHA-256 of model/C13Sha256.v the model
   reproduces the thumbprints printed in RFC 7638 3.1 and RFC 8037 A.3 *)
Definition sha_hashnew (n : str) (x : bytes) : res bytes :=
  if str_eqb n (asc "sha256") then Ok (sha256 x) else Err EValue.

Example c13_rfc7638_vector :
  key_thumbprint sha_hashnew RSACls rfc7638_example = Ok (asc "NzbLsXh8uDCcd-6MNwXF4W_7noWXFZAfHkxZsRGC9Xs") /\
  b64e (sha256 (rfc7638_canonical (restrict rfc7638_example [asc "e"; asc "kty"; asc "n"]))) =
  asc "NzbLsXh8uDCcd-6MNwXF4W_7noWXFZAfHkxZsRGC9Xs".
Proof. split; vm_compute; reflexivity. Qed.

Example c13_rfc8037_vector :
  let K := [(asc "crv", PStr (asc "Ed25519")); (asc "kty", PStr (asc "OKP"));
            (asc "x", PStr (asc "11qYAYKxCrfVS_7TyWQHOg7hcvPapiMlrwIaaPcHURo"))] in
  rfc7638_canonical (restrict K [asc "crv"; asc "kty"; asc "x"]) =
  asc "{""crv"":""Ed25519"",""kty"":""OKP"",""x"":""11qYAYKxCrfVS_7TyWQHOg7hcvPapiMlrwIaaPcHURo""}" /\
  key_thumbprint sha_hashnew OKPCls K = Ok (asc "kPrK_qmxVWaYVA9wwBF6Iuo3vVzz7TxHCTwXBygrS4k").
Proof. split; vm_compute; reflexivity. Qed.

Example c13_field_order_instance :
  Permutation (key_fields ECCls) (rev (key_fields ECCls)) /\
  key_fields ECCls <> rev (key_fields ECCls).
Proof. split; [apply Permutation_rev | vm_compute; discriminate]. Qed.

(* a history: export, the application deletes the kid and the key value in
   what it got, ensure_kid, export again, overwrite that too *)
Example c13_export_no_alias_instance :
  let d := [(asc "k", PStr (asc "Zm9v")); (asc "kty", PStr (asc "oct")); (asc "kid", PStr (asc "k1"))] in
  let s0 := {| s_heap := [(7, d)]; s_outs := [] |} in
  dmem d s_kid = true /\
  exists s', run sha_hashnew OctCls true 7 s0
               [SAsDict None []; SEdit 0 []; SEnsureKid; SThumbprint; SAsDict (Some true) [(asc "use", PStr (asc "sig"))];
                SEdit 1 [(asc "kid", PStr (asc "other"))]] = Ok s' /\
             hget (s_heap s') 7 = Some d /\ s_outs s' = [8; 9] /\ hget (s_heap s') 8 = Some [].
Proof. split; [reflexivity|]. eexists. split; [vm_compute; reflexivity|]. repeat split. Qed.

(* a toy digest (identity on short inputs) to run the model end to end: kid
   assignment, idempotence, private/public view of an EC key with a short x *)
Definition toy_hash (n : str) (x : bytes) : res bytes := Ok (firstn 6 x).

Example c13_kid_instance :
  let k := {| ko_cls := OctCls; ko_priv := true;
              ko_dict := mk_dict OctCls [(asc "k", PStr (asc "Zm9v"))] None |} in
  dmem (ko_dict k) s_kid = false /\
  (exists k', ensure_kid toy_hash k = Ok k' /\
              kid_of k' = Some (PStr (asc "eyJrIjoi")) /\
              key_thumbprint toy_hash OctCls (ko_dict k') = Ok (asc "eyJrIjoi") /\
              ensure_kid toy_hash k' = Ok k').
Proof.
  split; [reflexivity|]. eexists. split; [vm_compute; reflexivity|].
  split; [reflexivity|]. split; vm_compute; reflexivity.
Qed.

Example c13_priv_pub_instance :
  exists k k', key_of_native (NEC (asc "P-256") 256 1 2 (Some 3%Z)) (Some [(asc "use", PStr (asc "sig"))]) = Ok k /\
               key_of_native (native_public (NEC (asc "P-256") 256 1 2 (Some 3%Z))) None = Ok k' /\
               In (native_cls (NEC (asc "P-256") 256 1 2 (Some 3%Z))) asym_classes /\
               dget (ko_dict k) (asc "x") = Some (PStr (asc "AAAAAAAAAAAAAAAAAAAAAAAAAAAAAAAAAAAAAAAAAAE")) /\
               dmem (ko_dict k) (asc "d") = true /\ dmem (ko_dict k') (asc "d") = false.
Proof.
  eexists. eexists. split; [vm_compute; reflexivity|]. split; [vm_compute; reflexivity|].
  split; [right; left; reflexivity|]. split; [vm_compute; reflexivity|]. split; reflexivity.
Qed.

Example c13_order_instance :
  Permutation rfc7638_example (rev rfc7638_example) /\ keys_unique (dkeys rfc7638_example) = true.
Proof. split; [apply Permutation_rev | vm_compute; reflexivity]. Qed.

Example c13_optional_instance :
  ~ In (asc "kid") (key_fields RSACls) /\ ~ In (asc "d") (key_fields RSACls) /\
  ~ In (asc "use") (key_fields ECCls) /\ ~ In (asc "d") (key_fields OKPCls).
Proof.
  repeat split; intro H; apply str_mem_In in H; vm_compute in H; discriminate.
Qed.

Print Assumptions c13_required_members.
Print Assumptions c13_required_members_sorted.
Print Assumptions c13_plain_verbatim.
Print Assumptions c13_is_rfc7638.
Print Assumptions c13_kty_is_class.
Print Assumptions c13_digest_choice.
Print Assumptions c13_field_order_irrelevant.
Print Assumptions c13_hashes_json_text.
Print Assumptions c13_unpadded_base64url.
Print Assumptions c13_depends_on_required_only.
Print Assumptions c13_optional_irrelevant.
Print Assumptions c13_optional_parameters_irrelevant.
Print Assumptions c13_order_irrelevant.
Print Assumptions c13_priv_pub_same.
Print Assumptions c13_priv_pub_same_native.
Print Assumptions c13_repr_independent.
Print Assumptions c13_ec_members_full_length.
Print Assumptions c13_kid.
Print Assumptions c13_kid_never_overwritten.
Print Assumptions c13_kid_is_thumbprint.
Print Assumptions c13_kid_stable.
Print Assumptions c13_kid_exported.
Print Assumptions c13_export_no_alias.
Print Assumptions c13_export_function_of_state.
Print Assumptions c13_keyset.
Print Assumptions c13_keyset_every_key_has_kid.
Print Assumptions c13_keyset_export_kids.
Print Assumptions c13_validated_has_members.
