(* C04 — JWE encrypt-then-decrypt round trip.
   Statements only; proofs in proofs/C04Proofs.v.  Subject: the Gallina model of
   perform_encrypt / perform_decrypt and the per-algorithm CEK handling
   (model/JweCrypto.v, JweMsg.v) over an oracle record O that satisfies the
   inverse-pair [contracts] (CBC, GCM, ChaCha, AES-KW, RSA, ECDH symmetry,
   inflate after deflate).  Tie to /repo: differential run of harness/props/c04.py
   (encrypt AND decrypt runs of joserfc replayed in the model, model/JweCases.v).

   Structure of the round trip (DESIGN 5/C04):
     message layer   c04_message_rt     any serialization, any number of recipients
     content layer   c04_content_rt     CBC-HS (PKCS7, tag), GCM, ChaCha
     key layer       c04_key_rt_*       one theorem per key-management family
     header view     headers_enc_eq_dec members added by add_header are what headers() returns
     AAD / KDF info  aad_enc_eq_dec, kdf_info_enc_eq_dec
     wire format     c04_compact_segments_rt
   c04_single_rt_kw_rsa, _dir, _gcmkw, _pbes2, _ecdh_direct and _ecdh_kw are END-TO-END (object level, one recipient,
   every serialization / enc / zip): there the glue is done in Coq.
   They cover EVERY row of the algorithm table (c04_single_rt_covers_all_algorithms), i.e. the compact and the
   flattened round trip for every alg x enc x zip.
   c04_compact_rt, c04_flat_rt, c04_general_rt (n >= 1 recipients of mixed non-direct algorithms),
   c04_general_rt_n (n >= 2) and c04_general_rt_any_recipient (verify_all_recipients = False, some entries
   failing) hold under the inverse-pair contracts only: the glue through pre_loop / post_loop / recip_loop is
   proofs/C04Multi.v. *)
From Coq Require Import Lia.
From Model Require Import JweBase JweCrypto JweMsg JweCases C02Examples C04Examples.
From Gen Require Import Tables.
From Proofs Require Import C02Proofs C04Proofs C04Multi C04Wire C04JsonWire.
Open Scope N_scope.

(* ---- message layer ---- *)
Theorem c04_message_rt : forall O, contracts O -> forall g o d x e encv,
  perform_encrypt O g o d = Ok x ->
  hitem (x_prot x) "enc" = Ok encv -> hitem (e_prot o) "enc" = Ok encv -> get_enc g encv = Ok e ->
  lenN (d_civ d) * 8 = ee_iv_size e ->
  recip_loop O g e (obj_of o x) (x_recips x) [] = Ok [x_cek x] ->
  lenN (x_cek x) * 8 = ee_cek_size e ->
  perform_decrypt O g (obj_of o x) = Ok (e_plain o).
Proof. exact message_rt. Qed.

(* ================= the round trip per serialization, under the inverse-pair contracts only =============
   Premises besides [contracts O]: the decrypt-side header check accepts (C15's subject), GCM tags are
   octets, per recipient [recip_ok] (well-formed header dict, private recipient key, the epk dict is the
   public JWK of the ephemeral key: o_import ... = Ok (pubk eph), sender key of the same type, drawn
   octets are octets), and the drawn IV / CEK have the sizes of the enc. *)
Theorem c04_compact_rt : forall O, contracts O -> forall g,
  (forall hs, o_check_header O (PDict hs) true = Ok tt) ->
  (forall k iv a m c t, o_gcm_enc O k iv a m = Ok (c, t) -> bytes_ok t = true) ->
  forall o d x r,
  e_ser o = Compact -> e_recips o = [r] -> r_header r = PNone ->
  perform_encrypt O g o d = Ok x ->
  wf (e_prot o) -> hdr_wf (e_unprot o) -> recip_ok O r (draw_of (d_rec d)) ->
  (forall encv e, hitem (e_prot o) "enc" = Ok encv -> get_enc g encv = Ok e ->
     lenN (d_civ d) * 8 = ee_iv_size e /\ lenN (d_cek d) * 8 = ee_cek_size e) ->
  perform_decrypt O g (obj_of o x) = Ok (e_plain o) /\
  dec_aad O (obj_of o x) = Ok (x_b64prot x) /\ j_prot (obj_of o x) = x_prot x.
Proof. exact compact_rt. Qed.

(* the same at the WIRE level: jwe.decrypt_compact applied to the string jwe.encrypt_compact returned.
   Additional contract: json.loads (json.dumps v) = v; additional premises: what was produced are octet strings and
   the final protected header still has "alg" and "enc" (checked by extract_compact) *)
Theorem c04_compact_wire_rt : forall O, contracts O -> forall g,
  (forall hs, o_check_header O (PDict hs) true = Ok tt) ->
  (forall k iv a m c t, o_gcm_enc O k iv a m = Ok (c, t) -> bytes_ok t = true) ->
  (forall v t a, o_dumps O v = Ok t -> ascii_enc t = Ok a -> o_loads O a = Ok v) ->
  forall o d tok r,
  e_ser o = Compact -> e_recips o = [r] -> r_header r = PNone ->
  wf (e_prot o) -> hdr_wf (e_unprot o) -> recip_ok O r (draw_of (d_rec d)) ->
  (forall encv e, hitem (e_prot o) "enc" = Ok encv -> get_enc g encv = Ok e ->
     lenN (d_civ d) * 8 = ee_iv_size e /\ lenN (d_cek d) * 8 = ee_cek_size e) ->
  (forall x, perform_encrypt O g o d = Ok x ->
     bytes_ok (x_iv x) = true /\ bytes_ok (x_ct x) = true /\ bytes_ok (x_tag x) = true /\
     (forall r' ek, In r' (x_recips x) -> r_ek r' = Some ek -> bytes_ok ek = true) /\
     dmem (x_prot x) (s_ "alg") = true /\ dmem (x_prot x) (s_ "enc") = true) ->
  encrypt_compact O g o d = Ok tok ->
  exists ob, decrypt_compact O g tok (r_key r) (r_sender r) = Ok (e_plain o, ob) /\
             exists x, perform_encrypt O g o d = Ok x /\ j_prot ob = x_prot x /\ j_b64prot ob = Some (x_b64prot x).
Proof. exact compact_wire_rt. Qed.

(* non-vacuity: on the recorded compact encryptions (dir, ECDH-ES) the model's decrypt_compact of the model's
   encrypt_compact output gives back the plaintext "hi" *)
Example c04_compact_wire_nonvacuous :
  match ex_dir_cbc_enc, ex_dir_cbc with
  | CEncCompact t1 g1 o1 d1 _, CDecCompact t2 _ _ k s _ =>
      match encrypt_compact (table_oracles t1) g1 o1 d1 with
      | Ok tok => match decrypt_compact (table_oracles t2) g1 tok k s with
                  | Ok (m, _) => beqb m (e_plain o1)
                  | Err _ => false
                  end
      | Err _ => false
      end
  | _, _ => false
  end = true.
Proof. vm_compute. reflexivity. Qed.

Theorem c04_flat_rt : forall O, contracts O -> forall g,
  (forall hs, o_check_header O (PDict hs) true = Ok tt) ->
  (forall k iv a m c t, o_gcm_enc O k iv a m = Ok (c, t) -> bytes_ok t = true) ->
  forall o d x r,
  e_ser o = Flat -> e_recips o = [r] ->
  perform_encrypt O g o d = Ok x ->
  wf (e_prot o) -> hdr_wf (e_unprot o) -> recip_ok O r (draw_of (d_rec d)) ->
  (forall encv e, hitem (e_prot o) "enc" = Ok encv -> get_enc g encv = Ok e ->
     lenN (d_civ d) * 8 = ee_iv_size e /\ lenN (d_cek d) * 8 = ee_cek_size e) ->
  perform_decrypt O g (obj_of o x) = Ok (e_plain o) /\
  j_unprot (obj_of o x) = e_unprot o /\ j_aad (obj_of o x) = e_aad o /\ j_prot (obj_of o x) = e_prot o.
Proof. exact flat_rt. Qed.

(* general JSON (and flattened), n >= 1 recipients of MIXED non-direct algorithms: every recipient yields the
   CEK of the encryption (so verify_all_recipients = True and = False both accept) and the plaintext comes back *)
Theorem c04_general_rt : forall O, contracts O -> forall g,
  (forall hs, o_check_header O (PDict hs) true = Ok tt) ->
  (forall k iv a m c t, o_gcm_enc O k iv a m = Ok (c, t) -> bytes_ok t = true) ->
  forall o d x,
  e_ser o <> Compact -> e_recips o <> [] ->
  nodirect g (e_ser o) (e_prot o) (e_unprot o) (e_recips o) ->
  wf (e_prot o) -> hdr_wf (e_unprot o) -> oks O (e_recips o) (d_rec d) ->
  (forall encv e, hitem (e_prot o) "enc" = Ok encv -> get_enc g encv = Ok e ->
     lenN (d_civ d) * 8 = ee_iv_size e /\ lenN (d_cek d) * 8 = ee_cek_size e /\ ee_cek_size e <> 0) ->
  perform_encrypt O g o d = Ok x ->
  perform_decrypt O g (obj_of o x) = Ok (e_plain o) /\
  (forall r', In r' (x_recips x) -> exists e, yields O g e (obj_of o x) r' (x_cek x)).
Proof. exact general_rt. Qed.

(* the JSON serializations at the API level: jwe.decrypt_json applied to the dict jwe.encrypt_json returned
   (represent_flattened_json / represent_general_json followed by extract_*_json and __extract_segments), for
   n >= 1 recipients of mixed non-direct algorithms, one key per recipient, a common sender key.
   Additional contract: json.loads (json.dumps v) = v; additional premises: what was produced, and the aad, are
   octet strings.  Falsy headers / an empty aad are dropped by the representation and come back as None: shown
   not to matter (hequiv / aad_equiv inside the proof). *)
Theorem c04_json_wire_rt : forall O, contracts O -> forall g,
  (forall hs, o_check_header O (PDict hs) true = Ok tt) ->
  (forall k iv a m c t, o_gcm_enc O k iv a m = Ok (c, t) -> bytes_ok t = true) ->
  (forall v t a, o_dumps O v = Ok t -> ascii_enc t = Ok a -> o_loads O a = Ok v) ->
  forall o d data dflt sender,
  e_ser o <> Compact -> e_recips o <> [] -> (e_ser o = Flat -> exists r, e_recips o = [r]) ->
  nodirect g (e_ser o) (e_prot o) (e_unprot o) (e_recips o) ->
  wf (e_prot o) -> hdr_wf (e_unprot o) -> oks O (e_recips o) (d_rec d) ->
  (forall r, In r (e_recips o) -> r_sender r = sender) ->
  (forall encv e, hitem (e_prot o) "enc" = Ok encv -> get_enc g encv = Ok e ->
     lenN (d_civ d) * 8 = ee_iv_size e /\ lenN (d_cek d) * 8 = ee_cek_size e /\ ee_cek_size e <> 0) ->
  (forall l, e_aad o = Some l -> bytes_ok l = true) ->
  (forall x, perform_encrypt O g o d = Ok x ->
     bytes_ok (x_iv x) = true /\ bytes_ok (x_ct x) = true /\ bytes_ok (x_tag x) = true /\
     (forall r' ek, In r' (x_recips x) -> r_ek r' = Some ek -> bytes_ok ek = true)) ->
  encrypt_json O g o d = Ok data ->
  exists ob, decrypt_json O g data (map r_key (e_recips o)) dflt sender = Ok (e_plain o, ob) /\
             length (j_recips ob) = length (e_recips o).
Proof. exact json_wire_rt. Qed.

(* non-vacuity: the model's decrypt_json of the model's encrypt_json output, on the recorded 2-recipient run *)
Example c04_json_wire_nonvacuous :
  match ex_general_2_enc, ex_general_2 with
  | CEncJson t1 g1 o1 d1 _, CDecJson t2 _ _ ks s _ =>
      match encrypt_json (table_oracles t1) g1 o1 d1 with
      | Ok data => match decrypt_json (table_oracles t2) g1 data ks nokey s with
                   | Ok (m, ob) => beqb m (e_plain o1) && (length (j_recips ob) =? 2)%nat
                   | Err _ => false
                   end
      | Err _ => false
      end
  | _, _ => false
  end = true.
Proof. vm_compute. reflexivity. Qed.

(* with >= 2 recipients the absence of direct-mode algorithms follows from the success of the encryption *)
Theorem c04_general_rt_n : forall O, contracts O -> forall g,
  (forall hs, o_check_header O (PDict hs) true = Ok tt) ->
  (forall k iv a m c t, o_gcm_enc O k iv a m = Ok (c, t) -> bytes_ok t = true) ->
  forall o d x,
  e_ser o <> Compact -> (1 < length (e_recips o))%nat ->
  wf (e_prot o) -> hdr_wf (e_unprot o) -> oks O (e_recips o) (d_rec d) ->
  (forall encv e, hitem (e_prot o) "enc" = Ok encv -> get_enc g encv = Ok e ->
     lenN (d_civ d) * 8 = ee_iv_size e /\ lenN (d_cek d) * 8 = ee_cek_size e /\ ee_cek_size e <> 0) ->
  perform_encrypt O g o d = Ok x ->
  perform_decrypt O g (obj_of o x) = Ok (e_plain o) /\
  length (x_recips x) = length (e_recips o) /\
  (forall r', In r' (x_recips x) -> exists e, yields O g e (obj_of o x) r' (x_cek x)).
Proof. exact general_rt_n. Qed.

(* verify_all_recipients = False: the reader holds the right key for SOME recipients only; the other entries
   (any list rs of them, in any order) fail with an error the loop swallows; one good entry suffices *)
Theorem c04_general_rt_any_recipient : forall O, contracts O -> forall g,
  (forall hs, o_check_header O (PDict hs) true = Ok tt) ->
  (forall k iv a m c t, o_gcm_enc O k iv a m = Ok (c, t) -> bytes_ok t = true) ->
  forall o d x rs,
  e_ser o <> Compact -> e_recips o <> [] ->
  nodirect g (e_ser o) (e_prot o) (e_unprot o) (e_recips o) ->
  wf (e_prot o) -> hdr_wf (e_unprot o) -> oks O (e_recips o) (d_rec d) ->
  (forall encv e, hitem (e_prot o) "enc" = Ok encv -> get_enc g encv = Ok e ->
     lenN (d_civ d) * 8 = ee_iv_size e /\ lenN (d_cek d) * 8 = ee_cek_size e /\ ee_cek_size e <> 0) ->
  perform_encrypt O g o d = Ok x ->
  g_verify_all g = false ->
  (forall e, Forall (fun r => In r (x_recips x) \/ fails_quietly O g e (with_recips (obj_of o x) rs) r) rs) ->
  (exists r, In r rs /\ In r (x_recips x)) ->
  perform_decrypt O g (with_recips (obj_of o x) rs) = Ok (e_plain o).
Proof. exact general_rt_any. Qed.

(* the recipient loop itself *)
Theorem c04_recip_loop_all : forall O g e o cek rs acc,
  Forall (fun r => yields O g e o r cek) rs -> acc = [] \/ acc = [cek] ->
  recip_loop O g e o rs acc = Ok (match rs with [] => acc | _ => [cek] end).
Proof. exact recip_loop_all. Qed.

Theorem c04_recip_loop_any : forall O g e o cek rs acc,
  g_verify_all g = false ->
  Forall (fun r => yields O g e o r cek \/ fails_quietly O g e o r) rs -> acc = [] \/ acc = [cek] ->
  exists ceks, recip_loop O g e o rs acc = Ok ceks /\ (ceks = acc \/ ceks = [cek]) /\
               (Exists (fun r => yields O g e o r cek) rs -> ceks = [cek]).
Proof. exact recip_loop_any. Qed.

(* one recipient, ANY algorithm of the table, ANY serialization *)
Theorem c04_single_rt : forall O, contracts O -> forall g,
  (forall hs, o_check_header O (PDict hs) true = Ok tt) ->
  (forall k iv a m c t, o_gcm_enc O k iv a m = Ok (c, t) -> bytes_ok t = true) ->
  forall o d x r,
  e_recips o = [r] -> perform_encrypt O g o d = Ok x ->
  wf (e_prot o) -> hdr_wf (e_unprot o) -> (e_ser o = Compact -> r_header r = PNone) ->
  recip_ok O r (draw_of (d_rec d)) ->
  (forall encv e, hitem (e_prot o) "enc" = Ok encv -> get_enc g encv = Ok e ->
     lenN (d_civ d) * 8 = ee_iv_size e /\ lenN (d_cek d) * 8 = ee_cek_size e) ->
  perform_decrypt O g (obj_of o x) = Ok (e_plain o).
Proof. exact single_rt. Qed.

(* non-vacuity of the n-recipient theorem: the recorded 2-recipient general JSON encryption of joserfc
   (A128KW + A256KW) succeeds in the model, has 2 output recipients, and names no direct algorithm *)
Example c04_general_rt_nonvacuous :
  match ex_general_2_enc with
  | CEncJson t g o d _ =>
      match perform_encrypt (table_oracles t) g o d with
      | Ok x => (length (e_recips o) =? 2)%nat && (length (x_recips x) =? 2)%nat
                && match e_ser o with General => true | _ => false end
                && (8 * lenN (x_cek x) =? 256)
      | Err _ => false
      end
  | _ => false
  end = true.
Proof. vm_compute. reflexivity. Qed.

(* ---- END-TO-END for one recipient, every serialization, enc and zip, no key-layer premise ---- *)
(* key wrapping (A128KW/A192KW/A256KW) and key encryption (RSA1_5, RSA-OAEP, RSA-OAEP-256) *)
Theorem c04_single_rt_kw_rsa : forall O, contracts O -> forall g o d x r,
  e_recips o = [r] -> perform_encrypt O g o d = Ok x ->
  (forall hs, o_check_header O (PDict hs) false = Ok tt -> o_check_header O (PDict hs) true = Ok tt) ->
  (forall hs algv a,
     headers (e_ser o) (e_prot o) (e_unprot o) (r_header r) = Ok hs -> hitem hs "alg" = Ok algv ->
     get_alg g algv = Ok a ->
     ea_direct a = false /\ is_agreement a = false /\
     ((fam_is (ea_family a) "RSA" = true /\ k_priv (r_key r) = true) \/
      (fam_is (ea_family a) "RSA" = false /\ fam_is (ea_family a) "AESKW" = true))) ->
  (forall encv e, hitem (e_prot o) "enc" = Ok encv -> get_enc g encv = Ok e ->
     lenN (d_civ d) * 8 = ee_iv_size e /\ lenN (d_cek d) * 8 = ee_cek_size e) ->
  perform_decrypt O g (obj_of o x) = Ok (e_plain o).
Proof. exact single_rt_kw_rsa. Qed.

(* Direct Encryption (dir) *)
Theorem c04_single_rt_dir : forall O, contracts O -> forall g o d x r,
  e_recips o = [r] -> perform_encrypt O g o d = Ok x ->
  (forall hs, o_check_header O (PDict hs) false = Ok tt -> o_check_header O (PDict hs) true = Ok tt) ->
  (forall hs algv a,
     headers (e_ser o) (e_prot o) (e_unprot o) (r_header r) = Ok hs -> hitem hs "alg" = Ok algv ->
     get_alg g algv = Ok a -> ea_direct a = true /\ is_agreement a = false) ->
  (forall encv e, hitem (e_prot o) "enc" = Ok encv -> get_enc g encv = Ok e ->
     lenN (d_civ d) * 8 = ee_iv_size e) ->
  perform_decrypt O g (obj_of o x) = Ok (e_plain o).
Proof. exact single_rt_dir. Qed.

(* AES-GCM key wrap (A128GCMKW/A192GCMKW/A256GCMKW): the "iv" and "tag" members that encryption adds
   (to the protected header in compact, to the per-recipient header in JSON) are the ones decryption reads *)
Theorem c04_single_rt_gcmkw : forall O, contracts O -> forall g o d x r,
  e_recips o = [r] -> perform_encrypt O g o d = Ok x ->
  wf (e_prot o) -> hdr_wf (e_unprot o) -> hdr_wf (r_header r) -> (e_ser o = Compact -> r_header r = PNone) ->
  (forall r' hs', x_recips x = [r'] -> headers (e_ser o) (x_prot x) (e_unprot o) (r_header r') = Ok hs' ->
                  o_check_header O (PDict hs') true = Ok tt) ->
  (exists r' hs', x_recips x = [r'] /\ headers (e_ser o) (x_prot x) (e_unprot o) (r_header r') = Ok hs') ->
  (forall hs algv a,
     headers (e_ser o) (e_prot o) (e_unprot o) (r_header r) = Ok hs -> hitem hs "alg" = Ok algv ->
     get_alg g algv = Ok a ->
     ea_direct a = false /\ is_agreement a = false /\
     fam_is (ea_family a) "RSA" = false /\ fam_is (ea_family a) "AESKW" = false /\
     fam_is (ea_family a) "AESGCMKW" = true) ->
  (forall k iv a m c t, o_gcm_enc O k iv a m = Ok (c, t) -> bytes_ok t = true) ->
  bytes_ok (match d_rec d with d0 :: _ => d_kwiv d0 | [] => [] end) = true ->
  (forall encv e, hitem (e_prot o) "enc" = Ok encv -> get_enc g encv = Ok e ->
     lenN (d_civ d) * 8 = ee_iv_size e /\ lenN (d_cek d) * 8 = ee_cek_size e) ->
  perform_decrypt O g (obj_of o x) = Ok (e_plain o).
Proof. exact single_rt_gcmkw. Qed.

(* Direct Key Agreement (ECDH-ES and ECDH-1PU, table rows with ea_direct and an agreement family):
   the epk that prepare_ephemeral_key puts in the header is imported by the recipient, ECDH is symmetric,
   both sides feed the KDF the same Z and other-info, and the encrypted key is empty *)
Theorem c04_single_rt_ecdh_direct : forall O, contracts O -> forall g o d x r,
  e_recips o = [r] -> perform_encrypt O g o d = Ok x ->
  wf (e_prot o) -> hdr_wf (e_unprot o) -> hdr_wf (r_header r) -> (e_ser o = Compact -> r_header r = PNone) ->
  (forall hs', o_check_header O (PDict hs') true = Ok tt) ->
  (forall hs algv a,
     headers (e_ser o) (e_prot o) (e_unprot o) (r_header r) = Ok hs -> hitem hs "alg" = Ok algv ->
     get_alg g algv = Ok a -> ea_direct a = true /\ is_agreement a = true) ->
  (forall eph epkd, r_eph r = Some (eph, epkd) ->
     o_import O (k_kty (r_key r)) epkd = Ok (pubk eph) /\ k_kty eph = k_kty (r_key r)) ->
  k_priv (r_key r) = true ->
  (forall sk, r_sender r = Some sk -> k_kty sk = k_kty (r_key r)) ->
  (forall encv e, hitem (e_prot o) "enc" = Ok encv -> get_enc g encv = Ok e ->
     lenN (d_civ d) * 8 = ee_iv_size e) ->
  perform_decrypt O g (obj_of o x) = Ok (e_plain o).
Proof. exact single_rt_ecdh_direct. Qed.

(* Key Agreement with Key Wrapping (ECDH-ES+A*KW; ECDH-1PU+A*KW with the JWE tag bound into the KDF):
   the wrapping key derived after content encryption is the one the recipient derives *)
Theorem c04_single_rt_ecdh_kw : forall O, contracts O -> forall g o d x r,
  e_recips o = [r] -> perform_encrypt O g o d = Ok x ->
  wf (e_prot o) -> hdr_wf (e_unprot o) -> hdr_wf (r_header r) -> (e_ser o = Compact -> r_header r = PNone) ->
  (forall hs', o_check_header O (PDict hs') true = Ok tt) ->
  (forall hs algv a,
     headers (e_ser o) (e_prot o) (e_unprot o) (r_header r) = Ok hs -> hitem hs "alg" = Ok algv ->
     get_alg g algv = Ok a -> ea_direct a = false /\ is_agreement a = true) ->
  (forall eph epkd, r_eph r = Some (eph, epkd) ->
     o_import O (k_kty (r_key r)) epkd = Ok (pubk eph) /\ k_kty eph = k_kty (r_key r)) ->
  k_priv (r_key r) = true ->
  (forall sk, r_sender r = Some sk -> k_kty sk = k_kty (r_key r)) ->
  (forall encv e, hitem (e_prot o) "enc" = Ok encv -> get_enc g encv = Ok e ->
     lenN (d_civ d) * 8 = ee_iv_size e /\ lenN (d_cek d) * 8 = ee_cek_size e) ->
  perform_decrypt O g (obj_of o x) = Ok (e_plain o).
Proof. exact single_rt_ecdh_kw. Qed.

(* PBES2: salt input and count, given by the caller or added by encryption (4 cases), are the ones decryption uses *)
Theorem c04_single_rt_pbes2 : forall O, contracts O -> forall g o d x r,
  e_recips o = [r] -> perform_encrypt O g o d = Ok x ->
  wf (e_prot o) -> hdr_wf (e_unprot o) -> hdr_wf (r_header r) -> (e_ser o = Compact -> r_header r = PNone) ->
  (forall hs', o_check_header O (PDict hs') true = Ok tt) ->
  (exists r' hs', x_recips x = [r'] /\ headers (e_ser o) (x_prot x) (e_unprot o) (r_header r') = Ok hs') ->
  (forall hs algv a,
     headers (e_ser o) (e_prot o) (e_unprot o) (r_header r) = Ok hs -> hitem hs "alg" = Ok algv ->
     get_alg g algv = Ok a ->
     ea_direct a = false /\ is_agreement a = false /\
     fam_is (ea_family a) "RSA" = false /\ fam_is (ea_family a) "AESKW" = false /\
     fam_is (ea_family a) "AESGCMKW" = false /\ fam_is (ea_family a) "PBES2" = true) ->
  bytes_ok (match d_rec d with d0 :: _ => d_p2s d0 | [] => [] end) = true ->
  (forall encv e, hitem (e_prot o) "enc" = Ok encv -> get_enc g encv = Ok e ->
     lenN (d_civ d) * 8 = ee_iv_size e /\ lenN (d_cek d) * 8 = ee_cek_size e) ->
  perform_decrypt O g (obj_of o x) = Ok (e_plain o).
Proof. exact single_rt_pbes2. Qed.

(* every row of the algorithm table falls under one of the six end-to-end theorems *)
Example c04_single_rt_covers_all_algorithms :
  forallb (fun a =>
    let kw_rsa := negb (ea_direct a) && negb (is_agreement a) && (fam_is (ea_family a) "RSA" || fam_is (ea_family a) "AESKW") in
    let dir_ := ea_direct a && negb (is_agreement a) && fam_is (ea_family a) "dir" in
    let gcmkw := negb (ea_direct a) && negb (is_agreement a) && fam_is (ea_family a) "AESGCMKW" in
    let pbes2 := negb (ea_direct a) && negb (is_agreement a) && fam_is (ea_family a) "PBES2" in
    let ecdh_d := ea_direct a && is_agreement a in
    let ecdh_kw := negb (ea_direct a) && is_agreement a in
    kw_rsa || dir_ || gcmkw || pbes2 || ecdh_d || ecdh_kw) jwe_alg_table_drafts = true
  /\ length jwe_alg_table_drafts = 21%nat.
Proof. vm_compute. split; reflexivity. Qed.

(* two successive add_header calls: both members visible, every other member untouched *)
Theorem c04_add_header_twice : forall s prot unprot r k1 v1 k2 v2 p1 r1 p2 r2 hs hs',
  wf prot -> hdr_wf unprot -> hdr_wf (r_header r) -> (s = Compact -> r_header r = PNone) ->
  k1 <> k2 ->
  add_header s prot r k1 v1 = Ok (p1, r1) ->
  add_header s p1 r1 k2 v2 = Ok (p2, r2) ->
  headers s prot unprot (r_header r) = Ok hs ->
  headers s p2 unprot (r_header r2) = Ok hs' ->
  dget hs' k1 = Some v1 /\ dget hs' k2 = Some v2 /\
  (forall k, k1 <> k -> k2 <> k -> dget hs' k = dget hs k) /\
  r_key r2 = r_key r /\ r_ek r2 = r_ek r.
Proof. exact add_header2. Qed.

(* these theorems are not vacuous: the recorded joserfc encryptions ex_dir_cbc_enc (compact, dir),
   ex_flat_kw_gcm_enc (flattened, A128KW, aad) and ex_es_gcm_enc (compact, ECDH-ES) are instances whose
   encryption succeeds in the model *)
Example c04_single_rt_nonvacuous :
  match ex_dir_cbc_enc, ex_flat_kw_gcm_enc, ex_es_gcm_enc with
  | CEncCompact t1 g1 o1 d1 _, CEncJson t2 g2 o2 d2 _, CEncCompact t3 g3 o3 d3 _ =>
      match perform_encrypt (table_oracles t1) g1 o1 d1, perform_encrypt (table_oracles t2) g2 o2 d2,
            perform_encrypt (table_oracles t3) g3 o3 d3 with
      | Ok x1, Ok x2, Ok x3 => (length (e_recips o1) =? 1)%nat && (length (e_recips o2) =? 1)%nat
                        && (length (e_recips o3) =? 1)%nat
                        && (8 * lenN (x_cek x1) =? 256) && (8 * lenN (x_cek x2) =? 128) && (8 * lenN (x_cek x3) =? 128)
      | _, _, _ => false
      end
  | _, _, _ => false
  end = true.
Proof. vm_compute. reflexivity. Qed.

(* ---- content layer: every enc family, every plaintext (PKCS7 proved, not assumed) ---- *)
Theorem c04_content_rt : forall O, contracts O -> forall e m cek iv aad ct tag,
  enc_encrypt O e m cek iv aad = Ok (ct, tag) -> enc_decrypt O e ct tag cek iv aad = Ok m.
Proof. exact enc_rt. Qed.

Theorem c04_pkcs7_rt : forall m, pkcs7_unpad (pkcs7_pad m) = Ok m.
Proof. exact pkcs7_roundtrip. Qed.

(* ---- key layer ---- *)
Theorem c04_key_rt_rsa : forall O, contracts O -> forall a s prot unprot r d cek prot' r' ek hs',
  fam_is (ea_family a) "RSA" = true ->
  encrypt_cek O a s prot unprot r d cek = Ok (prot', r', ek) ->
  k_priv (r_key r) = true ->
  decrypt_cek O a hs' (set_ek r' ek) = Ok cek /\ prot' = prot /\ r' = r.
Proof. exact cek_rt_rsa. Qed.

Theorem c04_key_rt_aeskw : forall O, contracts O -> forall a s prot unprot r d cek prot' r' ek hs',
  fam_is (ea_family a) "RSA" = false -> fam_is (ea_family a) "AESKW" = true ->
  encrypt_cek O a s prot unprot r d cek = Ok (prot', r', ek) ->
  decrypt_cek O a hs' (set_ek r' ek) = Ok cek /\ prot' = prot /\ r' = r.
Proof. exact cek_rt_aeskw. Qed.

Theorem c04_key_rt_gcmkw : forall O, contracts O -> forall a s prot unprot r d cek prot' r' ek hs' tg,
  fam_is (ea_family a) "RSA" = false -> fam_is (ea_family a) "AESKW" = false ->
  fam_is (ea_family a) "AESGCMKW" = true ->
  encrypt_cek O a s prot unprot r d cek = Ok (prot', r', ek) ->
  o_gcm_enc O (k_id (r_key r)) (d_kwiv d) None cek = Ok (ek, tg) ->
  bytes_ok (d_kwiv d) = true -> bytes_ok tg = true ->
  dget hs' (asc "iv") = Some (PStr (b64e (d_kwiv d))) ->
  dget hs' (asc "tag") = Some (PStr (b64e tg)) ->
  r_key r' = r_key r ->
  decrypt_cek O a hs' (set_ek r' ek) = Ok cek.
Proof. exact cek_rt_gcmkw. Qed.

Theorem c04_key_rt_pbes2 : forall O, contracts O -> forall a hs' r' cek ek kek p2s sb,
  fam_is (ea_family a) "RSA" = false -> fam_is (ea_family a) "AESKW" = false ->
  fam_is (ea_family a) "AESGCMKW" = false -> fam_is (ea_family a) "PBES2" = true ->
  dmem hs' (asc "p2s") = true -> dmem hs' (asc "p2c") = true ->
  to_bytes_pv (hget hs' "p2s") = Ok sb -> b64d sb = Ok p2s ->
  check_key_type a (r_key r') = Ok tt ->
  pbes2_kek O a (r_key r') p2s (hget hs' "p2c") = Ok kek ->
  kw_wrap_cek O (key_size_of a) cek kek = Ok ek ->
  r_ek r' = Some ek ->
  decrypt_cek O a hs' r' = Ok cek.
Proof. exact cek_rt_pbes2. Qed.

Theorem c04_key_rt_dir : forall O a e hs r r' tag cek,
  ea_direct a = true -> is_agreement a = false -> fam_is (ea_family a) "dir" = true ->
  pre_encrypt_direct_mode O a e Compact [] PNone r = Ok (cek, r') ->
  decrypt_recipient O a e hs r' tag = Ok cek /\ lenN cek * 8 = ee_cek_size e.
Proof. exact direct_dir_rt. Qed.

(* key agreement (ECDH-ES and ECDH-1PU, direct and with wrapping, with the tag for 1PU):
   kdf_info_enc_eq_dec — same merged headers, symmetric ECDH => same derived key *)
Theorem kdf_info_enc_eq_dec : forall O, contracts O -> forall a e hs r tag k eph epkd,
  enc_auk O a e hs r tag = Ok k ->
  r_eph r = Some (eph, epkd) ->
  dget hs (asc "epk") = Some epkd ->
  o_import O (k_kty (r_key r)) epkd = Ok (pubk eph) ->
  k_priv (r_key r) = true -> k_kty eph = k_kty (r_key r) ->
  (forall sk, r_sender r = Some sk -> k_kty sk = k_kty (r_key r)) ->
  check_key_type a (r_key r) = Ok tt ->
  dec_auk O a e hs r tag = Ok k.
Proof. exact auk_rt. Qed.

Theorem c04_kw_rt : forall O, contracts O -> forall ks cek kek ek,
  kw_wrap_cek O ks cek kek = Ok ek -> kw_unwrap_cek O ks ek kek = Ok cek.
Proof. exact kw_rt. Qed.

(* ---- header view and AAD ---- *)
Theorem headers_enc_eq_dec : forall s prot unprot r k v p' r' hs',
  wf prot -> hdr_wf unprot -> hdr_wf (r_header r) ->
  (s = Compact -> r_header r = PNone) ->
  add_header s prot r k v = Ok (p', r') ->
  headers s p' unprot (r_header r') = Ok hs' ->
  dget hs' k = Some v.
Proof. exact add_header_get. Qed.

(* merge order protected < unprotected < per-recipient header *)
Theorem c04_headers_merge_order : forall s prot unprot hdr hs k,
  wf prot -> hdr_wf unprot -> hdr_wf hdr ->
  headers s prot unprot hdr = Ok hs ->
  dget hs k =
    match (if py_truth hdr then match hdr with PDict h => dget h k | _ => None end else None) with
    | Some v => Some v
    | None =>
        match (match s with
               | Compact => None
               | _ => if py_truth unprot then match unprot with PDict u => dget u k | _ => None end else None
               end) with
        | Some v => Some v
        | None => dget prot k
        end
    end.
Proof. exact headers_merge_order. Qed.

Theorem aad_enc_eq_dec : forall O g o d x,
  perform_encrypt O g o d = Ok x -> dec_aad O (obj_of o x) = Ok (x_aadseg x).
Proof. exact C04Proofs.aad_enc_eq_dec. Qed.

(* the three sites that look at the aad - perform_encrypt's AAD, the "aad" member of represent_*_json and
   _perform_decrypt's AAD - use ONE emptiness test: an empty aad (Some []) is an absent aad (None) at each of them.
   aad_enc_eq_dec above is for ALL aad values, Some [] included. *)
Theorem c04_aad_empty_is_absent : forall s p,
  aad_of s p (Some []) = aad_of s p None /\ aad_of s p None = p.
Proof. exact aad_empty_is_absent. Qed.

Theorem c04_represent_aad_member : forall O o x data,
  e_ser o <> Compact -> represent_json O o x = Ok data ->
  py_in (PStr (s_ "aad")) data = Ok (match e_aad o with Some (_ :: _) => true | _ => false end).
Proof. exact represent_aad_member. Qed.

(* aad = Some [] on a recorded joserfc run (flattened, A128KW + A128GCM, aad=b""): the model emits the same dict
   (no "aad" member), the AAD of both sides is the bare encoded protected header, and the token decrypts *)
Example c04_empty_aad_example :
  jwe_check ex_empty_aad_enc = true /\ jwe_check ex_empty_aad_dec = true /\
  match ex_empty_aad_enc with
  | CEncJson t g o d _ =>
      match e_aad o, perform_encrypt (table_oracles t) g o d with
      | Some [], Ok x =>
          beqb (x_aadseg x) (x_b64prot x) &&
          match dec_aad (table_oracles t) (obj_of o x), represent_json (table_oracles t) o x with
          | Ok a, Ok data => beqb a (x_aadseg x) &&
                             match py_in (PStr (s_ "aad")) data with Ok false => true | _ => false end
          | _, _ => false
          end
      | _, _ => false
      end
  | _ => false
  end = true /\
  (match jwe_run ex_empty_aad_dec with OD (Ok _) => true | _ => false end) = true.
Proof. vm_compute. repeat split. Qed.

Theorem c04_compact_segments_rt : forall hdr ek iv ct tag,
  bytes_ok hdr = true -> bytes_ok ek = true -> bytes_ok iv = true -> bytes_ok ct = true -> bytes_ok tag = true ->
  split_dot (join_dot [b64e hdr; b64e ek; b64e iv; b64e ct; b64e tag])
    = [b64e hdr; b64e ek; b64e iv; b64e ct; b64e tag] /\
  b64d (b64e hdr) = Ok hdr /\ b64d (b64e ek) = Ok ek /\ b64d (b64e iv) = Ok iv /\
  b64d (b64e ct) = Ok ct /\ b64d (b64e tag) = Ok tag.
Proof. exact compact_segments_rt. Qed.

(* ---- forbidden combinations are refused at encryption time, no output ---- *)
(* ANY direct-mode algorithm named by ANY recipient of a JSON serialization with >= 2 recipients *)
Theorem c04_direct_single : forall O g e s unprot total dc rs ds prot cek acc,
  s <> Compact -> (1 < total)%nat ->
  (exists r, In r rs /\ names_direct g s prot unprot r) ->
  forall out, pre_loop O g e s unprot total dc rs ds prot cek acc <> Ok out.
Proof. exact direct_single'. Qed.

(* ... and the error is ConflictAlgorithmError at the moment such a recipient is reached *)
Theorem c04_direct_conflict_class : forall O g e s unprot total dc r rest ds prot cek acc a prot1 r1,
  prepare_recipient_algorithm O g s prot unprot r = Ok (a, prot1, r1) ->
  ea_direct a = true -> (1 < total)%nat ->
  pre_loop O g e s unprot total dc (r :: rest) ds prot cek acc = Err (EJose ConflictAlgorithmError).
Proof. exact pre_loop_direct_conflict. Qed.

Example c04_direct_rows :
  map ea_name (filter ea_direct jwe_alg_table_drafts) = ["dir"; "ECDH-ES"; "ECDH-1PU"]%string.
Proof. vm_compute. reflexivity. Qed.

Theorem c04_1pu_kw_cbc_only : forall O a e hs r tag,
  fam_is (ea_family a) "ECDH1PU" = true ->
  str_eqb (asc (ea_wrap a)) [] = false ->
  fam_is (ee_family e) "CBCHS" = false ->
  enc_auk O a e hs r tag = Err (EJose InvalidEncryptionAlgorithmError).
Proof. exact onepu_kw_cbc_only. Qed.

(* RSA keys smaller than the row's key size (2048 bits for RSA1_5, RSA-OAEP, RSA-OAEP-256) are refused *)
Theorem c04_rsa_small_key_refused : forall O a s prot unprot r d cek bits,
  fam_is (ea_family a) "RSA" = true -> check_key_type a (r_key r) = Ok tt ->
  o_rsa_bits O (k_id (r_key r)) = Ok bits -> bits < key_size_of a ->
  encrypt_cek O a s prot unprot r d cek = Err (EJose InvalidKeyLengthError).
Proof. exact rsa_small_key_refused. Qed.

Example c04_rsa_min_sizes :
  map (fun a => (ea_name a, key_size_of a)) (filter (fun a => fam_is (ea_family a) "RSA") jwe_alg_table_drafts)
  = [("RSA1_5", 2048); ("RSA-OAEP", 2048); ("RSA-OAEP-256", 2048)]%string.
Proof. vm_compute. reflexivity. Qed.

(* which (alg, enc) pairs that is, by computation on the tables *)
Example c04_1pu_kw_refused_pairs :
  let algs := filter (fun a => fam_is (ea_family a) "ECDH1PU" && negb (str_eqb (asc (ea_wrap a)) [])) jwe_alg_table_drafts in
  let encs := filter (fun e => negb (fam_is (ee_family e) "CBCHS")) jwe_enc_table_drafts in
  (map ea_name algs, map ee_name encs) =
  (["ECDH-1PU+A128KW"; "ECDH-1PU+A192KW"; "ECDH-1PU+A256KW"]%string,
   ["A128GCM"; "A192GCM"; "A256GCM"; "C20P"; "XC20P"]%string).
Proof. vm_compute. reflexivity. Qed.

(* the inverse-pair contracts are satisfiable *)
Example c04_contracts_satisfiable : contracts toy_oracles.
Proof. exact toy_contracts. Qed.

(* ---- non-vacuity: recorded encryptions of joserfc are reproduced octet for octet by the model,
   and the model decrypts them (compact dir, flattened A128KW+aad, compact ECDH-ES, general x2) ---- *)
Example c04_nonvacuous :
  map jwe_check [ex_dir_cbc_enc; ex_dir_cbc; ex_flat_kw_gcm_enc; ex_flat_kw_gcm; ex_es_gcm_enc; ex_es_gcm;
                 ex_general_2_enc; ex_general_2]
  = [true; true; true; true; true; true; true; true].
Proof. vm_compute. reflexivity. Qed.

Print Assumptions c04_message_rt.
Print Assumptions c04_compact_rt.
Print Assumptions c04_compact_wire_rt.
Print Assumptions c04_flat_rt.
Print Assumptions c04_general_rt.
Print Assumptions c04_json_wire_rt.
Print Assumptions c04_general_rt_n.
Print Assumptions c04_general_rt_any_recipient.
Print Assumptions c04_recip_loop_all.
Print Assumptions c04_recip_loop_any.
Print Assumptions c04_single_rt.
Print Assumptions c04_single_rt_kw_rsa.
Print Assumptions c04_single_rt_dir.
Print Assumptions c04_single_rt_gcmkw.
Print Assumptions c04_single_rt_ecdh_direct.
Print Assumptions c04_single_rt_ecdh_kw.
Print Assumptions c04_single_rt_pbes2.
Print Assumptions c04_add_header_twice.
Print Assumptions c04_content_rt.
Print Assumptions c04_pkcs7_rt.
Print Assumptions c04_key_rt_rsa.
Print Assumptions c04_key_rt_aeskw.
Print Assumptions c04_key_rt_gcmkw.
Print Assumptions c04_key_rt_pbes2.
Print Assumptions c04_key_rt_dir.
Print Assumptions kdf_info_enc_eq_dec.
Print Assumptions c04_kw_rt.
Print Assumptions headers_enc_eq_dec.
Print Assumptions c04_headers_merge_order.
Print Assumptions aad_enc_eq_dec.
Print Assumptions c04_aad_empty_is_absent.
Print Assumptions c04_represent_aad_member.
Print Assumptions c04_compact_segments_rt.
Print Assumptions c04_direct_single.
Print Assumptions c04_direct_conflict_class.
Print Assumptions c04_1pu_kw_cbc_only.
Print Assumptions c04_rsa_small_key_refused.
