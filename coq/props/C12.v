(* C12 — public-facing outputs never contain private key material.
   Only statements here; proofs live in proofs/C12Proofs.v.  The model is
   model/C12Keys.v (BaseKey.as_dict / thumbprint / ensure_kid, KeySet.as_dict,
   JWEKeyAgreement.prepare_ephemeral_key, CryptographyBinding.as_bytes); the
   registries with their private / required flags are gen/Tables.v.

   Reading guide.  [member_private reg m] is the test the code applies
   (`m in value_registry and value_registry[m].private`); [spec_private K] is
   the list of private parameters of the property text (d p q dp dq qi oth / d /
   d / k).  [pub_view reg d] = the members of d that are not flagged private,
   in order.  Keyword arguments `**params` of as_dict are added AFTER the
   filter: whatever the caller passes there re-appears in the output — that is
   the caller's own data, and the theorems say so explicitly (c12_as_dict_params).

   Not covered by theorems (direct taint-scan oracle of harness/props/c12.py
   only): the octet-level content of PEM/DER exports (pyca public_bytes), and
   the JWS/JWE/JWT serializations, where keys enter only as arguments of
   primitives, through `kid` and through `epk`. *)
From Model Require Import Base PyVal TableTypes C12Keys.
From Gen Require Import Tables.
From Proofs Require Import C12Proofs C12More.
Open Scope N_scope.

(* ---- the flags (table facts; expected literals from the property text) ---- *)
Theorem c12_private_flags :
  private_names value_registry_RSA = names ["d"; "p"; "q"; "dp"; "dq"; "qi"; "oth"]%string /\
  private_names value_registry_EC = names ["d"]%string /\
  private_names value_registry_OKP = names ["d"]%string /\
  private_names value_registry_oct = names ["k"]%string /\
  public_names value_registry_RSA = names ["n"; "e"]%string /\
  public_names value_registry_EC = names ["crv"; "x"; "y"]%string /\
  public_names value_registry_OKP = names ["crv"; "x"]%string /\
  public_names value_registry_oct = [].
Proof. exact private_flags_table. Qed.

(* the code's test coincides with the Spec list, for every member name *)
Theorem c12_private_test_is_spec :
  forall K m, member_private (value_registry K) m = str_mem m (spec_private K).
Proof. exact member_private_spec. Qed.

(* ---- BaseKey.as_dict(private=False) ---- *)
(* the del-loop computes exactly the filter *)
Theorem c12_filter_loop : forall reg d, strip_private reg d = pub_view reg d.
Proof. exact strip_private_is_pub_view. Qed.

(* for every registry, key (private or public-only) and dict view: the public
   export succeeds, has no member flagged private, and keeps every other member
   with its value *)
Theorem c12_as_dict_public :
  forall reg is_priv d,
  exists out, as_dict reg is_priv d (PBool false) [] = Ok out /\
    (forall m, In m (dkeys out) -> member_private reg m = false) /\
    (forall m, member_private reg m = true -> dget out m = None) /\
    (forall m, member_private reg m = false -> dget out m = dget d m).
Proof. exact as_dict_public. Qed.

(* in the words of the property: none of d,p,q,dp,dq,qi,oth / d / d / k is a member *)
Theorem c12_as_dict_public_spec :
  forall K is_priv d out m,
    as_dict (value_registry K) is_priv d (PBool false) [] = Ok out ->
    In m (spec_private K) -> ~ In m (dkeys out).
Proof. exact as_dict_public_spec. Qed.

(* with keyword params: a member of the output is either one of the caller's
   params (with the caller's value) or a non-private member of the key *)
Theorem c12_as_dict_params :
  forall reg is_priv d params out,
    as_dict reg is_priv d (PBool false) params = Ok out ->
    forall m, In m (dkeys out) ->
      (exists v, dget out m = Some v /\ In (m, v) params) \/
      (member_private reg m = false /\ dget out m = dget d m).
Proof. exact as_dict_params. Qed.

(* whenever ANY call of as_dict returns a dict with a private member that is
   not a param, the caller did not say private=False, and if it asked for a
   private export the key is a private key *)
Theorem c12_as_dict_private_member_only_on_request :
  forall reg is_priv d private params out m,
    as_dict reg is_priv d private params = Ok out ->
    member_private reg m = true -> In m (dkeys out) ->
    In m (dkeys params) \/ (is_False private = false /\ (py_truth private = true -> is_priv = true)).
Proof. exact as_dict_ok_private_member. Qed.

(* the other branch, for the record: `private is not False` (None, True, ...) on a
   key that may answer returns the whole dict_value plus params *)
Theorem c12_as_dict_full_copy :
  forall reg is_priv d private params,
    is_False private = false -> (py_truth private = true -> is_priv = true) ->
    as_dict reg is_priv d private params = Ok (dupdate d params).
Proof. exact as_dict_full_copy. Qed.

(* the only failure of as_dict is the private-on-public conflict *)
Theorem c12_as_dict_err :
  forall reg is_priv d private params e,
    as_dict reg is_priv d private params = Err e ->
    e = EValue /\ py_truth private = true /\ is_priv = false.
Proof. exact as_dict_err. Qed.

(* non-interference: keys that agree on their non-private members have equal public exports *)
Theorem c12_ni_as_dict :
  forall reg p1 p2 d1 d2 params,
    pub_view reg d1 = pub_view reg d2 ->
    as_dict reg p1 d1 (PBool false) params = as_dict reg p2 d2 (PBool false) params.
Proof. exact as_dict_ni. Qed.

(* ---- KeySet.as_dict(private=False) ---- *)
(* for every key set (any mix of kinds, oct included) and any digest function:
   each exported element has no member flagged private in ITS registry, keeps
   the other members, and keeps an existing kid *)
Theorem c12_keyset_public :
  forall H ks out,
    keyset_as_dict H ks (PBool false) [] = Ok out -> Forall2 (elem_public) ks out.
Proof. exact keyset_public. Qed.

Theorem c12_keyset_public_spec :
  forall H ks out,
    keyset_as_dict H ks (PBool false) [] = Ok out ->
    Forall2 (fun k o => forall m, In m (spec_private (k_kind k)) -> ~ In m (dkeys o)) ks out.
Proof. exact keyset_spec. Qed.

(* non-interference for key sets.  For an oct key without kid the generated kid
   is the thumbprint, a digest of k (documented exception, see
   c12_thumbprint_oct_exception): such keys are excluded by [key_pub_equiv] *)
Theorem c12_ni_keyset :
  forall H ks1 ks2 params,
    Forall2 key_pub_equiv ks1 ks2 ->
    keyset_as_dict H ks1 (PBool false) params = keyset_as_dict H ks2 (PBool false) params.
Proof. exact keyset_ni. Qed.

(* a key set containing a public-only key refuses a private export as a whole *)
Theorem c12_keyset_private_on_public :
  forall H ks private params,
    py_truth private = true ->
    (exists k, In k ks /\ is_private k = false) ->
    exists e, keyset_as_dict H ks private params = Err e.
Proof. exact keyset_private_on_public. Qed.

(* a public export of a key set can only fail with KeyError, when a kid has to be
   generated for a key lacking a required member (excluded by key validation) *)
Theorem c12_keyset_public_err :
  forall H ks params e, keyset_as_dict H ks (PBool false) params = Err e -> e = EKey.
Proof. exact keyset_public_err. Qed.

(* ---- epk ---- *)
(* the header written by prepare_ephemeral_key carries, under "epk", exactly the
   public view of the ephemeral key (given or freshly generated by any
   generator): none of its private parameters; other header members untouched *)
Theorem c12_epk_public :
  forall gen rk eph generated hdr e hdr',
    prepare_ephemeral_key gen rk eph generated hdr = Ok (e, hdr') ->
    e = ephemeral_in_use gen rk eph generated /\
    exists v, dget hdr' s_epk = Some (PDict v) /\
      v = pub_view (kreg e) (k_dict e) /\
      (forall m, In m (spec_private (k_kind e)) -> ~ In m (dkeys v)) /\
      (forall m, member_private (kreg e) m = false -> dget v m = dget (k_dict e) m) /\
      (forall m, m <> s_epk -> dget hdr' m = dget hdr m).
Proof. exact epk_public_spec. Qed.

Theorem c12_ni_epk :
  forall gen rk e1 e2 hdr,
    k_kind e1 = k_kind e2 -> pub_view (kreg e1) (k_dict e1) = pub_view (kreg e2) (k_dict e2) ->
    match prepare_ephemeral_key gen rk (Some e1) false hdr, prepare_ephemeral_key gen rk (Some e2) false hdr with
    | Ok (_, h1), Ok (_, h2) => h1 = h2
    | Err a, Err b => a = b
    | _, _ => False
    end.
Proof. exact epk_ni. Qed.

(* ---- private export requested from a public-only key ---- *)
Theorem c12_private_on_public_dict :
  forall reg d private params,
    py_truth private = true -> as_dict reg false d private params = Err EValue.
Proof. exact as_dict_private_on_public. Qed.

Theorem c12_private_on_public_bytes :
  forall (sk pk : Type) (pub_of : sk -> pk) private_bytes public_bytes (p : pk) enc pw,
    as_bytes sk pk pub_of private_bytes public_bytes (RawPub p) enc (PBool true) pw
    = Err (if encoding_ok enc then EAttr else EValue).
Proof. exact as_bytes_true_public. Qed.

(* ---- as_pem / as_der dispatch ---- *)
(* private=False: the output is public_bytes of the public key, for private and
   public-only keys alike (hence a function of the public key only) *)
Theorem c12_as_bytes_public :
  forall (sk pk : Type) (pub_of : sk -> pk) private_bytes public_bytes r enc pw,
    as_bytes sk pk pub_of private_bytes public_bytes r enc (PBool false) pw =
    if encoding_ok enc then Ok (public_bytes (public_key sk pk pub_of r) enc) else Err EValue.
Proof. exact as_bytes_false. Qed.

(* characterisation of every successful export: private_bytes is reached only
   from a private key and never with private=False *)
Theorem c12_as_bytes_ok :
  forall (sk pk : Type) (pub_of : sk -> pk) private_bytes public_bytes r enc private pw b,
    as_bytes sk pk pub_of private_bytes public_bytes r enc private pw = Ok b ->
    (exists s, r = RawPriv s /\ is_False private = false /\ b = private_bytes s enc pw) \/
    (b = public_bytes (public_key sk pk pub_of r) enc /\
     (is_False private = true \/ (is_True private = false /\ raw_is_private sk pk r = false))).
Proof. exact as_bytes_ok. Qed.

(* ---- histories on one key object ---- *)
(* For EVERY sequence of as_dict (any flag, any params), ensure_kid and thumbprint calls on
   one key: the i-th result, when the i-th call is as_dict(private=False, **params), is a dict
   whose members are non-private or the caller's params, without any private member that is
   not a param, and with the non-private members (other than a generated kid) of the key as
   it was before the first call.  Earlier private exports, exports with params, kid
   generation and thumbprints change nothing. *)
Theorem c12_history_public_exports :
  forall H reg is_priv ops d params r,
    In (OAsDict (PBool false) params, r) (combine ops (snd (run_history H reg is_priv d ops))) ->
    exists out, r = RDict (Ok out) /\
      (forall m, In m (dkeys out) -> member_private reg m = false \/ In m (dkeys params)) /\
      (forall m, member_private reg m = true -> dget (rev params) m = None -> dget out m = None) /\
      (forall m, member_private reg m = false -> m <> s_kid -> dget (rev params) m = None ->
                 dget out m = dget d m).
Proof. intros H reg is_priv ops d params r. apply history_public_paired. intros m _. reflexivity. Qed.

(* ---- generation: a key requested public-only IS public-only ---- *)
Definition gen_flag_demo :=
  let priv := fun (r : res (list (gkey unit unit))) => do l <- r; Ok (map (g_is_private unit unit) l) in
  (priv (keyset_generate unit unit (fun _ => tt) (fun _ _ => tt) true KEC (PBool false) 2),
   priv (do g <- registry_generate unit unit (fun _ => tt) (fun _ _ => tt) true KRSA 0 (PBool true); Ok [g]),
   priv (do g <- registry_generate unit unit (fun _ => tt) (fun _ _ => tt) true KOct 0 PNone; Ok [g])).
(* the registry wrapper forwards the flag unchanged to the class method *)
Theorem c12_registry_generate_is_class_generate :
  forall (sk pk : Type) (pub_of : sk -> pk) fresh k i private,
    registry_generate sk pk pub_of fresh true k i private = class_generate sk pk pub_of fresh k i private.
Proof. exact registry_is_class. Qed.

(* for RSA / EC / OKP, any falsy flag (False, None, 0), any native key, any exporter of
   the native PUBLIC key that writes non-private members only, and non-private extra
   parameters: the key returned by JWKRegistry.generate_key is not private, its DEFAULT
   as_dict() has no private member, a private export raises ValueError, the default
   as_pem()/as_der() is public_bytes of the public key, as_pem(private=True) is an error *)
Theorem c12_generate_public_is_public :
  forall (sk pk : Type) (pub_of : sk -> pk) fresh export_private export_public private_bytes public_bytes,
    (forall k p m, In m (dkeys (export_public k p)) -> member_private (value_registry k) m = false) ->
    forall k i private params g,
    k <> KOct -> py_truth private = false ->
    (forall m, In m (dkeys params) -> member_private (value_registry k) m = false) ->
    registry_generate sk pk pub_of fresh true k i private = Ok g ->
    is_private (g_key sk pk export_private export_public g params) = false /\
    (exists d, key_as_dict (g_key sk pk export_private export_public g params) PNone [] = Ok d /\
               forall m, In m (dkeys d) -> member_private (value_registry k) m = false) /\
    (forall flag ps, py_truth flag = true ->
       key_as_dict (g_key sk pk export_private export_public g params) flag ps = Err EValue) /\
    (forall enc pw,
       as_bytes sk pk pub_of private_bytes public_bytes (g_raw g) enc PNone pw =
       if encoding_ok enc then Ok (public_bytes (pub_of (fresh k i)) enc) else Err EValue) /\
    (forall enc pw, exists e,
       as_bytes sk pk pub_of private_bytes public_bytes (g_raw g) enc (PBool true) pw = Err e).
Proof. exact generate_public_is_public. Qed.

(* KeySet.generate_key_set(private=<falsy>): count keys, none of them private *)
Theorem c12_generate_key_set_public :
  forall (sk pk : Type) (pub_of : sk -> pk) fresh k private count l,
    k <> KOct -> py_truth private = false ->
    keyset_generate sk pk pub_of fresh true k private count = Ok l ->
    length l = count /\ Forall (fun g => g_kind g = k /\ g_is_private sk pk g = false) l.
Proof. exact keyset_generate_public. Qed.

(* an oct key cannot be requested public-only: ValueError, never a silent private key *)
Theorem c12_generate_oct_public_refused :
  forall (sk pk : Type) (pub_of : sk -> pk) fresh i private,
    py_truth private = false -> registry_generate sk pk pub_of fresh true KOct i private = Err EValue.
Proof. exact generate_oct_public_refused. Qed.

Example c12_generate_instance :
  gen_flag_demo = (Ok [false; false], Ok [true], Err EValue).
Proof. vm_compute. reflexivity. Qed.

(* ---- thumbprint / generated kid ---- *)
Theorem c12_thumbprint_field_table :
  thumb_fields value_registry_RSA = names ["n"; "e"; "kty"]%string /\
  thumb_fields value_registry_EC = names ["crv"; "x"; "y"; "kty"]%string /\
  thumb_fields value_registry_OKP = names ["crv"; "x"; "kty"]%string /\
  thumb_fields value_registry_oct = names ["k"; "kty"]%string.
Proof. exact thumb_fields_table. Qed.

(* what is handed to the digest consists of required members (+ kty) only, with the key's values *)
Theorem c12_thumbprint_fields :
  forall reg d out m v,
    thumb_input reg d = Ok out -> dget out m = Some v ->
    In m (thumb_fields reg) /\ dget d m = Some v.
Proof. exact thumb_input_selected. Qed.

(* RSA, EC, OKP: every selected member is non-private ... *)
Theorem c12_thumbprint_fields_public :
  forall K m, K <> KOct -> In m (thumb_fields (value_registry K)) ->
              member_private (value_registry K) m = false.
Proof. exact thumb_fields_asymmetric_public. Qed.

(* ... hence the thumbprint (and a generated kid) is a function of the public view *)
Theorem c12_ni_thumbprint :
  forall H K d1 d2, K <> KOct ->
    pub_view (value_registry K) d1 = pub_view (value_registry K) d2 ->
    thumbprint H (value_registry K) d1 = thumbprint H (value_registry K) d2.
Proof. exact thumbprint_reads_public. Qed.

(* DOCUMENTED EXCEPTION (RFC 7638 section 3.2): for oct keys the required member
   is the secret k itself; the thumbprint / generated kid is a digest of it.
   The digest is not modelled; that it does not CONTAIN k is checked by the
   taint scan on the implementation only. *)
Theorem c12_thumbprint_oct_exception :
  thumb_fields value_registry_oct = names ["k"; "kty"]%string /\
  member_private value_registry_oct (asc "k") = true /\
  fields_public value_registry_oct = false.
Proof. exact oct_thumbprint_exception. Qed.

(* ---- non-vacuity: concrete instances meeting the hypotheses ---- *)
Definition ex_rsa : kd :=
  [(asc "n", PStr (asc "AQAB")); (asc "e", PStr (asc "AQAB")); (asc "d", PStr (asc "c2VjcmV0"));
   (asc "p", PStr (asc "cA")); (asc "q", PStr (asc "cQ")); (asc "dp", PStr (asc "ZHA"));
   (asc "dq", PStr (asc "ZHE")); (asc "qi", PStr (asc "cWk")); (asc "oth", PList []);
   (asc "kty", PStr (asc "RSA")); (asc "use", PStr (asc "sig"))].
Definition ex_oct : kd := [(asc "k", PStr (asc "c2VjcmV0")); (asc "kty", PStr (asc "oct"))].
Definition ex_ec : kd :=
  [(asc "crv", PStr (asc "P-256")); (asc "x", PStr (asc "eA")); (asc "y", PStr (asc "eQ"));
   (asc "d", PStr (asc "c2VjcmV0")); (asc "kty", PStr (asc "EC"))].
Definition ex_H : kd -> str := fun i => asc "thumb".

Example c12_as_dict_instance :
  as_dict value_registry_RSA true ex_rsa (PBool false) [] =
  Ok [(asc "n", PStr (asc "AQAB")); (asc "e", PStr (asc "AQAB"));
      (asc "kty", PStr (asc "RSA")); (asc "use", PStr (asc "sig"))].
Proof. vm_compute. reflexivity. Qed.

Example c12_params_instance :   (* params are the caller's data: they come back *)
  as_dict value_registry_oct true ex_oct (PBool false) [(asc "k", PStr (asc "mine"))] =
  Ok [(asc "kty", PStr (asc "oct")); (asc "k", PStr (asc "mine"))].
Proof. vm_compute. reflexivity. Qed.

Example c12_keyset_instance :
  keyset_as_dict ex_H
    [{| k_kind := KOct; k_raw_private := true; k_dict := ex_oct |};
     {| k_kind := KEC; k_raw_private := true; k_dict := ex_ec |}] (PBool false) [] =
  Ok [[(asc "kty", PStr (asc "oct")); (asc "kid", PStr (asc "thumb"))];
      [(asc "crv", PStr (asc "P-256")); (asc "x", PStr (asc "eA")); (asc "y", PStr (asc "eQ"));
       (asc "kty", PStr (asc "EC")); (asc "kid", PStr (asc "thumb"))]].
Proof. vm_compute. reflexivity. Qed.

Example c12_ni_instance :       (* two different private keys, same public view *)
  pub_view value_registry_EC ex_ec =
  pub_view value_registry_EC (dset ex_ec (asc "d") (PStr (asc "b3RoZXI"))) /\
  ex_ec <> dset ex_ec (asc "d") (PStr (asc "b3RoZXI")).
Proof. vm_compute. split; [reflexivity | discriminate]. Qed.

Example c12_ni_keyset_instance :
  key_pub_equiv {| k_kind := KEC; k_raw_private := true; k_dict := ex_ec |}
                {| k_kind := KEC; k_raw_private := false;
                   k_dict := dset ex_ec (asc "d") (PStr (asc "b3RoZXI")) |}.
Proof. vm_compute. split; [reflexivity | split; [reflexivity | discriminate]]. Qed.

Example c12_epk_instance :
  prepare_ephemeral_key (fun k => k)
    {| k_kind := KEC; k_raw_private := false; k_dict := [] |}
    (Some {| k_kind := KEC; k_raw_private := true; k_dict := ex_ec |}) false
    [(asc "alg", PStr (asc "ECDH-ES"))] =
  Ok ({| k_kind := KEC; k_raw_private := true; k_dict := ex_ec |},
      [(asc "alg", PStr (asc "ECDH-ES"));
       (asc "epk", PDict [(asc "crv", PStr (asc "P-256")); (asc "x", PStr (asc "eA"));
                          (asc "y", PStr (asc "eQ")); (asc "kty", PStr (asc "EC"))])]).
Proof. vm_compute. reflexivity. Qed.

Example c12_private_on_public_instance :
  as_dict value_registry_RSA false ex_rsa (PBool true) [] = Err EValue /\
  py_truth (PBool true) = true.
Proof. vm_compute. split; reflexivity. Qed.

Example c12_keyset_private_on_public_instance :
  keyset_as_dict ex_H
    [{| k_kind := KOct; k_raw_private := true; k_dict := ex_oct |};
     {| k_kind := KEC; k_raw_private := false; k_dict := ex_ec |}] (PBool true) [] = Err EValue.
Proof. vm_compute. reflexivity. Qed.

Example c12_history_instance :
  snd (run_history ex_H value_registry_EC true ex_ec
         [OAsDict (PBool false) []; OAsDict PNone []; OEnsureKid; OAsDict (PBool false) []]) =
  [RDict (Ok [(asc "crv", PStr (asc "P-256")); (asc "x", PStr (asc "eA")); (asc "y", PStr (asc "eQ"));
              (asc "kty", PStr (asc "EC"))]);
   RDict (Ok ex_ec);
   RUnit (Ok tt);
   RDict (Ok [(asc "crv", PStr (asc "P-256")); (asc "x", PStr (asc "eA")); (asc "y", PStr (asc "eQ"));
              (asc "kty", PStr (asc "EC")); (asc "kid", PStr (asc "thumb"))])].
Proof. vm_compute. reflexivity. Qed.

Example c12_thumbprint_instance :
  thumb_input value_registry_EC ex_ec =
  Ok [(asc "crv", PStr (asc "P-256")); (asc "kty", PStr (asc "EC"));
      (asc "x", PStr (asc "eA")); (asc "y", PStr (asc "eQ"))].
Proof. vm_compute. reflexivity. Qed.

Example c12_as_bytes_instance :
  as_bytes unit unit (fun _ => tt) (fun _ _ _ => [1]) (fun _ _ => [0]) (RawPriv tt) EncPEM (PBool false) None
  = Ok [0] /\
  as_bytes unit unit (fun _ => tt) (fun _ _ _ => [1]) (fun _ _ => [0]) (RawPriv tt) EncPEM PNone None
  = Ok [1].
Proof. vm_compute. split; reflexivity. Qed.

Print Assumptions c12_private_flags.
Print Assumptions c12_private_test_is_spec.
Print Assumptions c12_filter_loop.
Print Assumptions c12_as_dict_public.
Print Assumptions c12_as_dict_public_spec.
Print Assumptions c12_as_dict_params.
Print Assumptions c12_as_dict_private_member_only_on_request.
Print Assumptions c12_as_dict_full_copy.
Print Assumptions c12_as_dict_err.
Print Assumptions c12_ni_as_dict.
Print Assumptions c12_keyset_public.
Print Assumptions c12_keyset_public_spec.
Print Assumptions c12_ni_keyset.
Print Assumptions c12_keyset_private_on_public.
Print Assumptions c12_keyset_public_err.
Print Assumptions c12_epk_public.
Print Assumptions c12_ni_epk.
Print Assumptions c12_private_on_public_dict.
Print Assumptions c12_private_on_public_bytes.
Print Assumptions c12_as_bytes_public.
Print Assumptions c12_as_bytes_ok.
Print Assumptions c12_history_public_exports.
Print Assumptions c12_registry_generate_is_class_generate.
Print Assumptions c12_generate_public_is_public.
Print Assumptions c12_generate_key_set_public.
Print Assumptions c12_generate_oct_public_refused.
Print Assumptions c12_thumbprint_field_table.
Print Assumptions c12_thumbprint_fields.
Print Assumptions c12_thumbprint_fields_public.
Print Assumptions c12_ni_thumbprint.
Print Assumptions c12_thumbprint_oct_exception.
