(* C03 — JWS sign-then-verify round trip for every algorithm and serialization.
   Only statements; proofs in proofs/C03Proofs.v.  Subject: the Impl model
   model/Jws.v (serialize_* / deserialize_* of jws.py, rfc7515/compact.py,
   rfc7515/json.py, the algorithm models of rfc7518/jws_algs.py, rfc8037,
   rfc8812), for ALL headers, payload octet strings, keys and ALL primitives
   that satisfy the correctness contract (Section hypotheses = "SigCorrect").
   Proved ingredients (not assumed): b64d (b64e x) = Ok x, no '.' in b64e x,
   splitting a.b.c, the fixed-width R||S codec.
   PARTIAL: the key is given as a key (KOne); key sets / callables and the
   rfc7797 b64=false forms are covered by the differential run only. *)
From Coq Require Import Lia.
From Model Require Import Jws.
From Gen Require Import Tables.
From Proofs Require Import B64Proofs IntCodecProofs JwsProofs C03Proofs.
Open Scope N_scope.

Section C03.
  Variable json_loads : bytes -> res pv.
  Variable json_dumps : pv -> bytes.
  Variable mac : string -> N -> bytes -> res bytes.
  Variable pk_sign : jws_alg_row -> N -> bytes -> res bytes.
  Variable pk_verify : jws_alg_row -> N -> bytes -> bytes -> res bool.
  Variable ec_sign : jws_alg_row -> N -> bytes -> res (Z * Z).
  Variable ec_verify : jws_alg_row -> N -> bytes -> Z -> Z -> res bool.
  Variable choose : list key -> option key.
  Hypothesis mac_octets : forall h kid msg m, mac h kid msg = Ok m -> bytes_ok m = true.
  Hypothesis pk_correct : forall r kid msg sig,
      pk_sign r kid msg = Ok sig -> bytes_ok sig = true /\ pk_verify r kid msg sig = Ok true.
  Hypothesis ec_correct : forall r k msg rr ss,
      ec_sign r (k_id k) msg = Ok (rr, ss) ->
      (0 <= rr)%Z /\ (0 <= ss)%Z /\
      Z.to_N rr < 256 ^ N.of_nat (ec_len k) /\ Z.to_N ss < 256 ^ N.of_nat (ec_len k) /\
      ec_verify r (k_id k) msg rr ss = Ok true.
  Hypothesis json_rt : forall h, json_loads (json_dumps (PDict h)) = Ok (PDict h) /\
                                 bytes_ok (json_dumps (PDict h)) = true.

  (* [corresponds k k']: k' is the public form of k (same material, type, curve, use; no key_ops) *)

  (* every algorithm model except "none": what sign produces, verify accepts *)
  Theorem c03_alg_rt : forall r k k' msg sig,
    corresponds k k' -> fam_of r <> FNone -> (0 < ec_len k)%nat ->
    alg_sign mac pk_sign ec_sign r k msg = Ok sig ->
    bytes_ok sig = true /\ alg_verify mac pk_verify ec_verify r k' msg sig = Ok true.
  Proof. exact (alg_rt mac pk_sign pk_verify ec_sign ec_verify mac_octets pk_correct ec_correct). Qed.

  Theorem c03_compact_rt : forall h payload k k' algs tok,
    corresponds k k' -> (0 < ec_len k)%nat -> bytes_ok payload = true ->
    (forall r, get_alg (reg15 algs) (match dget h s_alg with Some v => v | None => PNone end) = Ok r -> fam_of r <> FNone) ->
    serialize_compact json_dumps mac pk_sign ec_sign choose h payload (KOne k) algs = Ok tok ->
    exists o, deserialize_compact json_loads mac pk_verify ec_verify tok (KOne k') algs = Ok o /\
              co_payload o = payload /\ co_protected o = PDict h.
  Proof.
    intros h payload k k' algs tok.
    exact (compact_rt_rg json_loads json_dumps mac pk_sign pk_verify ec_sign ec_verify choose
             mac_octets pk_correct ec_correct json_rt h payload k k' (reg15 algs) tok).
  Qed.

  Theorem c03_flat_rt : forall m payload k k' algs v,
    corresponds k k' -> (0 < ec_len k)%nat -> bytes_ok payload = true ->
    (forall r, get_alg (reg15 algs) (match dget (smember_headers m) s_alg with Some v => v | None => PNone end) = Ok r -> fam_of r <> FNone) ->
    sign_flattened_json json_dumps mac pk_sign ec_sign choose m payload (reg15 algs) (KOne k) = Ok v ->
    exists o, deserialize_json json_loads mac pk_verify ec_verify v (KOne k') algs = Ok o /\
              jo_payload o = payload /\ jo_members o = [smember_member m].
  Proof.
    intros m payload k k' algs v.
    exact (flat_rt_rg json_loads json_dumps mac pk_sign pk_verify ec_sign ec_verify choose
             mac_octets pk_correct ec_correct json_rt m payload k k' (reg15 algs) v).
  Qed.

  (* general JSON with n >= 1 members *)
  Theorem c03_general_rt : forall ms payload k k' algs v,
    corresponds k k' -> (0 < ec_len k)%nat -> bytes_ok payload = true -> ms <> [] ->
    (forall m, In m ms -> forall r,
        get_alg (reg15 algs) (match dget (smember_headers m) s_alg with Some v => v | None => PNone end) = Ok r -> fam_of r <> FNone) ->
    sign_general_json json_dumps mac pk_sign ec_sign choose ms payload (reg15 algs) (KOne k) = Ok v ->
    exists o, deserialize_json json_loads mac pk_verify ec_verify v (KOne k') algs = Ok o /\
              jo_payload o = payload /\ jo_members o = map smember_member ms.
  Proof.
    intros ms payload k k' algs v.
    exact (general_rt_rg json_loads json_dumps mac pk_sign pk_verify ec_sign ec_verify choose
             mac_octets pk_correct ec_correct json_rt ms payload k k' (reg15 algs) v).
  Qed.
End C03.

(* detaching leaves the header and signature segments untouched *)
Theorem c03_detach_compact : forall h p s,
  no_dot h = true -> no_dot p = true -> no_dot s = true ->
  detach_compact (h ++ 46 :: p ++ 46 :: s) = Ok (h ++ 46 :: 46 :: s).
Proof. exact detach_compact_segments. Qed.

Theorem c03_detach_json : forall v,
  match v, detach_json v with
  | JFlat _ sg, JFlat p' sg' => p' = None /\ sg' = sg
  | JGen _ sgs, JGen p' sgs' => p' = None /\ sgs' = sgs
  | _, _ => False
  end.
Proof. exact detach_json_untouched. Qed.

(* R||S: for every r, s in range (leading zero octets included) and every width *)
Theorem c03_ec_rs_roundtrip : forall r s bits,
  let L := N.to_nat ((bits + 7) / 8) in
  (0 < L)%nat -> (0 <= r)%Z -> (0 <= s)%Z ->
  Z.to_N r < 256 ^ N.of_nat L -> Z.to_N s < 256 ^ N.of_nat L ->
  exists a b, encode_int r bits = Ok a /\ encode_int s bits = Ok b /\
    length (a ++ b) = (2 * L)%nat /\
    decode_int (firstn L (a ++ b)) = Ok r /\ decode_int (skipn L (a ++ b)) = Ok s.
Proof. exact rs_roundtrip. Qed.

(* the curve sizes in use give L = 32, 48, 66 *)
Example c03_curve_lengths :
  map (fun c => N.to_nat ((cv_bits c + 7) / 8)) ec_curves = [32; 48; 66; 32]%nat.
Proof. vm_compute. reflexivity. Qed.

(* "none" is the one algorithm that signs but never verifies (excluded above) *)
Example c03_none_excluded :
  forall r, find_alg (asc "none") = Some r -> fam_of r = FNone.
Proof. intros r H. vm_compute in H. inversion H. reflexivity. Qed.

(* non-vacuity of the round trip: a world with a MAC oracle *)
Definition x_dumps (v : pv) : bytes := asc "{""alg"":""HS256""}".
Definition x_loads (b : bytes) : res pv := Ok (PDict [(s_alg, PStr (asc "HS256"))]).
Definition x_mac (h : string) (kid : N) (m : bytes) : res bytes := Ok [1; 2; 3; 4].
Definition x_key : key :=
  {| k_id := 1; k_kid := None; k_kty := "oct"; k_crv := ""; k_bits := 8; k_use := None;
     k_ops := None; k_alg := None; k_private := true |}.
Example c03_compact_nonvacuous :
  exists tok, serialize_compact x_dumps x_mac (fun _ _ _ => Err EOracleMiss) (fun _ _ _ => Err EOracleMiss)
                (fun _ => None) [(s_alg, PStr (asc "HS256"))] (asc "hi") (KOne x_key) None = Ok tok /\
              corresponds x_key x_key /\ (0 < ec_len x_key)%nat.
Proof. eexists. split; [vm_compute; reflexivity|]. split; [repeat split|vm_compute; lia]. Qed.

Print Assumptions c03_alg_rt.
Print Assumptions c03_compact_rt.
Print Assumptions c03_flat_rt.
Print Assumptions c03_general_rt.
Print Assumptions c03_detach_compact.
Print Assumptions c03_detach_json.
Print Assumptions c03_ec_rs_roundtrip.
