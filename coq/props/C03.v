(* C03 — JWS sign-then-verify round trip for every algorithm and serialization.
   Only statements; proofs in proofs/C03Proofs.v.  Subject: the Impl model
   model/Jws.v (serialize_* / deserialize_* of jws.py, rfc7515/compact.py,
   rfc7515/json.py, the algorithm models of rfc7518/jws_algs.py, rfc8037,
   rfc8812), for ALL headers, payload octet strings, keys and ALL primitives
   that satisfy the correctness contract (Section hypotheses = "SigCorrect").
   Proved ingredients (not assumed): b64d (b64e x) = Ok x, no '.' in b64e x,
   splitting a.b.c, the fixed-width R||S codec.
   Key sources: a key, a key set (kid absent: the header carries the chosen
   key's kid), a callable (= its result); rfc7797 b64=false compact and
   flattened JSON; and corollaries with the Gallina JSON model in place of the
   JSON hypothesis. *)
From Coq Require Import Lia.
From Model Require Import Json.
From Model Require Import Jws JwsJson.
From Gen Require Import Tables.
From Proofs Require Import B64Proofs IntCodecProofs JsonProofs JwsProofs C03Proofs JwsJsonProofs.
Open Scope N_scope.

Section C03.
  Variable json_loads : bytes -> res pv.
  Variable json_dumps : pv -> bytes.
  Variable mac : string -> N -> bytes -> res bytes.
  Variable pk_sign : jws_alg_row -> N -> bytes -> res bytes.
  Variable pk_verify : jws_alg_row -> N -> bytes -> bytes -> res bool.
  Variable ec_sign : jws_alg_row -> N -> bytes -> res (Z * Z).
  Variable ec_verify : jws_alg_row -> N -> bytes -> Z -> Z -> res bool.
  Variable choose : list key -> option key.
  Hypothesis mac_octets : forall h kid msg m, mac h kid msg = Ok m -> bytes_ok m = true.
  Hypothesis pk_correct : forall r kid msg sig,
      pk_sign r kid msg = Ok sig -> bytes_ok sig = true /\ pk_verify r kid msg sig = Ok true.
  Hypothesis ec_correct : forall r k msg rr ss,
      ec_sign r (k_id k) msg = Ok (rr, ss) ->
      (0 <= rr)%Z /\ (0 <= ss)%Z /\
      Z.to_N rr < 256 ^ N.of_nat (ec_len k) /\ Z.to_N ss < 256 ^ N.of_nat (ec_len k) /\
      ec_verify r (k_id k) msg rr ss = Ok true.
  (* the JSON contract, for the header objects [hok] admits (discharged by the
     Gallina JSON model in the *_json_model theorems below) *)
  Variable hok : list (str * pv) -> bool.
  Hypothesis json_rt : forall h, hok h = true ->
      json_loads (json_dumps (PDict h)) = Ok (PDict h) /\
      bytes_ok (json_dumps (PDict h)) = true /\ json_dumps (PDict h) <> [].

  Notation key_ok := (key_ok choose hok).
  Notation mkey_ok := (mkey_ok choose).
  Notation prot_hok := (prot_hok hok).

  (* [corresponds k k']: k' is the public form of k (same material, type, curve, use; its key_ops,
     if any, allow "verify": check_key_op k' "verify" = Ok tt).
     [key_ok rg src src' h]: whatever key (and kid) the signer's key source src resolves
     for header h, the verifier's key source src' resolves the corresponding key from the
     produced header.  A callable key source is its result (a key or a key set). *)

  (* every algorithm model except "none": what sign produces, verify accepts *)
  Theorem c03_alg_rt : forall r k k' msg sig,
    corresponds k k' -> fam_of r <> FNone -> (0 < ec_len k)%nat ->
    alg_sign mac pk_sign ec_sign r k msg = Ok sig ->
    bytes_ok sig = true /\ alg_verify mac pk_verify ec_verify r k' msg sig = Ok true.
  Proof. exact (alg_rt mac pk_sign pk_verify ec_sign ec_verify mac_octets pk_correct ec_correct). Qed.

  (* key configurations: the round trips hold whenever the signer's key allows "sign"
     (implied by the success of the signing call) and the verifier's key — same material,
     type, curve and use — allows "verify": key_ops absent or containing "verify" *)
  Theorem c03_rt_key_ops : forall (k k' : key),
    k_id k' = k_id k -> k_kty k' = k_kty k -> k_crv k' = k_crv k -> k_bits k' = k_bits k ->
    k_use k' = k_use k ->
    match k_ops k' with None => True | Some ops => str_mem (asc "verify") ops = true end ->
    corresponds k k'.
  Proof. exact corresponds_of_ops. Qed.

  (* the wrappers request exactly their own operation: a verify-only key is refused by sign,
     and verification never needs "sign" *)
  Theorem c03_alg_rt_verify_only : forall r k k' msg sig,
    corresponds k k' -> k_ops k' = Some [asc "verify"] -> fam_of r <> FNone -> (0 < ec_len k)%nat ->
    alg_sign mac pk_sign ec_sign r k msg = Ok sig ->
    alg_verify mac pk_verify ec_verify r k' msg sig = Ok true.
  Proof.
    intros r k k' msg sig C _ NN HL S.
    exact (proj2 (alg_rt mac pk_sign pk_verify ec_sign ec_verify mac_octets pk_correct ec_correct r k k' msg sig C NN HL S)).
  Qed.

  (* ---- key sources ---- *)
  Theorem c03_key_ok_one : forall rg k k' h,
    corresponds k k' -> (0 < ec_len k)%nat -> hok h = true -> key_ok rg (KOne k) (KOne k') h.
  Proof. intros; eapply key_ok_one; eassumption. Qed.

  (* key set with kid absent from the header: the header gets the chosen key's kid and the
     consumer's lookup by that kid returns the corresponding key (duplicate-free kids) *)
  Theorem c03_key_ok_set : forall rg ks ks' h,
    (forall l x, choose l = Some x -> In x l) ->
    Forall2 corresponds_kid ks ks' -> NoDup (map k_kid ks) ->
    (forall k, In k ks -> (0 < ec_len k)%nat) ->
    dget h s_kid = None -> (forall id, hok (dset h s_kid (PStr id)) = true) ->
    key_ok rg (KSet ks) (KSet ks') h.
  Proof. intros; eapply key_ok_set; eassumption. Qed.

  (* a callable key source is its result, and guess_key treats that result with the SAME
     use_random flag: signing with (a callable returning) a key set and no kid in the header
     picks a key of the set and stores its kid — it neither fails for several keys nor
     leaves the kid out for one key *)
  Theorem c03_guess_key_callable_forwards : forall ks h k okid,
    (forall l x, choose l = Some x -> In x l) -> dget h s_kid = None ->
    guess_key_sign choose (KSet ks) h = Ok (k, okid) ->
    In k ks /\ exists id, okid = Some id /\ k_kid k = Some id.
  Proof. intros ks h k okid; eapply guess_key_sign_set_random. Qed.

  Theorem c03_guess_key_set_succeeds : forall ks h alg k id,
    dget h s_kid = None -> py_getitem_str (PDict h) s_alg = Ok alg ->
    choose (pick_candidates ks alg) = Some k -> k_kid k = Some id ->
    guess_key_sign choose (KSet ks) h = Ok (k, Some id).
  Proof. intros ks h alg k id; eapply guess_key_sign_set_succeeds. Qed.

  Theorem c03_mkey_ok_one : forall rg k k' m,
    corresponds k k' -> (0 < ec_len k)%nat -> mkey_ok rg (KOne k) (KOne k') m.
  Proof. intros; eapply mkey_ok_one; eassumption. Qed.

  Theorem c03_mkey_ok_set : forall rg ks ks' m,
    (forall l x, choose l = Some x -> In x l) ->
    Forall2 corresponds_kid ks ks' -> NoDup (map k_kid ks) ->
    (forall k, In k ks -> (0 < ec_len k)%nat) ->
    dget (smember_headers m) s_kid = None ->
    mkey_ok rg (KSet ks) (KSet ks') m.
  Proof. intros; eapply mkey_ok_set; eassumption. Qed.

  (* ---- compact ---- *)
  Theorem c03_compact_rt_gen : forall h payload src src' algs tok,
    key_ok (reg15 algs) src src' h -> bytes_ok payload = true ->
    (forall r, get_alg (reg15 algs) (match dget h s_alg with Some v => v | None => PNone end) = Ok r -> fam_of r <> FNone) ->
    serialize_compact json_dumps mac pk_sign ec_sign choose h payload src algs = Ok tok ->
    exists o k okid,
      guess_key_sign choose src h = Ok (k, okid) /\
      deserialize_compact json_loads mac pk_verify ec_verify tok src' algs = Ok o /\
      co_payload o = payload /\ co_protected o = PDict (set_kid h okid).
  Proof. intros h payload src src' algs tok; eapply compact_rt_gen; eassumption. Qed.

  Theorem c03_compact_rt : forall h payload k k' algs tok,
    corresponds k k' -> (0 < ec_len k)%nat -> bytes_ok payload = true -> hok h = true ->
    (forall r, get_alg (reg15 algs) (match dget h s_alg with Some v => v | None => PNone end) = Ok r -> fam_of r <> FNone) ->
    serialize_compact json_dumps mac pk_sign ec_sign choose h payload (KOne k) algs = Ok tok ->
    exists o, deserialize_compact json_loads mac pk_verify ec_verify tok (KOne k') algs = Ok o /\
              co_payload o = payload /\ co_protected o = PDict h.
  Proof. intros h payload k k' algs tok; eapply compact_rt_rg; eassumption. Qed.

  Theorem c03_compact_rt_keyset : forall h payload ks ks' algs tok,
    (forall l x, choose l = Some x -> In x l) ->
    Forall2 corresponds_kid ks ks' -> NoDup (map k_kid ks) ->
    (forall k, In k ks -> (0 < ec_len k)%nat) ->
    dget h s_kid = None -> (forall id, hok (dset h s_kid (PStr id)) = true) ->
    bytes_ok payload = true ->
    (forall r, get_alg (reg15 algs) (match dget h s_alg with Some v => v | None => PNone end) = Ok r -> fam_of r <> FNone) ->
    serialize_compact json_dumps mac pk_sign ec_sign choose h payload (KSet ks) algs = Ok tok ->
    exists o k id,
      In k ks /\ k_kid k = Some id /\
      deserialize_compact json_loads mac pk_verify ec_verify tok (KSet ks') algs = Ok o /\
      co_payload o = payload /\ co_protected o = PDict (dset h s_kid (PStr id)).
  Proof. intros h payload ks ks' algs tok; eapply compact_rt_keyset; eassumption. Qed.

  (* ---- JSON ---- *)
  Theorem c03_flat_rt_gen : forall m payload src src' algs v,
    mkey_ok (reg15 algs) src src' m -> prot_hok m -> bytes_ok payload = true ->
    (forall r, get_alg (reg15 algs) (match dget (smember_headers m) s_alg with Some v => v | None => PNone end) = Ok r -> fam_of r <> FNone) ->
    sign_flattened_json json_dumps mac pk_sign ec_sign choose m payload (reg15 algs) src = Ok v ->
    exists o k okid,
      guess_key_sign choose src (smember_headers m) = Ok (k, okid) /\
      deserialize_json json_loads mac pk_verify ec_verify v src' algs = Ok o /\
      jo_payload o = payload /\ jo_members o = [smember_member (smember_set_kid m okid)].
  Proof. intros m payload src src' algs v; eapply flat_rt_gen; eassumption. Qed.

  Theorem c03_flat_rt : forall m payload k k' algs v,
    corresponds k k' -> (0 < ec_len k)%nat -> bytes_ok payload = true -> prot_hok m ->
    (forall r, get_alg (reg15 algs) (match dget (smember_headers m) s_alg with Some v => v | None => PNone end) = Ok r -> fam_of r <> FNone) ->
    sign_flattened_json json_dumps mac pk_sign ec_sign choose m payload (reg15 algs) (KOne k) = Ok v ->
    exists o, deserialize_json json_loads mac pk_verify ec_verify v (KOne k') algs = Ok o /\
              jo_payload o = payload /\ jo_members o = [smember_member m].
  Proof. intros m payload k k' algs v; eapply flat_rt_rg; eassumption. Qed.

  (* general JSON with n >= 1 members, any key sources *)
  Theorem c03_general_rt_gen : forall ms payload src src' algs v,
    bytes_ok payload = true -> ms <> [] ->
    (forall m, In m ms -> mkey_ok (reg15 algs) src src' m /\ prot_hok m /\ forall r,
        get_alg (reg15 algs) (match dget (smember_headers m) s_alg with Some v => v | None => PNone end) = Ok r -> fam_of r <> FNone) ->
    sign_general_json json_dumps mac pk_sign ec_sign choose ms payload (reg15 algs) src = Ok v ->
    exists o, deserialize_json json_loads mac pk_verify ec_verify v src' algs = Ok o /\
              jo_payload o = payload /\
              Forall2 (fun m m' => exists k okid, guess_key_sign choose src (smember_headers m) = Ok (k, okid) /\
                                                  m' = smember_member (smember_set_kid m okid)) ms (jo_members o).
  Proof. intros ms payload src src' algs v; eapply general_rt_gen; eassumption. Qed.

  Theorem c03_general_rt : forall ms payload k k' algs v,
    corresponds k k' -> (0 < ec_len k)%nat -> bytes_ok payload = true -> ms <> [] ->
    (forall m, In m ms -> prot_hok m /\ forall r,
        get_alg (reg15 algs) (match dget (smember_headers m) s_alg with Some v => v | None => PNone end) = Ok r -> fam_of r <> FNone) ->
    sign_general_json json_dumps mac pk_sign ec_sign choose ms payload (reg15 algs) (KOne k) = Ok v ->
    exists o, deserialize_json json_loads mac pk_verify ec_verify v (KOne k') algs = Ok o /\
              jo_payload o = payload /\ jo_members o = map smember_member ms.
  Proof. intros ms payload k k' algs v; eapply general_rt_rg; eassumption. Qed.

  (* ---- rfc7797, b64 = false ---- *)
  (* compact: attached iff the payload matches ^[a-zA-Z0-9-_~]+$ (re.match: one trailing
     newline allowed), otherwise detached (also when it is not UTF-8, with fix 8951e5f =
     [lenient]) and verified with the payload argument *)
  Theorem c03_7797_rt : forall lenient h payload src src' algs tok,
    key_ok (reg97 algs) src src' h -> bytes_ok payload = true ->
    (exists b, dget h s_b64 = Some b /\ b <> PBool true) ->
    (forall okid, dget (set_kid h okid) s_b64 = dget h s_b64) ->
    (forall r, get_alg (reg97 algs) (match dget h s_alg with Some v => v | None => PNone end) = Ok r -> fam_of r <> FNone) ->
    serialize_compact97 json_dumps mac pk_sign ec_sign choose lenient h payload src algs = Ok tok ->
    exists k okid hseg sseg,
      guess_key_sign choose src h = Ok (k, okid) /\
      tok = hseg ++ 46 :: (if urlsafe_re payload then payload else []) ++ 46 :: sseg /\
      no_dot hseg = true /\ no_dot sseg = true /\
      exists o,
        deserialize_compact97 json_loads mac pk_verify ec_verify tok src'
          (if urlsafe_re payload then None else Some payload) algs = Ok o /\
        co_payload o = payload /\ co_protected o = PDict (set_kid h okid).
  Proof. intros lenient h payload src src' algs tok; eapply compact97_rt_gen; eassumption. Qed.

  (* flattened JSON with b64 = false (the model of the code with fix01, or before it) *)
  Theorem c03_7797_json_rt : forall fixed m payload src src' algs v,
    mkey_ok (reg97 algs) src src' m -> prot_hok m ->
    (exists b, dget (smember_headers m) s_b64 = Some b /\ b <> PBool true) ->
    (forall okid, dget (smember_headers (smember_set_kid m okid)) s_b64 = dget (smember_headers m) s_b64) ->
    (forall r, get_alg (reg97 algs) (match dget (smember_headers m) s_alg with Some v => v | None => PNone end) = Ok r -> fam_of r <> FNone) ->
    serialize_json97 json_dumps mac pk_sign ec_sign choose fixed m payload src algs = Ok v ->
    exists o k okid,
      guess_key_sign choose src (smember_headers m) = Ok (k, okid) /\
      deserialize_json97 json_loads mac pk_verify ec_verify fixed v src' algs = Ok o /\
      jo_payload o = payload /\ jo_members o = [smember_member (smember_set_kid m okid)].
  Proof. intros fixed m payload src src' algs v; eapply json97_rt_gen; eassumption. Qed.
End C03.

(* the regular expression as a predicate: a matching payload has no '.' *)
Theorem c03_urlsafe_no_dot : forall l, urlsafe_re l = true -> no_dot l = true.
Proof. exact urlsafe_no_dot. Qed.

(* ---- no JSON hypothesis left: json.dumps / json.loads are the Gallina JSON model ---- *)
Section C03Json.
  Variable mac : string -> N -> bytes -> res bytes.
  Variable pk_sign : jws_alg_row -> N -> bytes -> res bytes.
  Variable pk_verify : jws_alg_row -> N -> bytes -> bytes -> res bool.
  Variable ec_sign : jws_alg_row -> N -> bytes -> res (Z * Z).
  Variable ec_verify : jws_alg_row -> N -> bytes -> Z -> Z -> res bool.
  Variable choose : list key -> option key.
  Hypothesis mac_octets : forall h kid msg m, mac h kid msg = Ok m -> bytes_ok m = true.
  Hypothesis pk_correct : forall r kid msg sig,
      pk_sign r kid msg = Ok sig -> bytes_ok sig = true /\ pk_verify r kid msg sig = Ok true.
  Hypothesis ec_correct : forall r k msg rr ss,
      ec_sign r (k_id k) msg = Ok (rr, ss) ->
      (0 <= rr)%Z /\ (0 <= ss)%Z /\
      Z.to_N rr < 256 ^ N.of_nat (ec_len k) /\ Z.to_N ss < 256 ^ N.of_nat (ec_len k) /\
      ec_verify r (k_id k) msg rr ss = Ok true.

  Theorem c03_compact_rt_json_model : forall h payload k k' algs tok,
    corresponds k k' -> (0 < ec_len k)%nat -> bytes_ok payload = true -> json_ok (PDict h) = true ->
    (forall r, get_alg (reg15 algs) (match dget h s_alg with Some v => v | None => PNone end) = Ok r -> fam_of r <> FNone) ->
    serialize_compact g_dumps mac pk_sign ec_sign choose h payload (KOne k) algs = Ok tok ->
    exists o, deserialize_compact g_loads mac pk_verify ec_verify tok (KOne k') algs = Ok o /\
              co_payload o = payload /\ co_protected o = PDict h.
  Proof. intros h payload k k' algs tok; eapply compact_rt_json_model; eassumption. Qed.

  Theorem c03_compact_rt_keyset_json_model : forall h payload ks ks' algs tok,
    (forall l x, choose l = Some x -> In x l) ->
    Forall2 corresponds_kid ks ks' -> NoDup (map k_kid ks) ->
    (forall k, In k ks -> (0 < ec_len k)%nat) ->
    (forall k id, In k ks -> k_kid k = Some id -> str_ok id = true) ->
    dget h s_kid = None -> json_ok (PDict h) = true -> bytes_ok payload = true ->
    (forall r, get_alg (reg15 algs) (match dget h s_alg with Some v => v | None => PNone end) = Ok r -> fam_of r <> FNone) ->
    serialize_compact g_dumps mac pk_sign ec_sign choose h payload (KSet ks) algs = Ok tok ->
    exists o k id,
      In k ks /\ k_kid k = Some id /\
      deserialize_compact g_loads mac pk_verify ec_verify tok (KSet ks') algs = Ok o /\
      co_payload o = payload /\ co_protected o = PDict (dset h s_kid (PStr id)).
  Proof. intros h payload ks ks' algs tok; eapply compact_rt_keyset_json_model; eassumption. Qed.

  Theorem c03_flat_rt_json_model : forall m payload k k' algs v,
    corresponds k k' -> (0 < ec_len k)%nat -> bytes_ok payload = true ->
    match sm_protected m with Some d => json_ok (PDict d) = true | None => True end ->
    (forall r, get_alg (reg15 algs) (match dget (smember_headers m) s_alg with Some v => v | None => PNone end) = Ok r -> fam_of r <> FNone) ->
    sign_flattened_json g_dumps mac pk_sign ec_sign choose m payload (reg15 algs) (KOne k) = Ok v ->
    exists o, deserialize_json g_loads mac pk_verify ec_verify v (KOne k') algs = Ok o /\
              jo_payload o = payload /\ jo_members o = [smember_member m].
  Proof. intros m payload k k' algs v; eapply flat_rt_json_model; eassumption. Qed.
End C03Json.

(* detaching leaves the header and signature segments untouched *)
Theorem c03_detach_compact : forall h p s,
  no_dot h = true -> no_dot p = true -> no_dot s = true ->
  detach_compact (h ++ 46 :: p ++ 46 :: s) = Ok (h ++ 46 :: 46 :: s).
Proof. exact detach_compact_segments. Qed.

(* ... for EVERY token with three segments (whatever the payload segment is, e.g. a text
   that also occurs inside the header or signature segment): segment-wise *)
Theorem c03_detach_compact_split : forall tok h p s,
  split_dot tok = [h; p; s] ->
  exists d, detach_compact tok = Ok d /\ split_dot d = [h; []; s] /\ d = h ++ 46 :: 46 :: s.
Proof. exact detach_compact_split. Qed.

Example c03_detach_collision :
  (* payload = header JSON: BASE64URL(payload) is the header segment itself *)
  detach_compact (asc "eyJhbGciOiJIUzI1NiJ9.eyJhbGciOiJIUzI1NiJ9.c2ln") = Ok (asc "eyJhbGciOiJIUzI1NiJ9..c2ln").
Proof. vm_compute. reflexivity. Qed.

Theorem c03_detach_json : forall v,
  match v, detach_json v with
  | JFlat _ sg, JFlat p' sg' => p' = None /\ sg' = sg
  | JGen _ sgs, JGen p' sgs' => p' = None /\ sgs' = sgs
  | _, _ => False
  end.
Proof. exact detach_json_untouched. Qed.

(* R||S: for every r, s in range (leading zero octets included) and every width *)
Theorem c03_ec_rs_roundtrip : forall r s bits,
  let L := N.to_nat ((bits + 7) / 8) in
  (0 < L)%nat -> (0 <= r)%Z -> (0 <= s)%Z ->
  Z.to_N r < 256 ^ N.of_nat L -> Z.to_N s < 256 ^ N.of_nat L ->
  exists a b, encode_int r bits = Ok a /\ encode_int s bits = Ok b /\
    length (a ++ b) = (2 * L)%nat /\
    decode_int (firstn L (a ++ b)) = Ok r /\ decode_int (skipn L (a ++ b)) = Ok s.
Proof. exact rs_roundtrip. Qed.

(* the curve sizes in use give L = 32, 48, 66 *)
Example c03_curve_lengths :
  map (fun c => N.to_nat ((cv_bits c + 7) / 8)) ec_curves = [32; 48; 66; 32]%nat.
Proof. vm_compute. reflexivity. Qed.

(* "none" is the one algorithm that signs but never verifies (excluded above) *)
Example c03_none_excluded :
  forall r, find_alg (asc "none") = Some r -> fam_of r = FNone.
Proof. intros r H. vm_compute in H. inversion H. reflexivity. Qed.

(* non-vacuity of the round trip: a world with a MAC oracle *)
Definition x_dumps (v : pv) : bytes := asc "{""alg"":""HS256""}".
Definition x_loads (b : bytes) : res pv := Ok (PDict [(s_alg, PStr (asc "HS256"))]).
Definition x_mac (h : string) (kid : N) (m : bytes) : res bytes := Ok [1; 2; 3; 4].
Definition x_key : key :=
  {| k_id := 1; k_kid := None; k_kty := "oct"; k_crv := ""; k_bits := 8; k_use := None;
     k_ops := None; k_alg := None; k_private := true |}.
Example c03_compact_nonvacuous :
  exists tok, serialize_compact x_dumps x_mac (fun _ _ _ => Err EOracleMiss) (fun _ _ _ => Err EOracleMiss)
                (fun _ => None) [(s_alg, PStr (asc "HS256"))] (asc "hi") (KOne x_key) None = Ok tok /\
              corresponds x_key x_key /\ (0 < ec_len x_key)%nat.
Proof. eexists. split; [vm_compute; reflexivity|]. split; [repeat split|vm_compute; lia]. Qed.

Print Assumptions c03_alg_rt.
Print Assumptions c03_rt_key_ops.
Print Assumptions c03_alg_rt_verify_only.
Print Assumptions c03_guess_key_callable_forwards.
Print Assumptions c03_key_ok_set.
Print Assumptions c03_mkey_ok_set.
Print Assumptions c03_compact_rt_gen.
Print Assumptions c03_compact_rt_keyset.
Print Assumptions c03_flat_rt_gen.
Print Assumptions c03_general_rt_gen.
Print Assumptions c03_7797_rt.
Print Assumptions c03_7797_json_rt.
Print Assumptions c03_urlsafe_no_dot.
Print Assumptions c03_compact_rt_json_model.
Print Assumptions c03_compact_rt_keyset_json_model.
Print Assumptions c03_flat_rt_json_model.
Print Assumptions c03_compact_rt.
Print Assumptions c03_flat_rt.
Print Assumptions c03_general_rt.
Print Assumptions c03_detach_compact.
Print Assumptions c03_detach_compact_split.
Print Assumptions c03_detach_json.
Print Assumptions c03_ec_rs_roundtrip.
