(* ComposeJws — composition layer, JWS side.  Only statements; proofs are in
   proofs/ComposeJwsEq.v, ComposeJwsC06.v, ComposeJwsPipe.v, ComposeJwsEntry.v,
   ComposeJwsJwt.v; translations in model/ComposeDefs.v.

   The per-property models C05 / C06 / C09 / C14 / C15 model functions of joserfc
   that the pipeline model model/Jws.v (subject of C01, C03, C07) models again.
   Part 1 proves the copies equal (up to the stated translation of the
   representation), Part 2 turns the per-property characterisations into
   theorems about the entry points of the pipeline model, Part 3 discharges
   C09's transport contract for the JWS transport from C03's round trip.

   Where two models differ, the statement carries the exact side condition and a
   [*_differs] theorem exhibits the excluded input (what /repo does on it is
   recorded in the comment). *)
From Coq Require Import String List NArith ZArith Bool Lia.
From Model Require Import Base PyVal TableTypes ComposeDefs.
From Model Require Import Jws.
From Model Require Json JwsJson C05Model C14KeySet C14Spec C06Model C06Spec C15Registry C15Spec C15Cases C09Jwt C09Spec.
From Gen Require Import Tables.
From Proofs Require C01Proofs C03Proofs.
From Proofs Require Import ComposeJwsEq ComposeJwsC06 ComposeJwsPipe ComposeJwsEntry ComposeJwsJwt.
Import ListNotations.
Open Scope N_scope.

(* ================================================================== *)
(* Part 1 — the duplicate models are equal                              *)
(* ================================================================== *)

(* ---- registry.check_header : Jws.v vs C15Registry.v ---- *)
(* the three helpers, for every header dict (and every registry with plain validators) *)
Theorem compose_eq_header_helpers : forall reg h,
  Jws.check_crit_header h = C15Registry.check_crit_header h /\
  Jws.check_supported_header reg h = C15Registry.check_supported_header reg h /\
  (plain_reg reg = true ->
   C15Registry.validate_registry_header reg h true = Jws.validate_registry_header reg h).
Proof. exact (fun reg h => conj (check_crit_eq h) (conj (supported_eq reg h) (vrh_eq reg h))). Qed.

(* JWSRegistry.check_header of rfc7515 / rfc7797, default registry, default (strict) mode,
   whatever the allow-list *)
Theorem compose_eq_check_header_rfc7515 : forall algs h,
  Jws.check_header (reg15 algs) (PDict h) =
  C15Registry.jws_check_header (C15Registry.mk_registry jws_default_header_registry [])
                               jws_default_instance_strict h.
Proof. exact check_header_eq15. Qed.

Theorem compose_eq_check_header_rfc7797 : forall algs h,
  Jws.check_header (reg97 algs) (PDict h) =
  C15Registry.jws7797_check_header (C15Registry.mk_registry jws7797_default_header_registry [])
                                   jws_default_instance_strict h.
Proof. exact check_header_eq97. Qed.

(* = the function the C15 harness compares with /repo *)
Theorem compose_eq_check_header_run_check : forall b algs h,
  Jws.check_header {| rg_7797 := b; rg_allowed := algs |} (PDict h) =
  C15Cases.run_check (if b then C15Cases.RJws7797 else C15Cases.RJws)
                     (C15Cases.default_cfg (if b then C15Cases.RJws7797 else C15Cases.RJws)) false h.
Proof. exact check_header_eq_run. Qed.

(* C15 is about dict headers; Jws.v additionally says what a non-dict does *)
Theorem compose_check_header_nondict : forall rg v, is_dict v = false -> Jws.check_header rg v = Err EType.
Proof. exact check_header_nondict. Qed.

(* hence C15's characterisation holds for the pipeline's function *)
Theorem compose_c15_check_header_iff : forall b algs h,
  Jws.check_header (rgof b algs) (PDict h) = Ok tt <-> hdr_spec b h = true.
Proof. exact check_header_spec. Qed.

(* where the validator models differ: the in_choices kinds (caller-registered
   parameters; no header registry of /repo uses them, Jws.v has no caller registry):
   Jws.vkind_ok refuses them, C15 (like /repo's in_choices) accepts a listed value *)
Theorem compose_validators_differ :
  C15Registry.validate (VChoices ["a"%string]) (PStr (asc "a")) = Ok tt /\
  Jws.vkind_ok (VChoices ["a"%string]) (PStr (asc "a")) = false /\
  plain_reg jws_default_header_registry = true /\ plain_reg jws7797_default_header_registry = true.
Proof. exact (conj (proj1 validate_differs) (conj (proj2 validate_differs) (conj eq_refl eq_refl))). Qed.

Example compose_ex_check_header :
  Jws.check_header (reg97 None)
    (PDict [(s_alg, PStr (asc "HS256")); (s_b64, PBool false); (s_crit, PList [PStr s_b64])]) = Ok tt /\
  Jws.check_header (reg15 None) (PDict [(s_alg, PStr (asc "HS256")); (s_b64, PBool false)]) = Err EValue.
Proof. split; vm_compute; reflexivity. Qed.

(* ---- JWSRegistry.get_alg : Jws.v vs C05Model.v ---- *)
Theorem compose_eq_get_alg : forall rg name,
  Jws.get_alg rg name = C05Model.jws_get_alg C05Model.w0 (allowed_pv (rg_allowed rg)) name.
Proof. exact get_alg_eq. Qed.

(* the registry the entry points build (construct_registry / rfc7797 JWSRegistry) *)
Theorem compose_eq_registry_selection : forall k algs name,
  C05Model.jws_get_alg C05Model.w0 (C05Model.jws_entry_select C05Model.w0 k (allowed_pv algs) None) name =
  Jws.get_alg (reg15 algs) name.
Proof. exact (fun k algs name => eq_trans (select_eq k algs name) (eq_sym (get_alg_eq (reg15 algs) name))). Qed.

Theorem compose_c05_get_alg_iff : forall rg s m,
  Jws.get_alg rg (PStr s) = Ok m <->
  (C05Model.find_row ja_name jws_alg_table s = Some m /\
   In (PStr s) (C05Model.effective (allowed_list (rg_allowed rg)) jws_recommended)).
Proof. exact get_alg_iff. Qed.

Example compose_ex_get_alg :
  (exists m, Jws.get_alg (reg15 None) (PStr (asc "ES256")) = Ok m) /\
  Jws.get_alg (reg15 None) (PStr (asc "HS384")) = Err (EJose UnsupportedAlgorithmError) /\
  (exists m, Jws.get_alg (reg15 (Some [asc "HS384"])) (PStr (asc "HS384")) = Ok m).
Proof. split; [eexists; vm_compute; reflexivity|]. split; [vm_compute; reflexivity|]. eexists; vm_compute; reflexivity. Qed.

(* ---- KeySet.get_by_kid / guess_key : Jws.v vs C14KeySet.v ---- *)
Theorem compose_eq_get_by_kid : forall th ks kid,
  C14KeySet.get_by_kid (map (to14 th) ks) kid = rmap (to14 th) (Jws.get_by_kid ks kid).
Proof. exact get_by_kid_eq. Qed.

Theorem compose_eq_guess_key_compact : forall th tbl ch src h,
  C14KeySet.guess_key tbl ch (C14KeySet.KFDirect (src14 th src)) (g_compact h) false =
  rmap (fun k => (to14 th k, g_compact h)) (Jws.guess_key src (PDict h)).
Proof. exact guess_key_eq_compact. Qed.

(* HeaderMember.headers(): C14 merges into an empty dict, Jws.v starts from the
   protected dict: the same for dicts with unique member names (every Python dict) *)
Theorem compose_eq_member_headers : forall prot hdr,
  keys_unique (dkeys (C14KeySet.tr prot)) = true ->
  Jws.member_headers {| m_protected := option_map PDict prot; m_header := hdr |} =
  Ok (C14KeySet.headers (g_member prot hdr)).
Proof. exact member_headers_eq. Qed.

Theorem compose_eq_guess_key_member : forall th tbl ch src prot hdr headers,
  keys_unique (dkeys (C14KeySet.tr prot)) = true ->
  Jws.member_headers {| m_protected := option_map PDict prot; m_header := hdr |} = Ok headers ->
  C14KeySet.guess_key tbl ch (C14KeySet.KFDirect (src14 th src)) (g_member prot hdr) false =
  rmap (fun k => (to14 th k, g_member prot hdr)) (Jws.guess_key src (PDict headers)).
Proof. exact guess_key_eq_member. Qed.

Example compose_ex_member_headers :
  keys_unique (dkeys (C14KeySet.tr (Some [(s_alg, PStr (asc "HS256"))]))) = true.
Proof. reflexivity. Qed.

(* producing side (use_random = True): equal when every key of the set has a kid
   (KeySet.__init__ guarantees it, c14_every_key_has_kid) and alg is a string
   (guaranteed in the pipeline: get_alg ran before); [choose] and [ch] are the same
   random.choice *)
Theorem compose_eq_guess_key_sign : forall th ch chj choose,
  (forall l, choose l = match l with [] => None | x :: r => Some (chj x r) end) ->
  (forall x r, ch (to14 th x) (map (to14 th) r) = to14 th (chj x r)) ->
  (forall x r, In (chj x r) (x :: r)) ->
  forall ks h,
  (forall k, In k ks -> k_kid k <> None) ->
  (forall a, dget h s_alg = Some a -> is_str a = true) ->
  C14KeySet.guess_key keyset_algorithm_keys ch (C14KeySet.KFDirect (C14KeySet.KSSet (map (to14 th) ks)))
                      (g_compact h) true =
  rmap (fun ko => (to14 th (fst ko), g_compact (set_kid h (snd ko))))
       (Jws.guess_key_sign choose (KSet ks) h).
Proof. exact guess_key_sign_eq. Qed.

Example compose_ex_guess_key_sign_hyps :
  let chj := fun (x : key) (_ : list key) => x in
  (forall l, hd_error l = match l with [] => None | x :: r => Some (chj x r) end) /\
  (forall th x r, (fun a _ => a) (to14 th x) (map (to14 th) r) = to14 th (chj x r)) /\
  (forall x r, In (chj x r) (x :: r)).
Proof. cbv zeta. split; [intros [|x r]; reflexivity|]. split; [reflexivity|]. intros x r; left; reflexivity. Qed.

(* the two excluded inputs:
   (a) an unhashable alg: KeySet.pick_random_key([]) raises TypeError in /repo (checked):
       C14 is right, Jws.pick_candidates is wrong there — unreachable from every entry
       point of Jws.v, where get_alg has refused a non-str alg before;
   (b) a key without kid inside a key set: impossible in /repo (KeySet.__init__ calls
       ensure_kid); C14 falls back on the thumbprint like guess_key's second ensure_kid,
       Jws.v records the broken invariant as AssertionError *)
Theorem compose_pick_candidates_differs : forall th ks,
  C14KeySet.pick_candidates keyset_algorithm_keys (map (to14 th) ks) (PList []) = Err EType /\
  Jws.pick_candidates ks (PList []) = ks.
Proof. exact pick_candidates_differs. Qed.

Theorem compose_guess_key_sign_differs : forall th,
  let k := {| k_id := 1; k_kid := None; k_kty := "oct"; k_crv := ""; k_bits := 0;
              k_use := None; k_ops := None; k_alg := None; k_private := true |} in
  let h := [(s_alg, PStr (asc "HS256"))] in
  Jws.guess_key_sign (fun l => hd_error l) (KSet [k]) h = Err EAssert /\
  exists g, C14KeySet.guess_key keyset_algorithm_keys (fun x _ => x)
              (C14KeySet.KFDirect (C14KeySet.KSSet [to14 th k])) (g_compact h) true
            = Ok (C14KeySet.ensure_kid (to14 th k), g).
Proof. exact guess_key_sign_differs. Qed.

(* ---- key gates : Jws.v vs C06Model.v ---- *)
Theorem compose_eq_check_use : forall k k6, to06 k = Some k6 ->
  Jws.check_use k = C06Model.check_use "sig" k6.
Proof. exact check_use_eq. Qed.

Theorem compose_eq_check_alg : forall k k6 a, to06 k = Some k6 ->
  Jws.check_alg k (PStr (asc a)) = C06Model.check_alg a k6.
Proof. exact check_alg_eq. Qed.

Theorem compose_eq_check_key_op : forall k k6 op, to06 k = Some k6 -> C06Model.find_op op <> None ->
  Jws.check_key_op k op = C06Model.check_key_op op k6.
Proof. exact check_key_op_eq. Qed.

Theorem compose_eq_check_key_type : forall r k k6, to06 k = Some k6 ->
  Jws.check_key_type r k = C06Model.jws_check_key_type r k6.
Proof. exact check_key_type_eq. Qed.

(* [to06] is defined exactly on the four key types; any other one is refused by
   check_key_type against every algorithm of /repo *)
Theorem compose_to06_domain : forall k,
  ((exists k6, to06 k = Some k6) <-> In (k_kty k) ["oct"; "RSA"; "EC"; "OKP"]%string) /\
  (forall r, In r jws_alg_table -> to06 k = None -> Jws.check_key_type r k = Err (EJose InvalidKeyTypeError)).
Proof. exact (fun k => conj (to06_some k) (fun r I T => check_key_type_none r k I T)). Qed.

(* ECAlgModel._check_key *)
Theorem compose_eq_ec_gate : forall r k k6, to06 k = Some k6 ->
  (C06Model.k_kty k6 = C06Model.KOkp -> k_crv k <> ja_curve r) ->
  jws_ec_gate r k = C06Model.ec_check_key r k6.
Proof. exact ec_gate_eq. Qed.

(* the side condition holds for every importable key and every algorithm of /repo *)
Theorem compose_ec_gate_side_condition : forall r k k6,
  to06 k = Some k6 -> C06Spec.key_wf k6 -> In r jws_alg_table ->
  C06Model.k_kty k6 = C06Model.KOkp -> k_crv k <> ja_curve r.
Proof. exact ec_gate_wf. Qed.

(* the excluded input: an OKP key object claiming the curve name "P-256" (no such key can be
   imported; /repo answers ValueError for a real OKP key (checked), as both models do) *)
Theorem compose_ec_gate_differs :
  let r := {| ja_name := "ES256"; ja_family := "EC"; ja_key_type := "EC"; ja_recommended := true;
              ja_hash := "SHA256"; ja_curve := "P-256"; ja_pad := "" |} in
  let k := {| k_id := 1; k_kid := None; k_kty := "OKP"; k_crv := "P-256"; k_bits := 0;
              k_use := None; k_ops := None; k_alg := None; k_private := true |} in
  exists k6, to06 k = Some k6 /\ jws_ec_gate r k = Err EValue /\ C06Model.ec_check_key r k6 = Ok tt.
Proof. exact ec_gate_differs. Qed.

Example compose_ex_to06 :
  exists k6, to06 C01Proofs.w_key = Some k6 /\ C06Model.find_op "verify" <> None /\ C06Model.find_op "sign" <> None.
Proof. eexists. split; [reflexivity|]. exact (conj (proj2 find_op_sign_verify) (proj1 find_op_sign_verify)). Qed.

(* ================================================================== *)
(* Part 2 — the characterisations, on the entry points of Jws.v         *)
(* ================================================================== *)
Section ComposePipeline.
  Variable json_loads : bytes -> res pv.
  Variable json_dumps : pv -> bytes.
  Variable mac : string -> N -> bytes -> res bytes.
  Variable pk_sign : jws_alg_row -> N -> bytes -> res bytes.
  Variable pk_verify : jws_alg_row -> N -> bytes -> bytes -> res bool.
  Variable ec_sign : jws_alg_row -> N -> bytes -> res (Z * Z).
  Variable ec_verify : jws_alg_row -> N -> bytes -> Z -> Z -> res bool.
  Variable choose : list key -> option key.
  Variable th : key -> str.

  Notation ran := (ran mac pk_verify ec_verify).
  Notation signed := (signed mac pk_sign ec_sign choose).
  Notation member_ran := (member_ran mac pk_verify ec_verify).
  Notation member_signed := (member_signed mac pk_sign ec_sign choose).
  Notation deser_compact := (deserialize_compact json_loads mac pk_verify ec_verify).
  Notation deser_json := (deserialize_json json_loads mac pk_verify ec_verify).
  Notation deser_json_rg := (deserialize_json_rg json_loads mac pk_verify ec_verify).
  Notation deser_compact_rg := (deserialize_compact_rg json_loads mac pk_verify ec_verify).
  Notation deser_compact97 := (deserialize_compact97 json_loads mac pk_verify ec_verify).
  Notation ser_compact := (serialize_compact json_dumps mac pk_sign ec_sign choose).
  Notation ser_compact_rg := (serialize_compact_rg json_dumps mac pk_sign ec_sign choose).
  Notation ser_compact97 := (serialize_compact97 json_dumps mac pk_sign ec_sign choose).
  Notation sign_flat := (sign_flattened_json json_dumps mac pk_sign ec_sign choose).
  Notation sign_general := (sign_general_json json_dumps mac pk_sign ec_sign choose).

  (* [ran rg src h msg sseg r k]: check_header rg h passed, r = get_alg rg h["alg"],
     k = guess_key src h, check_use k and check_key_type r k passed, and
     alg_verify r k msg (b64d sseg) = Ok true.
     [signed rg src h okid msg sig r k]: the same with guess_key_sign (k, kid written)
     and alg_sign r k msg = Ok sig. *)

  (* ---- every accepting / producing path is such a run ---- *)
  Theorem compose_compact_ran : forall tok src rg o,
    deser_compact_rg tok src rg = Ok o ->
    exists h r k, co_protected o = PDict h /\ ran rg src h (co_hseg o ++ 46 :: co_pseg o) (co_sseg o) r k.
  Proof. exact (compact_ran json_loads mac pk_verify ec_verify). Qed.

  Theorem compose_flat_ran : forall p sg src rg o,
    deser_json_rg (JFlat p sg) src rg = Ok o ->
    exists m h pseg sseg r k,
      jo_members o = [m] /\ member_headers m = Ok h /\ p = Some pseg /\ js_signature sg = Some sseg /\
      ran rg src h (C01Proofs.prot_seg sg ++ 46 :: pseg) sseg r k.
  Proof. exact (flat_ran json_loads mac pk_verify ec_verify). Qed.

  Theorem compose_general_ran : forall p sgs src rg o,
    deser_json_rg (JGen p sgs) src rg = Ok o ->
    sgs <> [] /\ exists pseg, p = Some pseg /\ Forall2 (member_ran rg src pseg) (jo_members o) sgs.
  Proof. exact (general_ran json_loads mac pk_verify ec_verify). Qed.

  (* rfc7797 compact: the registry class follows "b64" in the protected header *)
  Theorem compose_compact97_ran : forall tok src payload algs o,
    deser_compact97 tok src payload algs = Ok o ->
    exists h r k msg, co_protected o = PDict h /\ ran (rgof (dmem h s_b64) algs) src h msg (co_sseg o) r k.
  Proof. exact (compact97_ran json_loads mac pk_verify ec_verify). Qed.

  Theorem compose_serialize_compact_signed : forall protected payload src rg tok,
    ser_compact_rg protected payload src rg = Ok tok ->
    exists okid r k sig,
      signed rg src protected okid
             (json_b64encode json_dumps (set_kid protected okid) ++ 46 :: b64e payload) sig r k /\
      (forall algv, dget protected s_alg = Some algv -> check_alg k algv = Ok tt) /\
      tok = (json_b64encode json_dumps (set_kid protected okid) ++ 46 :: b64e payload) ++ 46 :: b64e sig.
  Proof. exact (serialize_compact_signed json_dumps mac pk_sign ec_sign choose). Qed.

  Theorem compose_sign_flat_signed : forall m payload rg src v,
    sign_flat m payload rg src = Ok v ->
    exists sg okid r k sig msg,
      v = JFlat (Some (b64e payload)) sg /\
      signed rg src (smember_headers m) okid msg sig r k /\ js_signature sg = Some (b64e sig).
  Proof. exact (sign_flat_signed json_dumps mac pk_sign ec_sign choose). Qed.

  Theorem compose_sign_general_signed : forall ms payload rg src v,
    sign_general ms payload rg src = Ok v ->
    exists sgs, v = JGen (Some (b64e payload)) sgs /\ Forall2 (member_signed rg src) ms sgs.
  Proof. exact (sign_general_signed json_dumps mac pk_sign ec_sign choose). Qed.

  Theorem compose_serialize_compact97_signed : forall lenient protected payload src algs tok,
    ser_compact97 lenient protected payload src algs = Ok tok ->
    exists okid r k sig msg, signed (rgof (dmem protected s_b64) algs) src protected okid msg sig r k.
  Proof. exact (serialize_compact97_signed json_dumps mac pk_sign ec_sign choose). Qed.

  (* ---- what a run implies: C15, C05, C14, C06 ---- *)
  Theorem compose_c15_ran : forall b algs src h msg sseg r k,
    ran (rgof b algs) src h msg sseg r k -> hdr_spec b h = true.
  Proof. exact (ran_c15 mac pk_verify ec_verify). Qed.

  Theorem compose_c15_signed : forall b algs src h okid msg sig r k,
    signed (rgof b algs) src h okid msg sig r k ->
    hdr_spec b h = true /\ (dget h s_kid = None -> hdr_spec b (set_kid h okid) = true).
  Proof.
    exact (fun b algs src h okid msg sig r k S =>
             conj (signed_c15 mac pk_sign ec_sign choose b algs src h okid msg sig r k S)
                  (fun NK => signed_c15_emitted mac pk_sign ec_sign choose b algs src h okid msg sig r k NK S)).
  Qed.

  Theorem compose_c05_ran : forall rg src h msg sseg r k,
    ran rg src h msg sseg r k ->
    exists s, dget h s_alg = Some (PStr s) /\
      C05Model.find_row ja_name jws_alg_table s = Some r /\
      In (PStr s) (C05Model.effective (allowed_list (rg_allowed rg)) jws_recommended) /\
      ja_family r <> "none"%string /\ s <> asc "none".
  Proof. exact (ran_c05 mac pk_verify ec_verify). Qed.

  Theorem compose_c05_ran_default : forall b src h msg sseg r k algs,
    algs = None \/ algs = Some [] ->
    ran (rgof b algs) src h msg sseg r k ->
    exists s, dget h s_alg = Some (PStr s) /\ In s (map asc ["HS256"; "RS256"; "ES256"]%string).
  Proof. exact (ran_c05_default mac pk_verify ec_verify). Qed.

  (* signing: "none" does sign when the caller lists it (and never verifies) *)
  Theorem compose_c05_signed : forall rg src h okid msg sig r k,
    signed rg src h okid msg sig r k ->
    exists s, dget h s_alg = Some (PStr s) /\
      C05Model.find_row ja_name jws_alg_table s = Some r /\
      In (PStr s) (C05Model.effective (allowed_list (rg_allowed rg)) jws_recommended).
  Proof. exact (signed_c05 mac pk_sign ec_sign choose). Qed.

  (* the key a verification ran with is the one C14's Spec names: the first key of the
     set with the header's kid; the single-key shortcut only when the kid is absent *)
  Theorem compose_c14_ran : forall rg ks h msg sseg r k,
    ran rg (KSet ks) h msg sseg r k ->
    In k ks /\
    C14KeySet.get_by_kid (map (to14 th) ks) (kid_of h) = Ok (to14 th k) /\
    ((kid_of h = PNone /\ map (to14 th) ks = [to14 th k]) \/
     C14Spec.first_with (map (to14 th) ks) (kid_of h) (to14 th k)) /\
    (kid_of h <> PNone -> C14Spec.first_with (map (to14 th) ks) (kid_of h) (to14 th k)) /\
    (kid_of h = PNone -> length ks = 1%nat -> ks = [k]).
  Proof. exact (ran_c14 mac pk_verify ec_verify th). Qed.

  Theorem compose_c14_signed :
    (forall l x, choose l = Some x -> In x l) ->
    forall rg ks h okid msg sig r k,
    signed rg (KSet ks) h okid msg sig r k ->
    In k ks /\
    (py_truth (kid_of h) = true ->
       okid = None /\ C14KeySet.get_by_kid (map (to14 th) ks) (kid_of h) = Ok (to14 th k) /\
       C14Spec.first_with (map (to14 th) ks) (kid_of h) (to14 th k)) /\
    (py_truth (kid_of h) = false ->
       exists id, okid = Some id /\ k_kid k = Some id /\ dget (set_kid h okid) s_kid = Some (PStr id)).
  Proof. exact (signed_c14 mac pk_sign ec_sign choose th). Qed.

  (* the key a run used is suitable in the sense of C06's Spec (through c06_jws) *)
  Theorem compose_c06_ran : forall rg src h msg sseg r k,
    ran rg src h msg sseg r k ->
    exists k6, to06 k = Some k6 /\ (C06Spec.key_wf k6 -> C06Spec.jws_suitable (ja_name r) false k6).
  Proof. exact (ran_c06 mac pk_verify ec_verify). Qed.

  Theorem compose_c06_signed : forall rg src h okid msg sig r k,
    signed rg src h okid msg sig r k ->
    exists k6, to06 k = Some k6 /\ (C06Spec.key_wf k6 -> C06Spec.jws_suitable (ja_name r) true k6).
  Proof. exact (signed_c06 mac pk_sign ec_sign choose true). Qed.

  (* the bridge used for C06: an accepting Jws.v run is an accepting C06 jws_run *)
  Theorem compose_c06_run_simulation : forall e r k k6 msg sig s,
    C06Model.jws_is_sign e = false ->
    Jws.find_alg s = Some r -> to06 k = Some k6 ->
    Jws.check_use k = Ok tt -> Jws.check_key_type r k = Ok tt ->
    alg_verify mac pk_verify ec_verify r k msg sig = Ok true ->
    exists siglen, C06Model.jws_run C06Model.prim_std e C06Model.SrcKey (ja_name r) k6 true siglen = Ok tt.
  Proof. exact (jws_run_verify_sim mac pk_verify ec_verify). Qed.

  Theorem compose_c06_run_simulation_sign : forall e r k k6 msg sig s,
    C06Model.jws_is_sign e = true ->
    Jws.find_alg s = Some r -> to06 k = Some k6 ->
    Jws.check_use k = Ok tt -> Jws.check_key_type r k = Ok tt ->
    (C06Model.jws_has_alg_gate e = true -> Jws.check_alg k (PStr s) = Ok tt) ->
    alg_sign mac pk_sign ec_sign r k msg = Ok sig ->
    C06Model.jws_run C06Model.prim_std e C06Model.SrcKey (ja_name r) k6 true 0 = Ok tt.
  Proof. exact (jws_run_sign_sim mac pk_sign ec_sign). Qed.

  (* ---- spelled out per entry point ---- *)
  Theorem compose_c15_compact : forall tok src algs o,
    deser_compact tok src algs = Ok o ->
    exists h, co_protected o = PDict h /\ C15Spec.header_ok jws_default_header_registry true h = true.
  Proof. exact (c15_compact json_loads mac pk_verify ec_verify). Qed.

  Theorem compose_c15_flat : forall p sg src algs o,
    deser_json (JFlat p sg) src algs = Ok o ->
    exists m h, jo_members o = [m] /\ member_headers m = Ok h /\
                C15Spec.header_ok jws_default_header_registry true h = true.
  Proof. exact (c15_flat json_loads mac pk_verify ec_verify). Qed.

  Theorem compose_c15_general : forall p sgs src algs o,
    deser_json (JGen p sgs) src algs = Ok o ->
    jo_members o <> [] /\
    Forall (fun m => exists h, member_headers m = Ok h /\
                               C15Spec.header_ok jws_default_header_registry true h = true) (jo_members o).
  Proof. exact (c15_general json_loads mac pk_verify ec_verify). Qed.

  Theorem compose_c15_compact97 : forall tok src payload algs o,
    deser_compact97 tok src payload algs = Ok o ->
    exists h, co_protected o = PDict h /\
      (if dmem h s_b64 then C15Spec.header_ok7797 jws7797_default_header_registry true h
       else C15Spec.header_ok jws_default_header_registry true h) = true.
  Proof. exact (c15_compact97 json_loads mac pk_verify ec_verify). Qed.

  Theorem compose_c15_serialize_compact : forall protected payload src algs tok,
    ser_compact protected payload src algs = Ok tok ->
    C15Spec.header_ok jws_default_header_registry true protected = true.
  Proof. exact (c15_serialize_compact json_dumps mac pk_sign ec_sign choose). Qed.

  Theorem compose_c15_serialize_flat : forall m payload algs src v,
    sign_flat m payload (reg15 algs) src = Ok v ->
    C15Spec.header_ok jws_default_header_registry true (smember_headers m) = true.
  Proof. exact (c15_serialize_flat json_dumps mac pk_sign ec_sign choose). Qed.

  Theorem compose_c15_serialize_general : forall ms payload algs src v,
    sign_general ms payload (reg15 algs) src = Ok v ->
    Forall (fun m => C15Spec.header_ok jws_default_header_registry true (smember_headers m) = true) ms.
  Proof. exact (c15_serialize_general json_dumps mac pk_sign ec_sign choose). Qed.

  Theorem compose_c15_serialize_compact97 : forall lenient protected payload src algs tok,
    ser_compact97 lenient protected payload src algs = Ok tok ->
    (if dmem protected s_b64 then C15Spec.header_ok7797 jws7797_default_header_registry true protected
     else C15Spec.header_ok jws_default_header_registry true protected) = true.
  Proof. exact (c15_serialize_compact97 json_dumps mac pk_sign ec_sign choose). Qed.

  Theorem compose_c05_compact : forall tok src algs o,
    deser_compact tok src algs = Ok o ->
    exists h s r, co_protected o = PDict h /\ dget h s_alg = Some (PStr s) /\
      C05Model.find_row ja_name jws_alg_table s = Some r /\
      In (PStr s) (C05Model.effective (allowed_list algs) jws_recommended) /\
      ja_family r <> "none"%string /\ s <> asc "none".
  Proof. exact (c05_compact json_loads mac pk_verify ec_verify). Qed.

  (* no list given (None or []): only the recommended literals verify *)
  Theorem compose_c05_compact_default : forall tok src algs o,
    algs = None \/ algs = Some [] ->
    deser_compact tok src algs = Ok o ->
    exists h s, co_protected o = PDict h /\ dget h s_alg = Some (PStr s) /\
      In s (map asc ["HS256"; "RS256"; "ES256"]%string).
  Proof. exact (c05_compact_default json_loads mac pk_verify ec_verify). Qed.

  (* "none" never yields Ok, whatever the allow-list *)
  Theorem compose_c05_none_compact : forall tok src algs o,
    deser_compact tok src algs = Ok o ->
    py_getitem_str (co_protected o) s_alg <> Ok (PStr (asc "none")).
  Proof. exact (c05_none_compact json_loads mac pk_verify ec_verify). Qed.

  Theorem compose_c05_serialize_compact : forall protected payload src algs tok,
    ser_compact protected payload src algs = Ok tok ->
    exists s r, dget protected s_alg = Some (PStr s) /\
      C05Model.find_row ja_name jws_alg_table s = Some r /\
      In (PStr s) (C05Model.effective (allowed_list algs) jws_recommended).
  Proof. exact (c05_serialize_compact json_dumps mac pk_sign ec_sign choose). Qed.

  Theorem compose_c14_compact : forall tok ks algs o,
    deser_compact tok (KSet ks) algs = Ok o ->
    exists h r k sig,
      co_protected o = PDict h /\ b64d (co_sseg o) = Ok sig /\
      alg_verify mac pk_verify ec_verify r k (co_hseg o ++ 46 :: co_pseg o) sig = Ok true /\
      In k ks /\
      C14KeySet.get_by_kid (map (to14 th) ks) (kid_of h) = Ok (to14 th k) /\
      ((kid_of h = PNone /\ map (to14 th) ks = [to14 th k]) \/
       C14Spec.first_with (map (to14 th) ks) (kid_of h) (to14 th k)) /\
      (kid_of h <> PNone -> C14Spec.first_with (map (to14 th) ks) (kid_of h) (to14 th k)) /\
      (kid_of h = PNone -> length ks = 1%nat -> ks = [k]).
  Proof. exact (c14_compact json_loads mac pk_verify ec_verify th). Qed.

  Theorem compose_c14_serialize_compact :
    (forall l x, choose l = Some x -> In x l) ->
    forall protected payload ks algs tok,
    ser_compact protected payload (KSet ks) algs = Ok tok ->
    exists okid k hseg sseg,
      tok = hseg ++ 46 :: b64e payload ++ 46 :: sseg /\
      hseg = json_b64encode json_dumps (set_kid protected okid) /\
      In k ks /\
      (py_truth (kid_of protected) = true ->
         okid = None /\ C14Spec.first_with (map (to14 th) ks) (kid_of protected) (to14 th k)) /\
      (py_truth (kid_of protected) = false ->
         exists id, okid = Some id /\ k_kid k = Some id /\
                    dget (set_kid protected okid) s_kid = Some (PStr id)).
  Proof. exact (c14_serialize_compact json_dumps mac pk_sign ec_sign choose th). Qed.

  Theorem compose_c06_compact : forall tok src algs o,
    deser_compact tok src algs = Ok o ->
    exists h r k sig k6,
      co_protected o = PDict h /\ guess_key src (PDict h) = Ok k /\ b64d (co_sseg o) = Ok sig /\
      alg_verify mac pk_verify ec_verify r k (co_hseg o ++ 46 :: co_pseg o) sig = Ok true /\
      to06 k = Some k6 /\ (C06Spec.key_wf k6 -> C06Spec.jws_suitable (ja_name r) false k6).
  Proof. exact (c06_compact json_loads mac pk_verify ec_verify). Qed.

  Theorem compose_c06_serialize_compact : forall protected payload src algs tok,
    ser_compact protected payload src algs = Ok tok ->
    exists okid r k k6,
      guess_key_sign choose src protected = Ok (k, okid) /\
      to06 k = Some k6 /\ (C06Spec.key_wf k6 -> C06Spec.jws_suitable (ja_name r) true k6).
  Proof. exact (c06_serialize_compact json_dumps mac pk_sign ec_sign choose). Qed.
End ComposePipeline.

(* non-vacuity: accepting instances of the consuming and producing entry points
   (the oracle world of C01 / the MAC world of ComposeJwsJwt), a key set, and a
   key that is key_wf *)
Example compose_ex_deserialize :
  (exists o, deserialize_compact C01Proofs.w_loads C01Proofs.w_mac C01Proofs.w_pkv C01Proofs.w_ecv
               (b64e C01Proofs.w_hdr ++ 46 :: asc "aGVsbG8" ++ 46 :: b64e C01Proofs.w_tag)
               (KOne C01Proofs.w_key) None = Ok o) /\
  (exists o, deserialize_compact C01Proofs.w_loads C01Proofs.w_mac C01Proofs.w_pkv C01Proofs.w_ecv
               (b64e C01Proofs.w_hdr ++ 46 :: asc "aGVsbG8" ++ 46 :: b64e C01Proofs.w_tag)
               (KSet [C01Proofs.w_key]) (Some []) = Ok o) /\
  (exists o, deserialize_json C01Proofs.w_loads C01Proofs.w_mac C01Proofs.w_pkv C01Proofs.w_ecv
               (JGen (Some (asc "aGVsbG8")) [C01Proofs.w_sig None; C01Proofs.w_sig None])
               (KOne C01Proofs.w_key) None = Ok o) /\
  (exists k6, to06 C01Proofs.w_key = Some k6 /\ C06Spec.key_wf k6).
Proof.
  split; [eexists; vm_compute; reflexivity|]. split; [eexists; vm_compute; reflexivity|].
  split; [eexists; vm_compute; reflexivity|].
  eexists. split; [reflexivity|].
  unfold C06Spec.key_wf, C06Spec.use_wf, C06Spec.ops_wf. cbn.
  split; [left; reflexivity|]. split; [left; reflexivity|]. split; [reflexivity|]. split; discriminate.
Qed.

Example compose_ex_serialize :
  (exists tok, serialize_compact JwsJson.g_dumps x_mac x_pks x_ecs x_choose
                 [(s_alg, PStr (asc "HS256"))] (asc "hi") (KSet [x_key (Some (asc "a"))]) None = Ok tok) /\
  (forall l x, x_choose l = Some x -> In x l) /\
  (exists v, sign_general_json JwsJson.g_dumps x_mac x_pks x_ecs x_choose
               [{| sm_protected := Some [(s_alg, PStr (asc "HS256"))]; sm_header := None |}]
               (asc "hi") (reg15 None) (KOne (x_key None)) = Ok v).
Proof.
  split; [eexists; vm_compute; reflexivity|]. split.
  - intros [|y l] x H; inversion H. left. reflexivity.
  - eexists; vm_compute; reflexivity.
Qed.

(* ================================================================== *)
(* Part 3 — C09 over the JWS transport                                  *)
(* ================================================================== *)
(* jws_tenc = serialize_compact + the header dict after the call; jws_tdec =
   deserialize_compact + .headers(), .payload; header JSON = the Gallina model *)
Section ComposeJwt.
  Variable mac : string -> N -> bytes -> res bytes.
  Variable pk_sign : jws_alg_row -> N -> bytes -> res bytes.
  Variable pk_verify : jws_alg_row -> N -> bytes -> bytes -> res bool.
  Variable ec_sign : jws_alg_row -> N -> bytes -> res (Z * Z).
  Variable ec_verify : jws_alg_row -> N -> bytes -> Z -> Z -> res bool.
  Variable choose : list key -> option key.
  Hypothesis mac_octets : forall h kid msg m, mac h kid msg = Ok m -> bytes_ok m = true.
  Hypothesis pk_correct : forall r kid msg sig,
      pk_sign r kid msg = Ok sig -> bytes_ok sig = true /\ pk_verify r kid msg sig = Ok true.
  Hypothesis ec_correct : forall r k msg rr ss,
      ec_sign r (k_id k) msg = Ok (rr, ss) ->
      (0 <= rr)%Z /\ (0 <= ss)%Z /\
      Z.to_N rr < 256 ^ N.of_nat (ec_len k) /\ Z.to_N ss < 256 ^ N.of_nat (ec_len k) /\
      ec_verify r (k_id k) msg rr ss = Ok true.

  Notation tenc := (jws_tenc mac pk_sign ec_sign choose).
  Notation tdec := (jws_tdec mac pk_verify ec_verify).

  (* C09's [transport_rt], at every (w, p) the JWS round trip covers: octet payload,
     algorithm other than "none", key sources that resolve on both sides (C03's key_ok),
     a kid written by guess_key only where the header had none *)
  Theorem compose_c09_transport_rt_jws : forall src src' algs w p tok w',
    C03Proofs.key_ok choose JwsJson.g_hok (reg15 algs) src src' w ->
    (forall k id, guess_key_sign choose src w = Ok (k, Some id) -> dget w s_kid = None) ->
    bytes_ok p = true -> not_none algs w ->
    tenc src algs w p = (Ok tok, w') ->
    tdec src' algs tok = Ok (w', p) /\
    exists extra, w' = w ++ extra /\ forall k, dmem w k = true -> dmem extra k = false.
  Proof. exact (jws_transport_rt_at mac pk_sign pk_verify ec_sign ec_verify choose mac_octets pk_correct ec_correct). Qed.

  Theorem compose_c09_transport_rt_jws_key : forall k k' algs w p tok w',
    C03Proofs.corresponds k k' -> (0 < ec_len k)%nat ->
    Json.json_ok (PDict w) = true -> bytes_ok p = true -> not_none algs w ->
    tenc (KOne k) algs w p = (Ok tok, w') ->
    tdec (KOne k') algs tok = Ok (w', p) /\ w' = w.
  Proof. exact (jws_transport_rt_one mac pk_sign pk_verify ec_sign ec_verify choose mac_octets pk_correct ec_correct). Qed.

  Theorem compose_c09_transport_rt_jws_keyset : forall ks ks' algs w p tok w',
    (forall l x, choose l = Some x -> In x l) ->
    Forall2 C03Proofs.corresponds_kid ks ks' -> NoDup (map k_kid ks) ->
    (forall k, In k ks -> (0 < ec_len k)%nat) ->
    (forall k id, In k ks -> k_kid k = Some id -> Json.str_ok id = true) ->
    dget w s_kid = None -> Json.json_ok (PDict w) = true -> bytes_ok p = true -> not_none algs w ->
    tenc (KSet ks) algs w p = (Ok tok, w') ->
    tdec (KSet ks') algs tok = Ok (w', p) /\
    exists extra, w' = w ++ extra /\ forall k, dmem w k = true -> dmem extra k = false.
  Proof. exact (jws_transport_rt_set mac pk_sign pk_verify ec_sign ec_verify choose mac_octets pk_correct ec_correct). Qed.

  (* the claims codec stays C09's Section variable with C09's own contract *)
  Variable json_dumps : pv -> res bytes.
  Variable json_loads : bytes -> res pv.
  Hypothesis claims_json_rt : forall v b, C09Spec.json_ok v = true -> json_dumps v = Ok b -> json_loads b = Ok v.
  Hypothesis claims_json_octets : forall v b, json_dumps v = Ok b -> bytes_ok b = true.

  (* jwt.decode (jwt.encode h c k) over the Jws.v model: the typ-defaulted header and the
     converted claims *)
  Theorem compose_c09_rt_jws : forall k k' algs h c tok,
    C03Proofs.corresponds k k' -> (0 < ec_len k)%nat ->
    keys_unique (dkeys h) = true -> Json.json_ok (PDict (C09Jwt.typ_default h)) = true ->
    C09Spec.claims_ok c = true -> not_none algs (C09Jwt.typ_default h) ->
    C09Jwt.eo_result (C09Jwt.encode json_dumps (tenc (KOne k) algs) h c) = Ok tok ->
    exists d,
      C09Jwt.claims_pv (C09Jwt.eo_claims (C09Jwt.encode json_dumps (tenc (KOne k) algs) h c)) = Some d /\
      C09Jwt.decode json_loads (tdec (KOne k') algs) tok = Ok (C09Spec.spec_header h, PDict d).
  Proof.
    exact (jwt_rt_jws mac pk_sign pk_verify ec_sign ec_verify choose mac_octets pk_correct ec_correct
             json_dumps json_loads claims_json_rt claims_json_octets).
  Qed.

  (* any key source (key set: the chosen key's kid follows the header) *)
  Theorem compose_c09_rt_jws_gen : forall src src' algs h c tok,
    keys_unique (dkeys h) = true -> C09Spec.claims_ok c = true ->
    C03Proofs.key_ok choose JwsJson.g_hok (reg15 algs) src src' (C09Jwt.typ_default h) ->
    (forall k id, guess_key_sign choose src (C09Jwt.typ_default h) = Ok (k, Some id) ->
                  dget (C09Jwt.typ_default h) s_kid = None) ->
    not_none algs (C09Jwt.typ_default h) ->
    C09Jwt.eo_result (C09Jwt.encode json_dumps (tenc src algs) h c) = Ok tok ->
    exists d extra,
      C09Jwt.claims_pv (C09Jwt.eo_claims (C09Jwt.encode json_dumps (tenc src algs) h c)) = Some d /\
      C09Jwt.decode json_loads (tdec src' algs) tok = Ok (C09Spec.spec_header h ++ extra, PDict d) /\
      (forall k, dmem (C09Spec.spec_header h) k = true -> dmem extra k = false).
  Proof.
    exact (jwt_rt_jws_gen mac pk_sign pk_verify ec_sign ec_verify choose mac_octets pk_correct ec_correct
             json_dumps json_loads claims_json_rt claims_json_octets).
  Qed.
End ComposeJwt.

(* C09's Hypothesis transport_rt quantifies over ALL (w, p); for the JWS transport
   that is false, so c09_rt speaks about JWS transports only on the inputs above:
   (a) alg "none" allowed by the caller: encode succeeds, decode raises
       BadSignatureError (/repo: jwt.encode({"alg":"none"},..,algorithms=["none"]) then
       jwt.decode -> BadSignatureError, checked);
   (b) a falsy kid ("") in the header with a key set: guess_key overwrites it in place,
       the dict afterwards is not "w followed by new members" (/repo: decoded header
       {'typ','alg','kid':'a'} for header {"alg","kid":""}, checked) *)
Theorem compose_c09_transport_rt_unrestricted_refuted :
  (let w := [(asc "typ", PStr (asc "JWT")); (s_alg, PStr (asc "none"))] in
   let algs := Some [asc "none"] in
   exists tok w',
     jws_tenc x_mac x_pks x_ecs x_choose (KOne (x_key None)) algs w (asc "{}") = (Ok tok, w') /\
     jws_tdec x_mac x_pkv x_ecv (KOne (x_key None)) algs tok = Err (EJose BadSignatureError)) /\
  (let w := [(asc "typ", PStr (asc "JWT")); (s_alg, PStr (asc "HS256")); (s_kid, PStr [])] in
   let ks := [x_key (Some (asc "a"))] in
   exists tok,
     jws_tenc x_mac x_pks x_ecs x_choose (KSet ks) None w (asc "{}") =
       (Ok tok, [(asc "typ", PStr (asc "JWT")); (s_alg, PStr (asc "HS256")); (s_kid, PStr (asc "a"))]) /\
     forall extra, [(asc "typ", PStr (asc "JWT")); (s_alg, PStr (asc "HS256")); (s_kid, PStr (asc "a"))]
                   <> w ++ extra) /\
  (* the witnesses live in a world that meets the signature contracts *)
  ((forall h kid msg m, x_mac h kid msg = Ok m -> bytes_ok m = true) /\
   (forall r kid msg sig, x_pks r kid msg = Ok sig -> bytes_ok sig = true /\ x_pkv r kid msg sig = Ok true) /\
   (forall r k msg rr ss, x_ecs r (k_id k) msg = Ok (rr, ss) ->
      (0 <= rr)%Z /\ (0 <= ss)%Z /\
      Z.to_N rr < 256 ^ N.of_nat (ec_len k) /\ Z.to_N ss < 256 ^ N.of_nat (ec_len k) /\
      x_ecv r (k_id k) msg rr ss = Ok true)).
Proof. exact (conj transport_rt_fails_none (conj transport_rt_fails_falsy_kid x_contracts)). Qed.

(* non-vacuity of compose_c09_rt_jws: every hypothesis met, encode succeeds, decode
   returns the typ-defaulted header and the claims *)
Example compose_ex_c09_rt :
  let h := [(s_alg, PStr (asc "HS256"))] in
  exists tok,
    C09Jwt.eo_result (C09Jwt.encode x_dumps (jws_tenc x_mac x_pks x_ecs x_choose (KOne (x_key None)) None) h
                        [(asc "sub", C09Jwt.CV (PStr (asc "a")))]) = Ok tok /\
    C03Proofs.corresponds (x_key None) (x_key None) /\ (0 < ec_len (x_key None))%nat /\
    keys_unique (dkeys h) = true /\ Json.json_ok (PDict (C09Jwt.typ_default h)) = true /\
    C09Jwt.decode JwsJson.g_loads (jws_tdec x_mac x_pkv x_ecv (KOne (x_key None)) None) tok =
      Ok ([(asc "typ", PStr (asc "JWT")); (s_alg, PStr (asc "HS256"))], PDict [(asc "sub", PStr (asc "a"))]).
Proof. exact jwt_rt_instance. Qed.

Print Assumptions compose_eq_header_helpers.
Print Assumptions compose_eq_check_header_rfc7515.
Print Assumptions compose_eq_check_header_rfc7797.
Print Assumptions compose_eq_check_header_run_check.
Print Assumptions compose_check_header_nondict.
Print Assumptions compose_c15_check_header_iff.
Print Assumptions compose_validators_differ.
Print Assumptions compose_eq_get_alg.
Print Assumptions compose_eq_registry_selection.
Print Assumptions compose_c05_get_alg_iff.
Print Assumptions compose_eq_get_by_kid.
Print Assumptions compose_eq_guess_key_compact.
Print Assumptions compose_eq_member_headers.
Print Assumptions compose_eq_guess_key_member.
Print Assumptions compose_eq_guess_key_sign.
Print Assumptions compose_pick_candidates_differs.
Print Assumptions compose_guess_key_sign_differs.
Print Assumptions compose_eq_check_use.
Print Assumptions compose_eq_check_alg.
Print Assumptions compose_eq_check_key_op.
Print Assumptions compose_eq_check_key_type.
Print Assumptions compose_to06_domain.
Print Assumptions compose_eq_ec_gate.
Print Assumptions compose_ec_gate_side_condition.
Print Assumptions compose_ec_gate_differs.
Print Assumptions compose_compact_ran.
Print Assumptions compose_flat_ran.
Print Assumptions compose_general_ran.
Print Assumptions compose_compact97_ran.
Print Assumptions compose_serialize_compact_signed.
Print Assumptions compose_sign_flat_signed.
Print Assumptions compose_sign_general_signed.
Print Assumptions compose_serialize_compact97_signed.
Print Assumptions compose_c15_ran.
Print Assumptions compose_c15_signed.
Print Assumptions compose_c05_ran.
Print Assumptions compose_c05_ran_default.
Print Assumptions compose_c05_signed.
Print Assumptions compose_c14_ran.
Print Assumptions compose_c14_signed.
Print Assumptions compose_c06_ran.
Print Assumptions compose_c06_signed.
Print Assumptions compose_c06_run_simulation.
Print Assumptions compose_c06_run_simulation_sign.
Print Assumptions compose_c15_compact.
Print Assumptions compose_c15_flat.
Print Assumptions compose_c15_general.
Print Assumptions compose_c15_compact97.
Print Assumptions compose_c15_serialize_compact.
Print Assumptions compose_c15_serialize_flat.
Print Assumptions compose_c15_serialize_general.
Print Assumptions compose_c15_serialize_compact97.
Print Assumptions compose_c05_compact.
Print Assumptions compose_c05_compact_default.
Print Assumptions compose_c05_none_compact.
Print Assumptions compose_c05_serialize_compact.
Print Assumptions compose_c14_compact.
Print Assumptions compose_c14_serialize_compact.
Print Assumptions compose_c06_compact.
Print Assumptions compose_c06_serialize_compact.
Print Assumptions compose_c09_transport_rt_jws.
Print Assumptions compose_c09_transport_rt_jws_key.
Print Assumptions compose_c09_transport_rt_jws_keyset.
Print Assumptions compose_c09_rt_jws.
Print Assumptions compose_c09_rt_jws_gen.
Print Assumptions compose_c09_transport_rt_unrestricted_refuted.

(* ================================================================== *)
(* Part 4 — end to end: jwt.decode over the JWS pipeline                 *)
(* ================================================================== *)
From Proofs Require ComposeJwsSound.

Section ComposeJwtSound.
  Variable mac : string -> N -> bytes -> res bytes.
  Variable pk_verify : jws_alg_row -> N -> bytes -> bytes -> res bool.
  Variable ec_verify : jws_alg_row -> N -> bytes -> Z -> Z -> res bool.
  Variable json_loads : bytes -> res pv.
  Notation tdec := (jws_tdec mac pk_verify ec_verify).
  Notation accepted := (ComposeJwsSound.jws_accepted mac pk_verify ec_verify).

  (* [jws_accepted src algs tok h payload]: tok = hseg.pseg.sseg, h is the JSON object of the
     protected segment (wire header), payload = b64d pseg, h satisfies C15's spec, its alg is a
     registered name of the effective allow-list and not "none" (C05), the signature verified
     over the received hseg.pseg with the key guess_key resolves, and that key is suitable in
     the sense of C06 *)
  Theorem compose_jwt_decode_jws_sound : forall src algs tok h v,
    C09Jwt.decode json_loads (tdec src algs) tok = Ok (h, v) ->
    is_dict v = true /\ ComposeJwsSound.jws_wire_header tok = Some h /\
    exists payload, accepted src algs tok h payload /\ json_loads payload = Ok v.
  Proof. exact (ComposeJwsSound.jwt_decode_jws_sound mac pk_verify ec_verify json_loads). Qed.

  (* C09's wire-header contract (c09_decode_header_is_wire_header), discharged for the JWS
     transport: no header member (no kid) can appear that the token does not carry *)
  Theorem compose_c09_wire_header_jws : forall src algs tok h p,
    tdec src algs tok = Ok (h, p) -> ComposeJwsSound.jws_wire_header tok = Some h.
  Proof. exact (ComposeJwsSound.jws_tdec_wire_header mac pk_verify ec_verify). Qed.

  (* C09's forged-token contract (c09_forged_token_never_decodes): what the pipeline refuses,
     jwt.decode refuses with the pipeline's error *)
  Theorem compose_jwt_decode_jws_forged : forall src algs tok e,
    deserialize_compact JwsJson.g_loads mac pk_verify ec_verify tok src algs = Err e ->
    C09Jwt.decode json_loads (tdec src algs) tok = Err e.
  Proof. exact (ComposeJwsSound.jwt_decode_jws_forged mac pk_verify ec_verify json_loads). Qed.

  (* c15_validate_compact_checks_header on the pipeline's validate_compact: a verdict (True or
     False) is returned only for a header satisfying the spec *)
  Theorem compose_c15_validate_compact : forall o src b algs verdict,
    validate_compact mac pk_verify ec_verify o src (rgof b algs) = Ok verdict ->
    exists h, co_protected o = PDict h /\ hdr_spec b h = true.
  Proof. exact (ComposeJwsSound.validate_compact_checks_header mac pk_verify ec_verify). Qed.
End ComposeJwtSound.

(* non-vacuity: the token of compose_ex_c09_rt decodes, so the hypothesis of
   compose_jwt_decode_jws_sound is met; a token with a changed signature is refused *)
Definition compose_ex_tok : bytes :=
  Eval vm_compute in
  match C09Jwt.eo_result (C09Jwt.encode x_dumps (jws_tenc x_mac x_pks x_ecs x_choose (KOne (x_key None)) None)
                            [(s_alg, PStr (asc "HS256"))] [(asc "sub", C09Jwt.CV (PStr (asc "a")))]) with
  | Ok t => t
  | Err _ => []
  end.

Example compose_ex_jwt_decode_sound :
  C09Jwt.decode JwsJson.g_loads (jws_tdec x_mac x_pkv x_ecv (KOne (x_key None)) None) compose_ex_tok
    = Ok ([(asc "typ", PStr (asc "JWT")); (s_alg, PStr (asc "HS256"))], PDict [(asc "sub", PStr (asc "a"))]) /\
  ComposeJwsSound.jws_wire_header compose_ex_tok = Some [(asc "typ", PStr (asc "JWT")); (s_alg, PStr (asc "HS256"))] /\
  C09Jwt.decode JwsJson.g_loads (jws_tdec x_mac x_pkv x_ecv (KOne (x_key None)) None) (compose_ex_tok ++ [65])
    = Err (EJose BadSignatureError).
Proof. split; [vm_compute; reflexivity|]. split; vm_compute; reflexivity. Qed.

Print Assumptions compose_jwt_decode_jws_sound.
Print Assumptions compose_c09_wire_header_jws.
Print Assumptions compose_jwt_decode_jws_forged.
Print Assumptions compose_c15_validate_compact.
