(* C01 — JWS verification returns only authentically signed content.
   Only statements; proofs are in proofs/C01Proofs.v (and JwsProofs.v).
   Subject: the Impl model model/Jws.v of jws.deserialize_compact /
   validate_compact / deserialize_json, rfc7797.deserialize_compact /
   deserialize_json and the algorithm models of rfc7518/jws_algs.py,
   rfc8037, rfc8812 — for ALL tokens, keys, key sets, allowed-algorithm lists
   and ALL behaviours of json.loads and of the cryptographic primitives
   (Section variables).  Algorithm data: Gen.Tables.jws_alg_table. *)
From Model Require Import Json.
From Model Require Import Jws JwsJson.
From Gen Require Import Tables.
From Model Require C09Jwt.
From Proofs Require Import B64Proofs JsonProofs JwsProofs C01Proofs C03Proofs JwsJsonProofs C01JwtProofs.
From Proofs Require ComposeJwsJwt.
Open Scope N_scope.

Section C01.
  Variable json_loads : bytes -> res pv.
  Variable mac : string -> N -> bytes -> res bytes.
  Variable pk_verify : jws_alg_row -> N -> bytes -> bytes -> res bool.
  Variable ec_verify : jws_alg_row -> N -> bytes -> Z -> Z -> res bool.

  Notation verified := (verified mac pk_verify ec_verify).
  Notation sig_verified := (sig_verified mac pk_verify ec_verify).

  (* [verified rg src headers msg sseg] unfolds to: check_header passed, the
     algorithm is the one named by headers["alg"] and allowed by the registry,
     the key is the one guess_key resolves for these headers, its use is
     "sig", sseg decodes to sig and alg_verify r k msg sig = Ok true. *)

  (* compact: an object is returned only for tok = h.p.s, with the protected
     header parsed from the octets of h, the payload decoded from p, and the
     signature verified over the RECEIVED segments h "." p *)
  Theorem c01_compact_sound : forall tok src algs o,
    deserialize_compact json_loads mac pk_verify ec_verify tok src algs = Ok o ->
    tok = co_hseg o ++ 46 :: co_pseg o ++ 46 :: co_sseg o /\
    no_dot (co_hseg o) = true /\ no_dot (co_pseg o) = true /\ no_dot (co_sseg o) = true /\
    (exists raw, b64d (co_hseg o) = Ok raw /\ json_loads raw = Ok (co_protected o)) /\
    b64d (co_pseg o) = Ok (co_payload o) /\
    verified (reg15 algs) src (co_protected o) (co_hseg o ++ 46 :: co_pseg o) (co_sseg o) /\
    key_suits (reg15 algs) src (co_protected o).
  Proof. intros tok src algs o. exact (compact_sound_rg _ _ _ _ tok src (reg15 algs) o). Qed.

  (* flattened JSON *)
  Theorem c01_flat_sound : forall p sg src algs o,
    deserialize_json json_loads mac pk_verify ec_verify (JFlat p sg) src algs = Ok o ->
    exists pseg sseg m headers,
      p = Some pseg /\ b64d pseg = Ok (jo_payload o) /\ jo_pseg o = pseg /\
      jo_members o = [m] /\ jo_sigs o = [sg] /\ signature_to_member json_loads sg = Ok m /\
      member_headers m = Ok headers /\ js_signature sg = Some sseg /\
      verified (reg15 algs) src (PDict headers) (prot_seg sg ++ 46 :: pseg) sseg /\
      key_suits (reg15 algs) src (PDict headers).
  Proof. intros p sg src algs o. exact (flat_sound_rg _ _ _ _ p sg src (reg15 algs) o). Qed.

  (* general JSON: at least one signature, and EVERY signature verified over
     its own received protected segment and the received payload segment *)
  Theorem c01_general_sound : forall p sgs src algs o,
    deserialize_json json_loads mac pk_verify ec_verify (JGen p sgs) src algs = Ok o ->
    sgs <> [] /\
    exists pseg,
      p = Some pseg /\ b64d pseg = Ok (jo_payload o) /\ jo_sigs o = sgs /\
      map_res (signature_to_member json_loads) sgs = Ok (jo_members o) /\
      Forall2 (sig_verified (reg15 algs) src pseg) (jo_members o) sgs.
  Proof. intros p sgs src algs o. exact (general_sound_rg _ _ _ _ p sgs src (reg15 algs) o). Qed.

  (* "none" never verifies: neither the wrapper nor any accepting path *)
  Theorem c01_none_never_verifies : forall r k msg sig,
    ja_family r = "none"%string -> alg_verify mac pk_verify ec_verify r k msg sig = Ok false.
  Proof. exact (none_never_verifies mac pk_verify ec_verify). Qed.

  Theorem c01_verified_not_none : forall rg src headers msg sseg,
    verified rg src headers msg sseg -> py_getitem_str headers s_alg <> Ok (PStr (asc "none")).
  Proof. exact (verified_not_none mac pk_verify ec_verify). Qed.

  (* an ECDSA signature of any length other than 2L is rejected, and the
     outcome does not depend on the primitive (it is not consulted) *)
  Theorem c01_ec_length : forall r k msg sig,
    ja_family r = "EC"%string -> length sig <> (2 * ec_len k)%nat ->
    forall ecv', alg_verify mac pk_verify ecv' r k msg sig <> Ok true /\
                 alg_verify mac pk_verify ecv' r k msg sig = alg_verify mac pk_verify ec_verify r k msg sig.
  Proof. exact (ec_length mac pk_verify ec_verify). Qed.

  (* what an accepted ECDSA / HMAC signature is *)
  Theorem c01_ec_accept : forall r k msg sig,
    ja_family r = "EC"%string -> alg_verify mac pk_verify ec_verify r k msg sig = Ok true ->
    k_crv k = ja_curve r /\ length sig = (2 * ec_len k)%nat /\
    exists rr ss, decode_int (firstn (ec_len k) sig) = Ok rr /\
                  decode_int (skipn (ec_len k) sig) = Ok ss /\
                  ec_verify r (k_id k) msg rr ss = Ok true.
  Proof. exact (ec_accept_inv mac pk_verify ec_verify). Qed.

  (* an ES* name never verifies with an EC key on another curve (whatever the primitive says) *)
  Theorem c01_ec_curve_gate : forall r k msg sig,
    ja_family r = "EC"%string -> alg_verify mac pk_verify ec_verify r k msg sig = Ok true ->
    k_crv k = ja_curve r.
  Proof. exact (ec_curve_gate mac pk_verify ec_verify). Qed.

  (* PS* / RS* / EdDSA: acceptance is the primitive's verdict for the ROW of the algorithm table;
     for PS* that row fixes MGF1 with the same hash and salt length = digest size
     (c01_pss_rows_fixed, by computation on the table extracted from /repo) *)
  Theorem c01_pss_params_fixed : forall r k msg sig,
    (fam_of r = FPss \/ fam_of r = FRsa \/ fam_of r = FEd) ->
    alg_verify mac pk_verify ec_verify r k msg sig = Ok true -> pk_verify r (k_id k) msg sig = Ok true.
  Proof. exact (pk_accept_inv mac pk_verify ec_verify). Qed.

  Theorem c01_hmac_accept : forall r k msg sig,
    ja_family r = "HMAC"%string -> alg_verify mac pk_verify ec_verify r k msg sig = Ok true ->
    mac (ja_hash r) (k_id k) msg = Ok sig.
  Proof. exact (hmac_accept_inv mac pk_verify ec_verify). Qed.

  (* rfc7797 compact: the unencoded formula is used only with "b64" (not true)
     in the protected header, which is the signed segment *)
  Theorem c01_7797_sound : forall tok src payload algs o,
    deserialize_compact97 json_loads mac pk_verify ec_verify tok src payload algs = Ok o ->
    tok = co_hseg o ++ 46 :: co_pseg o ++ 46 :: co_sseg o /\
    no_dot (co_hseg o) = true /\
    (exists raw, b64d (co_hseg o) = Ok raw /\ json_loads raw = Ok (co_protected o)) /\
    ( (b64d (co_pseg o) = Ok (co_payload o) /\
       (py_in (PStr s_b64) (co_protected o) = Ok false \/
        py_getitem_str (co_protected o) s_b64 = Ok (PBool true)) /\
       exists rg, verified rg src (co_protected o) (co_hseg o ++ 46 :: co_pseg o) (co_sseg o))
      \/
      (py_in (PStr s_b64) (co_protected o) = Ok true /\
       py_getitem_str (co_protected o) s_b64 <> Ok (PBool true) /\
       co_payload o = (match payload with Some ((_ :: _) as x) => x | _ => co_pseg o end) /\
       verified (reg97 algs) src (co_protected o) (co_hseg o ++ 46 :: co_payload o) (co_sseg o)) ).
  Proof. exact (compact97_sound json_loads mac pk_verify ec_verify). Qed.

  (* rfc7797 compact, for EVERY payload argument (absent, equal, different, empty, ...): the
     payload returned is exactly the payload that was verified — the signing input handed to
     the algorithm is co_hseg "." co_payload when b64 is false, and co_hseg "." co_pseg with
     co_payload = b64d co_pseg otherwise *)
  Theorem c01_7797_payload_is_verified : forall tok src payload algs o,
    deserialize_compact97 json_loads mac pk_verify ec_verify tok src payload algs = Ok o ->
    exists rg enc,
      verified rg src (co_protected o) (co_hseg o ++ 46 :: enc) (co_sseg o) /\
      ( (enc = co_payload o /\ py_getitem_str (co_protected o) s_b64 <> Ok (PBool true) /\
         py_in (PStr s_b64) (co_protected o) = Ok true)
        \/
        (enc = co_pseg o /\ b64d enc = Ok (co_payload o)) ).
  Proof. exact (compact97_payload_is_verified json_loads mac pk_verify ec_verify). Qed.

  (* rfc7797 JSON, model of the code WITH fix01: the unencoded formula is used
     only when "b64" (not true) is a member of the PROTECTED header, whenever
     the JWS has a protected header.
     PARTIAL (residual, kept by the fix because tests/jws/test_rfc7797.py::
     test_json_without_protected_header demands it): a JWS without any
     "protected" member still takes the switch from the unprotected header
     (case [None => True]); see c01_b64_residual. *)
  Theorem c01_b64_only_if_protected_partial : forall p sg src algs o,
    deserialize_json97 json_loads mac pk_verify ec_verify true (JFlat p sg) src algs = Ok o ->
    (exists pseg sseg m headers rg,
        p = Some pseg /\ b64d pseg = Ok (jo_payload o) /\ signature_to_member json_loads sg = Ok m /\
        member_headers m = Ok headers /\ js_signature sg = Some sseg /\
        verified rg src (PDict headers) (prot_seg sg ++ 46 :: pseg) sseg)
    \/
    (exists sseg m headers b,
        p = Some (jo_payload o) /\ signature_to_member json_loads sg = Ok m /\
        member_headers m = Ok headers /\ js_signature sg = Some sseg /\
        verified (reg97 algs) src (PDict headers) (prot_seg sg ++ 46 :: jo_payload o) sseg /\
        dget headers s_b64 = Some b /\ b <> PBool true /\
        match js_protected sg with
        | Some seg => exists raw d, b64d seg = Ok raw /\ json_loads raw = Ok (PDict d) /\
                                    dget d s_b64 = Some b
        | None => True
        end).
  Proof. exact (json97_sound_fixed json_loads mac pk_verify ec_verify). Qed.
End C01.

(* the same with json.loads instantiated by the Gallina JSON parser (model/Json.v):
   no JSON oracle is left; the header returned is what that parser reads from the
   octets of the received header segment *)
Theorem c01_compact_sound_json_model :
  forall (mac : string -> N -> bytes -> res bytes)
         (pk_verify : jws_alg_row -> N -> bytes -> bytes -> res bool)
         (ec_verify : jws_alg_row -> N -> bytes -> Z -> Z -> res bool) tok src algs o,
    deserialize_compact g_loads mac pk_verify ec_verify tok src algs = Ok o ->
    tok = co_hseg o ++ 46 :: co_pseg o ++ 46 :: co_sseg o /\
    (exists raw, b64d (co_hseg o) = Ok raw /\ Json.json_loads raw = POk (co_protected o)) /\
    b64d (co_pseg o) = Ok (co_payload o) /\
    verified mac pk_verify ec_verify (reg15 algs) src (co_protected o)
             (co_hseg o ++ 46 :: co_pseg o) (co_sseg o).
Proof. exact compact_sound_json_model. Qed.

(* jwt.decode without a JWERegistry (jwt.py dispatches on isinstance(registry, JWERegistry)
   only; model: model/C09Jwt.v over the JWS transport of proofs/ComposeJwsJwt.v): claims are
   returned only for a value of exactly three segments whose signature verified — a value
   that was merely ENCRYPTED to the verifier's key (five segments) is never returned *)
Theorem c01_jwt_decode_only_signed :
  forall (json_loads : bytes -> res pv) (mac : string -> N -> bytes -> res bytes)
         (pk_verify : jws_alg_row -> N -> bytes -> bytes -> res bool)
         (ec_verify : jws_alg_row -> N -> bytes -> Z -> Z -> res bool) src algs tok h c,
    C09Jwt.decode json_loads (ComposeJwsJwt.jws_tdec mac pk_verify ec_verify src algs) tok = Ok (h, c) ->
    exists o,
      tok = co_hseg o ++ 46 :: co_pseg o ++ 46 :: co_sseg o /\
      no_dot (co_hseg o) = true /\ no_dot (co_pseg o) = true /\ no_dot (co_sseg o) = true /\
      co_protected o = PDict h /\ b64d (co_pseg o) = Ok (co_payload o) /\
      json_loads (co_payload o) = Ok c /\
      verified mac pk_verify ec_verify (reg15 algs) src (PDict h) (co_hseg o ++ 46 :: co_pseg o) (co_sseg o).
Proof. exact jwt_decode_only_signed. Qed.

Theorem c01_pss_rows_fixed : forallb pss_row_fixed jws_alg_table = true.
Proof. exact pss_rows_fixed. Qed.

(* a symmetric key imported from raw octets IS those octets: nothing is stripped, trimmed or
   decoded, so two octet strings that differ anywhere (a leading whitespace octet, a trailing
   newline, ...) are two different keys *)
Theorem c01_oct_import_exact :
  (forall a, import_oct a = a) /\
  (forall a b, import_oct a = import_oct b -> a = b) /\
  (forall a, length (import_oct a) = length a).
Proof. exact oct_import_exact. Qed.

Theorem c01_oct_import_distinct : forall a b, a <> b -> import_oct a <> import_oct b.
Proof. exact oct_import_distinct. Qed.

(* the model of rfc7797/json.py BEFORE fix01 violates it: in a world where a
   flattened JWS with protected header {"alg":"HS256"} and payload "hello" is
   valid, adding the unprotected header {"b64": false, "crit": ["b64"]} makes
   deserialize_json return the never-signed octets "aGVsbG8" as verified
   payload; the fixed model refuses that input *)
Theorem c01_b64_only_if_protected_refuted :
  (exists o, deserialize_json97 w_loads w_mac w_pkv w_ecv false
               (JFlat (Some (asc "aGVsbG8")) (w_sig None)) (KOne w_key) None = Ok o /\
             jo_payload o = asc "hello") /\
  (exists o, deserialize_json97 w_loads w_mac w_pkv w_ecv false
               (JFlat (Some (asc "aGVsbG8")) (w_sig (Some w_unprot))) (KOne w_key) None = Ok o /\
             jo_payload o = asc "aGVsbG8" /\
             json_b64decode w_loads (b64e w_hdr) = Ok (PDict [(s_alg, PStr (asc "HS256"))])) /\
  deserialize_json97 w_loads w_mac w_pkv w_ecv true
    (JFlat (Some (asc "aGVsbG8")) (w_sig (Some w_unprot))) (KOne w_key) None = Err EValue.
Proof. exact b64_unprotected_refuted_v0. Qed.

(* residual of the fixed code: no protected header at all *)
Theorem c01_b64_residual_refuted :
  (exists o, deserialize_json97 w_loads w_mac2 w_pkv w_ecv true
               (JFlat (Some (asc "aGVsbG8")) (w_sig2 [(s_alg, PStr (asc "HS256"))])) (KOne w_key) None = Ok o /\
             jo_payload o = asc "hello") /\
  (exists o, deserialize_json97 w_loads w_mac2 w_pkv w_ecv true
               (JFlat (Some (asc "aGVsbG8")) (w_sig2 ((s_alg, PStr (asc "HS256")) :: w_unprot))) (KOne w_key) None = Ok o /\
             jo_payload o = asc "aGVsbG8").
Proof. exact b64_unprotected_residual_fixed. Qed.

(* ---- tampering, under the explicit ideal-signature premise ---- *)
Section Tamper.
  Variable json_loads : bytes -> res pv.
  Variable mac : string -> N -> bytes -> res bytes.
  Variable pk_verify : jws_alg_row -> N -> bytes -> bytes -> res bool.
  Variable ec_verify : jws_alg_row -> N -> bytes -> Z -> Z -> res bool.
  Variable Issued : N -> bytes -> Prop.
  Hypothesis Ideal : forall r k msg sig,
      alg_verify mac pk_verify ec_verify r k msg sig = Ok true -> Issued (k_id k) msg.
  Variable Signed : N -> bytes -> bytes -> Prop.
  Hypothesis Honest : forall kid msg, Issued kid msg ->
      exists hdr pl, Signed kid hdr pl /\ bytes_ok hdr = true /\ bytes_ok pl = true /\
                     msg = b64e hdr ++ 46 :: b64e pl.

  (* accepted => the DECODED protected-header octets and payload octets are a
     pair the holder of the resolved key signed (changing any decoded octet of
     header or payload, or splicing segments of two tokens, is rejected) *)
  Theorem c01_tamper_compact : forall tok src algs o,
    deserialize_compact json_loads mac pk_verify ec_verify tok src algs = Ok o ->
    exists k hdr,
      guess_key src (co_protected o) = Ok k /\
      Signed (k_id k) hdr (co_payload o) /\ json_loads hdr = Ok (co_protected o).
  Proof. exact (tamper_compact json_loads mac pk_verify ec_verify Issued Ideal Signed Honest). Qed.

  Theorem c01_tamper_json_member : forall rg src pseg m sg payload,
    sig_verified mac pk_verify ec_verify rg src pseg m sg ->
    signature_to_member json_loads sg = Ok m ->
    b64d pseg = Ok payload -> no_dot (prot_seg sg) = true ->
    exists headers k hdr,
      member_headers m = Ok headers /\ guess_key src (PDict headers) = Ok k /\
      Signed (k_id k) hdr payload /\
      match js_protected sg with
      | Some seg => b64d seg = Ok hdr /\ exists v, json_loads hdr = Ok v /\ m_protected m = Some v
      | None => hdr = []
      end.
  Proof. exact (tamper_json_member json_loads mac pk_verify ec_verify Issued Ideal Signed Honest). Qed.
End Tamper.

(* different decoded header or payload octets => different signing input
   (stated on canonical encodings, the direction that is true: b64d also
   accepts non-canonical trailing bits, "QR" and "QQ" decode alike) *)
Theorem c01_signing_input_injective : forall hdr1 pl1 hdr2 pl2,
  bytes_ok hdr1 = true -> bytes_ok pl1 = true -> bytes_ok hdr2 = true -> bytes_ok pl2 = true ->
  b64e hdr1 ++ 46 :: b64e pl1 = b64e hdr2 ++ 46 :: b64e pl2 -> hdr1 = hdr2 /\ pl1 = pl2.
Proof. exact signing_input_injective. Qed.

Theorem c01_received_segments_determined : forall h p hdr pl x y,
  no_dot h = true -> bytes_ok hdr = true ->
  h ++ 46 :: p = b64e hdr ++ 46 :: b64e pl ->
  b64d h = Ok x -> b64d p = Ok y -> bytes_ok pl = true -> x = hdr /\ y = pl.
Proof. exact received_segments_determined. Qed.

(* non-vacuity: an accepting instance of each path (HS256, one oracle world) *)
Example c01_compact_nonvacuous :
  exists o, deserialize_compact w_loads w_mac w_pkv w_ecv
              (b64e w_hdr ++ 46 :: asc "aGVsbG8" ++ 46 :: b64e w_tag) (KOne w_key) None = Ok o /\
            co_payload o = asc "hello".
Proof. eexists. split; vm_compute; reflexivity. Qed.

Example c01_general_nonvacuous :
  exists o, deserialize_json w_loads w_mac w_pkv w_ecv
              (JGen (Some (asc "aGVsbG8")) [w_sig None; w_sig None]) (KOne w_key) None = Ok o /\
            jo_payload o = asc "hello" /\ length (jo_members o) = 2%nat.
Proof. eexists. split; [|split]; vm_compute; reflexivity. Qed.

Example c01_general_empty_rejected :
  deserialize_json w_loads w_mac w_pkv w_ecv (JGen (Some (asc "aGVsbG8")) []) (KOne w_key) None
  = Err (EJose BadSignatureError).
Proof. vm_compute. reflexivity. Qed.

Print Assumptions c01_compact_sound.
Print Assumptions c01_compact_sound_json_model.
Print Assumptions c01_jwt_decode_only_signed.
Print Assumptions c01_oct_import_exact.
Print Assumptions c01_flat_sound.
Print Assumptions c01_general_sound.
Print Assumptions c01_none_never_verifies.
Print Assumptions c01_verified_not_none.
Print Assumptions c01_ec_length.
Print Assumptions c01_ec_accept.
Print Assumptions c01_ec_curve_gate.
Print Assumptions c01_hmac_accept.
Print Assumptions c01_pss_params_fixed.
Print Assumptions c01_7797_sound.
Print Assumptions c01_7797_payload_is_verified.
Print Assumptions c01_b64_only_if_protected_partial.
Print Assumptions c01_b64_only_if_protected_refuted.
Print Assumptions c01_b64_residual_refuted.
Print Assumptions c01_tamper_compact.
Print Assumptions c01_tamper_json_member.
Print Assumptions c01_signing_input_injective.
Print Assumptions c01_received_segments_determined.
