(* C17 — decompression of JWE plaintext is bounded.
   Only statements; proofs live in proofs/C17Proofs.v.  Model: model/C17Zip.v
   (DeflateZipModel.compress/decompress, the tail of _perform_decrypt).
   zlib is a Section variable with the contract [zlib_ok] (validated against
   the real zlib by harness/props/c17.py); the limit and GZIP_HEAD are the
   values extracted from /repo (gen/Tables.v). *)
From Model Require Import Base TableTypes C17Zip.
From Gen Require Import Tables.
From Proofs Require Import C17Proofs.
Open Scope N_scope.

(* ---- table facts: literals transcribed from the property text / RFC 1950 ---- *)
(* "never materialises more than 256,000 octets" *)
Theorem c17_max_size_value : zip_max_size = 256000.
Proof. exact (eq_refl 256000). Qed.
(* "the default zlib header": CMF = 0x78, FLG = 0x9C *)
Theorem c17_gzip_head_value : zip_gzip_head = [120; 156].
Proof. exact gzip_head_value. Qed.
(* zip=DEF is served by the default registry *)
Theorem c17_def_registered : get_zip None "DEF"%string = Ok tt.
Proof. exact get_zip_def_default. Qed.

(* ---- statements that hold for ANY zlib (no contract needed) ---- *)
(* whatever zlib answers, whatever the stream: a returned plaintext is within the limit *)
Theorem c17_bound : forall (zdec : zoracle) s v,
  decompress zdec s = Ok v -> blen v <= zip_max_size.
Proof. exact decompress_bound. Qed.

(* ... and zlib is asked exactly once, for at most MAX_SIZE+1 octets: two zlibs that
   agree on requests with 0 < max_length <= MAX_SIZE+1 are indistinguishable *)
Theorem c17_bound_requests : forall (z1 z2 : zoracle),
  (forall w d m, 0 < m -> m <= zip_max_size + 1 -> z1 w d m = z2 w d m) ->
  forall s, decompress z1 s = decompress z2 s.
Proof. exact decompress_requests_bounded. Qed.

Theorem c17_single_request : forall (zdec : zoracle) s,
  fst (decompressL zdec s) = decompress zdec s /\
  snd (decompressL zdec s) = [EvInflate (is_wrapped s) s (zip_max_size + 1)].
Proof. intros zdec s. split; [exact (decompressL_fst zdec s) | exact (decompressL_trace zdec s)]. Qed.

(* histories: the verdict on a stream is a function of that stream only — whatever was
   decompressed before (bombs, corrupt streams, wrapped or raw) and whatever follows *)
Theorem c17_decompress_stateless : forall (zdec : zoracle) pre s post,
  nth_error (decompress_seq zdec (pre ++ s :: post)) (length pre) = Some (decompress zdec s).
Proof. exact decompress_seq_stateless. Qed.

Theorem c17_history_bound : forall (zdec : zoracle) l v,
  In (Ok v) (decompress_seq zdec l) -> blen v <= zip_max_size.
Proof. exact decompress_seq_bound. Qed.

(* errors: the exceeded-size error, DecodeError for a zlib.error, or another error of the call *)
Theorem c17_error_class : forall (zdec : zoracle) s err,
  decompress zdec s = Err err ->
  err = EJose ExceededSizeError \/
  (zdec (is_wrapped s) s (zip_max_size + 1) = Err EZlib /\ err = EJose DecodeError) \/
  (zdec (is_wrapped s) s (zip_max_size + 1) = Err err /\ err <> EZlib).
Proof. exact decompress_error_class. Qed.

(* position: decompress is applied only to the output of a successful enc.decrypt *)
Theorem c17_after_auth : forall (zdec : zoracle) encd allowed zip ct tag cek iv aad,
  (* a failed authentication is the result, and zlib is not touched *)
  (forall e, encd ct tag cek iv aad = Err e ->
     decrypt_tailL zdec encd allowed zip ct tag cek iv aad = (Err e, [EvDecrypt])) /\
  (* a result comes from a successful decrypt; with zip it is decompress of that output *)
  (forall v, decrypt_tail zdec encd allowed zip ct tag cek iv aad = Ok v ->
     exists msg, encd ct tag cek iv aad = Ok msg /\ (zip = None -> v = msg) /\
       (forall name, zip = Some name ->
          get_zip allowed name = Ok tt /\ decompress zdec msg = Ok v)) /\
  (* the only possible zlib call follows the decrypt and is made on its output *)
  (let t := snd (decrypt_tailL zdec encd allowed zip ct tag cek iv aad) in
   t = [EvDecrypt] \/
   exists msg, encd ct tag cek iv aad = Ok msg /\
               t = [EvDecrypt; EvInflate (is_wrapped msg) msg (zip_max_size + 1)]).
Proof.
  intros zdec encd allowed zip ct tag cek iv aad. split; [|split].
  - intros e H. exact (tail_auth_failure zdec encd allowed zip ct tag cek iv aad e H).
  - intros v H. exact (tail_ok_inv zdec encd allowed zip ct tag cek iv aad v H).
  - exact (tail_trace zdec encd allowed zip ct tag cek iv aad).
Qed.

Theorem c17_after_auth_zlib_irrelevant :
  forall (z1 z2 : zoracle) encd allowed zip ct tag cek iv aad e,
  encd ct tag cek iv aad = Err e ->
  decrypt_tail z1 encd allowed zip ct tag cek iv aad = Err e /\
  decrypt_tail z2 encd allowed zip ct tag cek iv aad = Err e.
Proof. exact tail_auth_failure_indep. Qed.

Theorem c17_decrypt_bound : forall (zdec : zoracle) encd allowed name ct tag cek iv aad v,
  decrypt_tail zdec encd allowed (Some name) ct tag cek iv aad = Ok v -> blen v <= zip_max_size.
Proof. exact tail_bound. Qed.

(* the zip step of perform_encrypt leaves the message object's plaintext (and zip) as it
   was; the compressed octets only flow into enc.encrypt *)
Theorem c17_encrypt_leaves_plaintext :
  forall (zcomp : bytes -> bytes) ence allowed obj cek iv aad obj',
  fst (encrypt_tailL zcomp ence allowed obj cek iv aad) = Ok obj' ->
  em_plaintext obj' = em_plaintext obj /\ em_zip obj' = em_zip obj /\
  exists m, ence m cek iv aad = Ok (em_ciphertext obj', em_tag obj') /\
    (em_zip obj = None -> m = em_plaintext obj) /\
    (forall name, em_zip obj = Some name ->
       get_zip allowed name = Ok tt /\ m = compress zcomp (em_plaintext obj)).
Proof. exact encrypt_leaves_plaintext. Qed.

(* hence encrypting the resulting object again compresses and encrypts exactly the same octets *)
Theorem c17_encrypt_again_same :
  forall (zcomp : bytes -> bytes) ence allowed obj cek iv aad obj' cek2 iv2 aad2,
  fst (encrypt_tailL zcomp ence allowed obj cek iv aad) = Ok obj' ->
  snd (encrypt_tailL zcomp ence allowed obj' cek2 iv2 aad2) =
  snd (encrypt_tailL zcomp ence allowed obj cek2 iv2 aad2).
Proof. exact encrypt_again_same_trace. Qed.

Theorem c17_encrypt_trace : forall (zcomp : bytes -> bytes) ence allowed obj cek iv aad,
  let t := snd (encrypt_tailL zcomp ence allowed obj cek iv aad) in
  t = [] \/ t = [EvEncrypt (em_plaintext obj)] \/
  t = [EvCompress (em_plaintext obj); EvEncrypt (compress zcomp (em_plaintext obj))].
Proof. exact encrypt_trace_shape. Qed.

(* ---- statements under the zlib contract ---- *)
Section UnderContract.
  Variable inflate_all : bool -> bytes -> option (bytes * bool).
  Variable zdec : zoracle.
  Variable zcomp : bytes -> bytes.
  Variable raw_deflate : bytes -> bytes.
  Hypothesis ZOK : zlib_ok inflate_all zdec zcomp raw_deflate.
  Let expansion := expansion_of inflate_all.

  (* memory clause at the contract level: the one zlib call never returns more
     than MAX_SIZE+1 octets *)
  Theorem c17_bound_materialised : forall s out t e,
    zdec (is_wrapped s) s (zip_max_size + 1) = Ok (out, t, e) -> blen out <= zip_max_size + 1.
  Proof. exact (materialised_bound _ _ _ _ ZOK). Qed.

  (* a complete valid stream: what is returned is the whole expansion *)
  Theorem c17_no_silent_truncation : forall s e v,
    expansion (is_wrapped s) s = Some e -> decompress zdec s = Ok v -> v = e.
  Proof. exact (no_silent_truncation _ _ _ _ ZOK). Qed.

  Theorem c17_exceeds_raises : forall s e,
    expansion (is_wrapped s) s = Some e -> zip_max_size < blen e ->
    decompress zdec s = Err (EJose ExceededSizeError).
  Proof. exact (exceeds_raises _ _ _ _ ZOK). Qed.

  (* full characterisation on every stream zlib can inflate at all *)
  Theorem c17_characterisation : forall s x eofx,
    inflate_all (is_wrapped s) s = Some (x, eofx) ->
    decompress zdec s = if blen x <=? zip_max_size then Ok x else Err (EJose ExceededSizeError).
  Proof. exact (decompress_char _ _ _ _ ZOK). Qed.

  (* every plaintext up to the limit round-trips; beyond it, the error *)
  Theorem c17_rt : forall p, blen p <= zip_max_size -> decompress zdec (compress zcomp p) = Ok p.
  Proof. exact (roundtrip _ _ _ _ ZOK). Qed.

  Theorem c17_rt_over : forall p, zip_max_size < blen p ->
    decompress zdec (compress zcomp p) = Err (EJose ExceededSizeError).
  Proof. exact (roundtrip_over _ _ _ _ ZOK). Qed.

  (* compress emits the raw stream: no header, no checksum *)
  Theorem c17_raw_emitted : forall p, compress zcomp p = raw_deflate p.
  Proof. exact (compress_raw _ _ _ _ ZOK). Qed.

  (* a foreign raw stream within the limit is accepted — provided it does not
     begin with GZIP_HEAD (see c17_raw_prefix_gap) *)
  Theorem c17_raw_ok : forall s e,
    starts_with zip_gzip_head s = false ->
    expansion false s = Some e -> blen e <= zip_max_size -> decompress zdec s = Ok e.
  Proof. exact (raw_accepted _ _ _ _ ZOK). Qed.

  (* a stream with the default zlib header within the limit is accepted *)
  Theorem c17_zlib_header_ok : forall s e,
    starts_with zip_gzip_head s = true ->
    expansion true s = Some e -> blen e <= zip_max_size -> decompress zdec s = Ok e.
  Proof. exact (zlib_header_accepted _ _ _ _ ZOK). Qed.

  Theorem c17_zlib_header_ok_compress : forall p, blen p <= zip_max_size ->
    decompress zdec (zcomp p) = Ok p.
  Proof. exact (wrapped_roundtrip _ _ _ _ ZOK). Qed.

  (* message level: every plaintext up to the limit round-trips through encrypt + decrypt
     (AEAD correctness is the visible hypothesis), the object keeps its plaintext, and the
     same holds for a second encrypt of the same object *)
  Theorem c17_encrypt_decrypt_rt : forall ence encd allowed obj name cek iv aad obj',
    (forall m ct tag, ence m cek iv aad = Ok (ct, tag) -> encd ct tag cek iv aad = Ok m) ->
    em_zip obj = Some name -> blen (em_plaintext obj) <= zip_max_size ->
    fst (encrypt_tailL zcomp ence allowed obj cek iv aad) = Ok obj' ->
    em_plaintext obj' = em_plaintext obj /\
    decrypt_tail zdec encd allowed (Some name) (em_ciphertext obj') (em_tag obj') cek iv aad
      = Ok (em_plaintext obj).
  Proof. exact (encrypt_decrypt_rt _ _ _ _ ZOK). Qed.

  Theorem c17_reencrypt_rt : forall ence encd allowed obj name cek iv aad obj1 cek2 iv2 aad2 obj2,
    (forall m ct tag, ence m cek2 iv2 aad2 = Ok (ct, tag) -> encd ct tag cek2 iv2 aad2 = Ok m) ->
    em_zip obj = Some name -> blen (em_plaintext obj) <= zip_max_size ->
    fst (encrypt_tailL zcomp ence allowed obj cek iv aad) = Ok obj1 ->
    fst (encrypt_tailL zcomp ence allowed obj1 cek2 iv2 aad2) = Ok obj2 ->
    em_plaintext obj2 = em_plaintext obj /\
    decrypt_tail zdec encd allowed (Some name) (em_ciphertext obj2) (em_tag obj2) cek2 iv2 aad2
      = Ok (em_plaintext obj).
  Proof. exact (reencrypt_rt _ _ _ _ ZOK). Qed.

  (* GAP (recorded, not a theorem of acceptance): a raw stream that happens to begin
     with 78 9C (a non-final stored block whose five padding bits are 01111 and whose
     LEN has low octet 9C) is handed to the zlib-wrapped inflater; its raw expansion
     is never looked at. *)
  Theorem c17_raw_prefix_gap : forall s,
    starts_with zip_gzip_head s = true ->
    decompress zdec s = zip_post (zdec true s (zip_max_size + 1)).
  Proof. exact (raw_prefix_gap zdec). Qed.

  (* CANDIDATE (recorded): an authenticated but INCOMPLETE stream (eof never reached)
     whose producible prefix x is within the limit is returned as x without error —
     eof is not consulted. *)
  Theorem c17_incomplete_stream_returned : forall s x,
    inflate_all (is_wrapped s) s = Some (x, false) -> blen x <= zip_max_size ->
    decompress zdec s = Ok x.
  Proof. exact (incomplete_returned _ _ _ _ ZOK). Qed.

  (* the boolean contract-instance checker run on recorded zlib answers is implied
     by the contract (a recorded instance on which it is false refutes the contract) *)
  Theorem c17_contract_instances : forall w s m, 0 < m ->
    z_inst_ok m (inflate_all w s) (zdec w s m) = true.
  Proof. exact (z_inst_sound _ _ _ _ ZOK). Qed.
End UnderContract.

(* eof is ignored by the post-condition, for any zlib *)
Theorem c17_eof_not_consulted : forall (zdec : zoracle) s out e,
  zdec (is_wrapped s) s (zip_max_size + 1) = Ok (out, false, e) ->
  blen out <= zip_max_size -> decompress zdec s = Ok out.
Proof. exact decompress_ignores_eof. Qed.

(* ---- non-vacuity ---- *)
(* the contract is satisfiable: a toy codec (raw = 1 :: p, wrapped = GZIP_HEAD ++ raw
   ++ 4 octets) meets every clause, so none of the theorems above is vacuous *)
Theorem c17_contract_satisfiable : zlib_ok toy_inflate_all toy_dec toy_comp toy_raw.
Proof. exact toy_contract. Qed.

(* instances at the boundary, computed: 256000 octets accepted (raw and wrapped),
   256001 refused, compress = raw *)
Example c17_boundary_instances :
  (res_eqb beqb (decompress toy_dec (toy_raw (ones zip_max_size))) (Ok (ones zip_max_size)) &&
   res_eqb beqb (decompress toy_dec (toy_raw (ones (zip_max_size + 1)))) (Err exceeded) &&
   res_eqb beqb (decompress toy_dec (toy_comp (ones zip_max_size))) (Ok (ones zip_max_size)) &&
   res_eqb beqb (decompress toy_dec (toy_comp (ones (zip_max_size + 1)))) (Err exceeded) &&
   beqb (compress toy_comp (ones 5)) (toy_raw (ones 5)))%bool = true.
Proof. exact toy_boundary. Qed.

Example c17_rt_instance : decompress toy_dec (compress toy_comp [1; 2; 3]) = Ok [1; 2; 3].
Proof. exact (c17_rt _ _ _ _ toy_contract [1; 2; 3] ltac:(vm_compute; discriminate)). Qed.

Example c17_after_auth_instance :
  decrypt_tailL toy_dec (fun _ _ _ _ _ => Ok (toy_raw [9; 9])) None (Some "DEF"%string) [] [] [] [] []
  = (Ok [9; 9], [EvDecrypt; EvInflate false [1; 9; 9] (zip_max_size + 1)]) /\
  decrypt_tailL toy_dec (fun _ _ _ _ _ => Err EValue) None (Some "DEF"%string) [] [] [] [] []
  = (Err EValue, [EvDecrypt]).
Proof. split; vm_compute; reflexivity. Qed.

(* encrypt twice with the toy codec and a toy AEAD (ciphertext = message, tag = []):
   both tokens decrypt to the original plaintext and the object is unchanged *)
Example c17_reencrypt_instance :
  let ence := fun (m _ _ _ : bytes) => Ok (m, @nil N) in
  let encd := fun (ct _ _ _ _ : bytes) => Ok ct in
  let obj := {| em_plaintext := [5; 6; 7]; em_zip := Some "DEF"%string; em_ciphertext := []; em_tag := [] |} in
  exists o1 o2,
    fst (encrypt_tailL toy_comp ence None obj [] [] []) = Ok o1 /\
    fst (encrypt_tailL toy_comp ence None o1 [] [] []) = Ok o2 /\
    em_plaintext o2 = [5; 6; 7] /\ em_ciphertext o2 = toy_raw [5; 6; 7] /\
    decrypt_tail toy_dec encd None (Some "DEF"%string) (em_ciphertext o2) (em_tag o2) [] [] [] = Ok [5; 6; 7].
Proof.
  cbv zeta. do 2 eexists.
  split; [vm_compute; reflexivity|]. split; [vm_compute; reflexivity|].
  repeat split; vm_compute; reflexivity.
Qed.

(* an EMPTY plaintext is compressed like any other when zip is present: the AEAD input is
   compress [] (here the toy raw stream [1]), not [] *)
Example c17_encrypt_empty_instance :
  let ence := fun (m _ _ _ : bytes) => Ok (m, @nil N) in
  let obj := {| em_plaintext := []; em_zip := Some "DEF"%string; em_ciphertext := []; em_tag := [] |} in
  encrypt_tailL toy_comp ence None obj [] [] [] =
  (Ok {| em_plaintext := []; em_zip := Some "DEF"%string; em_ciphertext := toy_raw []; em_tag := [] |},
   [EvCompress []; EvEncrypt (compress toy_comp [])]) /\
  compress toy_comp [] = [1] /\ compress toy_comp [] <> [].
Proof. cbv zeta. split; [vm_compute; reflexivity|]. split; [vm_compute; reflexivity|]. vm_compute. discriminate. Qed.

Print Assumptions c17_max_size_value.
Print Assumptions c17_decompress_stateless.
Print Assumptions c17_history_bound.
Print Assumptions c17_encrypt_leaves_plaintext.
Print Assumptions c17_encrypt_again_same.
Print Assumptions c17_encrypt_trace.
Print Assumptions c17_encrypt_decrypt_rt.
Print Assumptions c17_reencrypt_rt.
Print Assumptions c17_gzip_head_value.
Print Assumptions c17_def_registered.
Print Assumptions c17_bound.
Print Assumptions c17_bound_requests.
Print Assumptions c17_single_request.
Print Assumptions c17_error_class.
Print Assumptions c17_after_auth.
Print Assumptions c17_after_auth_zlib_irrelevant.
Print Assumptions c17_decrypt_bound.
Print Assumptions c17_bound_materialised.
Print Assumptions c17_no_silent_truncation.
Print Assumptions c17_exceeds_raises.
Print Assumptions c17_characterisation.
Print Assumptions c17_rt.
Print Assumptions c17_rt_over.
Print Assumptions c17_raw_emitted.
Print Assumptions c17_raw_ok.
Print Assumptions c17_zlib_header_ok.
Print Assumptions c17_zlib_header_ok_compress.
Print Assumptions c17_raw_prefix_gap.
Print Assumptions c17_incomplete_stream_returned.
Print Assumptions c17_contract_instances.
Print Assumptions c17_eof_not_consulted.
Print Assumptions c17_contract_satisfiable.
