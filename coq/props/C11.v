(* C11 — JWK import/export round-trips key material across JWK, PEM and DER.
   Only statements here; definitions of the model are in model/C11Model.v,
   proofs in proofs/C11Proofs.v.  The pyca constructors are the fields of an
   arbitrary [O : oracles]: every theorem holds for EVERY behaviour of them;
   where the theorem needs the constructor to accept a key this is an explicit
   premise ("the numbers form a valid key").  PEM / DER forms are pyca
   serialisers and are exercised on the implementation only (harness). *)
From Coq Require Import Lia.
From Model Require Import Base PyVal B64 IntCodec TableTypes C11Model.
From Gen Require Import Tables.
From Proofs Require Import B64Proofs IntCodecProofs C11Proofs.
Open Scope N_scope.

(* ---- tables: expected literals transcribed from RFC 7517 4, RFC 7518 6.2-6.4,
   RFC 8037 2, RFC 8812 (coordinate length of a curve = ceil(bits/8): 32, 48, 66, 32) *)
Theorem c11_tables :
  map (fun r => (cv_name r, coord_len (cv_bits r))) ec_curves
    = [("P-256", 32); ("P-384", 48); ("P-521", 66); ("secp256k1", 32)]%string%nat /\
  map (fun t => fst (fst t)) okp_curves = ["Ed25519"; "Ed448"; "X25519"; "X448"]%string /\
  key_types = map kt_name kt_all /\
  required_names jwk_parameter_registry = ["kty"]%string /\
  required_names value_registry_oct = ["k"]%string /\
  required_names value_registry_RSA = ["n"; "e"]%string /\
  required_names value_registry_EC = ["crv"; "x"; "y"]%string /\
  required_names value_registry_OKP = ["crv"; "x"]%string /\
  member_kinds jwk_parameter_registry =
    [("kty", VStr); ("use", VChoiceStr ["sig"; "enc"]);
     ("key_ops", VChoiceList ["sign"; "verify"; "encrypt"; "decrypt"; "wrapKey"; "unwrapKey"; "deriveKey"; "deriveBits"]);
     ("alg", VStr); ("kid", VStr); ("x5u", VUrl); ("x5c", VListStr); ("x5t", VStr); ("x5t#S256", VStr)]%string /\
  member_kinds value_registry_oct = [("k", VStr)]%string /\
  member_kinds value_registry_RSA =
    [("n", VStr); ("e", VStr); ("d", VStr); ("p", VStr); ("q", VStr); ("dp", VStr); ("dq", VStr);
     ("qi", VStr); ("oth", VNone)]%string /\
  member_kinds value_registry_EC = [("crv", VStr); ("x", VStr); ("y", VStr); ("d", VStr)]%string /\
  member_kinds value_registry_OKP = [("crv", VStr); ("x", VStr); ("d", VStr)]%string /\
  use_key_ops_registry =
    [("sig", ["sign"; "verify"]);
     ("enc", ["encrypt"; "decrypt"; "wrapKey"; "unwrapKey"; "deriveKey"; "deriveBits"])]%string.
Proof. exact tables_ok. Qed.

(* ---- EC: x, y, d are exported with exactly the curve's coordinate length, for
   EVERY value 0 <= v < 256^L (leading zero octets kept; P-521: L = 66) *)
Theorem c11_ec_fixed_len : forall crv bits x y d,
  ec_bits crv = Some bits -> in_range bits x -> in_range bits y -> in_range bits d ->
  exists xs ys ds ox oy od,
    export_ec_prv crv x y d = Ok [(K "crv", PStr crv); (K "x", PStr xs); (K "y", PStr ys); (K "d", PStr ds)] /\
    export_ec_pub crv x y = Ok [(K "crv", PStr crv); (K "x", PStr xs); (K "y", PStr ys)] /\
    b64d xs = Ok ox /\ b64d ys = Ok oy /\ b64d ds = Ok od /\
    length ox = coord_len bits /\ length oy = coord_len bits /\ length od = coord_len bits /\
    Z.of_N (be_to_N ox) = x /\ Z.of_N (be_to_N oy) = y /\ Z.of_N (be_to_N od) = d.
Proof. exact ec_fixed_len. Qed.

(* a number that does not fit is not silently truncated *)
Theorem c11_ec_fixed_overflow : forall z bits,
  ~ in_range bits z -> int_to_fixed_base64 z bits = Err EOverflow.
Proof. exact fixed_out_of_range. Qed.

Example c11_ec_fixed_len_instance :
  ec_bits (asc "P-521") = Some 521 /\ coord_len 521 = 66%nat /\
  in_range 521 1 /\ in_range 521 (2 ^ 521 - 1) /\ ~ in_range 521 (2 ^ 528) /\
  (exists s o, int_to_fixed_base64 1 521 = Ok s /\ b64d s = Ok o /\ length o = 66%nat /\ hd 1 o = 0).
Proof. exact ec_p521_instance. Qed.

(* ---- export then import gives back the material.  [rt_statement O n]:
   the key object built from native n has a JWK view (as_dict), importing that
   view succeeds, gives a key whose native material is n and whose JWK view is
   the same dict. *)
Theorem c11_ec_export_import : forall O crv bits x y d,
  ec_bits crv = Some bits -> (0 < coord_len bits)%nat ->
  in_range bits x -> in_range bits y -> in_range bits d ->
  (o_ec_prv O crv x y d = true -> rt_statement O (NEcPrv crv x y d)) /\
  (o_ec_pub O crv x y = true -> rt_statement O (NEcPub crv x y)).
Proof. exact ec_key_roundtrip. Qed.

(* and the public export of a private key imports to its public part *)
Theorem c11_ec_public_export : forall O crv bits x y d,
  ec_bits crv = Some bits -> (0 < coord_len bits)%nat ->
  in_range bits x -> in_range bits y -> in_range bits d ->
  (o_ec_prv O crv x y d = true ->
   exists dict, export_native (NEcPrv crv x y d) true = Ok dict /\
                import_from_dict O KEC dict = Ok (NEcPrv crv x y d)) /\
  (o_ec_pub O crv x y = true ->
   exists dict, export_native (NEcPrv crv x y d) false = Ok dict /\
                export_native (NEcPub crv x y) false = Ok dict /\
                import_from_dict O KEC dict = Ok (NEcPub crv x y)).
Proof. exact ec_export_import. Qed.

(* ---- RSA: every member is the minimal big-endian form (no leading zero octet) *)
Theorem c11_rsa_minimal : forall m,
  rsa_prv_pos m ->
  export_rsa_prv m = Ok (rsa_prv_dict m) /\
  forall z, In z [r_n (r_pub m); r_e (r_pub m); r_d m; r_p m; r_q m; r_dp m; r_dq m; r_qi m] ->
    exists o, b64d (enc_min z) = Ok o /\ (exists b r, o = b :: r /\ b <> 0) /\
              Z.of_N (be_to_N o) = z /\ bytes_ok o = true /\
              256 ^ (N.of_nat (length o) - 1) <= Z.to_N z < 256 ^ N.of_nat (length o).
Proof. exact rsa_minimal. Qed.

Theorem c11_rsa_export_import : forall O m,
  rsa_prv_pos m ->
  (o_rsa_prv O m = true -> rt_statement O (NRsaPrv m)) /\
  (o_rsa_pub O (r_n (r_pub m)) (r_e (r_pub m)) = true -> rt_statement O (NRsaPub (r_pub m))).
Proof. exact rsa_key_roundtrip. Qed.

Theorem c11_rsa_public_export : forall O m,
  rsa_prv_pos m ->
  (o_rsa_prv O m = true ->
   export_native (NRsaPrv m) true = Ok (rsa_prv_dict m) /\
   import_from_dict O KRSA (rsa_prv_dict m) = Ok (NRsaPrv m)) /\
  (o_rsa_pub O (r_n (r_pub m)) (r_e (r_pub m)) = true ->
   export_native (NRsaPrv m) false = Ok (rsa_pub_dict (r_pub m)) /\
   export_native (NRsaPub (r_pub m)) false = Ok (rsa_pub_dict (r_pub m)) /\
   import_from_dict O KRSA (rsa_pub_dict (r_pub m)) = Ok (NRsaPub (r_pub m))).
Proof. exact rsa_export_import. Qed.

Example c11_rsa_instance :
  rsa_prv_pos {| r_pub := {| r_n := 3233; r_e := 17 |}; r_d := 413; r_p := 61; r_q := 53;
                 r_dp := 53; r_dq := 49; r_qi := 38 |} /\
  enc_min 65537 = asc "AQAB".
Proof. exact rsa_instance. Qed.

(* ---- OKP and oct: octets in, the same octets out *)
Theorem c11_okp_oct_rt : forall O,
  (forall crv x d, okp_known crv = true -> bytes_ok x = true -> bytes_ok d = true ->
     (o_okp_prv O crv d = Ok x -> rt_statement O (NOkpPrv crv x d)) /\
     (o_okp_pub O crv x = true -> rt_statement O (NOkpPub crv x))) /\
  (forall k, bytes_ok k = true -> rt_statement O (NOct k)).
Proof. intros O. split; [exact (okp_key_roundtrip O) | exact (oct_key_roundtrip O)]. Qed.

Theorem c11_okp_public_export : forall O crv x d,
  okp_known crv = true -> bytes_ok x = true -> bytes_ok d = true ->
  (o_okp_prv O crv d = Ok x ->
   exists dict, export_native (NOkpPrv crv x d) true = Ok dict /\
                dict = [(K "crv", PStr crv); (K "x", PStr (b64e x)); (K "d", PStr (b64e d))] /\
                import_from_dict O KOKP dict = Ok (NOkpPrv crv x d)) /\
  (o_okp_pub O crv x = true ->
   exists dict, export_native (NOkpPrv crv x d) false = Ok dict /\
                export_native (NOkpPub crv x) false = Ok dict /\
                dict = [(K "crv", PStr crv); (K "x", PStr (b64e x))] /\
                import_from_dict O KOKP dict = Ok (NOkpPub crv x)).
Proof. exact okp_rt. Qed.

(* ---- no exported member contains '=' or any character outside the base64url
   alphabet (the "crv" member is a name, not an encoding) *)
Theorem c11_unpadded : forall n private dct,
  native_wf n -> export_native n private = Ok dct ->
  forall k s, In (k, PStr s) dct -> k <> K "crv" ->
    forallb in_alphabet s = true /\ ~ In 61 s.
Proof. exact unpadded. Qed.

(* ---- importing a JWK and exporting it returns the members that were given:
   the JWK view is {**d, **parameters, "kty": key_type} *)
Theorem c11_jwk_id : forall O kt d ps k,
  import_key O kt d ps = Ok k ->
  as_dict k None [] = Ok (init_data kt d ps) /\
  dget (init_data kt d ps) (K "kty") = Some (PStr (asc (kt_name kt))) /\
  (forall m v, dget ps m = Some v -> keys_unique (dkeys ps) = true -> m <> K "kty" ->
               dget (init_data kt d ps) m = Some v) /\
  (forall m, dmem ps m = false -> m <> K "kty" -> dget (init_data kt d ps) m = dget d m).
Proof. exact jwk_id. Qed.

(* without extra parameters and with the right "kty": exactly the dict given, same order *)
Theorem c11_jwk_id_exact : forall O kt d k,
  import_key O kt d [] = Ok k -> dget d (K "kty") = Some (PStr (asc (kt_name kt))) ->
  as_dict k None [] = Ok d.
Proof. exact jwk_id_exact. Qed.

Theorem c11_registry_dispatch : forall O d ps,
  (dget d (K "kty") = None -> registry_import O d None ps = Err (EJose MissingKeyTypeError)) /\
  (forall s, dget d (K "kty") = Some (PStr s) -> str_mem s (map asc key_types) = false ->
             registry_import O d None ps = Err (EJose InvalidKeyTypeError)) /\
  (forall kt, dget d (K "kty") = Some (PStr (asc (kt_name kt))) ->
              registry_import O d None ps = import_key O kt d ps).
Proof.
  intros O d ps. split; [exact (registry_missing_kty O d ps)|].
  split; [exact (registry_unknown_kty O d ps) | exact (registry_known_kty O d ps)].
Qed.

(* ---- the dict is validated as given AND after it was completed with the
   parameters ({**d, **parameters, "kty": key_type}): a JWK that is only
   invalid in combination with the parameters is refused *)
Theorem c11_import_validates_merged_dict : forall O kt d ps,
  (forall k, import_key O kt d ps = Ok k ->
     validate_dict_key kt d = Ok tt /\ validate_dict_key kt (init_data kt d ps) = Ok tt) /\
  (validate_dict_key kt (init_data kt d ps) <> Ok tt -> forall k, import_key O kt d ps <> Ok k) /\
  (validate_dict_key kt d <> Ok tt -> forall k, import_key O kt d ps <> Ok k).
Proof. exact import_validates_merged. Qed.

Example c11_merged_instance :
  (exists k, import_key O_yes KOct (ex_oct [(K "use", PStr (asc "sig"))]) [(K "key_ops", PList [PStr (asc "sign")])] = Ok k) /\
  import_key O_yes KOct (ex_oct [(K "use", PStr (asc "sig"))]) [(K "key_ops", PList [PStr (asc "decrypt")])] = Err EValue /\
  import_key O_yes KOct (ex_oct []) [(K "kid", PInt 0)] = Err EValue /\
  (exists k, import_key O_yes KOct (ex_oct [(K "kid", PStr []); (K "key_ops", PList []); (K "x5c", PList [])]) [] = Ok k) /\
  import_key O_yes KOct (ex_oct [(K "kid", PList [])]) [] = Err EValue.
Proof. exact merged_instance. Qed.

(* ---- export views: as_dict is a function of the key's own dict and of the
   private flags of ITS OWN key type (table: oct k; RSA d p q dp dq qi oth;
   EC d; OKP d); the public view drops exactly those members *)
Theorem c11_export_stateless : forall (k : key) ps,
  as_dict k None ps = Ok (dupdate (k_dict k) ps) /\
  (is_private (k_native k) = true -> as_dict k (Some true) ps = Ok (dupdate (k_dict k) ps)) /\
  (is_private (k_native k) = false -> as_dict k (Some true) ps = Err EValue) /\
  (exists pub, as_dict k (Some false) [] = Ok pub /\
     forall m, dget pub m = if str_mem m (map asc (private_names (k_type k))) then None else dget (k_dict k) m).
Proof. exact export_views. Qed.

Theorem c11_private_names :
  private_names KOct = ["k"]%string /\
  private_names KRSA = ["d"; "p"; "q"; "dp"; "dq"; "qi"; "oth"]%string /\
  private_names KEC = ["d"]%string /\ private_names KOKP = ["d"]%string.
Proof. exact private_names_ok. Qed.

(* ---- what every accepted JWK satisfies (Spec written independently of the
   validators: [dict_key_spec], [import_spec] in proofs/C11Proofs.v):
   required members present, registered members well-typed ([kind_spec]),
   use / key_ops consistent (EVERY listed operation belongs to the use), and
   [import_spec]: values decode, "d" present => RSA CRT members all-or-none and
   "oth" absent, no "d" => no CRT member and no "oth", OKP "x" = public key of
   "d", the native constructor accepted the numbers (point on the
   curve, consistent RSA numbers, right OKP length).  Holds for the dict given
   AND for the dict completed with the parameters. *)
Theorem c11_reject : forall O kt d ps k,
  import_key O kt d ps = Ok k ->
  dict_key_spec kt d /\ dict_key_spec kt (init_data kt d ps) /\ import_spec O kt d (k_native k).
Proof. exact reject. Qed.

(* full characterisation: a JWK is accepted exactly when the Spec holds, and
   the key then carries the completed dict *)
Theorem c11_import_iff : forall O kt d ps k,
  import_key O kt d ps = Ok k <->
  dict_key_spec kt d /\ dict_key_spec kt (init_data kt d ps) /\ import_spec O kt d (k_native k) /\
  k_dict k = init_data kt d ps /\ k_type k = kt.
Proof. exact import_iff. Qed.

(* the dict-level validation is exactly the Spec *)
Theorem c11_validate_iff : forall kt d, validate_dict_key kt d = Ok tt <-> dict_key_spec kt d.
Proof. exact validate_dict_key_spec. Qed.

Theorem c11_validator_iff : forall k v, validate_kind k v = Ok tt <-> kind_spec k v.
Proof. exact validate_kind_spec. Qed.

(* converse direction, error classes where explicit *)
Theorem c11_refused :
  (forall O kt d ps p, In p (jwk_parameter_registry ++ value_registry kt) -> kp_required p = true ->
     dmem d (K (kp_name p)) = false -> forall k, import_key O kt d ps <> Ok k) /\
  (forall O kt d ps p v, In p (jwk_parameter_registry ++ value_registry kt) ->
     dget d (K (kp_name p)) = Some v -> ~ kind_spec (kp_kind p) v ->
     forall k, import_key O kt d ps <> Ok k) /\
  (forall O d ps, has d "d" = true -> ~ crt_all d -> ~ crt_none d ->
     forall k, import_key O KRSA d ps <> Ok k) /\
  (forall O kt d ps s l ops op,
     dget d (K "use") = Some (PStr s) -> assoc_str use_key_ops_registry s = Some l ->
     dget d (K "key_ops") = Some (PList ops) -> In op ops -> ~ choice_str l op ->
     forall k, import_key O kt d ps <> Ok k).
Proof.
  split; [exact missing_required_refused|]. split; [exact ill_typed_refused|].
  split; [exact partial_crt_refused | exact contradictory_use_ops_refused].
Qed.

Example c11_import_instance :
  (exists k, import_key O_yes KEC ex_ec [(K "kid", PStr (asc "1"))] = Ok k /\
             as_dict k None [] = Ok (ex_ec ++ [(K "kid", PStr (asc "1"))])) /\
  (exists k, registry_import O_yes ex_ec None [] = Ok k /\ as_dict k None [] = Ok ex_ec) /\
  import_key O_yes KEC (ex_ec ++ [(K "x5u", PStr (asc "ftp://x"))]) [] = Err EValue /\
  import_key O_yes KEC (dset ex_ec (K "key_ops") (PList [PStr (asc "sign"); PStr (asc "decrypt")])) [] = Err EValue.
Proof. exact import_instance. Qed.

(* ---- every value member that is present decodes; RSA CRT members are
   all-or-none in EVERY accepted RSA JWK; a private RSA parameter without "d"
   is refused; the "x" of an OKP private JWK decodes and is the public key of
   "d" (these two were violated before /repo a02d1ea and a8ff773) *)
Theorem c11_values_decode : forall O kt d ps k,
  import_key O kt d ps = Ok k ->
  forall m, In m (match kt with
                  | KOct => ["k"] | KRSA => ["n"; "e"; "d"; "p"; "q"; "dp"; "dq"; "qi"]
                  | KEC => ["x"; "y"; "d"] | KOKP => ["x"; "d"] end)%string ->
  has d m = true ->
  match kt with KOct | KOKP => exists o, dec_oct d m = Ok o | _ => exists z, dec_int d m = Ok z end.
Proof. exact values_decode. Qed.

Theorem c11_crt_all_or_none : forall O d ps k,
  import_key O KRSA d ps = Ok k -> crt_all d \/ crt_none d.
Proof. exact crt_all_or_none. Qed.

Theorem c11_rsa_private_member_needs_d : forall O d ps c,
  has d "d" = false -> In c private_without_d -> has d c = true ->
  forall k, import_key O KRSA d ps <> Ok k.
Proof. exact rsa_private_member_without_d_refused. Qed.

Theorem c11_okp_x_checked : forall O d ps k,
  import_key O KOKP d ps = Ok k -> has d "d" = true ->
  exists crv dd x, k_native k = NOkpPrv crv x dd /\ dec_oct d "x" = Ok x /\
                   dec_oct d "d" = Ok dd /\ o_okp_prv O crv dd = Ok x.
Proof. exact okp_x_checked. Qed.

(* the JWKs that were accepted before those fixes are refused *)
Example c11_old_witnesses_refused :
  has ex_rsa_pub_with_p "d" = false /\ has ex_rsa_pub_with_p "p" = true /\
  has ex_rsa_pub_with_p "q" = false /\
  import_key O_yes KRSA ex_rsa_pub_with_p [] = Err EValue /\
  has ex_okp_bad_x "d" = true /\ dec_oct ex_okp_bad_x "x" = Err EValue /\
  import_key O_yes KOKP ex_okp_bad_x [] = Err EValue /\
  import_key O_yes KOKP (dset ex_okp_bad_x (K "x") (PStr (asc "nWGxne_9WmC6hEr0kuwsxERJxWl7MmkZcDusAxyuf2Q"))) [] = Err EValue /\
  (exists k, import_key O_yes KOKP (dset ex_okp_bad_x (K "x") (PStr (asc "nWGxne_9WmC6hEr0kuwsxERJxWl7MmkZcDusAxyuf2A"))) [] = Ok k).
Proof. exact old_witnesses_refused. Qed.

Theorem c11_use_key_ops_typed : forall O kt d ps k,
  import_key O kt d ps = Ok k ->
  (forall u, dget d (K "use") = Some u -> choice_str ["sig"; "enc"]%string u) /\
  (forall o, dget d (K "key_ops") = Some o ->
     exists l, o = PList l /\ Forall (choice_str key_op_names) l).
Proof. exact use_key_ops_typed. Qed.

(* "key_ops" must be an array of operation names and "use" one string (they
   were accepted in the other shape before /repo 7fefb53; c11_validator_iff with
   VChoiceStr / VChoiceList is the general statement) *)
Example c11_choices_retype_refused :
  import_key O_yes KOct (ex_oct [(K "key_ops", PStr (asc "sign"))]) [] = Err EValue /\
  import_key O_yes KOct (ex_oct [(K "use", PList [PStr (asc "sig")])]) [] = Err EValue /\
  (exists k, import_key O_yes KOct (ex_oct [(K "use", PStr (asc "sig")); (K "key_ops", PList [PStr (asc "sign")])]) [] = Ok k) /\
  import_key O_yes KOct (ex_oct [(K "use", PStr (asc "sig")); (K "key_ops", PStr (asc "sign"))]) [] = Err EValue /\
  import_key O_yes KOct (ex_oct [(K "use", PList [PStr (asc "sig")]); (K "key_ops", PList [PStr (asc "sign")])]) [] = Err EValue.
Proof. exact choices_retype_witness. Qed.

Print Assumptions c11_tables.
Print Assumptions c11_ec_fixed_len.
Print Assumptions c11_ec_fixed_overflow.
Print Assumptions c11_ec_export_import.
Print Assumptions c11_ec_public_export.
Print Assumptions c11_rsa_minimal.
Print Assumptions c11_rsa_export_import.
Print Assumptions c11_rsa_public_export.
Print Assumptions c11_okp_oct_rt.
Print Assumptions c11_okp_public_export.
Print Assumptions c11_unpadded.
Print Assumptions c11_jwk_id.
Print Assumptions c11_jwk_id_exact.
Print Assumptions c11_registry_dispatch.
Print Assumptions c11_import_validates_merged_dict.
Print Assumptions c11_export_stateless.
Print Assumptions c11_private_names.
Print Assumptions c11_reject.
Print Assumptions c11_import_iff.
Print Assumptions c11_validate_iff.
Print Assumptions c11_validator_iff.
Print Assumptions c11_refused.
Print Assumptions c11_values_decode.
Print Assumptions c11_crt_all_or_none.
Print Assumptions c11_rsa_private_member_needs_d.
Print Assumptions c11_okp_x_checked.
Print Assumptions c11_use_key_ops_typed.
