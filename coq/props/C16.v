(* C16 — untrusted tokens are rejected only with JoseError or ValueError.
   Only statements here; proofs live in proofs/C16Proofs.v and proofs/C16Refuted.v.

   Subject: the Impl model of the consume front-ends (model/C16Model.v) over the
   dynamic universe [pv]; JSON parsing, crypto, key import and zlib are the record
   [prims] constrained by the exception contract [prims_ok] (which classes a
   primitive may raise for which arguments).  [safe m] = m returns or raises a
   class with [allowed_exn] (JoseError subclass or ValueError).

   Every theorem is for ALL inputs: all octet strings and all str for the compact
   entry points ([cinput]); all [pv] satisfying the boolean [*_documented_shape]
   for the JSON serializations; all keys / key sets; all well-formed registries
   (header registry without custom validators, validating "alg" (and "enc") as a
   required str as JWS_HEADER_REGISTRY / JWE_HEADER_REGISTRY do); all worlds of
   primitives satisfying the contract.  [needs_* g] names the guards (fix01..fix12)
   the statement depends on; [all_guards] is the code of /repo with them, and the
   harness checks on every run that the probed flags of /repo ([repo_guards],
   gen/TablesC16.v) satisfy every [needs_*]. *)
From Coq Require Import String List ZArith NArith Bool.
From Model Require Import Base PyVal TableTypes B64 C16Model.
From Gen Require Import Tables.
From Proofs Require Import C16Proofs C16Refuted.
Import ListNotations.
Open Scope N_scope.

(* jws.deserialize_compact *)
Theorem c16_jws_deserialize_compact :
  forall P g reg ka v, prims_ok P -> g_kid_repr g = true -> needs_jws_compact g = true -> jws_reg_wf reg = true ->
    match jws_deserialize_compact g P reg ka v with Err e => allowed_exn e = true | Ok _ => True end.
Proof. exact jws_deserialize_compact_ok. Qed.

(* jws.extract_compact followed by jws.validate_compact (the two public steps used separately).  Token inputs
   of type bytearray / memoryview reach the same bytes through to_bytes (bytes(x)): they are [CBytes]. *)
Theorem c16_jws_extract_then_validate :
  forall P g reg ka value, prims_ok P -> g_kid_repr g = true -> needs_jws_compact g = true -> jws_reg_wf reg = true ->
    match jws_extract_compact g P value with
    | Ok o => match jws_validate g P reg ka true (cs_protected o) (cs_hseg o ++ 46 :: cs_pseg o) (cs_sseg o) with
              | Err e => allowed_exn e = true | Ok _ => True end
    | Err e => allowed_exn e = true
    end.
Proof. exact jws_extract_then_validate_ok. Qed.

(* jwt.decode with a JWS registry *)
Theorem c16_jwt_decode_jws :
  forall P g reg ka v, prims_ok P -> g_kid_repr g = true -> needs_jws_compact g = true -> g_rec_claims g = true -> jws_reg_wf reg = true ->
    match jwt_decode_jws g P reg ka v with Err e => allowed_exn e = true | Ok _ => True end.
Proof. exact jwt_decode_jws_ok. Qed.

(* rfc7797.deserialize_compact (reg0: the caller's / default registry, reg7: the b64-aware one) *)
Theorem c16_rfc7797_deserialize_compact :
  forall P g reg0 reg7 ka v, prims_ok P -> g_kid_repr g = true -> needs_7797_compact g = true ->
    jws_reg_wf reg0 = true -> jws_reg_wf reg7 = true ->
    match r7797_deserialize_compact g P reg0 reg7 ka v with Err e => allowed_exn e = true | Ok _ => True end.
Proof. exact r7797_deserialize_compact_ok. Qed.

(* jws.deserialize_json, general and flattened *)
Theorem c16_jws_deserialize_json :
  forall P g reg ka value, prims_ok P -> g_kid_repr g = true -> needs_jws_json g = true -> jws_reg_wf reg = true ->
    jws_documented_shape value = true ->
    match jws_deserialize_json g P reg ka value with Err e => allowed_exn e = true | Ok _ => True end.
Proof. exact jws_deserialize_json_ok. Qed.

(* rfc7797.deserialize_json *)
Theorem c16_rfc7797_deserialize_json :
  forall P g reg0 reg7 ka value, prims_ok P -> g_kid_repr g = true -> needs_7797_json g = true ->
    jws_reg_wf reg0 = true -> jws_reg_wf reg7 = true -> jws_documented_shape value = true ->
    match r7797_deserialize_json g P reg0 reg7 ka value with Err e => allowed_exn e = true | Ok _ => True end.
Proof. exact r7797_deserialize_json_ok. Qed.

(* jwe.decrypt_compact *)
(* jwe.decrypt_compact ; ka: Key / KeySet / str / other / callable ; sa: no sender key, a Key or a KeySet ;
   reg: with or without the draft algorithms (ECDH-1PU, C20P, XC20P) registered *)
Theorem c16_jwe_decrypt_compact :
  forall P g reg ka sa v, prims_ok P -> g_kid_repr g = true -> needs_jwe_compact g = true -> jwe_reg_wf2 reg = true ->
    match jwe_decrypt_compact g P reg ka sa v with Err e => allowed_exn e = true | Ok _ => True end.
Proof. exact jwe_decrypt_compact_ok. Qed.

(* jwt.decode with a JWE registry *)
Theorem c16_jwt_decode_jwe :
  forall P g reg ka v, prims_ok P -> g_kid_repr g = true -> needs_jwe_compact g = true -> g_rec_claims g = true -> jwe_reg_wf2 reg = true ->
    match jwt_decode_jwe g P reg ka v with Err e => allowed_exn e = true | Ok _ => True end.
Proof. exact jwt_decode_jwe_ok. Qed.

(* jwe.decrypt_json, general and flattened *)
Theorem c16_jwe_decrypt_json :
  forall P g reg ka sa data, prims_ok P -> g_kid_repr g = true -> needs_jwe_json g = true -> jwe_reg_wf2 reg = true ->
    jwe_documented_shape data = true ->
    match jwe_decrypt_json g P reg ka sa data with Err e => allowed_exn e = true | Ok _ => True end.
Proof. exact jwe_decrypt_json_ok. Qed.

(* non-vacuity of the hypotheses: the code with all guards meets every [needs_*]; the registries
   of the library (gen/Tables.v) are well-formed; a world satisfying the contract exists; the
   shapes are inhabited (next to the refutations below) *)
Example c16_all_guards_suffice :
  needs_jws_compact all_guards = true /\ needs_7797_compact all_guards = true /\
  needs_jws_json all_guards = true /\ needs_7797_json all_guards = true /\
  needs_jwe_compact all_guards = true /\ needs_jwe_json all_guards = true /\
  g_rec_claims all_guards = true /\ g_kid_repr all_guards = true.
Proof. exact all_guards_suffice. Qed.

Example c16_default_registries_wf :
  jws_reg_wf default_jws_reg = true /\ jws_reg_wf default_7797_reg = true /\ jwe_reg_wf2 default_jwe_reg = true.
Proof. exact default_regs_wf. Qed.

Example c16_contract_inhabited : forall v, prims_ok (W v).
Proof. exact W_ok. Qed.

(* table facts the JWE theorems rest on: every registered key-management algorithm belongs to a
   modelled family and registers its extra header parameters with the expected validators
   (epk: jwk, required; apu/apv: str; p2s: str, p2c: int, required; iv/tag: str, required) *)
Theorem c16_jwe_alg_table_modelled :
  forallb row_ok jwe_alg_table = true /\ forallb row_ok jwe_alg_table_drafts = true.
Proof. exact jwe_table_ok. Qed.

(* the witnesses of the removed defects are rejected with an allowed class by the guarded code *)
Example c16_witnesses_rejected_when_guarded : forallb (fun b => b) witnesses_fixed = true.
Proof. exact witnesses_fixed_ok. Qed.

(* ------------------------------------------------------------------ *)
(* refutations: without guard i the model escapes (minimal witnesses of  *)
(* the defects removed from /repo by fix01..fix12)                       *)
(* ------------------------------------------------------------------ *)
Theorem c16_header_not_object_jws_compact_refuted :
  is_err (jws_deserialize_compact (all_but 0) (W (T "alg")) default_jws_reg (AKey k_oct) (tok "ImFsZyI.e30.e30")) EType = true.
Proof. exact r00_header_not_object_jws_compact. Qed.
Theorem c16_header_not_object_jwe_compact_refuted :
  is_err (jwe_decrypt_compact (all_but 1) (W (T "algenc")) default_jwe_reg (AKey k_oct) SNone (tok "ImFsZ2VuYyI....")) EType = true.
Proof. exact r01_header_not_object_jwe_compact. Qed.
Theorem c16_header_not_object_jws_json_refuted :
  jws_documented_shape flat_jws = true /\
  is_err (jws_deserialize_json (all_but 2) (W (PInt 1)) default_jws_reg (AKey k_oct) flat_jws) EType = true.
Proof. exact r02_header_not_object_jws_json. Qed.
Theorem c16_header_not_object_7797_json_refuted :
  is_err (r7797_deserialize_json (all_but 3) (W (PInt 1)) default_jws_reg default_7797_reg (AKey k_oct) flat_jws) EType = true.
Proof. exact r03_header_not_object_7797_json. Qed.
Theorem c16_header_not_object_jwe_json_refuted :
  jwe_documented_shape flat_jwe = true /\
  is_err (jwe_decrypt_json (all_but 4) (W (PInt 1)) default_jwe_reg (AKeySet [k_oct]) SNone flat_jwe) EType = true.
Proof. exact r04_header_not_object_jwe_json. Qed.
Theorem c16_crit_not_iterable_refuted :
  is_err (jws_deserialize_compact (all_but 5) (W (D [("alg", T "HS256"); ("crit", PInt 0)]%string)) default_jws_reg
            (AKey k_oct) (tok "e30.e30.e30")) EType = true.
Proof. exact r05_crit_not_iterable. Qed.
Theorem c16_enc_missing_refuted :
  is_err (jwe_decrypt_json (all_but 6) (W (D [])) default_jwe_reg (AKey k_oct) SNone flat_jwe) EKey = true.
Proof. exact r06_enc_missing. Qed.
Theorem c16_enc_unhashable_refuted :
  is_err (jwe_decrypt_compact (all_but 7) (W (D [("alg", T "dir"); ("enc", PList [])]%string)) default_jwe_reg
            (AKey k_oct) SNone (tok "e30..AAAAAAAAAAAAAAAA..")) EType = true.
Proof. exact r07_enc_unhashable. Qed.
Theorem c16_jws_get_alg_unhashable_refuted :
  is_err (jws_get_alg (all_but 8) default_jws_reg (PList [])) EType = true.
Proof. exact r08_jws_get_alg_unhashable. Qed.
Theorem c16_epk_unknown_ec_curve_refuted :
  is_err (jwe_decrypt_compact (all_but 9) (W (ecdh_header (epk_ec "P-999" []))) default_jwe_reg (AKey k_ec) SNone
            (tok "e30..AAAAAAAAAAAAAAAA..")) EKey = true.
Proof. exact r09_epk_unknown_ec_curve. Qed.
Theorem c16_epk_unknown_okp_curve_refuted :
  is_err (jwe_decrypt_compact (all_but 10)
            (W (ecdh_header (D [("kty", T "OKP"); ("crv", T "X999"); ("x", T "AA")]%string))) default_jwe_reg (AKey k_x25519) SNone
            (tok "e30..AAAAAAAAAAAAAAAA..")) EKey = true.
Proof. exact r10_epk_unknown_okp_curve. Qed.
Theorem c16_p2c_negative_refuted :
  is_err (jwe_decrypt_compact (all_but 11)
            (W (D [("alg", T "PBES2-HS256+A128KW"); ("enc", T "A128GCM"); ("p2s", T "AA"); ("p2c", PInt (-1)%Z)]%string))
            jwe_all (AKey k_oct) SNone (tok "e30..AAAAAAAAAAAAAAAA..")) EOverflow = true.
Proof. exact r11_p2c_negative. Qed.
Theorem c16_corrupt_deflate_refuted :
  is_err (jwe_decrypt_compact (all_but 12) (W (D [("alg", T "dir"); ("enc", T "A128GCM"); ("zip", T "DEF")]%string))
            default_jwe_reg (AKey k_oct) SNone (tok "e30..AAAAAAAAAAAAAAAA..")) EZlib = true.
Proof. exact r12_corrupt_deflate. Qed.
Theorem c16_eddsa_with_x25519_refuted :
  is_err (jws_deserialize_compact (all_but 13) (W (D [("alg", T "EdDSA")]%string)) jws_all (AKey k_x25519)
            (tok "e30.e30.e30")) EAssert = true.
Proof. exact r13_eddsa_with_x25519. Qed.
Theorem c16_rfc7797_wrong_key_kind_refuted :
  is_err (r7797_deserialize_compact (all_but 14)
            (W (D [("alg", T "HS256"); ("b64", PBool false); ("crit", PList [T "b64"])]%string))
            default_jws_reg default_7797_reg (AKey k_rsa) (tok "e30.e30.e30")) EType = true.
Proof. exact r14_rfc7797_wrong_key_kind. Qed.
Theorem c16_missing_encrypted_key_refuted :
  is_err (jwe_decrypt_json (all_but 15) (W (D [("alg", T "A128KW"); ("enc", T "A128GCM")]%string)) default_jwe_reg
            (AKey k_oct) SNone flat_jwe) EAssert = true.
Proof. exact r15_missing_encrypted_key. Qed.
Theorem c16_header_recursion_refuted :
  is_err (jws_deserialize_compact (all_but 16) Wrec default_jws_reg (AKey k_oct) (tok "e30.e30.e30")) ERuntime = true.
Proof. exact r16_header_recursion. Qed.
Theorem c16_claims_recursion_refuted :
  is_err (jwt_decode_jws (all_but 17) (wprims jclaims) default_jws_reg (AKey k_oct) (tok "e30.W10.e30")) ERuntime = true.
Proof. exact r17_claims_recursion. Qed.
(* function level: the "use" validator (VChoiceStr) now refuses a list before
   validate_dict_key_use_operations is reached through import_key *)
Theorem c16_use_list_refuted :
  is_err (validate_use_ops (all_but 18) (D [("use", PList []); ("key_ops", PList [])]%string)) EType = true /\
  is_err (validate_use_ops all_guards (D [("use", PList []); ("key_ops", PList [])]%string)) EValue = true.
Proof. exact r18_use_list. Qed.

(* round 2: ECDH-1PU and sender keys *)
Theorem c16_1pu_without_sender_refuted :
  is_err (jwe_decrypt_compact (all_but 19) (W pu_header) jwe_all (AKey k_ec) SNone (tok "e30..AAAAAAAAAAAAAAAA..")) EAssert = true /\
  is_err (jwt_decode_jwe (all_but 19) (W pu_header) jwe_all (AKey k_ec) (tok "e30..AAAAAAAAAAAAAAAA..")) EAssert = true.
Proof. exact r19_1pu_without_sender. Qed.
Theorem c16_1pu_rsa_sender_refuted :
  is_err (jwe_decrypt_compact (all_but 20) (W pu_header_skid) jwe_all (AKey k_ec) (SSet [k_ec; k_rsa_kid])
            (tok "e30..AAAAAAAAAAAAAAAA..")) EAttr = true.
Proof. exact r20_1pu_rsa_sender. Qed.
(* partial: the model has no RSA / oct key import; without the guard it leaves its fragment (the real
   witness, AttributeError, is in harness/props/c16.meta.json), with it InvalidKeyTypeError *)
Theorem c16_1pu_rsa_recipient_partial :
  is_err (jwe_decrypt_compact (all_but 21) (W pu_header) jwe_all (AKey k_rsa) (SKey k_ec)
            (tok "e30..AAAAAAAAAAAAAAAA..")) EOracleMiss = true /\
  is_err (jwe_decrypt_compact all_guards (W pu_header) jwe_all (AKey k_rsa) (SKey k_ec)
            (tok "e30..AAAAAAAAAAAAAAAA..")) (EJose InvalidKeyTypeError) = true.
Proof. exact r21_1pu_rsa_recipient. Qed.

(* a kid nested deeper than repr can follow, with a key set (JWE JSON: the key is selected before the
   header is validated) *)
Theorem c16_deep_kid_refuted :
  jwe_documented_shape flat_jwe_deep_kid = true /\
  is_err (jwe_decrypt_json (all_but 22) (W (D [("alg", T "dir"); ("enc", T "A128GCM")]%string)) default_jwe_reg
            (AKeySet [k_oct; k_ec]) SNone flat_jwe_deep_kid) ERuntime = true /\
  is_err (jwe_decrypt_json all_guards (W (D [("alg", T "dir"); ("enc", T "A128GCM")]%string)) default_jwe_reg
            (AKeySet [k_oct; k_ec]) SNone flat_jwe_deep_kid) (EJose InvalidKeyIdError) = true.
Proof. exact r22_deep_kid. Qed.

(* the PKCS7 unpadding of the CBC-HS encs is part of the model (not of the enc.decrypt oracle): it returns
   or raises ValueError for EVERY octet string, including the empty one and lengths that are not a multiple
   of the block size *)
Theorem c16_pkcs7_unpad_total :
  forall data, (exists x, pkcs7_unpad data = Ok x) \/ pkcs7_unpad data = Err EValue.
Proof. exact pkcs7_unpad_total. Qed.
Example c16_pkcs7_unpad_examples :
  pkcs7_unpad [1;2;3;4;5;6;7;8;9;10;11;12;13;3;3;3] = Ok [1;2;3;4;5;6;7;8;9;10;11;12;13] /\
  pkcs7_unpad (repeat 16 16) = Ok [] /\ pkcs7_unpad (repeat 0 16) = Err EValue /\ pkcs7_unpad (repeat 17 16) = Err EValue /\
  pkcs7_unpad [1;2;3;4;5;6;7;8;9;10;11;12;13;3;2;3] = Err EValue /\ pkcs7_unpad [1] = Err EValue.
Proof. exact pkcs7_unpad_example. Qed.

(* callable keys and non-key objects: what guess_key does *)
Example c16_callable_keys :
  guess_key all_guards (ACall (AKey k_oct)) (Ok (PDict [])) = Ok k_oct /\
  guess_key all_guards (ACall (AText k_oct)) (Ok (PDict [])) = Ok k_oct /\
  guess_key all_guards (ACall AOther) (Ok (PDict [])) = Err EValue /\
  guess_key all_guards (ACall (ACall (AKey k_oct))) (Ok (PDict [])) = Err EValue /\
  guess_key all_guards AOther (Ok (PDict [])) = Err EValue /\
  guess_key all_guards (ACall (AKeySet [])) (Ok (PDict [])) = Err (EJose InvalidKeyIdError).
Proof. exact callable_keys. Qed.

(* every guard is necessary: for each of the guards, the model with all guards except that one admits an
   input on which it raises a class outside {JoseError, ValueError} (the i-th entry of escape_witnesses,
   proofs/C16Refuted.v, is that input evaluated) *)
Theorem c16_guards_are_necessary :
  length escape_witnesses = length (guards_list all_guards) /\
  forall i, (i < length (guards_list all_guards))%nat -> nth i escape_witnesses false = true.
Proof. exact guards_are_necessary. Qed.

(* the exception classes each primitive's contract allows (contract_classes, proofs/C16Refuted.v:
   json.loads: ValueError, RecursionError; alg.verify: ValueError, UnsupportedKeyOperationError;
   enc.decrypt: ValueError, DecodeError; zlib: zlib.error, ExceededSizeError; rsa.decrypt: DecodeError;
   aes_key_unwrap: DecodeError, ValueError; gcm.unwrap: ValueError, DecodeError; pbkdf2 / import_epk /
   ecdh / concat_kdf: ValueError).  A world that stays within the table satisfies prims_ok; the harness
   checks every class it observes at a primitive of /repo against this table (case CContract). *)
Theorem c16_contract_classes : forall P, prims_in_classes P -> prims_ok P.
Proof. exact contract_classes_ok. Qed.

Print Assumptions c16_jws_deserialize_compact.
Print Assumptions c16_jwt_decode_jws.
Print Assumptions c16_rfc7797_deserialize_compact.
Print Assumptions c16_jws_deserialize_json.
Print Assumptions c16_rfc7797_deserialize_json.
Print Assumptions c16_jwe_decrypt_compact.
Print Assumptions c16_jwt_decode_jwe.
Print Assumptions c16_jwe_decrypt_json.
Print Assumptions c16_all_guards_suffice.
Print Assumptions c16_default_registries_wf.
Print Assumptions c16_contract_inhabited.
Print Assumptions c16_jwe_alg_table_modelled.
Print Assumptions c16_witnesses_rejected_when_guarded.
Print Assumptions c16_header_not_object_jws_compact_refuted.
Print Assumptions c16_header_not_object_jwe_compact_refuted.
Print Assumptions c16_header_not_object_jws_json_refuted.
Print Assumptions c16_header_not_object_7797_json_refuted.
Print Assumptions c16_header_not_object_jwe_json_refuted.
Print Assumptions c16_crit_not_iterable_refuted.
Print Assumptions c16_enc_missing_refuted.
Print Assumptions c16_enc_unhashable_refuted.
Print Assumptions c16_jws_get_alg_unhashable_refuted.
Print Assumptions c16_epk_unknown_ec_curve_refuted.
Print Assumptions c16_epk_unknown_okp_curve_refuted.
Print Assumptions c16_p2c_negative_refuted.
Print Assumptions c16_corrupt_deflate_refuted.
Print Assumptions c16_eddsa_with_x25519_refuted.
Print Assumptions c16_rfc7797_wrong_key_kind_refuted.
Print Assumptions c16_missing_encrypted_key_refuted.
Print Assumptions c16_header_recursion_refuted.
Print Assumptions c16_claims_recursion_refuted.
Print Assumptions c16_use_list_refuted.
Print Assumptions c16_1pu_without_sender_refuted.
Print Assumptions c16_1pu_rsa_sender_refuted.
Print Assumptions c16_1pu_rsa_recipient_partial.
Print Assumptions c16_callable_keys.
Print Assumptions c16_guards_are_necessary.
Print Assumptions c16_contract_classes.
Print Assumptions c16_deep_kid_refuted.
Print Assumptions c16_pkcs7_unpad_total.
Print Assumptions c16_pkcs7_unpad_examples.
Print Assumptions c16_jws_extract_then_validate.
