(* C07 — JWS octets on the wire are those of RFC 7515/7518/8037/8812/7797.
   Only statements; proofs in proofs/C07Proofs.v.  Spec: model/C07Spec.v,
   written from the RFC texts.  Impl: model/Jws.v; algorithm parameters:
   Gen.Tables.jws_alg_table, regenerated from the real algorithm objects
   (hash class, padding object incl. MGF and salt length, curve) on every run. *)
From Model Require Import Jws C07Spec.
From Gen Require Import Tables.
From Proofs Require Import B64Proofs IntCodecProofs JwsProofs C01Proofs C03Proofs C07Proofs.
Open Scope N_scope.

(* per-algorithm parameters: hash, PKCS1v15 / PSS with MGF1 of the same hash and
   salt = hash length, curve, key type — the table extracted from /repo equals the
   table written from the RFCs (by computation) *)
Theorem c07_alg_params : map row_view jws_alg_table = map impl_view spec_table.
Proof. exact alg_params. Qed.

(* L of every ECDSA algorithm = ceil(bits / 8) of its curve in the curve table of /repo *)
Theorem c07_alg_curve_len : curve_len_ok = true.
Proof. exact alg_curve_len. Qed.

Section C07.
  Variable json_loads : bytes -> res pv.
  Variable json_dumps : pv -> bytes.
  Variable mac : string -> N -> bytes -> res bytes.
  Variable pk_sign : jws_alg_row -> N -> bytes -> res bytes.
  Variable pk_verify : jws_alg_row -> N -> bytes -> bytes -> res bool.
  Variable ec_sign : jws_alg_row -> N -> bytes -> res (Z * Z).
  Variable ec_verify : jws_alg_row -> N -> bytes -> Z -> Z -> res bool.

  Theorem c07_sign_is_spec : forall h payload r k tok,
    sign_compact json_dumps mac pk_sign ec_sign h payload r k = Ok tok ->
    exists sig, alg_sign mac pk_sign ec_sign r k (spec_signing_input (json_dumps (PDict h)) payload true) = Ok sig /\
                tok = spec_signing_input (json_dumps (PDict h)) payload true ++ 46 :: b64e sig.
  Proof. exact (sign_is_spec json_dumps mac pk_sign ec_sign). Qed.

  Theorem c07_ec_sig_is_spec : forall r k msg sig rr ss,
    fam_of r = FEc -> (0 < ec_len k)%nat ->
    ec_sign r (k_id k) msg = Ok (rr, ss) ->
    (0 <= rr)%Z -> (0 <= ss)%Z ->
    Z.to_N rr < 256 ^ N.of_nat (ec_len k) -> Z.to_N ss < 256 ^ N.of_nat (ec_len k) ->
    alg_sign mac pk_sign ec_sign r k msg = Ok sig ->
    sig = spec_ecdsa_sig (Z.to_N rr) (Z.to_N ss) (ec_len k).
  Proof. exact (ec_sig_is_spec mac pk_sign ec_sign). Qed.

  Theorem c07_hmac_raw_key : forall r k msg,
    fam_of r = FHmac -> check_key_op k "sign" = Ok tt -> mistyped FHmac k = None ->
    alg_sign mac pk_sign ec_sign r k msg = mac (ja_hash r) (k_id k) msg.
  Proof. exact (hmac_raw_key mac pk_sign ec_sign). Qed.

  (* the soundness direction on the Impl's own verdict (Impl accepts => the signature verifies
     over the Spec signing input of exactly the received header OCTETS and payload, whatever
     the JSON spelling of the header: json_loads is the only link); in Spec terms and with the
     converse: c07_verify_is_spec_sound / c07_verify_is_spec_complete below *)
  Theorem c07_verify_is_spec_partial : forall hdr payload sseg src algs o,
    bytes_ok hdr = true -> bytes_ok payload = true -> no_dot sseg = true ->
    deserialize_compact json_loads mac pk_verify ec_verify
      (b64e hdr ++ 46 :: b64e payload ++ 46 :: sseg) src algs = Ok o ->
    json_loads hdr = Ok (co_protected o) /\ co_payload o = payload /\
    verified mac pk_verify ec_verify (reg15 algs) src (co_protected o)
             (spec_signing_input hdr payload true) sseg.
  Proof. exact (verify_is_spec_sound json_loads mac pk_verify ec_verify). Qed.
End C07.

(* ---- "accepts exactly the tokens the Spec accepts" ----
   Spec: C07Spec.spec_sig_ok / spec_verify_compact (RFC 7515 5.2 with the RFC 7518 /
   8037 / 8812 algorithms on the Spec's own primitives (the S_ variables).  The Impl's primitives are
   the Spec's for equal parameters (link_pk, link_ec: same name, key type, family, hash,
   curve, padding => same function; the parameter tables are equal by c07_alg_params). *)
Section C07Spec.
  Variable json_loads : bytes -> res pv.
  Variable mac : string -> N -> bytes -> res bytes.
  Variable pk_verify : jws_alg_row -> N -> bytes -> bytes -> res bool.
  Variable ec_verify : jws_alg_row -> N -> bytes -> Z -> Z -> res bool.
  Variable S_pk_verify : spec_alg -> N -> bytes -> bytes -> res bool.
  Variable S_ec_verify : spec_alg -> N -> bytes -> Z -> Z -> res bool.
  Hypothesis link_pk : forall r a kid m s, row_view r = impl_view a -> pk_verify r kid m s = S_pk_verify a kid m s.
  Hypothesis link_ec : forall r a kid m x y, row_view r = impl_view a -> ec_verify r kid m x y = S_ec_verify a kid m x y.

  (* signature level, both directions *)
  Theorem c07_sig_spec_impl : forall r a k msg sig,
    row_view r = impl_view a ->
    spec_sig_ok mac S_pk_verify S_ec_verify a (k_id k) (k_kty k) (k_crv k) msg sig ->
    check_key_op k "verify" = Ok tt ->
    (sa_kind a = KEcdsa -> (k_bits k + 7) / 8 = sa_L a) ->
    fam_kty_ok r = true ->
    alg_verify mac pk_verify ec_verify r k msg sig = Ok true.
  Proof. intros r a k msg sig; eapply spec_sig_impl; eassumption. Qed.

  Theorem c07_sig_impl_spec : forall r a k msg sig,
    row_view r = impl_view a -> fam_kty_ok r = true ->
    (sa_kind a = KEcdsa -> k_crv k = sa_curve a -> (k_bits k + 7) / 8 = sa_L a /\ 0 < sa_L a) ->
    alg_verify mac pk_verify ec_verify r k msg sig = Ok true ->
    spec_sig_ok mac S_pk_verify S_ec_verify a (k_id k) (k_kty k) (k_crv k) msg sig.
  Proof. intros r a k msg sig; eapply impl_sig_spec; eassumption. Qed.

  (* completeness, compact: Spec accepts /\ header ok /\ key resolves => Impl accepts and
     returns the same header and payload — for EVERY header octet string (any spelling) *)
  Theorem c07_verify_is_spec_complete : forall hdr h payload sseg sig src algs r a k,
    bytes_ok hdr = true -> bytes_ok payload = true -> no_dot sseg = true ->
    json_loads hdr = Ok (PDict h) -> check_header (reg15 algs) (PDict h) = Ok tt ->
    (exists algv, dget h s_alg = Some algv /\ get_alg (reg15 algs) algv = Ok r) ->
    row_view r = impl_view a ->
    guess_key src (PDict h) = Ok k -> check_use k = Ok tt -> check_key_op k "verify" = Ok tt ->
    (sa_kind a = KEcdsa -> (k_bits k + 7) / 8 = sa_L a) ->
    b64d sseg = Ok sig ->
    spec_verify_compact mac S_pk_verify S_ec_verify a (k_id k) (k_kty k) (k_crv k) hdr payload sig ->
    exists o, deserialize_compact json_loads mac pk_verify ec_verify
                (b64e hdr ++ 46 :: b64e payload ++ 46 :: sseg) src algs = Ok o /\
              co_protected o = PDict h /\ co_payload o = payload.
  Proof. intros hdr h payload sseg sig src algs r a k; eapply verify_is_spec_complete; eassumption. Qed.

  (* completeness, flattened JSON with a protected header and an optional unprotected one *)
  Theorem c07_verify_flat_is_spec_complete : forall hdr h uh payload sseg sig src algs r a k,
    bytes_ok hdr = true -> bytes_ok payload = true ->
    json_loads hdr = Ok (PDict h) ->
    let m := {| m_protected := Some (PDict h); m_header := uh |} in
    forall headers, member_headers m = Ok headers ->
    check_header (reg15 algs) (PDict headers) = Ok tt ->
    (exists algv, dget headers s_alg = Some algv /\ get_alg (reg15 algs) algv = Ok r) ->
    row_view r = impl_view a ->
    guess_key src (PDict headers) = Ok k -> check_use k = Ok tt -> check_key_op k "verify" = Ok tt ->
    (sa_kind a = KEcdsa -> (k_bits k + 7) / 8 = sa_L a) ->
    b64d sseg = Ok sig ->
    spec_verify_compact mac S_pk_verify S_ec_verify a (k_id k) (k_kty k) (k_crv k) hdr payload sig ->
    exists o, deserialize_json json_loads mac pk_verify ec_verify
                (JFlat (Some (b64e payload))
                   {| js_protected := Some (b64e hdr); js_header := uh; js_signature := Some sseg |}) src algs = Ok o /\
              jo_members o = [m] /\ jo_payload o = payload.
  Proof. intros hdr h uh payload sseg sig src algs r a k; eapply verify_flat_is_spec_complete; eassumption. Qed.

  (* soundness in Spec terms, compact: an accepted JWS is one the Spec accepts *)
  Theorem c07_verify_is_spec_sound : forall hdr payload sseg src algs o,
    bytes_ok hdr = true -> bytes_ok payload = true -> no_dot sseg = true ->
    (forall k a, In a spec_table -> sa_kind a = KEcdsa -> k_crv k = sa_curve a ->
                 (k_bits k + 7) / 8 = sa_L a /\ 0 < sa_L a) ->
    deserialize_compact json_loads mac pk_verify ec_verify
      (b64e hdr ++ 46 :: b64e payload ++ 46 :: sseg) src algs = Ok o ->
    json_loads hdr = Ok (co_protected o) /\ co_payload o = payload /\
    exists a k sig, In a spec_table /\ guess_key src (co_protected o) = Ok k /\ b64d sseg = Ok sig /\
      py_getitem_str (co_protected o) s_alg = Ok (PStr (asc (sa_name a))) /\
      spec_verify_compact mac S_pk_verify S_ec_verify a (k_id k) (k_kty k) (k_crv k) hdr payload sig.
  Proof. intros hdr payload sseg src algs o; eapply verify_is_spec_sound_spec; eassumption. Qed.
End C07Spec.

(* every row of the table of /repo has its Spec row (and vice versa the tables are equal) *)
Theorem c07_row_has_spec : forall r, In r jws_alg_table -> exists a, In a spec_table /\ row_view r = impl_view a.
Proof. exact row_has_spec. Qed.

(* the fixed-width integer codec is I2OSP (reused from C19) *)
Theorem c07_encode_int_is_I2OSP : forall z bits,
  let L := N.to_nat ((bits + 7) / 8) in
  (0 < L)%nat -> (0 <= z)%Z -> Z.to_N z < 256 ^ N.of_nat L ->
  encode_int z bits = Ok (I2OSP (Z.to_N z) L).
Proof. exact encode_int_is_I2OSP_pos. Qed.

Example c07_spec_signing_input_A1 :
  (* RFC 7515 A.1: header {"typ":"JWT",\r\n "alg":"HS256"} begins eyJ0eXAiOiJKV1Qi *)
  firstn 16 (spec_signing_input (asc "{""typ"":""JWT""") (asc "x") true) = asc "eyJ0eXAiOiJKV1Qi".
Proof. vm_compute. reflexivity. Qed.

Print Assumptions c07_alg_params.
Print Assumptions c07_alg_curve_len.
Print Assumptions c07_sign_is_spec.
Print Assumptions c07_ec_sig_is_spec.
Print Assumptions c07_hmac_raw_key.
Print Assumptions c07_verify_is_spec_partial.
Print Assumptions c07_encode_int_is_I2OSP.
Print Assumptions c07_sig_spec_impl.
Print Assumptions c07_sig_impl_spec.
Print Assumptions c07_verify_is_spec_complete.
Print Assumptions c07_verify_flat_is_spec_complete.
Print Assumptions c07_verify_is_spec_sound.
Print Assumptions c07_row_has_spec.
