(* C07 — JWS octets on the wire are those of RFC 7515/7518/8037/8812/7797.
   Only statements; proofs in proofs/C07Proofs.v.  Spec: model/C07Spec.v,
   written from the RFC texts.  Impl: model/Jws.v; algorithm parameters:
   Gen.Tables.jws_alg_table, regenerated from the real algorithm objects
   (hash class, padding object incl. MGF and salt length, curve) on every run. *)
From Model Require Import Jws C07Spec.
From Gen Require Import Tables.
From Proofs Require Import B64Proofs IntCodecProofs JwsProofs C01Proofs C03Proofs C07Proofs.
Open Scope N_scope.

(* per-algorithm parameters: hash, PKCS1v15 / PSS with MGF1 of the same hash and
   salt = hash length, curve, key type — the table extracted from /repo equals the
   table written from the RFCs (by computation) *)
Theorem c07_alg_params : map row_view jws_alg_table = map impl_view spec_table.
Proof. exact alg_params. Qed.

(* L of every ECDSA algorithm = ceil(bits / 8) of its curve in the curve table of /repo *)
Theorem c07_alg_curve_len : curve_len_ok = true.
Proof. exact alg_curve_len. Qed.

Section C07.
  Variable json_loads : bytes -> res pv.
  Variable json_dumps : pv -> bytes.
  Variable mac : string -> N -> bytes -> res bytes.
  Variable pk_sign : jws_alg_row -> N -> bytes -> res bytes.
  Variable pk_verify : jws_alg_row -> N -> bytes -> bytes -> res bool.
  Variable ec_sign : jws_alg_row -> N -> bytes -> res (Z * Z).
  Variable ec_verify : jws_alg_row -> N -> bytes -> Z -> Z -> res bool.

  Theorem c07_sign_is_spec : forall h payload r k tok,
    sign_compact json_dumps mac pk_sign ec_sign h payload r k = Ok tok ->
    exists sig, alg_sign mac pk_sign ec_sign r k (spec_signing_input (json_dumps (PDict h)) payload true) = Ok sig /\
                tok = spec_signing_input (json_dumps (PDict h)) payload true ++ 46 :: b64e sig.
  Proof. exact (sign_is_spec json_dumps mac pk_sign ec_sign). Qed.

  Theorem c07_ec_sig_is_spec : forall r k msg sig rr ss,
    fam_of r = FEc -> (0 < ec_len k)%nat ->
    ec_sign r (k_id k) msg = Ok (rr, ss) ->
    (0 <= rr)%Z -> (0 <= ss)%Z ->
    Z.to_N rr < 256 ^ N.of_nat (ec_len k) -> Z.to_N ss < 256 ^ N.of_nat (ec_len k) ->
    alg_sign mac pk_sign ec_sign r k msg = Ok sig ->
    sig = spec_ecdsa_sig (Z.to_N rr) (Z.to_N ss) (ec_len k).
  Proof. exact (ec_sig_is_spec mac pk_sign ec_sign). Qed.

  Theorem c07_hmac_raw_key : forall r k msg,
    fam_of r = FHmac -> check_key_op k "sign" = Ok tt -> mistyped FHmac k = None ->
    alg_sign mac pk_sign ec_sign r k msg = mac (ja_hash r) (k_id k) msg.
  Proof. exact (hmac_raw_key mac pk_sign ec_sign). Qed.

  (* PARTIAL: the soundness direction (Impl accepts => the signature verifies over the Spec
     signing input of exactly the received header OCTETS and payload, whatever the JSON
     spelling of the header: json_loads is the only link).  The converse (Spec accepts =>
     Impl accepts) additionally depends on header validation (C15) and key resolution and
     is covered by the differential run against the reference implementation. *)
  Theorem c07_verify_is_spec_partial : forall hdr payload sseg src algs o,
    bytes_ok hdr = true -> bytes_ok payload = true -> no_dot sseg = true ->
    deserialize_compact json_loads mac pk_verify ec_verify
      (b64e hdr ++ 46 :: b64e payload ++ 46 :: sseg) src algs = Ok o ->
    json_loads hdr = Ok (co_protected o) /\ co_payload o = payload /\
    verified mac pk_verify ec_verify (reg15 algs) src (co_protected o)
             (spec_signing_input hdr payload true) sseg.
  Proof. exact (verify_is_spec_sound json_loads mac pk_verify ec_verify). Qed.
End C07.

(* the fixed-width integer codec is I2OSP (reused from C19) *)
Theorem c07_encode_int_is_I2OSP : forall z bits,
  let L := N.to_nat ((bits + 7) / 8) in
  (0 < L)%nat -> (0 <= z)%Z -> Z.to_N z < 256 ^ N.of_nat L ->
  encode_int z bits = Ok (I2OSP (Z.to_N z) L).
Proof. exact encode_int_is_I2OSP_pos. Qed.

Example c07_spec_signing_input_A1 :
  (* RFC 7515 A.1: header {"typ":"JWT",\r\n "alg":"HS256"} begins eyJ0eXAiOiJKV1Qi *)
  firstn 16 (spec_signing_input (asc "{""typ"":""JWT""") (asc "x") true) = asc "eyJ0eXAiOiJKV1Qi".
Proof. vm_compute. reflexivity. Qed.

Print Assumptions c07_alg_params.
Print Assumptions c07_alg_curve_len.
Print Assumptions c07_sign_is_spec.
Print Assumptions c07_ec_sig_is_spec.
Print Assumptions c07_hmac_raw_key.
Print Assumptions c07_verify_is_spec_partial.
Print Assumptions c07_encode_int_is_I2OSP.
