(* C18 — every encryption and key generation draws fresh randomness of the
   right size.  Only statements here; proofs live in proofs/C18Proofs.v.

   Subject: the draw-discipline model model/C18Model.v of perform_encrypt /
   pre_encrypt_recipients / prepare_ephemeral_key / AESGCMAlgModel.encrypt_cek /
   PBES2HSAlgModel.encrypt_cek / generate_cek / generate_iv and of
   OctKey / RSAKey / ECKey / OKPKey .generate_key, driven by the algorithm
   tables of gen/Tables.v.  A [draw] is one call of secrets.token_bytes (or of a
   native key generator); its index is the value of the world's draw counter.
   What is proved is the DISCIPLINE (which draws, which sizes, where they end
   up, never twice the same index); the quality of the generator is a premise
   (c18_values_distinct: "injective on indices"), not a theorem. *)
From Coq Require Import Lia.
From Model Require Import Base TableTypes C18Model.
From Gen Require Import Tables.
From Proofs Require Import C18Proofs.
Open Scope string_scope.
Open Scope list_scope.
Open Scope N_scope.

(* ---- every computation of the model advances the counter by one per draw:
        the indices of the draws of one encryption are w, w+1, ..., w'-1 *)
Theorem c18_discipline : forall algs encs m w,
  let r := encrypt algs encs m w in
  map d_idx (o_draws r) = nseq (w_ctr w) (length (o_draws r)) /\
  w_ctr (o_world r) = w_ctr w + N.of_nat (length (o_draws r)).
Proof. exact disc_encrypt. Qed.

(* ---- the complete draw sequence of a successful encryption is exactly what the
        token is made of, in this order: per recipient (epk, [CEK at the first
        recipient], GCM-KW iv / PBES2 salt), then the IV.  Nothing else is drawn,
        nothing drawn is dropped. *)
Theorem c18_layout : forall algs encs m w tok ds w',
  encrypt algs encs m w = mkout (Ok tok) ds w' ->
  exists e, find_enc encs (m_enc m) = Some e /\
    (0 < ee_cek_size e / 8 ->
     ds = layout tok /\
     d_site (t_iv tok) = SIv /\ d_size (t_iv tok) = ee_iv_size e / 8 /\
     Forall2 (recip_spec algs) (m_recips m) (t_recips tok) /\
     m_recips m <> [] /\
     cek_spec algs e m (t_cek tok)).
Proof. exact encrypt_ok. Qed.

(* ---- IV: exactly one draw of iv_size/8 octets, it is the last draw of the call,
        its index is the counter value at that moment (>= every index used
        before the call), and the token's IV is that draw *)
Theorem c18_iv : forall algs encs m w tok ds w',
  encrypt algs encs m w = mkout (Ok tok) ds w' ->
  exists e, find_enc encs (m_enc m) = Some e /\
    (8 <= ee_cek_size e ->
     d_site (t_iv tok) = SIv /\ d_size (t_iv tok) = ee_iv_size e / 8 /\
     exists pre, ds = pre ++ [t_iv tok] /\ filter is_iv pre = [] /\
       d_idx (t_iv tok) = w_ctr w + N.of_nat (length pre) /\
       w_ctr w' = d_idx (t_iv tok) + 1).
Proof. exact encrypt_iv. Qed.

(* ---- per category: the draws of each call site are exactly the values emitted
        in the token, in recipient order (so: one GCM-KW iv per A*GCMKW recipient,
        one salt per PBES2 recipient without "p2s", one generated key per
        agreement recipient without pre-set ephemeral key, one CEK or none) *)
Theorem c18_categories : forall algs encs m w tok ds w',
  encrypt algs encs m w = mkout (Ok tok) ds w' ->
  exists e, find_enc encs (m_enc m) = Some e /\
    (8 <= ee_cek_size e ->
     filter is_native ds = flat_map epk_draws (t_recips tok) /\
     filter is_gcmiv ds = flat_map gcm_draws (t_recips tok) /\
     filter is_p2s ds = flat_map p2s_draws (t_recips tok) /\
     filter is_cek ds = cek_draws (t_cek tok) /\
     filter is_iv ds = [t_iv tok]).
Proof. exact encrypt_filters. Qed.

(* ---- CEK: in non-direct modes one draw of cek_size/8 octets per MESSAGE (the
        token has one CEK, shared by all recipients, all of them non-direct);
        in direct modes no CEK draw and a single recipient.  [cek_spec] (with
        c18_categories: filter is_cek ds = cek_draws (t_cek tok)) *)
Theorem c18_cek : forall algs encs m w tok ds w',
  encrypt algs encs m w = mkout (Ok tok) ds w' ->
  exists e, find_enc encs (m_enc m) = Some e /\
    (8 <= ee_cek_size e ->
     filter is_cek ds = cek_draws (t_cek tok) /\
     match t_cek tok with
     | CekDrawn d =>
         d_site d = SCek /\ d_size d = ee_cek_size e / 8 /\
         Forall (fun r => exists a, find_alg algs (r_alg r) = Some a /\ ea_direct a = false) (m_recips m)
     | CekKey | CekAgreed =>
         exists r a, m_recips m = [r] /\ find_alg algs (r_alg r) = Some a /\ ea_direct a = true
     | CekNone => False
     end).
Proof.
  intros algs encs m w tok ds w' H.
  destruct (encrypt_filters _ _ _ _ _ _ _ H) as (e & He & HF).
  destruct (encrypt_ok _ _ _ _ _ _ _ H) as (e' & He' & HO).
  rewrite He in He'. inversion He'; subst e'.
  exists e. split; [exact He|]. intro H8.
  split; [exact (proj1 (proj2 (proj2 (proj2 (HF H8)))))|].
  assert (Hpos : 0 < ee_cek_size e / 8) by (apply N.div_str_pos; lia).
  exact (proj2 (proj2 (proj2 (proj2 (proj2 (HO Hpos)))))).
Qed.

(* ---- per recipient: what its header members are made of ([view_spec]):
        epk     = a key generated on the RECIPIENT KEY's curve, unless pre-set;
        iv      = a 12-octet draw for A*GCMKW;
        p2s     = a 16-octet draw when the header had none;
        p2c     = the header's value, else the table's DEFAULT_P2C *)
Theorem c18_epk : forall a r v, view_spec a r v ->
  match v_epk v with
  | None => is_agreement a = false
  | Some EpkPreset => is_agreement a = true /\ caller_preset r <> None
  | Some (EpkDrawn d) => is_agreement a = true /\ caller_preset r = None
                         /\ Some (d_site d) = curve_site (r_key r)
  end.
Proof. intros a r v H. exact (proj1 H). Qed.

Theorem c18_gcmkw_iv : forall a r v, view_spec a r v ->
  match v_gcm_iv v with
  | Some d => fam a "AESGCMKW" = true /\ ea_direct a = false
              /\ d_site d = SGcmIv /\ d_size d = 12
  | None => fam a "AESGCMKW" = false \/ ea_direct a = true
  end.
Proof. intros a r v H. exact (proj1 (proj2 H)). Qed.

Theorem c18_pbes2 : forall a r v, view_spec a r v ->
  match v_p2s v with
  | Some d => fam a "PBES2" = true /\ ea_direct a = false /\ r_has_p2s r = false
              /\ d_site d = SP2s /\ d_size d = 16
  | None => fam a "PBES2" = false \/ ea_direct a = true \/ r_has_p2s r = true
  end /\
  match v_p2c v with
  | Some c => fam a "PBES2" = true /\ ea_direct a = false
              /\ c = match r_p2c r with Some x => x | None => ea_p2c a end
              /\ (1 <=? c) && (c <=? 2147483647) = true      (* compute_derived_key refuses any other count *)
  | None => fam a "PBES2" = false \/ ea_direct a = true
  end.
Proof. intros a r v H. exact (proj2 (proj2 H)). Qed.

(* ---- table facts (vm_compute against gen/Tables.v; expected literals from the
        property text / RFC 7518 sections 5.2, 5.3, 4.7, 4.8 and the ChaCha draft) *)
Definition enc_sizes (t : list jwe_enc_row) := map (fun e => (ee_name e, ee_iv_size e, ee_cek_size e)) t.

Theorem c18_sizes_table :
  enc_sizes jwe_enc_table =
    [("A128CBC-HS256", 128, 256); ("A192CBC-HS384", 128, 384); ("A256CBC-HS512", 128, 512);
     ("A128GCM", 96, 128); ("A192GCM", 96, 192); ("A256GCM", 96, 256)] /\
  enc_sizes jwe_enc_table_drafts =
    [("A128CBC-HS256", 128, 256); ("A192CBC-HS384", 128, 384); ("A256CBC-HS512", 128, 512);
     ("A128GCM", 96, 128); ("A192GCM", 96, 192); ("A256GCM", 96, 256);
     ("C20P", 96, 256); ("XC20P", 192, 256)].
Proof. split; vm_compute; reflexivity. Qed.

(* every iv/cek size is a whole number of octets, so size/8 octets = size bits *)
Theorem c18_sizes_whole_octets :
  forallb (fun e => (ee_iv_size e mod 8 =? 0) && (ee_cek_size e mod 8 =? 0) && (8 <=? ee_cek_size e)
                    && (8 <=? ee_iv_size e)) jwe_enc_table_drafts = true.
Proof. vm_compute. reflexivity. Qed.

Definition pbes2_ok (a : jwe_alg_row) : bool := negb (fam a "PBES2") || (1000 <=? ea_p2c a).
Theorem c18_p2c_table :
  forallb pbes2_ok jwe_alg_table = true /\ forallb pbes2_ok jwe_alg_table_drafts = true /\
  map ea_name (filter (fun a => fam a "PBES2") jwe_alg_table_drafts) =
    ["PBES2-HS256+A128KW"; "PBES2-HS384+A192KW"; "PBES2-HS512+A256KW"] /\
  8 <= pbes2_salt_octets /\ gcmkw_iv_octets * 8 = 96.
Proof. repeat split; vm_compute; try reflexivity; discriminate. Qed.

(* the algorithms that draw per-recipient values are never direct, the agreement
   family is what carries "epk", and the modes are the RFC 7518 ones *)
Theorem c18_modes_table :
  map (fun a => (ea_name a, ea_direct a, is_agreement a)) jwe_alg_table_drafts =
    [("RSA1_5", false, false); ("RSA-OAEP", false, false); ("RSA-OAEP-256", false, false);
     ("A128KW", false, false); ("A192KW", false, false); ("A256KW", false, false);
     ("dir", true, false);
     ("ECDH-ES", true, true); ("ECDH-ES+A128KW", false, true); ("ECDH-ES+A192KW", false, true);
     ("ECDH-ES+A256KW", false, true);
     ("A128GCMKW", false, false); ("A192GCMKW", false, false); ("A256GCMKW", false, false);
     ("PBES2-HS256+A128KW", false, false); ("PBES2-HS384+A192KW", false, false);
     ("PBES2-HS512+A256KW", false, false);
     ("ECDH-1PU", true, true); ("ECDH-1PU+A128KW", false, true); ("ECDH-1PU+A192KW", false, true);
     ("ECDH-1PU+A256KW", false, true)].
Proof. vm_compute. reflexivity. Qed.

Theorem c18_curves_table :
  map (fun c => (cv_name c, cv_bits c)) ec_curves =
    [("P-256", 256); ("P-384", 384); ("P-521", 521); ("secp256k1", 256)] /\
  map (fun c => fst (fst c)) okp_curves = ["Ed25519"; "Ed448"; "X25519"; "X448"].
Proof. split; vm_compute; reflexivity. Qed.

(* ---- key generation: characterisation of success, size / curve of the draw *)
Theorem c18_keygen_oct : forall bits private w,
  gen_oct bits private w =
  if private && (bits mod 8 =? 0)%Z && (0 <=? bits)%Z
  then let d := {| d_site := SOct; d_size := Z.to_N (bits / 8); d_idx := w_ctr w |} in
       mkout (Ok d) [d] {| w_ctr := w_ctr w + 1 |}
  else mkout (Err EValue) [] w.
Proof. exact gen_oct_char. Qed.

Theorem c18_keygen_rsa : forall native_min bits w,
  gen_rsa native_min bits w =
  if (512 <=? bits)%Z && (bits mod 8 =? 0)%Z
  then let d := {| d_site := SRSA (Z.to_N bits); d_size := Z.to_N bits; d_idx := w_ctr w |} in
       mkout (if Z.to_N bits <? native_min then Err EValue else Ok d) [d] {| w_ctr := w_ctr w + 1 |}
  else mkout (Err EValue) [] w.
Proof. exact gen_rsa_char. Qed.

Theorem c18_keygen_ec : forall crv w,
  gen_ec crv w =
  match find (fun r => String.eqb (cv_name r) crv) ec_curves with
  | Some r => let d := {| d_site := SEC crv; d_size := cv_bits r; d_idx := w_ctr w |} in
              mkout (Ok d) [d] {| w_ctr := w_ctr w + 1 |}
  | None => mkout (Err EValue) [] w
  end.
Proof. exact gen_ec_char. Qed.

Theorem c18_keygen_okp : forall crv w,
  gen_okp crv w =
  if existsb (fun r => String.eqb (fst (fst r)) crv) okp_curves
  then let d := {| d_site := SOKP crv; d_size := 0; d_idx := w_ctr w |} in
       mkout (Ok d) [d] {| w_ctr := w_ctr w + 1 |}
  else mkout (Err EValue) [] w.
Proof. exact gen_okp_char. Qed.

(* ---- key sets: KeySet.generate_key_set(count = k) is k successive generate_key calls; the keys
        of the set are exactly the k draws of the call, in order, at the consecutive indices
        w, ..., w+k-1 (hence pairwise distinct indices), each made as a single
        JWKRegistry.generate_key call makes it; a failure is the failure of one such call *)
Theorem c18_key_set_k_draws : forall native_min g private k w keys ds w',
  gen_key_set native_min g private k w = mkout (Ok keys) ds w' ->
  ds = keys /\ length keys = k /\
  map d_idx keys = nseq (w_ctr w) k /\ w_ctr w' = w_ctr w + N.of_nat k /\
  Forall (fun d => exists w0 w1, gen_one native_min g private w0 = mkout (Ok d) [d] w1) keys.
Proof. exact gen_key_set_run. Qed.

Theorem c18_key_set_failure : forall native_min g private k w e ds w',
  gen_key_set native_min g private k w = mkout (Err e) ds w' ->
  exists w0 ds0 w1, gen_one native_min g private w0 = mkout (Err e) ds0 w1.
Proof. exact gen_key_set_err. Qed.

Example c18_ex_key_set :
  let r := gen_key_set 1024 (GEC "P-256") false 4 {| w_ctr := 10 |} in
  map (fun d => (d_site d, d_size d, d_idx d)) (o_draws r) =
    [(SEC "P-256", 256, 10); (SEC "P-256", 256, 11); (SEC "P-256", 256, 12); (SEC "P-256", 256, 13)]
  /\ o_res r = Ok (o_draws r)
  /\ o_res (gen_key_set 1024 (GOct 128) false 2 {| w_ctr := 0 |}) = Err EValue
  /\ o_res (gen_key_set 1024 GBadType true 1 {| w_ctr := 0 |}) = Err (EJose InvalidKeyTypeError)
  /\ o_res (gen_key_set 1024 GBadType true 0 {| w_ctr := 0 |}) = Ok [].
Proof. vm_compute. repeat split; reflexivity. Qed.

(* ---- histories: for EVERY sequence of encrypt / generate calls (any mode, any
        number of recipients, failing calls included) over tables whose CEK sizes
        are at least one octet: the draws are numbered consecutively from the
        initial counter, the indices behind all emitted values (IVs, CEKs, salts,
        GCM-KW IVs, ephemeral keys, generated keys) are pairwise distinct, and
        every emitted value is one of the draws *)
Theorem c18_history_distinct_gen : forall algs encs native_min h w,
  encs_ok encs ->
  let '(em, ds, w') := run_history algs encs native_min h w in
  map d_idx ds = nseq (w_ctr w) (length ds)
  /\ w_ctr w' = w_ctr w + N.of_nat (length ds)
  /\ NoDup (map d_idx em)
  /\ (forall x, In x (map d_idx em) -> In x (map d_idx ds)).
Proof. intros algs encs nm h w H. exact (history_good algs encs nm h w H). Qed.

(* ... instantiated with the tables of the code (standard and with the drafts) *)
Theorem c18_history_distinct : forall native_min h w,
  (let '(em, ds, w') := run_history jwe_alg_table jwe_enc_table native_min h w in
   NoDup (map d_idx em) /\ NoDup (map d_idx ds)) /\
  (let '(em, ds, w') := run_history jwe_alg_table_drafts jwe_enc_table_drafts native_min h w in
   NoDup (map d_idx em) /\ NoDup (map d_idx ds)).
Proof.
  intros nm h w. split.
  - assert (Hok : encs_ok jwe_enc_table) by (apply encs_ok_of_forallb; vm_compute; reflexivity).
    pose proof (history_good jwe_alg_table jwe_enc_table nm h w Hok) as H.
    destruct (run_history jwe_alg_table jwe_enc_table nm h w) as [[em ds] w'].
    destruct H as (H1 & _ & H3 & _). split; [exact H3|]. rewrite H1. apply nseq_nodup.
  - assert (Hok : encs_ok jwe_enc_table_drafts) by (apply encs_ok_of_forallb; vm_compute; reflexivity).
    pose proof (history_good jwe_alg_table_drafts jwe_enc_table_drafts nm h w Hok) as H.
    destruct (run_history jwe_alg_table_drafts jwe_enc_table_drafts nm h w) as [[em ds] w'].
    destruct H as (H1 & _ & H3 & _). split; [exact H3|]. rewrite H1. apply nseq_nodup.
Qed.

(* ... hence distinct VALUES under the stated premise on the generator: if the
   value function is injective on the indices of the emitted draws *)
Theorem c18_values_distinct : forall (A : Type) (value : draw -> A) (em : list draw),
  (forall a b, In a em -> In b em -> value a = value b -> d_idx a = d_idx b) ->
  NoDup (map d_idx em) -> NoDup (map value em).
Proof. intros A value em. exact (nodup_map_inj value em). Qed.

(* ---- non-vacuity: concrete runs through the real tables *)
Definition rc (alg : string) (k : keydesc) : recip :=
  {| r_alg := alg; r_key := k; r_has_p2s := false; r_p2c := None;
     r_preset_epk := None; r_epk_generated := false; r_sender := None |}.
Definition ex_msg : msg :=
  {| m_enc := "A128CBC-HS256";
     m_recips := [rc "ECDH-ES+A128KW" (KEC "P-384"); rc "A256GCMKW" (KOct 256);
                  rc "PBES2-HS256+A128KW" (KOct 80); rc "RSA-OAEP" (KRSA 2048)] |}.

(* ---- reused message objects: what a previous encryption or a decryption left in the
        object (iv / ciphertext / tag / encrypted key segments, previous token, plaintext)
        does not influence the draws, the emitted values or the outcome of the next
        encryption; only [jo_msg] does.  Hence c18_layout / c18_iv / c18_cek / c18_categories
        hold verbatim for the n-th encryption of a reused object: its IV, CEK and GCM-KW
        ivs are draws of THAT call.  (The "p2s"/"p2c" members written into a REUSED header
        object by the previous call are inputs of the next one, see [msg_after]; the ephemeral
        key generated by the previous call is flagged r_epk_generated and is not: see
        c18_epk_fresh_on_reuse.  The correspondence run derives [msg] from the object's state
        before each call.) *)
Theorem c18_object_state_irrelevant : forall algs encs new_segments (o1 o2 : jobject) w,
  jo_msg o1 = jo_msg o2 ->
  let r1 := encrypt_object algs encs new_segments o1 w in
  let r2 := encrypt_object algs encs new_segments o2 w in
  o_draws r1 = o_draws r2 /\ o_world r1 = o_world r2 /\
  match o_res r1, o_res r2 with
  | Ok (t1, _), Ok (t2, _) => t1 = t2
  | Err e1, Err e2 => e1 = e2
  | _, _ => False
  end.
Proof. exact encrypt_object_irrelevant. Qed.

Theorem c18_object_encrypt_is_fresh_encrypt : forall algs encs new_segments o w,
  let r := encrypt_object algs encs new_segments o w in
  let r0 := encrypt algs encs (jo_msg o) w in
  o_draws r = o_draws r0 /\ o_world r = o_world r0 /\
  match o_res r, o_res r0 with
  | Ok (t, _), Ok t0 => t = t0
  | Err e, Err e0 => e = e0
  | _, _ => False
  end.
Proof. exact encrypt_object_is_encrypt. Qed.

(* ---- ephemeral keys on reused objects: the message the next encryption of the same object
        sees ([msg_after]) has the same algorithms, keys and CALLER-preset ephemeral keys; and
        in that next encryption every agreement recipient without caller preset gets a key
        generated during THAT call (a draw of the second call, index in [w1, w2)), on the
        recipient key's curve.  Since the first part re-establishes the hypothesis, the same
        holds for the n-th encryption. *)
Theorem c18_epk_fresh_on_reuse : forall algs encs m w t1 ds1 w1 t2 ds2 w2,
  encrypt algs encs m w = mkout (Ok t1) ds1 w1 ->
  encrypt algs encs (msg_after m t1) w1 = mkout (Ok t2) ds2 w2 ->
  exists e, find_enc encs (m_enc m) = Some e /\
    (8 <= ee_cek_size e ->
     map caller_preset (m_recips (msg_after m t1)) = map caller_preset (m_recips m) /\
     map r_alg (m_recips (msg_after m t1)) = map r_alg (m_recips m) /\
     map r_key (m_recips (msg_after m t1)) = map r_key (m_recips m) /\
     Forall2 (fun r v => caller_preset r = None ->
                match v_epk v with
                | None => forall a, find_alg algs (r_alg r) = Some a -> is_agreement a = false
                | Some EpkPreset => False
                | Some (EpkDrawn d) => Some (d_site d) = curve_site (r_key r)
                                       /\ (In d ds2 /\ w_ctr w1 <= d_idx d < w_ctr w2)
                end) (m_recips (msg_after m t1)) (t_recips t2)).
Proof. exact epk_fresh_on_reuse. Qed.

(* re-encrypting the object of c18_ex_multi: a new ephemeral key, CEK, GCM-KW iv and IV are
   drawn; only the salt written into the (reused) header object by the first call is kept *)
Example c18_ex_reuse :
  let o := {| jo_msg := ex_msg; jo_segments := [("iv", [1;2;3])]; jo_plaintext := []; jo_prev := None |} in
  let r1 := encrypt_object jwe_alg_table jwe_enc_table (fun _ => [("iv", [9;9])]) o {| w_ctr := 0 |} in
  match o_res r1 with
  | Ok (t1, o') =>
      let r2 := encrypt_object jwe_alg_table jwe_enc_table (fun _ => []) o' (o_world r1) in
      map (fun d => (d_site d, d_idx d)) (o_draws r1) = [(SEC "P-384", 0); (SCek, 1); (SGcmIv, 2); (SP2s, 3); (SIv, 4)] /\
      map (fun d => (d_site d, d_idx d)) (o_draws r2) = [(SEC "P-384", 5); (SCek, 6); (SGcmIv, 7); (SIv, 8)] /\
      map caller_preset (m_recips (jo_msg o')) = [None; None; None; None] /\
      map r_epk_generated (m_recips (jo_msg o')) = [true; false; false; false] /\
      match o_res r2 with Ok (t2, _) => d_idx (t_iv t2) = 8 | Err _ => False end
  | Err _ => False
  end.
Proof. vm_compute. repeat split; reflexivity. Qed.

Example c18_ex_multi :
  let r := encrypt jwe_alg_table jwe_enc_table ex_msg {| w_ctr := 7 |} in
  map (fun d => (d_site d, d_size d, d_idx d)) (o_draws r) =
    [(SEC "P-384", 384, 7); (SCek, 32, 8); (SGcmIv, 12, 9); (SP2s, 16, 10); (SIv, 16, 11)]
  /\ match o_res r with
     | Ok t => o_draws r = layout t /\ d_idx (t_iv t) = 11
               /\ map v_p2c (t_recips t) = [None; None; Some 2048; None]
     | Err _ => False
     end.
Proof. vm_compute. repeat split; reflexivity. Qed.

Example c18_ex_direct :
  let r := encrypt jwe_alg_table jwe_enc_table
             {| m_enc := "A256GCM"; m_recips := [rc "ECDH-ES" (KOKP "X25519")] |} {| w_ctr := 0 |} in
  map (fun d => (d_site d, d_size d, d_idx d)) (o_draws r) = [(SOKP "X25519", 0, 0); (SIv, 12, 1)]
  /\ match o_res r with Ok t => t_cek t = CekAgreed | Err _ => False end.
Proof. vm_compute. split; reflexivity. Qed.

(* a pre-set ephemeral key suppresses the generation; a header "p2s" suppresses the salt *)
Example c18_ex_preset :
  let r1 := {| r_alg := "ECDH-ES+A256KW"; r_key := KEC "P-256"; r_has_p2s := false; r_p2c := None;
               r_preset_epk := Some (KEC "P-256"); r_epk_generated := false; r_sender := None |} in
  let r2 := {| r_alg := "PBES2-HS512+A256KW"; r_key := KOct 64; r_has_p2s := true; r_p2c := Some 5000;
               r_preset_epk := None; r_epk_generated := false; r_sender := None |} in
  let r := encrypt jwe_alg_table jwe_enc_table {| m_enc := "A128GCM"; m_recips := [r1; r2] |} {| w_ctr := 3 |} in
  map (fun d => (d_site d, d_size d, d_idx d)) (o_draws r) = [(SCek, 16, 3); (SIv, 12, 4)]
  /\ match o_res r with
     | Ok t => map v_p2c (t_recips t) = [None; Some 5000]
     | Err _ => False
     end.
Proof. vm_compute. split; reflexivity. Qed.

(* draws made before a failure stay made (the counter never goes back) *)
Example c18_ex_conflict :
  let r := encrypt jwe_alg_table jwe_enc_table
             {| m_enc := "A128GCM"; m_recips := [rc "A128KW" (KOct 128); rc "ECDH-ES" (KEC "P-256")] |}
             {| w_ctr := 0 |} in
  o_res r = Err (EJose ConflictAlgorithmError)
  /\ map d_site (o_draws r) = [SCek; SEC "P-256"] /\ w_ctr (o_world r) = 2.
Proof. vm_compute. repeat split; reflexivity. Qed.

Example c18_ex_history :
  let h := [CallEncrypt ex_msg; CallGenOct 256 true; CallGenOct 12 true; CallEncrypt ex_msg;
            CallGenEC "P-521"; CallGenOKP "Ed448"; CallGenRSA 2048; CallGenRSA 520; CallGenEC "P-999";
            CallGenSet (GOKP "X25519") true 3] in
  let '(em, ds, w') := run_history jwe_alg_table jwe_enc_table 1024 h {| w_ctr := 0 |} in
  map d_idx em = [4; 1; 0; 2; 3; 5; 10; 7; 6; 8; 9; 11; 12; 13; 15; 16; 17] /\ length ds = 18%nat /\ w_ctr w' = 18.
Proof. vm_compute. repeat split; reflexivity. Qed.

Example c18_ex_keygen :
  o_res (gen_oct 12 true {| w_ctr := 0 |}) = Err EValue /\
  o_res (gen_oct 256 false {| w_ctr := 0 |}) = Err EValue /\
  o_draws (gen_oct 256 true {| w_ctr := 5 |}) = [{| d_site := SOct; d_size := 32; d_idx := 5 |}] /\
  o_res (gen_rsa 1024 511 {| w_ctr := 0 |}) = Err EValue /\
  o_res (gen_rsa 1024 2052 {| w_ctr := 0 |}) = Err EValue /\
  o_draws (gen_rsa 1024 2048 {| w_ctr := 0 |}) = [{| d_site := SRSA 2048; d_size := 2048; d_idx := 0 |}].
Proof. vm_compute. repeat split; reflexivity. Qed.

Print Assumptions c18_discipline.
Print Assumptions c18_layout.
Print Assumptions c18_iv.
Print Assumptions c18_categories.
Print Assumptions c18_cek.
Print Assumptions c18_epk.
Print Assumptions c18_gcmkw_iv.
Print Assumptions c18_pbes2.
Print Assumptions c18_sizes_table.
Print Assumptions c18_sizes_whole_octets.
Print Assumptions c18_p2c_table.
Print Assumptions c18_modes_table.
Print Assumptions c18_curves_table.
Print Assumptions c18_keygen_oct.
Print Assumptions c18_keygen_rsa.
Print Assumptions c18_keygen_ec.
Print Assumptions c18_keygen_okp.
Print Assumptions c18_history_distinct_gen.
Print Assumptions c18_history_distinct.
Print Assumptions c18_values_distinct.
Print Assumptions c18_object_state_irrelevant.
Print Assumptions c18_object_encrypt_is_fresh_encrypt.
Print Assumptions c18_epk_fresh_on_reuse.
Print Assumptions c18_key_set_k_draws.
Print Assumptions c18_key_set_failure.
