(* ComposeJwe — composition layer, JWE side (START; proofs in proofs/ComposeJwe.v).
   The JWE pipeline model (model/Jwe*.v, subject of C02 / C04 / C08) takes the zip
   step and the header check as oracle fields o_inflate / o_check_header.  For
   every oracle record whose fields are the C17 / C15 models:
     - JWERegistry.get_zip of the pipeline model = C17's get_zip (names and allow-list
       translated from code points to Coq strings);
     - the zip step of _perform_decrypt is C17's decompress behind that gate;
     - every recipient _perform_decrypt got past satisfies C15's header_ok_jwe
       (consuming side: check_more = true).
   Not yet composed: C05 / C06 / C14 / C18 against the JWE pipeline (key resolution is
   outside model/JweMsg.v: "key resolution belongs to C06 / C14"), the encrypting side. *)
From Coq Require Import String List NArith Bool.
From Model Require Import Base PyVal TableTypes.
From Model Require Import JweMsg.
From Model Require C17Zip C15Registry C15Spec.
From Gen Require Import Tables.
From Proofs Require Import ComposeJwe.
Import ListNotations.
Open Scope N_scope.

Theorem compose_jwe_eq_get_zip : forall verify_all allowed n,
  runit (get_zip {| g_allowed := option_map (map asc) allowed; g_verify_all := verify_all |} (PStr (asc n)))
  = C17Zip.get_zip allowed n.
Proof. exact get_zip_eq. Qed.

Example compose_jwe_ex_get_zip :
  C17Zip.get_zip None "DEF" = Ok tt /\
  C17Zip.get_zip (Some ["A128GCM"%string]) "DEF" = Err (EJose UnsupportedAlgorithmError) /\
  runit (get_zip {| g_allowed := None; g_verify_all := false |} (PStr (asc "GZ"))) = Err (EJose UnsupportedAlgorithmError).
Proof. repeat split; vm_compute; reflexivity. Qed.

Section ComposeJwe.
  Variable O : oracles.
  Variable zdec : C17Zip.zoracle.
  Hypothesis inflate_is_c17 : forall x, o_inflate O x = C17Zip.decompress zdec x.

  Theorem compose_jwe_unzip_c17 : forall g prot m,
    unzip O g prot m =
    if dmem prot (s_ "zip") then do _ <- get_zip g (hget prot "zip"); C17Zip.decompress zdec m else Ok m.
  Proof. exact (unzip_c17 O zdec inflate_is_c17). Qed.

  Theorem compose_jwe_unzip_c17_named : forall verify_all allowed prot n m,
    dget prot (s_ "zip") = Some (PStr (asc n)) ->
    unzip O {| g_allowed := option_map (map asc) allowed; g_verify_all := verify_all |} prot m =
    match C17Zip.get_zip allowed n with
    | Ok _ => C17Zip.decompress zdec m
    | Err e => Err e
    end.
  Proof. exact (unzip_c17_named O zdec inflate_is_c17). Qed.

  Variable tbl : list jwe_alg_row.
  Variable recommended : list string.
  Variable allowed : option (list string).
  Variable reg : list hparam.
  Variable strict : bool.
  Hypothesis check_header_is_c15 : forall hs cm,
    o_check_header O (PDict hs) cm = C15Registry.jwe_check_header tbl recommended allowed reg strict hs cm.

  Theorem compose_c15_jwe_decrypt : forall g o m,
    perform_decrypt O g o = Ok m ->
    Forall (recipient_ok tbl recommended allowed reg strict o) (j_recips o).
  Proof. exact (perform_decrypt_checked O tbl recommended allowed reg strict check_header_is_c15). Qed.
End ComposeJwe.

Example compose_jwe_ex_zip_member : dget [(s_ "zip", PStr (asc "DEF"))] (s_ "zip") = Some (PStr (asc "DEF")).
Proof. reflexivity. Qed.

Print Assumptions compose_jwe_eq_get_zip.
Print Assumptions compose_jwe_unzip_c17.
Print Assumptions compose_jwe_unzip_c17_named.
Print Assumptions compose_c15_jwe_decrypt.
